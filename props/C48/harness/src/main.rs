//! C48 harness: the revision-spec tokenizer `gix_revision::spec::parse` with a recording delegate (op `tok`),
//! and resolution through `gix::Repository::rev_parse` against `git cat-file --batch-check` on generated
//! repositories (op `rp`).
//!
//! case:  tok <spec> <answers> (<nav> <date>)*     answers: ascii 0/1, the k-th delegate call returns None on 0
//!        rp  <repo> <spec> (<nav> <date>)* ; repo = "<id>,<kind>,<lenA>" : the spec is  A <op> B  with kind in
//!            s (single) x (^A) r (A..B) m (A...B) e (A^!) i (A^@) p<n> (A^-n); lenA = number of bytes of A
use gix_revision::spec::parse::{delegate, Delegate, Error as PErr};
use gixv_common::*;
use std::io::{BufRead, BufReader, Write};
use std::path::{Path, PathBuf};
use std::process::{Command, Stdio};

mod repo;

// ---------------------------------------------------------------------------------------------------
// recording delegate
struct Rec {
    out: String,
    answers: Vec<u8>,
    calls: usize,
    dates: Vec<String>,
}
impl Rec {
    fn new(answers: &[u8], dates: Vec<String>) -> Self {
        Rec { out: String::new(), answers: answers.to_vec(), calls: 0, dates }
    }
    fn call(&mut self, text: String) -> Option<()> {
        let a = self.answers.get(self.calls).map_or(true, |b| *b != b'0');
        self.calls += 1;
        self.out.push_str(&text);
        if !a {
            self.out.push('!');
        }
        self.out.push(';');
        a.then_some(())
    }
}
fn hx(b: &[u8]) -> String {
    hex(b)
}
impl delegate::Revision for Rec {
    fn find_ref(&mut self, name: &gix_object::bstr::BStr) -> Option<()> {
        self.call(format!("ref:{}", hx(name)))
    }
    fn disambiguate_prefix(&mut self, prefix: gix_hash::Prefix, hint: Option<delegate::PrefixHint<'_>>) -> Option<()> {
        let h = match hint {
            None => "-".to_string(),
            Some(delegate::PrefixHint::MustBeCommit) => "c".to_string(),
            Some(delegate::PrefixHint::DescribeAnchor { ref_name, generation }) => {
                format!("d:{}:{}", hx(ref_name), generation)
            }
        };
        self.call(format!("pfx:{}:{}", prefix, h))
    }
    fn reflog(&mut self, query: delegate::ReflogLookup) -> Option<()> {
        match query {
            delegate::ReflogLookup::Entry(n) => self.call(format!("rl:{n}")),
            delegate::ReflogLookup::Date(t) => {
                let v = format!("{}:{}", t.seconds, t.offset);
                let v = if self.dates.contains(&v) { v } else { "R".to_string() };
                self.call(format!("rd:{v}"))
            }
        }
    }
    fn nth_checked_out_branch(&mut self, branch_no: usize) -> Option<()> {
        self.call(format!("nth:{branch_no}"))
    }
    fn sibling_branch(&mut self, kind: delegate::SiblingBranch) -> Option<()> {
        self.call(match kind {
            delegate::SiblingBranch::Upstream => "sib:u".into(),
            delegate::SiblingBranch::Push => "sib:p".into(),
        })
    }
}
impl delegate::Navigate for Rec {
    fn traverse(&mut self, kind: delegate::Traversal) -> Option<()> {
        self.call(match kind {
            delegate::Traversal::NthAncestor(n) => format!("anc:{n}"),
            delegate::Traversal::NthParent(n) => format!("par:{n}"),
        })
    }
    fn peel_until(&mut self, kind: delegate::PeelTo<'_>) -> Option<()> {
        self.call(match kind {
            delegate::PeelTo::ObjectKind(k) => format!("peel:{k}"),
            delegate::PeelTo::ValidObject => "peel:obj".into(),
            delegate::PeelTo::RecursiveTagObject => "peel:rec".into(),
            delegate::PeelTo::Path(p) => format!("path:{}", hx(p)),
        })
    }
    fn find(&mut self, regex: &gix_object::bstr::BStr, negated: bool) -> Option<()> {
        self.call(format!("find:{}:{}", hx(regex), negated as u8))
    }
    fn index_lookup(&mut self, path: &gix_object::bstr::BStr, stage: u8) -> Option<()> {
        self.call(format!("idx:{}:{}", hx(path), stage))
    }
}
impl delegate::Kind for Rec {
    fn kind(&mut self, kind: gix_revision::spec::Kind) -> Option<()> {
        self.call(format!("kind:{kind:?}"))
    }
}
impl Delegate for Rec {
    fn done(&mut self) {
        self.out.push_str("done;");
    }
}

fn show_err(e: &PErr) -> String {
    match e {
        PErr::MissingTildeAnchor => "MissingTildeAnchor".into(),
        PErr::MissingColonSuffix => "MissingColonSuffix".into(),
        PErr::EmptyTopLevelRegex => "EmptyTopLevelRegex".into(),
        PErr::UnspecifiedRegexModifier { regex } => format!("UnspecifiedRegexModifier {}", hx(regex)),
        PErr::InvalidObject { input } => format!("InvalidObject {}", hx(input)),
        PErr::Time { input, .. } => format!("Time {}", hx(input)),
        PErr::SiblingBranchNeedsBranchName { name } => format!("SiblingBranchNeedsBranchName {}", hx(name)),
        PErr::ReflogLookupNeedsRefName { name } => format!("ReflogLookupNeedsRefName {}", hx(name)),
        PErr::RefnameNeedsPositiveReflogEntries { nav } => format!("RefnameNeedsPositiveReflogEntries {}", hx(nav)),
        PErr::SignedNumber { input } => format!("SignedNumber {}", hx(input)),
        PErr::InvalidNumber { input } => format!("InvalidNumber {}", hx(input)),
        PErr::NegativeZero { input } => format!("NegativeZero {}", hx(input)),
        PErr::UnclosedBracePair { input } => format!("UnclosedBracePair {}", hx(input)),
        PErr::KindSetTwice { prev_kind, kind } => format!("KindSetTwice {prev_kind:?} {kind:?}"),
        PErr::AtNeedsCurlyBrackets { input } => format!("AtNeedsCurlyBrackets {}", hx(input)),
        PErr::UnconsumedInput { input } => format!("UnconsumedInput {}", hx(input)),
        PErr::Delegate => "Delegate".into(),
    }
}

fn table_dates(c: &Case, from: usize) -> Vec<String> {
    let mut v = Vec::new();
    let mut i = from + 1;
    while i < c.len() {
        v.push(String::from_utf8_lossy(&c[i]).into_owned());
        i += 2;
    }
    v
}

fn tokenize(spec: &[u8], answers: &[u8], dates: Vec<String>) -> (String, Result<(), PErr>) {
    let mut rec = Rec::new(answers, dates);
    let r = gix_revision::spec::parse(spec.into(), &mut rec);
    (rec.out, r)
}

fn imp(c: &Case) -> String {
    let (spec, answers): (&[u8], &[u8]) = match f_str(c, 0) {
        b"tok" => (f_str(c, 1), f_str(c, 2)),
        b"rp" => (f_str(c, 2), b""),
        _ => return "?".into(),
    };
    let (out, r) = tokenize(spec, answers, table_dates(c, 3));
    match r {
        Ok(()) => format!("{out}|ok"),
        Err(e) => format!("{out}|err {}", show_err(&e)),
    }
}

// ---------------------------------------------------------------------------------------------------
// date table: every text between a `{` and a later `}`, raw and with the tokenizer's backslash rule applied
fn unescape(raw: &[u8]) -> Vec<u8> {
    let mut out = Vec::new();
    let mut i = 0;
    while i < raw.len() {
        if raw[i] == b'\\' && i + 1 < raw.len() && matches!(raw[i + 1], b'{' | b'}' | b'\\') {
            out.push(raw[i + 1]);
            i += 2;
        } else {
            out.push(raw[i]);
            i += 1;
        }
    }
    out
}
fn date_result(nav: &[u8]) -> String {
    let Ok(s) = std::str::from_utf8(nav) else { return "E".into() };
    let now = std::time::SystemTime::now();
    let a = gix_date::parse(s, Some(now));
    let b = gix_date::parse(s, Some(now - std::time::Duration::from_secs(777_777)));
    match (a, b) {
        (Ok(a), Ok(b)) => {
            if a == b {
                format!("{}:{}", a.seconds, a.offset)
            } else {
                "R".into()
            }
        }
        (Err(_), Err(_)) => "E".into(),
        _ => "R".into(),
    }
}
fn date_table(spec: &[u8]) -> Vec<Vec<u8>> {
    let mut keys: Vec<Vec<u8>> = Vec::new();
    for i in 0..spec.len() {
        if spec[i] != b'{' {
            continue;
        }
        for j in i + 1..spec.len() {
            if spec[j] == b'}' {
                for k in [spec[i + 1..j].to_vec(), unescape(&spec[i + 1..j])] {
                    if !keys.contains(&k) {
                        keys.push(k);
                    }
                }
            }
        }
    }
    let mut out = Vec::new();
    for k in keys {
        // numbers and sibling names never reach the date parser; keep the table small
        let v = date_result(&k);
        out.push(k);
        out.push(v.into_bytes());
    }
    out
}

// ---------------------------------------------------------------------------------------------------
// generator
const ANCHORS: &[&[u8]] = &[
    b"HEAD", b"@", b"", b"main", b"refs/heads/main", b"v1.0", b"a", b"abcd", b"ABCDEF12", b"deadbeef", b"abc",
    b"0123456789abcdef0123456789abcdef01234567", b"0123456789abcdef0123456789abcdef012345678", b"v1.0-3-gabcdef1",
    b"v1-+5-gabcd", b"g1234", b"-gabcd", b"x-g", b"abcd-dirty", b"abcd-x-y", b"a-b", b"foo-12-g1234abc",
    b"foo-bar-12-gfff0", b"foo--g1234", b"--g1234", b"-3-g1234", b"x--3-g1234", b"abcd@ef", b"abcd.ef", b"a.b", b"a@b",
    b"@@", b"a@", b"@a", b" ", b"\n\t", b"\xff\xfe", b"caf\xc3\xa9", b"gabcd", b"x-gabcd-y", b"v-g-gabcd", b"1.2.3",
    b"abcdg", b"origin/main", b"a-1-gABCD", b"t-18446744073709551615-gabcd", b"t-18446744073709551616-gabcd",
    b"abcd.", b".abcd", b"ab.cd", b"feature/x", b"abcde@", b"abcd@.ef",
];
const NAVS: &[&[u8]] = &[
    b"~", b"~3", b"~0", b"~-1", b"~+1", b"~99999999999999999999", b"~18446744073709551615", b"~007", b"^", b"^0", b"^2",
    b"^-", b"^-1", b"^-2", b"^-0", b"^-00", b"^+1", b"^-9223372036854775808", b"^-9223372036854775807",
    b"^9223372036854775807", b"^9223372036854775808", b"^1-2", b"^--1", b"^-1-", b"^{commit}", b"^{tree}", b"^{blob}",
    b"^{tag}", b"^{object}", b"^{}", b"^{/re}", b"^{/!-neg}", b"^{/!!x}", b"^{/!x}", b"^{/}", b"^{/!-}", b"^{bad}", b"^{",
    b"^{a\\}b}", b"^{/a\\{b}", b"^{/a\\\\b}", b"^{/a\\bc}", b"^{{}}", b"^{/a{1}}", b"^!", b"^@", b":path", b":",
    b":a/b..c", b"^{Commit}", b"^{ tree}", b"^{\\}", b"^{/x\\", b"~1^2~3", b"^^^", b"~~",
];
const ATS: &[&[u8]] = &[
    b"@{0}", b"@{1}", b"@{-1}", b"@{-2}", b"@{-0}", b"@{+1}", b"@{u}", b"@{U}", b"@{upstream}", b"@{UPSTREAM}", b"@{push}",
    b"@{PuSh}", b"@{1979-02-26 18:30:00}", b"@{1 week ago}", b"@{2 days ago}", b"@{yesterday}", b"@{1234567890 +0100}",
    b"@{}", b"@{", b"@{1", b"@x", b"@{\xff}", b"@{12345678901234567890}", b"@{-9223372036854775808}", b"@{2021-01-01}",
    b"@{9223372036854775807}", b"@{9223372036854775808}", b"@{1\\}}", b"@{\\1}", b"@{{1}}", b"@{1}@{2}", b"@", b"@{now}",
    b"@{Thu, 18 Aug 2022 12:45:06 +0800}", b"@{-1 week ago}", b"@{1 fortnight ago}",
];
const COLONS: &[&[u8]] = &[
    b":", b":/", b":/re", b":/!-x", b":/!!x", b":/!x", b":/!-", b":/!", b":0:p", b":1:p", b":2:p", b":3:p", b":4:p", b":p",
    b":0", b":0:", b"::", b":/a..b", b":a..b", b":/\\{\\}", b":01:p", b":2", b":@{1}",
];
const RANGES: &[&[u8]] = &[b"..", b"...", b"....", b".", b".. ", b"..^"];
const NOISE: &[u8] = b"@{}~^:.-\\/!g0a1 +9\xff";

fn rev_text(rng: &mut Rng) -> Vec<u8> {
    let mut s = Vec::new();
    if rng.chance(1, 10) {
        s.extend_from_slice(*rng.pick(COLONS));
        return s;
    }
    s.extend_from_slice(*rng.pick(ANCHORS));
    if rng.chance(1, 3) {
        s.extend_from_slice(*rng.pick(ATS));
    }
    let n = *rng.pick(&[0usize, 0, 1, 1, 2, 3]);
    for _ in 0..n {
        s.extend_from_slice(*rng.pick(NAVS));
    }
    s
}

fn tok_case(spec: Vec<u8>, answers: Vec<u8>) -> Case {
    let mut c = vec![tag("tok"), spec.clone(), answers];
    c.extend(date_table(&spec));
    c
}

fn gen(rng: &mut Rng, n: usize) -> Vec<Case> {
    let mut out: Vec<Case> = Vec::new();
    // boundary block: every vocabulary item alone and in its simplest context
    for a in ANCHORS {
        out.push(tok_case(a.to_vec(), vec![]));
        out.push(tok_case(a.to_vec(), b"0".to_vec()));
        out.push(tok_case(a.to_vec(), b"00".to_vec()));
        out.push(tok_case([a, &b"@{1}"[..]].concat(), vec![]));
        out.push(tok_case([a, &b"^-"[..]].concat(), vec![]));
    }
    for x in NAVS {
        out.push(tok_case([&b"HEAD"[..], x].concat(), vec![]));
        out.push(tok_case([&b"@"[..], x].concat(), vec![]));
        out.push(tok_case(x.to_vec(), vec![]));
        out.push(tok_case([&b"abcdef"[..], x].concat(), vec![]));
        out.push(tok_case([&b"a..b"[..], x].concat(), vec![]));
    }
    for x in ATS {
        out.push(tok_case(x.to_vec(), vec![]));
        out.push(tok_case([&b"main"[..], x].concat(), vec![]));
        out.push(tok_case([&b"abcdef"[..], x].concat(), vec![]));
        out.push(tok_case([&b"main"[..], x, &b"~2"[..]].concat(), vec![]));
    }
    for x in COLONS {
        out.push(tok_case(x.to_vec(), vec![]));
        out.push(tok_case(x.to_vec(), b"0".to_vec()));
        out.push(tok_case([&b"^"[..], x].concat(), vec![]));
        out.push(tok_case([&b"a.."[..], x].concat(), vec![]));
    }
    for x in RANGES {
        out.push(tok_case(x.to_vec(), vec![]));
        out.push(tok_case([&b"a"[..], x, &b"b"[..]].concat(), vec![]));
        out.push(tok_case([&b"^a"[..], x, &b"b"[..]].concat(), vec![]));
        out.push(tok_case([&b"a"[..], x].concat(), vec![]));
        out.push(tok_case([*x, &b"b"[..]].concat(), vec![]));
        out.push(tok_case([&b"a^!"[..], x, &b"b"[..]].concat(), vec![]));
        out.push(tok_case([&b"a"[..], x, &b"b^!"[..]].concat(), vec![]));
    }
    let fixed = repo::fixtures();
    while out.len() < n {
        match rng.below(20) {
            0..=8 => {
                // structured: [^] rev [range rev]
                let mut s = Vec::new();
                if rng.chance(1, 8) {
                    s.push(b'^');
                }
                s.extend(rev_text(rng));
                if rng.chance(1, 3) {
                    s.extend_from_slice(*rng.pick(RANGES));
                    s.extend(rev_text(rng));
                }
                if rng.chance(1, 10) && !s.is_empty() {
                    let i = rng.below(s.len() as u64) as usize;
                    match rng.below(3) {
                        0 => s[i] = *rng.pick(NOISE),
                        1 => {
                            s.remove(i);
                        }
                        _ => s.insert(i, *rng.pick(NOISE)),
                    }
                }
                let answers = if rng.chance(3, 5) { vec![] } else { rng.word(b"1110", 1, 6) };
                out.push(tok_case(s, answers));
            }
            9..=10 => {
                let s = rng.word(NOISE, 0, 12);
                let answers = if rng.chance(1, 2) { vec![] } else { rng.word(b"10", 1, 4) };
                out.push(tok_case(s, answers));
            }
            11 => {
                // names made of hex digits, dashes and g: prefix and describe heuristics
                let s = rng.word(b"abg-0A1.@", 1, 14);
                let answers = rng.word(b"10", 0, 3);
                let mut s2 = s.clone();
                if rng.chance(1, 3) {
                    s2.extend_from_slice(*rng.pick(NAVS));
                }
                out.push(tok_case(s2, answers));
            }
            _ => out.push(repo::gen_case(rng, &fixed)),
        }
    }
    out.truncate(n.max(1));
    out
}

// ---------------------------------------------------------------------------------------------------
// prop: (tok) re-tokenizing the canonical text of an accepted call sequence gives the same calls;
//       (rp) gix resolves like git
fn canonical(calls: &str) -> Option<Vec<u8>> {
    // rebuild a spec from the calls of an all-accepting run (supported grammar only)
    let mut s: Vec<u8> = Vec::new();
    let items: Vec<&str> = calls.split(';').filter(|x| !x.is_empty()).collect();
    if items.iter().filter(|x| x.starts_with("kind:")).count() > 1 {
        return None; // `^A^-n` sets the kind twice (Exclude, then Range): no text of the canonical grammar does that
    }
    let mut i = 0;
    let mut pending_range: Option<&str> = None;
    let unhexf = |h: &str| -> Vec<u8> { unhex(h) };
    let plain = |b: &[u8]| -> bool { !b.is_empty() && b.iter().all(|c| c.is_ascii_alphanumeric() || *c == b'/' || *c == b'_') && b.iter().any(|c| !c.is_ascii_hexdigit()) };
    while i < items.len() {
        let it = items[i];
        let (k, v) = it.split_once(':').unwrap_or((it, ""));
        match k {
            "ref" => {
                let name = unhexf(v);
                if name == b"HEAD" && items.get(i + 1).map_or(false, |n| n.starts_with("kind:")) && s.is_empty() {
                    // implied HEAD of `..B`
                } else if !plain(&name) {
                    return None;
                } else {
                    s.extend(name);
                }
            }
            "pfx" => {
                let (h, hint) = v.split_once(':')?;
                if hint != "-" {
                    return None;
                }
                s.extend(h.as_bytes());
            }
            "rl" => s.extend(format!("@{{{v}}}").bytes()),
            "nth" => s.extend(format!("@{{-{v}}}").bytes()),
            "sib" => s.extend(if v == "u" { &b"@{upstream}"[..] } else { &b"@{push}"[..] }),
            "anc" => s.extend(format!("~{v}").bytes()),
            "par" => s.extend(format!("^{v}").bytes()),
            "peel" => match v {
                "obj" => s.extend(b"^{object}"),
                "rec" => s.extend(b"^{}"),
                k => s.extend(format!("^{{{k}}}").bytes()),
            },
            "path" => {
                s.push(b':');
                s.extend(unhexf(v));
            }
            "find" => {
                let (re, neg) = v.split_once(':')?;
                let re = unhexf(re);
                if re.iter().any(|c| matches!(c, b'{' | b'}' | b'\\')) || re.first() == Some(&b'!') {
                    return None;
                }
                if s.is_empty() || pending_range.is_some() && s.ends_with(b".") {
                    return None; // top-level :/re swallows everything; not re-printed
                }
                s.extend(b"^{/");
                if neg == "1" {
                    s.extend(b"!-");
                }
                s.extend(re);
                s.push(b'}');
            }
            "kind" => match v {
                "RangeBetween" | "ReachableToMergeBase"
                    if i == 0
                        || !items.get(i + 1).map_or(false, |n| {
                            ["ref:", "pfx:", "rl:", "nth:", "sib:"].iter().any(|p| n.starts_with(p))
                        }) =>
                {
                    // a side without any anchor call (`A...^{/!-}`, `^{/!-}..B`): no canonical text
                    return None;
                }
                "RangeBetween" => {
                    // `^-n` prints kind after par; not in the canonical grammar
                    if i > 0 && items[i - 1].starts_with("par:") && items.get(i + 2) == Some(&"done") && items.len() == i + 4 {
                        return None;
                    }
                    s.extend(b"..");
                    pending_range = Some(v);
                }
                "ReachableToMergeBase" => {
                    s.extend(b"...");
                    pending_range = Some(v);
                }
                "ExcludeReachable" => s.insert(0, b'^'),
                _ => return None,
            },
            "done" => {}
            _ => return None,
        }
        i += 1;
    }
    Some(s)
}

fn prop(c: &Case) -> Verdict {
    match f_str(c, 0) {
        b"tok" => {
            let spec = f_str(c, 1);
            let (calls, r) = tokenize(spec, b"", table_dates(c, 3));
            match r {
                Ok(()) => {
                    if !calls.ends_with("done;") {
                        return Verdict::fail("ok-without-done", calls);
                    }
                    match canonical(&calls) {
                        Some(text) => {
                            let (calls2, r2) = tokenize(&text, b"", vec![]);
                            if r2.is_err() || calls2 != calls {
                                Verdict::fail(
                                    "canonical-text-retokenizes-differently",
                                    format!("{:?} -> {} vs {}", String::from_utf8_lossy(&text), calls2, calls),
                                )
                            } else {
                                Verdict::ok(true, "tok-roundtrip")
                            }
                        }
                        None => Verdict::ok(true, "tok-ok"),
                    }
                }
                Err(PErr::Delegate) => Verdict::fail("delegate-error-without-rejection", calls),
                Err(_) => {
                    if calls.contains("done;") && !matches!(r, Err(PErr::UnconsumedInput { .. })) {
                        return Verdict::fail("done-before-error", calls);
                    }
                    Verdict::ok(!f_str(c, 2).is_empty(), "tok-err")
                }
            }
        }
        b"rp" => repo::prop(c),
        _ => Verdict::ok(false, "?"),
    }
}

fn main() {
    main_with(Harness { gen, imp, prop, git: None, deadline: std::time::Duration::from_secs(180) });
}

// shared by repo.rs
pub(crate) fn run_git(dir: &Path, args: &[&str], stdin: Option<&[u8]>) -> Result<Vec<u8>, String> {
    let mut cmd = Command::new("git");
    cmd.current_dir(dir)
        .args(args)
        .env_clear()
        .env("PATH", "/usr/bin:/bin:/usr/local/bin")
        .env("HOME", dir)
        .env("GIT_CONFIG_NOSYSTEM", "1")
        .env("GIT_CONFIG_GLOBAL", "/dev/null")
        .env("TZ", "UTC")
        .stdin(if stdin.is_some() { Stdio::piped() } else { Stdio::null() })
        .stdout(Stdio::piped())
        .stderr(Stdio::piped());
    let mut child = cmd.spawn().map_err(|e| e.to_string())?;
    if let Some(data) = stdin {
        child.stdin.take().unwrap().write_all(data).map_err(|e| e.to_string())?;
    }
    let out = child.wait_with_output().map_err(|e| e.to_string())?;
    if !out.status.success() {
        return Err(format!("git {:?}: {}", args, String::from_utf8_lossy(&out.stderr)));
    }
    Ok(out.stdout)
}

pub(crate) struct CatFile {
    dir: PathBuf,
    child: std::process::Child,
    stdin: std::process::ChildStdin,
    stdout: BufReader<std::process::ChildStdout>,
}
impl CatFile {
    pub fn new(dir: &Path) -> CatFile {
        let mut child = Command::new("git")
            .current_dir(dir)
            .args(["cat-file", "--batch-check"])
            .env_clear()
            .env("PATH", "/usr/bin:/bin:/usr/local/bin")
            .env("HOME", dir)
            .env("GIT_CONFIG_NOSYSTEM", "1")
            .env("GIT_CONFIG_GLOBAL", "/dev/null")
            .env("TZ", "UTC")
            .stdin(Stdio::piped())
            .stdout(Stdio::piped())
            .stderr(Stdio::null())
            .spawn()
            .expect("git cat-file");
        let stdin = child.stdin.take().unwrap();
        let stdout = BufReader::new(child.stdout.take().unwrap());
        CatFile { dir: dir.to_path_buf(), child, stdin, stdout }
    }
    /// Some((hex id, type)) | None (missing / ambiguous / git gave up)
    pub fn resolve_typed(&mut self, spec: &[u8]) -> Option<(String, String)> {
        let mut line = String::new();
        let ok = self.stdin.write_all(spec).is_ok()
            && self.stdin.write_all(b"\n").is_ok()
            && self.stdin.flush().is_ok()
            && self.stdout.read_line(&mut line).map_or(false, |n| n > 0);
        if !ok {
            // `git cat-file` dies on some names (e.g. `x@{u}` without upstream): that is a refusal; start a new one
            let _ = self.child.kill();
            let _ = self.child.wait();
            *self = CatFile::new(&self.dir.clone());
            return None;
        }
        let line = line.trim_end();
        if line.ends_with(" missing") || line.ends_with(" ambiguous") || line.is_empty() {
            return None;
        }
        let mut it = line.split(' ');
        let id = it.next()?;
        let ty = it.next()?;
        (id.len() == 40 && id.bytes().all(|b| b.is_ascii_hexdigit())).then(|| (id.to_string(), ty.to_string()))
    }
    pub fn resolve(&mut self, spec: &[u8]) -> Option<String> {
        self.resolve_typed(spec).map(|x| x.0)
    }
}
impl Drop for CatFile {
    fn drop(&mut self) {
        let _ = self.child.kill();
    }
}
#[allow(dead_code)]
pub(crate) fn tmp_root() -> PathBuf {
    std::env::temp_dir().join("gixv-c48")
}
