(* C42 — The worktree path stack stays consistent across failures.
   Model: Model.v (gix_fs::Stack::make_relative_path_current + an abstract delegate whose
   push / push_directory answers are an ARBITRARY list of accept/reject decisions).
   [run_history paths s w []] is the list of (result, stack state, delegate state) after each call;
   [ds w] is the delegate's directory stack (one level per accepted push_directory, bottom first);
   [prefixes l] = [firstn 1 l; …; l]; [cur_abs] are the components of `current()` starting with the
   root marker, [cur] those of `current_relative()`. *)
From GixV.Base Require Import Bytes Outcome.
From GixV.C42 Require Import Model Proofs.

(* For EVERY history of relative paths (normalised or not) and EVERY behaviour of the delegate, after each
   call: the call did not panic; current = root joined with current_relative; pop_directory never
   arrived on an empty stack; and the delegate's directory stack is exactly the root (once) followed by
   the directory prefixes of current_relative — balanced, no directory announced twice, none leaked. *)
Theorem balanced_after_every_call : forall paths ans,
  Forall (fun x => let '(r, s, w) := x in
     r <> RPanic /\
     cur_abs s = ROOT :: cur s /\
     underflow w = false /\
     ds w = (if rootp s then [[]] else []) ++ prefixes (if isdir s then cur s else removelast (cur s)) /\
     (cur s <> [] -> rootp s = true))
    (run_history paths new_stack (new_world ans) []).
Proof. exact L_every_history. Qed.

(* In every reachable state, a call that returns Ok leaves the stack's current path equal to the
   root joined with the path just given (all of whose components are then normal ones). *)
Theorem ok_means_current_is_root_join_path : forall paths ans p,
  let '(s, w) := after paths new_stack (new_world ans) in
  let '(r, s', w') := make_current s w p in
  r <> RPanic /\ (r = ROk -> components p = map Normal (cur s') /\ cur_abs s' = ROOT :: cur s').
Proof. exact L_ok_sets_path. Qed.

(* non-vacuity: a history in which the delegate rejects the directory `b` of `a/b/c`; afterwards the
   stack is at `a`, and the following `a/d` announces nothing twice *)
Example rejected_directory_history :
  let r := run_history [bs "a/b/c"; bs "a/d"] new_stack (new_world [true; true; true; false]) [] in
  map (fun x => let '(res, s, w) := x in (res, cur s, ds w)) r =
  [ (RErr, [bs "a"], [[]; [bs "a"]]);
    (ROk, [bs "a"; bs "d"], [[]; [bs "a"]]) ].
Proof. vm_compute. reflexivity. Qed.
