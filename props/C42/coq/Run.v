(* C42 — transcript: per call `res cur=<current> rel=<current_relative> ev=<events of this call>`, then the
   delegate's directory stack at the end. *)
From GixV.Base Require Import Bytes Outcome.
From GixV.C42 Require Import Model.

Fixpoint join_with (sep : bytes) (l : list bytes) : bytes :=
  match l with [] => [] | [x] => x | x :: r => x ++ sep ++ join_with sep r end.
Definition show_path (p : list bytes) : bytes := bs "<" ++ hex_encode (join_with [slash] p) ++ bs ">".
Definition show_event (e : event) : bytes :=
  match e with
  | EPushDir p ok => bs "D" ++ bool_to_bytes ok ++ show_path p
  | EPush p last ok => bs "P" ++ bool_to_bytes ok ++ bool_to_bytes last ++ show_path p
  | EPop => bs "O"
  end.
Definition show_res (r : result) : bytes :=
  match r with ROk => bs "ok" | RErr => bs "err" | RPanic => bs "PANIC" end.

Fixpoint show_calls (l : list (result * stack * world)) (seen : nat) : list bytes :=
  match l with
  | [] => []
  | (r, s, w) :: rest =>
      let evs := rev (firstn (length (log w) - seen) (log w)) in
      (show_res r ++ bs " cur=" ++ show_path (cur_abs s) ++ bs " rel=" ++ show_path (cur s) ++ bs " ev="
        ++ join_with (bs ",") (map show_event evs)) :: show_calls rest (length (log w))
  end.

Definition final_ds (l : list (result * stack * world)) : bytes :=
  match rev l with
  | (_, _, w) :: _ => join_with (bs ",") (map show_path (ds w)) ++ (if underflow w then bs " UNDERFLOW" else [])
  | [] => []
  end.

Definition parse_answers (a : bytes) : list bool := map (fun b => beqb b x31) a.

(* case: hist <answers as 0/1 text> <path> <path> … *)
Definition run_model (fs : list bytes) : bytes :=
  match fs with
  | _op :: ans :: paths =>
      let calls := run_history paths new_stack (new_world (parse_answers ans)) [] in
      join_with (bs " | ") (show_calls calls 0) ++ bs " || ds=" ++ final_ds calls
  | _ => bs "?"
  end.

Definition run (fs : list bytes) : bytes :=
  match fs with _mode :: rest => run_model rest | [] => bs "?" end.
