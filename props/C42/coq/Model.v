(* C42 — model of gix_fs::Stack::make_relative_path_current (gix-fs/src/stack.rs, after the fix
   fc59f13d5) together with an abstract delegate.

   The delegate is the environment: every `push` / `push_directory` call consumes the next answer of an
   arbitrary answer list (accept / reject), a successful `push_directory` pushes the directory it was
   called for onto the delegate's own directory stack [ds], `pop_directory` pops it.  [ds] is what
   gix-worktree's attribute / ignore stacks are: one level per announced directory.

   `Path::components()` (std, unix) is modelled by [components]; the correspondence run feeds the same
   path strings to the real `Path`. *)
From GixV.Base Require Import Bytes Outcome.

Inductive comp := Normal (name : bytes) | Other.   (* Other: RootDir, CurDir, ParentDir *)

(* ---- std::path::Path::components on unix ---------------------------------------------- *)
Definition slash : byte := x2f.
Definition dot : byte := x2e.

Fixpoint split_slash (p : bytes) (acc : bytes) : list bytes :=   (* acc in reverse *)
  match p with
  | [] => [rev acc]
  | b :: r => if beqb b slash then rev acc :: split_slash r [] else split_slash r (b :: acc)
  end.

Definition is_dot (s : bytes) := bytes_eqb s [dot].
Definition is_dotdot (s : bytes) := bytes_eqb s [dot; dot].

Fixpoint seg_comps (segs : list bytes) : list comp :=
  match segs with
  | [] => []
  | s :: r =>
      match s with
      | [] => seg_comps r
      | _ => if is_dot s then seg_comps r
             else if is_dotdot s then Other :: seg_comps r
             else Normal s :: seg_comps r
      end
  end.

Definition components (p : bytes) : list comp :=
  match p with
  | [] => []
  | b :: _ =>
      let segs := split_slash p [] in
      if beqb b slash then Other :: seg_comps segs
      else match segs with
           | s :: r => if is_dot s then Other :: seg_comps r else seg_comps segs
           | [] => []
           end
  end.

(* ---- the delegate (environment) ------------------------------------------------------- *)
Inductive event :=
| EPushDir (path : list bytes) (ok : bool)
| EPush (path : list bytes) (last : bool) (ok : bool)
| EPop.

Record world := {
  ds : list (list bytes);      (* directory stack of the delegate, bottom first *)
  underflow : bool;            (* a pop_directory arrived on an empty stack *)
  answers : list bool;         (* what the delegate will answer to the next calls; [] = accept *)
  log : list event             (* most recent first *)
}.

Definition take_answer (w : world) : bool * list bool :=
  match answers w with [] => (true, []) | a :: r => (a, r) end.

Definition d_push_directory (path : list bytes) (w : world) : bool * world :=
  let (a, r) := take_answer w in
  (a, {| ds := if a then ds w ++ [path] else ds w; underflow := underflow w; answers := r;
         log := EPushDir path a :: log w |}).

Definition d_push (path : list bytes) (last : bool) (w : world) : bool * world :=
  let (a, r) := take_answer w in
  (a, {| ds := ds w; underflow := underflow w; answers := r; log := EPush path last a :: log w |}).

Definition d_pop_directory (w : world) : world :=
  {| ds := removelast (ds w); underflow := underflow w || match ds w with [] => true | _ => false end;
     answers := answers w; log := EPop :: log w |}.

(* ---- the stack ------------------------------------------------------------------------ *)
Record stack := {
  cur : list bytes;        (* components of current_relative *)
  cur_abs : list bytes;    (* components of current: the root marker followed by the relative ones *)
  valid : nat;             (* valid_components *)
  isdir : bool;            (* current_is_directory *)
  rootp : bool             (* root_is_pushed *)
}.

Definition ROOT : bytes := bs "ROOT".
Definition new_stack : stack := {| cur := []; cur_abs := [ROOT]; valid := 0; isdir := true; rootp := false |}.
Definition new_world (ans : list bool) : world := {| ds := []; underflow := false; answers := ans; log := [] |}.

Inductive result := ROk | RErr | RPanic.

(* the `while let (Some(existing), Some(new)) = …` loop: number of matching leading components and
   what is left of the new path *)
Fixpoint common (ex : list bytes) (nw : list comp) : nat * list comp :=
  match ex, nw with
  | e :: ex', Normal n :: nw' =>
      if bytes_eqb e n then let (k, r) := common ex' nw' in (S k, r) else (O, nw)
  | _, _ => (O, nw)
  end.

(* `for _ in 0..valid - matching { pop }` *)
Fixpoint pops (n : nat) (s : stack) (w : world) : stack * world :=
  match n with
  | O => (s, w)
  | S n' =>
      let w1 := if isdir s then d_pop_directory w else w in
      pops n' {| cur := removelast (cur s); cur_abs := removelast (cur_abs s); valid := valid s;
                 isdir := true; rootp := rootp s |} w1
  end.

Definition is_nil {A} (l : list A) : bool := match l with [] => true | _ => false end.

(* `while let Some(comp) = components.next()` *)
Fixpoint push_loop (rem : list comp) (s : stack) (w : world) : result * stack * world :=
  match rem with
  | [] => (ROk, s, w)
  | Other :: _ => (RErr, s, w)
  | Normal n :: rem' =>
      let last := is_nil rem' in
      let s1 := {| cur := cur s ++ [n]; cur_abs := cur_abs s ++ [n]; valid := S (valid s);
                   isdir := negb last; rootp := rootp s |} in
      let (a, w1) := d_push (cur s1) last w in
      let (a2, w2) := if a && isdir s1 then d_push_directory (cur s1) w1 else (a, w1) in
      if a2 then push_loop rem' s1 w2
      else (RErr, {| cur := removelast (cur s1); cur_abs := removelast (cur_abs s1);
                     valid := valid s1 - 1; isdir := true; rootp := rootp s1 |}, w2)
  end.

(* Stack::make_relative_path_current(relative, delegate) *)
Definition make_current (s : stack) (w : world) (relative : bytes) : result * stack * world :=
  if negb (Nat.eqb (valid s) 0) && is_nil relative then (RErr, s, w)
  else
    let '(okroot, s0, w0) :=
      if Nat.eqb (valid s) 0 && negb (rootp s) then
        let (a, w') := d_push_directory (cur s) w in
        (a, {| cur := cur s; cur_abs := cur_abs s; valid := valid s; isdir := isdir s; rootp := a |}, w')
      else (true, s, w) in
    if negb okroot then (RErr, s0, w0)
    else
      let (matching, rem) := common (cur s0) (components relative) in
      if Nat.ltb (valid s0) matching then (RPanic, s0, w0)     (* usize underflow; unreachable, see Properties *)
      else
        let (s1, w1) := pops (valid s0 - matching) s0 w0 in
        let s2 := {| cur := cur s1; cur_abs := cur_abs s1; valid := matching; isdir := isdir s1; rootp := rootp s1 |} in
        if negb (isdir s2) && negb (is_nil rem) then
          let (a, w2) := d_push_directory (cur s2) w1 in
          if a then push_loop rem {| cur := cur s2; cur_abs := cur_abs s2; valid := valid s2; isdir := true; rootp := rootp s2 |} w2
          else (RErr, s2, w2)
        else push_loop rem s2 w1.

(* a whole history: the paths pushed one after the other onto a fresh stack *)
Fixpoint run_history (paths : list bytes) (s : stack) (w : world) (acc : list (result * stack * world))
  : list (result * stack * world) :=
  match paths with
  | [] => rev acc
  | p :: r => let '(res, s', w') := make_current s w p in run_history r s' w' ((res, s', w') :: acc)
  end.
