(* C42 — invariant proof for Model.make_current. *)
From Coq Require Import ZArith Lia ZifyBool ZifyNat.
From GixV.Base Require Import Bytes BytesFacts Outcome.
From GixV.C42 Require Import Model.

(* ---- list helpers --------------------------------------------------------------------- *)
Lemma removelast_snoc {A} (l : list A) x : removelast (l ++ [x]) = l.
Proof. apply removelast_last. Qed.

Lemma removelast_firstn_len {A} (l : list A) : removelast l = firstn (length l - 1) l.
Proof.
  induction l as [|x l IH]; [reflexivity|].
  destruct l as [|y l]; [reflexivity|].
  cbn [removelast length] in *. replace (S (S (length l)) - 1)%nat with (S (length l)) by lia.
  cbn [firstn]. f_equal. rewrite IH. f_equal. lia.
Qed.

Lemma snoc_cases {A} (l : list A) : l = [] \/ exists l' x, l = l' ++ [x].
Proof.
  destruct l as [|y l] using rev_ind; [now left | right; eauto].
Qed.

Definition prefixes (l : list bytes) : list (list bytes) :=
  map (fun k => firstn k l) (seq 1 (length l)).

Lemma prefixes_nil : prefixes [] = [].
Proof. reflexivity. Qed.

Lemma prefixes_snoc l x : prefixes (l ++ [x]) = prefixes l ++ [l ++ [x]].
Proof.
  unfold prefixes. rewrite app_length. cbn [length]. rewrite Nat.add_1_r, seq_S, map_app.
  cbn [map]. f_equal.
  - apply map_ext_in. intros k Hk. apply in_seq in Hk. rewrite firstn_app.
    replace (k - length l)%nat with 0%nat by lia. cbn [firstn]. now rewrite app_nil_r.
  - f_equal. replace (1 + length l)%nat with (length (l ++ [x])) by (rewrite app_length; cbn; lia).
    apply firstn_all.
Qed.

(* ---- the invariant -------------------------------------------------------------------- *)
Definition dir_part (s : stack) : list bytes := if isdir s then cur s else removelast (cur s).
Definition expected_ds (s : stack) : list (list bytes) :=
  (if rootp s then [[]] else []) ++ prefixes (dir_part s).

(* everything except the bookkeeping of [valid] *)
Definition Inv0 (s : stack) (w : world) : Prop :=
  cur_abs s = ROOT :: cur s /\ underflow w = false /\ ds w = expected_ds s /\
  (cur s = [] -> isdir s = true) /\ (cur s <> [] -> rootp s = true).

Definition Inv (s : stack) (w : world) : Prop := valid s = length (cur s) /\ Inv0 s w.

Lemma inv_init ans : Inv new_stack (new_world ans).
Proof. repeat split; try reflexivity. intros H. now elim H. Qed.

(* ---- pops ----------------------------------------------------------------------------- *)
Lemma pops_spec : forall n s w, (n <= length (cur s))%nat -> Inv0 s w ->
  let '(s', w') := pops n s w in
  Inv0 s' w' /\ cur s' = firstn (length (cur s) - n) (cur s) /\ rootp s' = rootp s /\
  valid s' = valid s /\ (isdir s' = true \/ (n = 0%nat /\ isdir s' = isdir s)).
Proof.
  induction n as [|n IH]; intros s w Hn HI.
  - cbn [pops]. split; [exact HI|]. rewrite Nat.sub_0_r, firstn_all. repeat split; auto.
  - cbn [pops].
    destruct (snoc_cases (cur s)) as [E | (c' & x & E)]; [rewrite E in Hn; cbn in Hn; lia|].
    destruct HI as (Habs & Hu & Hds & Hd & Hr).
    set (s1 := {| cur := removelast (cur s); cur_abs := removelast (cur_abs s); valid := valid s;
                  isdir := true; rootp := rootp s |}).
    set (w1 := if isdir s then d_pop_directory w else w).
    assert (Hroot : rootp s = true) by (apply Hr; rewrite E; now destruct c').
    assert (HI1 : Inv0 s1 w1).
    { unfold Inv0. subst s1. cbn [cur cur_abs isdir rootp]. rewrite E, removelast_snoc.
      split; [rewrite Habs, E; change (ROOT :: c' ++ [x]) with ((ROOT :: c') ++ [x]); apply removelast_snoc|].
      unfold expected_ds, dir_part in Hds |- *. cbn [isdir cur rootp]. rewrite Hroot in *.
      subst w1. destruct (isdir s) eqn:Ed.
      - rewrite E, prefixes_snoc in Hds. cbn [d_pop_directory ds underflow].
        rewrite Hds, Hu. change ([[]] ++ prefixes c' ++ [c' ++ [x]]) with (([[]] ++ prefixes c') ++ [c' ++ [x]]).
        rewrite removelast_snoc. repeat split; auto.
      - rewrite E, removelast_snoc in Hds. repeat split; auto. }
    assert (Hlen : (n <= length (cur s1))%nat).
    { subst s1. cbn [cur]. rewrite E, removelast_snoc. rewrite E, app_length in Hn. cbn in Hn. lia. }
    specialize (IH s1 w1 Hlen HI1). destruct (pops n s1 w1) as [s' w'].
    destruct IH as (I' & Hc & Hrp & Hv & Hdir). split; [exact I'|].
    subst s1. cbn [cur rootp valid isdir] in *. rewrite E, removelast_snoc in Hc.
    split.
    + rewrite Hc, E, app_length. cbn [length].
      replace (length c' + 1 - S n)%nat with (length c' - n)%nat by lia.
      rewrite firstn_app. replace (length c' - n - length c')%nat with 0%nat by lia.
      cbn [firstn]. now rewrite app_nil_r.
    + repeat split; auto. left. destruct Hdir as [H | [_ H]]; exact H.
Qed.

(* ---- common --------------------------------------------------------------------------- *)
Lemma common_spec : forall ex nw,
  let '(k, r) := common ex nw in
  (k <= length ex)%nat /\ nw = map Normal (firstn k ex) ++ r.
Proof.
  induction ex as [|e ex IH]; intros nw.
  - cbn [common]. destruct nw as [|[n|] nw]; cbn; auto.
  - destruct nw as [|[n|] nw]; cbn [common]; try (cbn; split; [lia | reflexivity]).
    destruct (bytes_eqb e n) eqn:Eb; [|cbn; split; [lia | reflexivity]].
    apply bytes_eqb_eq in Eb. subst n. specialize (IH nw). destruct (common ex nw) as [k r].
    destruct IH as [Hk Hn]. cbn [length firstn map app]. split; [lia|]. now rewrite Hn at 1.
Qed.

(* ---- push_loop ------------------------------------------------------------------------ *)
Lemma push_loop_spec : forall rem s w, Inv s w -> (rem <> [] -> isdir s = true /\ rootp s = true) ->
  let '(r, s', w') := push_loop rem s w in
  Inv s' w' /\ r <> RPanic /\
  (r = ROk -> exists names, rem = map Normal names /\ cur s' = cur s ++ names).
Proof.
  induction rem as [|c rem IH]; intros s w HI Hpre.
  - cbn [push_loop]. split; [exact HI|]. split; [discriminate|]. intros _. exists []. now rewrite app_nil_r.
  - destruct c as [n|]; cbn [push_loop].
    2:{ split; [exact HI|]. split; discriminate. }
    destruct (Hpre ltac:(discriminate)) as [Hdir Hroot].
    destruct HI as (Hv & Habs & Hu & Hds & Hd & Hr).
    set (last := is_nil rem).
    set (s1 := {| cur := cur s ++ [n]; cur_abs := cur_abs s ++ [n]; valid := S (valid s);
                  isdir := negb last; rootp := rootp s |}).
    unfold d_push at 1. destruct (take_answer w) as [a ans1] eqn:Ea.
    set (w1 := {| ds := ds w; underflow := underflow w; answers := ans1; log := EPush (cur s1) last a :: log w |}).
    assert (Hds0 : ds w = [[]] ++ prefixes (cur s)).
    { rewrite Hds. unfold expected_ds, dir_part. now rewrite Hdir, Hroot. }
    (* the state after rejecting this component *)
    assert (Hrej : forall w2, ds w2 = ds w -> underflow w2 = false ->
              Inv {| cur := removelast (cur s1); cur_abs := removelast (cur_abs s1);
                     valid := valid s1 - 1; isdir := true; rootp := rootp s1 |} w2).
    { intros w2 E2 U2. subst s1. cbn [cur cur_abs valid rootp]. rewrite !removelast_snoc.
      split; [cbn [valid cur]; lia|]. unfold Inv0. cbn [cur cur_abs isdir rootp].
      split; [exact Habs|]. split; [exact U2|]. split.
      - rewrite E2, Hds0. unfold expected_ds, dir_part. cbn [isdir cur rootp]. now rewrite Hroot.
      - split; auto. }
    destruct a; cbn [andb].
    + destruct (isdir s1) eqn:Ed1.
      * (* directory component: push_directory *)
        unfold d_push_directory. destruct (take_answer w1) as [a2 ans2] eqn:Ea2.
        destruct a2.
        -- (* accepted: continue *)
           set (w2 := {| ds := ds w1 ++ [cur s1]; underflow := underflow w1; answers := ans2;
                         log := EPushDir (cur s1) true :: log w1 |}).
           assert (HI1 : Inv s1 w2).
           { subst s1. split; [cbn [valid cur]; rewrite app_length; cbn [length]; lia|].
             unfold Inv0. cbn [cur cur_abs isdir rootp ds underflow w2 w1].
             split; [rewrite Habs; reflexivity|]. split; [exact Hu|]. split.
             - rewrite Hds0. unfold expected_ds, dir_part. cbn [isdir cur rootp] in Ed1 |- *.
               rewrite Ed1, Hroot, prefixes_snoc. now rewrite app_assoc.
             - split; [intros H; now destruct (cur s)|auto]. }
           specialize (IH s1 w2 HI1 ltac:(intros _; split; [exact Ed1 | exact Hroot])).
           destruct (push_loop rem s1 w2) as [[r s'] w']. destruct IH as (I' & Hp & Hok).
           split; [exact I'|]. split; [exact Hp|]. intros Hr'. destruct (Hok Hr') as (names & E1 & E2).
           exists (n :: names). split; [cbn [map]; now rewrite E1|].
           rewrite E2. subst s1. cbn [cur]. now rewrite <- app_assoc.
        -- (* push_directory rejected *)
           split; [apply Hrej; reflexivity || exact Hu|]. split; discriminate.
      * (* last component: no push_directory *)
        assert (Hl : rem = []).
        { subst s1 last. cbn [isdir] in Ed1. destruct rem; [reflexivity | discriminate]. }
        subst rem. cbn [push_loop].
        split.
        -- subst s1. split; [cbn [valid cur]; rewrite app_length; cbn [length]; lia|].
           unfold Inv0. cbn [cur cur_abs isdir rootp ds underflow w1].
           split; [rewrite Habs; reflexivity|]. split; [exact Hu|]. split.
           ++ rewrite Hds0. unfold expected_ds, dir_part. cbn [isdir cur rootp] in Ed1 |- *.
              rewrite Ed1, Hroot, removelast_snoc. reflexivity.
           ++ split; [intros H; now destruct (cur s)|auto].
        -- split; [discriminate|]. intros _. exists [n]. split; reflexivity.
    + (* push rejected *)
      split; [apply Hrej; reflexivity || exact Hu|]. split; discriminate.
Qed.

(* ---- make_current --------------------------------------------------------------------- *)
Lemma make_current_spec s w rel : Inv s w ->
  let '(r, s', w') := make_current s w rel in
  Inv s' w' /\ r <> RPanic /\ (r = ROk -> components rel = map Normal (cur s')).
Proof.
  intros HI. unfold make_current.
  destruct (negb (Nat.eqb (valid s) 0) && is_nil rel) eqn:E0.
  { split; [exact HI|]. split; discriminate. }
  (* root push *)
  set (t := if Nat.eqb (valid s) 0 && negb (rootp s) then _ else _).
  assert (Ht : let '(okroot, s0, w0) := t in
            Inv s0 w0 /\ cur s0 = cur s /\ valid s0 = valid s /\ isdir s0 = isdir s /\
            (okroot = true -> rootp s0 = true)).
  { subst t. destruct (Nat.eqb (valid s) 0 && negb (rootp s)) eqn:E1.
    - apply Bool.andb_true_iff in E1. destruct E1 as [Ev Er]. apply Nat.eqb_eq in Ev.
      apply Bool.negb_true_iff in Er.
      destruct HI as (Hv & Habs & Hu & Hds & Hd & Hr).
      assert (Hc : cur s = []) by (destruct (cur s); [reflexivity | cbn in Hv; lia]).
      unfold d_push_directory. destruct (take_answer w) as [a ans1].
      split; [|repeat split; auto].
      split; [exact Hv|]. unfold Inv0. cbn [cur cur_abs isdir rootp ds underflow].
      split; [exact Habs|]. split; [exact Hu|]. split.
      + rewrite Hds. unfold expected_ds, dir_part. cbn [isdir cur rootp]. rewrite Er, Hc, (Hd Hc).
        destruct a; reflexivity.
      + split; [exact Hd | intros H; now elim H].
    - split; [exact HI|]. repeat split; auto. intros _.
      destruct HI as (Hv & _ & _ & _ & _ & Hr). apply Bool.andb_false_iff in E1. destruct E1 as [E1|E1].
      + apply Hr. apply Nat.eqb_neq in E1. destruct (cur s); [cbn in Hv; lia | discriminate].
      + now apply Bool.negb_false_iff in E1. }
  destruct t as [[okroot s0] w0]. destruct Ht as (HI0 & Hc0 & Hv0 & Hd0 & Hroot0).
  destruct okroot; cbn [negb].
  2:{ split; [exact HI0|]. split; discriminate. }
  specialize (Hroot0 eq_refl).
  pose proof (common_spec (cur s0) (components rel)) as Hcm.
  destruct (common (cur s0) (components rel)) as [matching rem]. destruct Hcm as [Hk Hcomp].
  destruct HI0 as (Hv & HI0).
  destruct (Nat.ltb_spec (valid s0) matching) as [Hlt|Hge]; [lia|].
  pose proof (pops_spec (valid s0 - matching) s0 w0 ltac:(lia) HI0) as Hp.
  destruct (pops (valid s0 - matching) s0 w0) as [s1 w1].
  destruct Hp as (HI1 & Hc1 & Hr1 & Hv1 & Hdir1).
  replace (length (cur s0) - (valid s0 - matching))%nat with matching in Hc1 by lia.
  set (s2 := {| cur := cur s1; cur_abs := cur_abs s1; valid := matching; isdir := isdir s1; rootp := rootp s1 |}).
  assert (HI2 : Inv s2 w1).
  { split; [subst s2; cbn [valid cur]; rewrite Hc1, firstn_length; lia|]. exact HI1. }
  (* finishing argument shared by both branches *)
  assert (Hdone : forall r s' w', Inv s' w' -> r <> RPanic ->
            (r = ROk -> exists names, rem = map Normal names /\ cur s' = cur s2 ++ names) ->
            Inv s' w' /\ r <> RPanic /\ (r = ROk -> components rel = map Normal (cur s'))).
  { intros r s' w' Hi Hnp Hok. split; [exact Hi|]. split; [exact Hnp|]. intros Hr.
    destruct (Hok Hr) as (names & En & Ec). rewrite Hcomp, En, Ec. subst s2. cbn [cur].
    rewrite Hc1, map_app. reflexivity. }
  destruct (negb (isdir s2) && negb (is_nil rem)) eqn:E2.
  - apply Bool.andb_true_iff in E2. destruct E2 as [Ed2 En2].
    apply Bool.negb_true_iff in Ed2. apply Bool.negb_true_iff in En2.
    unfold d_push_directory. destruct (take_answer w1) as [a ans2].
    destruct a.
    + set (s3 := {| cur := cur s2; cur_abs := cur_abs s2; valid := valid s2; isdir := true; rootp := rootp s2 |}).
      set (w2 := {| ds := ds w1 ++ [cur s2]; underflow := underflow w1; answers := ans2;
                    log := EPushDir (cur s2) true :: log w1 |}).
      (* the leaf of s2 is a file-like component: cur s2 is non-empty *)
      destruct HI2 as (Hv2 & Habs2 & Hu2 & Hds2 & Hd2 & Hr2).
      assert (Hne : cur s2 <> []).
      { intros H. specialize (Hd2 H). congruence. }
      destruct (snoc_cases (cur s2)) as [H | (c' & x & Ex)]; [contradiction|].
      assert (HI3 : Inv s3 w2).
      { split; [exact Hv2|]. unfold Inv0. subst s3 w2. cbn [cur cur_abs isdir rootp ds underflow].
        split; [exact Habs2|]. split; [exact Hu2|]. split.
        - rewrite Hds2. unfold expected_ds, dir_part. cbn [isdir]. rewrite Ed2.
          change (cur s2) with (cur s1) in Ex. cbn [cur s2]. rewrite Ex, removelast_snoc, prefixes_snoc. now rewrite app_assoc.
        - split; [intros H; contradiction | exact Hr2]. }
      pose proof (push_loop_spec rem s3 w2 HI3
                    ltac:(intros _; split; [reflexivity | apply Hr2; exact Hne])) as Hpl.
      destruct (push_loop rem s3 w2) as [[r s'] w']. destruct Hpl as (Hi & Hnp & Hok).
      apply Hdone; auto.
    + split; [|split; discriminate].
      destruct HI2 as (Hv2 & Habs2 & Hu2 & Hds2 & Hd2 & Hr2).
      split; [exact Hv2|]. unfold Inv0. cbn [ds underflow]. repeat split; auto.
  - pose proof (push_loop_spec rem s2 w1 HI2) as Hpl.
    assert (Hpre : rem <> [] -> isdir s2 = true /\ rootp s2 = true).
    { intros Hrem. apply Bool.andb_false_iff in E2. destruct E2 as [E2|E2].
      - apply Bool.negb_false_iff in E2. split; [exact E2|]. subst s2. cbn [rootp]. now rewrite Hr1.
      - apply Bool.negb_false_iff in E2. destruct rem; [now elim Hrem | discriminate]. }
    specialize (Hpl Hpre). destruct (push_loop rem s2 w1) as [[r s'] w'].
    destruct Hpl as (Hi & Hnp & Hok). apply Hdone; auto.
Qed.

(* ---- histories ------------------------------------------------------------------------ *)
Definition good (x : result * stack * world) : Prop :=
  let '(r, s, w) := x in Inv s w /\ r <> RPanic.

Lemma run_history_good : forall paths s w acc, Inv s w -> Forall good acc ->
  Forall good (run_history paths s w acc).
Proof.
  induction paths as [|p paths IH]; intros s w acc HI Hacc; cbn [run_history].
  - now apply Forall_rev.
  - pose proof (make_current_spec s w p HI) as H. destruct (make_current s w p) as [[r s'] w'].
    destruct H as (HI' & Hnp & _). apply IH; [exact HI'|]. constructor; [split; assumption | exact Hacc].
Qed.

(* what the invariant means for an observer *)
Lemma inv_meaning s w : Inv s w ->
  cur_abs s = ROOT :: cur s /\
  underflow w = false /\
  ds w = (if rootp s then [[]] else []) ++ prefixes (if isdir s then cur s else removelast (cur s)) /\
  (cur s <> [] -> rootp s = true).
Proof. intros (_ & Ha & Hu & Hd & _ & Hr). repeat split; auto. Qed.

(* the state reached after a history *)
Fixpoint after (paths : list bytes) (s : stack) (w : world) : stack * world :=
  match paths with
  | [] => (s, w)
  | p :: r => let '(_, s', w') := make_current s w p in after r s' w'
  end.

Lemma after_inv : forall paths s w, Inv s w -> let '(s', w') := after paths s w in Inv s' w'.
Proof.
  induction paths as [|p paths IH]; intros s w HI; cbn [after]; [exact HI|].
  pose proof (make_current_spec s w p HI) as H. destruct (make_current s w p) as [[r s'] w'].
  apply IH. apply H.
Qed.

Definition observable_ok (x : result * stack * world) : Prop :=
  let '(r, s, w) := x in
  r <> RPanic /\
  cur_abs s = ROOT :: cur s /\
  underflow w = false /\
  ds w = (if rootp s then [[]] else []) ++ prefixes (if isdir s then cur s else removelast (cur s)) /\
  (cur s <> [] -> rootp s = true).

Lemma L_every_history : forall paths ans,
  Forall observable_ok (run_history paths new_stack (new_world ans) []).
Proof.
  intros paths ans.
  pose proof (run_history_good paths new_stack (new_world ans) [] (inv_init ans) (Forall_nil _)) as H.
  eapply Forall_impl; [|exact H]. intros [[r s] w] [HI Hnp]. unfold observable_ok.
  split; [exact Hnp|]. now apply inv_meaning.
Qed.

Lemma L_ok_sets_path : forall paths ans p,
  let '(s, w) := after paths new_stack (new_world ans) in
  let '(r, s', w') := make_current s w p in
  r <> RPanic /\ (r = ROk -> components p = map Normal (cur s') /\ cur_abs s' = ROOT :: cur s').
Proof.
  intros paths ans p. pose proof (after_inv paths new_stack (new_world ans) (inv_init ans)) as HI.
  destruct (after paths new_stack (new_world ans)) as [s w].
  pose proof (make_current_spec s w p HI) as H. destruct (make_current s w p) as [[r s'] w'].
  destruct H as (HI' & Hnp & Hok). split; [exact Hnp|]. intros Hr. split; [now apply Hok|].
  now destruct (inv_meaning _ _ HI') as (? & _).
Qed.
