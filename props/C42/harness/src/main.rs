//! C42 harness: gix_fs::Stack::make_relative_path_current with a scripted delegate that rejects.
use gixv_common::*;
use gix_fs::Stack;
use std::os::unix::ffi::OsStrExt;
use std::path::{Path, PathBuf};

const ROOT: &str = "/ROOT";

struct Scripted {
    answers: Vec<bool>,
    next: usize,
    ds: Vec<Vec<u8>>, // relative dir paths pushed, bottom first
    underflow: bool,
    events: Vec<String>,
}
impl Scripted {
    fn answer(&mut self) -> bool {
        let a = self.answers.get(self.next).copied().unwrap_or(true);
        self.next += 1;
        a
    }
}
fn show(p: &Path) -> String {
    format!("<{}>", hexs(p.as_os_str().as_bytes()))
}
fn rejected() -> std::io::Error {
    std::io::Error::new(std::io::ErrorKind::Other, "rejected")
}
impl gix_fs::stack::Delegate for Scripted {
    fn push_directory(&mut self, stack: &Stack) -> std::io::Result<()> {
        let a = self.answer();
        self.events.push(format!("D{}{}", a as u8, show(stack.current_relative())));
        if a {
            self.ds.push(stack.current_relative().as_os_str().as_bytes().to_vec());
            Ok(())
        } else {
            Err(rejected())
        }
    }
    fn push(&mut self, is_last_component: bool, stack: &Stack) -> std::io::Result<()> {
        let a = self.answer();
        self.events.push(format!("P{}{}{}", a as u8, is_last_component as u8, show(stack.current_relative())));
        if a {
            Ok(())
        } else {
            Err(rejected())
        }
    }
    fn pop_directory(&mut self) {
        self.events.push("O".into());
        if self.ds.pop().is_none() {
            self.underflow = true;
        }
    }
}

const COMPS: &[&str] = &["a", "b", "ab", "a", "b", "c", ".", "..", "", "a.b"];

fn gen_path(rng: &mut Rng, weird: bool) -> Vec<u8> {
    let n = rng.range(1, 4) as usize;
    let mut parts: Vec<&str> = Vec::new();
    for _ in 0..n {
        let c = if weird { *rng.pick(COMPS) } else { *rng.pick(&COMPS[..6]) };
        parts.push(c);
    }
    let mut s = parts.join("/");
    if weird && rng.chance(1, 6) {
        s.insert(0, '/');
    }
    if weird && rng.chance(1, 8) {
        s.push('/');
    }
    if weird && rng.chance(1, 10) {
        s.clear();
    }
    s.into_bytes()
}

fn gen(rng: &mut Rng, n: usize) -> Vec<Case> {
    let mut out: Vec<Case> = Vec::new();
    // boundary block: the §10 witnesses and their neighbours
    let fixed: &[(&str, &[&str])] = &[
        ("", &["a/b/c", "a/b/d", "x"]),
        ("1110", &["a/b/c", "a/d"]),        // reject push of mid component b (P a, D a, P b rejected)
        ("11110", &["a/b/c", "a/d"]),       // reject push_directory of b
        ("1110", &["a/b", "a/c"]),          // reject leaf b, then sibling
        ("10", &["a", "a", "b/c"]),         // reject first component, root must not be pushed twice
        ("0", &["a", "a/b"]),               // reject root push_directory
        ("", &["", "", "a"]),               // empty path at the root, twice
        ("", &["a", "", "a/b"]),            // empty path when not at root is an error
        ("", &["a", "a/../b", "a/b"]),      // leaf becomes directory, then invalid component
        ("", &["a/b", "a/b/c", "a"]),       // leaf becomes directory
        ("1111110", &["a/b", "a/b/c", "a/b/c"]),
        ("", &["/a", "a/./b", "./a", "a//b", "a/b/"]),
    ];
    for (ans, paths) in fixed {
        let mut c = vec![tag("hist"), ans.as_bytes().to_vec()];
        c.extend(paths.iter().map(|p| p.as_bytes().to_vec()));
        out.push(c);
    }
    while out.len() < n {
        let calls = rng.range(1, 8) as usize;
        let weird = rng.chance(1, 4);
        let reject_rate = *rng.pick(&[0u64, 0, 1, 2, 4]);
        let nans = rng.range(0, 40) as usize;
        let ans: Vec<u8> = (0..nans).map(|_| if rng.below(10) < reject_rate { b'0' } else { b'1' }).collect();
        let mut c = vec![tag("hist"), ans];
        let mut prev: Vec<u8> = Vec::new();
        for _ in 0..calls {
            // often extend or share a prefix with the previous path
            let p = match rng.below(4) {
                0 if !prev.is_empty() => {
                    let mut p = prev.clone();
                    p.push(b'/');
                    p.extend(gen_path(rng, false));
                    p
                }
                1 if prev.contains(&b'/') => {
                    let cut = prev.iter().rposition(|b| *b == b'/').unwrap();
                    let mut p = prev[..cut + 1].to_vec();
                    p.extend(gen_path(rng, weird));
                    p
                }
                _ => gen_path(rng, weird),
            };
            prev = p.clone();
            c.push(p);
        }
        out.push(c);
    }
    out.truncate(n.max(1));
    out
}

struct CallOut {
    ok: bool,
    cur: PathBuf,
    rel: PathBuf,
    events: Vec<String>,
}

fn run(c: &Case) -> (Vec<CallOut>, Scripted) {
    let answers: Vec<bool> = f_str(c, 1).iter().map(|b| *b == b'1').collect();
    let mut d = Scripted { answers, next: 0, ds: vec![], underflow: false, events: vec![] };
    let mut stack = Stack::new(PathBuf::from(ROOT));
    let mut calls = Vec::new();
    for p in c.iter().skip(2) {
        let path = Path::new(std::ffi::OsStr::from_bytes(p));
        let r = stack.make_relative_path_current(path, &mut d);
        calls.push(CallOut {
            ok: r.is_ok(),
            cur: stack.current().to_owned(),
            rel: stack.current_relative().to_owned(),
            events: std::mem::take(&mut d.events),
        });
    }
    (calls, d)
}

fn imp(c: &Case) -> String {
    let (calls, d) = run(c);
    let mut parts = Vec::new();
    for co in &calls {
        // current is printed relative to the model's root marker: "/ROOT/a/b" -> "ROOT/a/b"
        let cur = co.cur.strip_prefix("/").unwrap_or(&co.cur);
        parts.push(format!(
            "{} cur={} rel={} ev={}",
            if co.ok { "ok" } else { "err" },
            show(cur),
            show(&co.rel),
            co.events.join(",")
        ));
    }
    let ds: Vec<String> = d.ds.iter().map(|p| format!("<{}>", hexs(p))).collect();
    format!("{} || ds={}{}", parts.join(" | "), ds.join(","), if d.underflow { " UNDERFLOW" } else { "" })
}

/// Oracle, independent of the model: after every call
///  * current == root.join(current_relative);
///  * if the call returned Ok and the path was plain (only normal components) current_relative == path;
///  * the delegate's directory stack is exactly: the root (once, if it was ever accepted), then every proper
///    directory prefix of current_relative, plus current_relative itself iff the delegate last saw it
///    announced as directory — i.e. ds must always be a chain of prefixes of current_relative, without
///    duplicates, containing all proper prefixes (once the root was pushed), and never underflow.
///    (The leaf itself may legitimately be on the stack: `a/b/c` followed by `a` leaves `a` a known directory.)
fn prop(c: &Case) -> Verdict {
    let answers: Vec<bool> = f_str(c, 1).iter().map(|b| *b == b'1').collect();
    let mut d = Scripted { answers, next: 0, ds: vec![], underflow: false, events: vec![] };
    let mut stack = Stack::new(PathBuf::from(ROOT));
    let mut rejected_any = false;
    let mut root_pushed;
    for (i, p) in c.iter().skip(2).enumerate() {
        let path = Path::new(std::ffi::OsStr::from_bytes(p));
        let plain = !p.is_empty()
            && p.split(|b| *b == b'/').all(|s| !s.is_empty() && s != b"." && s != b"..");
        let r = stack.make_relative_path_current(path, &mut d);
        rejected_any |= r.is_err();
        if stack.current() != Path::new(ROOT).join(stack.current_relative()) {
            return Verdict::fail("current-not-root-join-relative", format!("call {i}"));
        }
        if r.is_ok() && plain && stack.current_relative().as_os_str().as_bytes() != p.as_slice() {
            return Verdict::fail("current-not-last-path", format!("call {i}: {:?}", stack.current_relative()));
        }
        if d.underflow {
            return Verdict::fail("pop-underflow", format!("call {i}"));
        }
        root_pushed = d.ds.first().map(|p| p.is_empty()).unwrap_or(false);
        // expected: [""] ++ proper prefixes (+ optionally the full current_relative)
        let rel = stack.current_relative().as_os_str().as_bytes().to_vec();
        let comps: Vec<&[u8]> = if rel.is_empty() { vec![] } else { rel.split(|b| *b == b'/').collect() };
        let mut expect: Vec<Vec<u8>> = Vec::new();
        if root_pushed {
            expect.push(vec![]);
        }
        for k in 1..comps.len() {
            expect.push(comps[..k].join(&b'/'));
        }
        let mut expect_with_leaf = expect.clone();
        if !comps.is_empty() {
            expect_with_leaf.push(rel.clone());
        }
        if !root_pushed && !d.ds.is_empty() {
            return Verdict::fail("dirs-without-root", format!("call {i}: ds={:?}", d.ds));
        }
        if !root_pushed && !comps.is_empty() {
            return Verdict::fail("components-without-root", format!("call {i}"));
        }
        if d.ds != expect && d.ds != expect_with_leaf {
            let cls = if d.ds.len() > expect_with_leaf.len() { "unbalanced-extra-push" } else { "unbalanced-missing-push" };
            return Verdict::fail(cls, format!("call {i}: ds={:?} current_relative={:?}", d.ds.iter().map(|p| String::from_utf8_lossy(p).into_owned()).collect::<Vec<_>>(), String::from_utf8_lossy(&rel)));
        }
    }
    Verdict::ok(c.len() > 3, if rejected_any { "with-rejections" } else { "no-rejections" })
}

fn main() {
    main_with(Harness { gen, imp, prop, git: None, deadline: std::time::Duration::from_secs(10) });
}
