//! C15 harness: gix_validate::reference::{name, name_partial, name_partial_or_sanitize}, tag::name,
//! gix_ref::PartialName::join  vs  git check-ref-format [--allow-onelevel] and a naive re-statement
//! of git's rules.
use bstr::{BString, ByteSlice};
use gix_validate::reference::name::Error as RErr;
use gix_validate::tag::name::Error as TErr;
use gixv_common::*;
use std::panic::{catch_unwind, AssertUnwindSafe};

/// DESIGN.md alphabet: rich in the bytes the validator branches on
const ALPHA: &[u8] = b"./@{*:~^\\?[ \x7f\x01\x80lockA_-";
const MILD: &[u8] = b"lockA_-a.@{}Z9\xc3";

fn terr(e: &TErr) -> &'static str {
    match e {
        TErr::InvalidByte { .. } => "InvalidByte",
        TErr::StartsWithSlash => "StartsWithSlash",
        TErr::RepeatedSlash => "RepeatedSlash",
        TErr::RepeatedDot => "RepeatedDot",
        TErr::LockFileSuffix => "LockFileSuffix",
        TErr::ReflogPortion => "ReflogPortion",
        TErr::Asterisk => "Asterisk",
        TErr::StartsWithDot => "StartsWithDot",
        TErr::EndsWithDot => "EndsWithDot",
        TErr::EndsWithSlash => "EndsWithSlash",
        TErr::Empty => "Empty",
    }
}
fn rerr(e: &RErr) -> String {
    match e {
        RErr::Tag(t) => format!("Tag.{}", terr(t)),
        RErr::SomeLowercase => "SomeLowercase".into(),
    }
}
fn guard(f: impl FnOnce() -> String) -> String {
    catch_unwind(AssertUnwindSafe(f)).unwrap_or_else(|_| "PANIC".into())
}

fn boundary() -> Vec<&'static [u8]> {
    vec![
        b"", b"/", b"//", b"///", b"@", b"@/", b"/@", b"//@//", b"@@", b"a/@", b"@/a", b"@{", b"a@{b", b"@{/",
        b".", b"..", b"./", b"/.", b"a.", b"a./b", b"a/.b", b"a..b", b".a", b"a/b.", b"a/b./", b"-",
        b".lock", b".lock.lock", b".lock/", b".lock//", b"/.lock", b".lock/.lock", b".lock.lock/", b"a.lock",
        b"a.lock/b", b"a/b.lock", b"a/.lock", b"a/.lock/b", b"a.lock.lock", b"a.lock.lock/b", b"a..lock",
        b"a.lockx", b"a.loc", b"lock", b"a/lock", b"x.lock.y", b"a.lock/", b"a.lock//", b"a//b.lock", b"a.lo/ck",
        b"a.-.lock", b"a/x..lock", b"a.lock.", b".lock.", b"..lock", b"/..lock", b"x/..lock/y",
        b"HEAD", b"FETCH_HEAD", b"MERGE_HEAD", b"HEAD_", b"_", b"Head", b"head", b"HEAD-1", b"HEAD1", b"A", b"a",
        b"HEAD/x", b"refs/heads/main", b"refs/heads/main.ext", b"refs/tags/v1.0", b"main-worktree/HEAD",
        b"refs/heads/*", b"refs/heads/a b", b"refs/heads/a\x7fb", b"refs/heads/a\x01", b"refs/\xe4\xbd\xa0",
        b"refs/heads/a\0b", b"\0", b"a\0", b"refs/heads/", b"/refs/heads/x", b"refs//heads", b"refs/heads/x/",
        b"a~1", b"a^", b"a:b", b"a?b", b"a[b", b"a\\b", b"a]b", b"a{b", b"a}b", b"a|b", b"a`b", b"a\tb", b"a\x1fb",
        b"a b", b"a!b", b"refs/heads/@", b"refs/heads/@{0}", b"refs/heads/x@y", b"@a", b"a@",
    ]
}

fn mk(op: &str, s: Vec<u8>) -> Case {
    vec![tag(op), s]
}

fn structured(rng: &mut Rng) -> Vec<u8> {
    let ncomp = rng.range(1, 4) as usize;
    let mut comps: Vec<Vec<u8>> = (0..ncomp)
        .map(|i| {
            if i == 0 && rng.chance(1, 3) {
                rng.pick(&[&b"refs"[..], b"HEAD", b"FETCH_HEAD", b"refs/heads", b"A_B"]).to_vec()
            } else {
                rng.word(MILD, 1, 6)
            }
        })
        .collect();
    // component-level decorations
    for c in comps.iter_mut() {
        match rng.below(12) {
            0 => c.extend_from_slice(b".lock"),
            1 => c.extend_from_slice(b".lock.lock"),
            2 => c.insert(0, b'.'),
            3 => c.push(b'.'),
            4 => {
                let i = rng.below(c.len() as u64 + 1) as usize;
                c.insert(i, *rng.pick(ALPHA));
            }
            5 => *c = b".lock".to_vec(),
            _ => {}
        }
    }
    let mut s = comps.join(&b"/"[..]);
    match rng.below(14) {
        0 => s.insert(0, b'/'),
        1 => s.push(b'/'),
        2 => s.push(b'.'),
        3 => s = s.replace("/", "//"),
        4 => s.extend_from_slice(b".lock"),
        5 => {
            if !s.is_empty() {
                let i = rng.below(s.len() as u64) as usize;
                s[i] = *rng.pick(ALPHA);
            }
        }
        6 => {
            if !s.is_empty() {
                let i = rng.below(s.len() as u64) as usize;
                s.truncate(i);
            }
        }
        7 => s.extend_from_slice(b"//"),
        _ => {}
    }
    s
}

fn lockish(rng: &mut Rng) -> Vec<u8> {
    let parts: [&[u8]; 14] =
        [b".lock", b"/", b".", b"a", b".lock.lock", b"lock", b"-", b"@", b"{", b"//", b"..", b".loc", b"k", b"*"];
    let n = rng.range(1, 5);
    let mut s = Vec::new();
    for _ in 0..n {
        s.extend_from_slice(*rng.pick(&parts[..]));
    }
    s
}

fn gen(rng: &mut Rng, n: usize) -> Vec<Case> {
    // `vg` cases are also sent to real git (two processes each, ~0.1 s here): all of the boundary block in
    // the thorough tier, every third in the quick tier
    let big = n >= 30_000;
    let mut out: Vec<Case> = boundary()
        .into_iter()
        .enumerate()
        .map(|(i, s)| mk(if big || i % 3 == 0 { "vg" } else { "v" }, s.to_vec()))
        .collect();
    // all single bytes
    for b in 0..=255u8 {
        out.push(mk(if b % 16 == 1 { "vg" } else { "v" }, vec![b]));
    }
    // exhaustive short strings over the alphabet
    let depth = if n >= 300_000 { 4 } else if n >= 30_000 { 3 } else { 2 };
    for len in 1..=depth {
        let mut idx = vec![0usize; len];
        'outer: loop {
            let op = if big && len == 2 && out.len() % 4 == 0 { "vg" } else { "v" };
            out.push(mk(op, idx.iter().map(|&i| ALPHA[i]).collect()));
            for k in (0..len).rev() {
                idx[k] += 1;
                if idx[k] < ALPHA.len() {
                    continue 'outer;
                }
                idx[k] = 0;
            }
            break;
        }
    }
    // join: boundary
    for (a, b) in [(&b"refs"[..], &b"heads"[..]), (b"a", b""), (b"a", b"/"), (b"a", b".lock"), (b"a", b"b.lock"), (b"a", b"@"), (b"@", b"a"), (b"a.lock", b"b"), (b"a", b".b"), (b"a", b"b/"), (b"a", b"/b"), (b"a", b"b.")] {
        out.push(vec![tag("j"), a.to_vec(), b.to_vec()]);
    }
    while out.len() < n {
        let op = if rng.chance(1, 40) { "vg" } else { "v" };
        match rng.below(20) {
            0..=7 => out.push(mk(op, structured(rng))),
            8..=13 => {
                let len = if rng.chance(1, 10) { rng.range(13, 30) } else { rng.range(0, 12) } as usize;
                out.push(mk(op, rng.word(ALPHA, len, len)));
            }
            14..=16 => out.push(mk(op, lockish(rng))),
            17 => {
                // any byte at all
                let len = rng.range(1, 8) as usize;
                out.push(mk(op, rng.bytes(len)));
            }
            _ => {
                let a = if rng.chance(3, 4) { rng.word(b"ab/A_", 1, 5) } else { structured(rng) };
                let b = if rng.chance(1, 2) { structured(rng) } else { rng.word(ALPHA, 0, 6) };
                out.push(vec![tag("j"), a, b]);
            }
        }
    }
    out.truncate(n.max(1));
    out
}

fn show_r(r: Result<&bstr::BStr, RErr>) -> String {
    match r {
        Ok(b) => format!("ok:{}", hexs(b)),
        Err(e) => format!("err:{}", rerr(&e)),
    }
}

fn imp(c: &Case) -> String {
    match f_str(c, 0) {
        b"v" | b"vg" => {
            let s = f_str(c, 1).as_bstr();
            let name = guard(|| show_r(gix_validate::reference::name(s)));
            let partial = guard(|| show_r(gix_validate::reference::name_partial(s)));
            let tagn = guard(|| match gix_validate::tag::name(s) {
                Ok(b) => format!("ok:{}", hexs(b)),
                Err(e) => format!("err:{}", terr(&e)),
            });
            let san = guard(|| format!("ok:{}", hexs(&gix_validate::reference::name_partial_or_sanitize(s))));
            format!("name={name} partial={partial} tag={tagn} san={san}")
        }
        b"j" => {
            let base = f_str(c, 1);
            let comp = f_str(c, 2).as_bstr();
            // the model validates base ++ "/" ++ comp; PartialName can only be built from a valid base,
            // for an invalid base report what name_partial says about the concatenation's prefix rule:
            match gix_ref::PartialName::try_from(BString::from(base)) {
                Ok(p) => guard(|| match p.join(comp) {
                    Ok(j) => format!("join=ok:{}", hexs(j.as_ref().as_bstr())),
                    Err(e) => format!("join=err:{}", rerr(&e)),
                }),
                Err(_) => {
                    // no PartialName exists for this base: fall back to the validator on the concatenation
                    let mut b = base.to_vec();
                    b.push(b'/');
                    b.extend_from_slice(comp);
                    guard(|| format!("join={}", show_r(gix_validate::reference::name_partial(b.as_bstr()))))
                }
            }
        }
        _ => "?".into(),
    }
}

// ------------------------------------------------------------------ oracles

/// git's rules re-stated declaratively (component-wise), independent of the single-pass loop.
fn naive_git(name: &[u8], allow_onelevel: bool) -> bool {
    if name.contains(&0) || name == b"@" || name.is_empty() {
        return false;
    }
    let comps: Vec<&[u8]> = name.split(|b| *b == b'/').collect();
    for c in &comps {
        if c.is_empty() || c[0] == b'.' || c.ends_with(b".lock") {
            return false;
        }
        if c.iter().any(|b| *b < 0x20 || *b == 0x7f || b" ~^:?*[\\".contains(b)) {
            return false;
        }
        if c.windows(2).any(|w| w == b".." || w == b"@{") {
            return false;
        }
    }
    if name.ends_with(b".") {
        return false;
    }
    allow_onelevel || comps.len() >= 2
}
fn one_level_safe(name: &[u8]) -> bool {
    name.iter().all(|b| b.is_ascii_uppercase() || *b == b'_')
}

/// real git; None when the name cannot be passed on a command line unambiguously
fn real_git(name: &[u8], allow_onelevel: bool) -> Option<bool> {
    use std::os::unix::ffi::OsStrExt;
    if name.contains(&0) || name.first() == Some(&b'-') {
        return None;
    }
    let mut cmd = std::process::Command::new("git");
    cmd.arg("check-ref-format");
    if allow_onelevel {
        cmd.arg("--allow-onelevel");
    }
    cmd.arg(std::ffi::OsStr::from_bytes(name));
    cmd.stdout(std::process::Stdio::null()).stderr(std::process::Stdio::null());
    cmd.env("GIT_CONFIG_NOSYSTEM", "1").env("HOME", std::env::temp_dir());
    let st = cmd.status().ok()?;
    match st.code() {
        Some(0) => Some(true),
        Some(1) => Some(false),
        _ => None,
    }
}

fn git(c: &Case) -> String {
    match f_str(c, 0) {
        b"vg" => {
            let s = f_str(c, 1);
            match (real_git(s, false), real_git(s, true)) {
                (Some(f), Some(o)) => {
                    // the plain-Rust oracle used by prop() is itself held against git here
                    let naive = if f != naive_git(s, false) || o != naive_git(s, true) { " NAIVE-ORACLE-DIFFERS" } else { "" };
                    format!("full={} onelevel={}{}", f as u8, o as u8, naive)
                }
                _ => "-".into(),
            }
        }
        _ => "-".into(),
    }
}

fn lossy(s: &[u8]) -> String {
    format!("{:?}", s.as_bstr())
}

fn prop(c: &Case) -> Verdict {
    match f_str(c, 0) {
        b"v" | b"vg" => {
            let s = f_str(c, 1);
            let want_partial = naive_git(s, true);
            let want_full = naive_git(s, false) || (want_partial && one_level_safe(s));
            let got_partial = match catch_unwind(|| gix_validate::reference::name_partial(s.as_bstr()).is_ok()) {
                Ok(v) => v,
                Err(_) => return Verdict::fail("validate-panic", lossy(s)),
            };
            let got_full = match catch_unwind(|| gix_validate::reference::name(s.as_bstr()).is_ok()) {
                Ok(v) => v,
                Err(_) => return Verdict::fail("validate-panic", lossy(s)),
            };
            if got_partial != want_partial {
                // known finding: gix accepts the reference name "@" (pinned by its own test an_at_sign_san)
                let cls = if s == b"@" { "standalone-at" } else if got_partial { "partial-accepts-invalid" } else { "partial-rejects-valid" };
                return Verdict::fail(cls, format!("name_partial({}) ok={} git={}", lossy(s), got_partial, want_partial));
            }
            if got_full != want_full {
                let cls = if got_full { "name-accepts-invalid" } else { "name-rejects-valid" };
                return Verdict::fail(cls, format!("name({}) ok={} git={}", lossy(s), got_full, want_full));
            }
            let san = match catch_unwind(|| gix_validate::reference::name_partial_or_sanitize(s.as_bstr())) {
                Ok(v) => v,
                Err(_) => return Verdict::fail("sanitize-panic", lossy(s)),
            };
            if gix_validate::reference::name_partial(san.as_bstr()).is_err() {
                return Verdict::fail("sanitize-invalid", format!("{} -> {} which name_partial rejects", lossy(s), lossy(&san)));
            }
            if !naive_git(&san, true) {
                // the same known finding seen through the sanitiser: its result is exactly "@"
                let cls = if san.as_slice() == b"@" { "standalone-at" } else { "sanitize-invalid" };
                return Verdict::fail(cls, format!("{} -> {} which git rejects", lossy(s), lossy(&san)));
            }
            let class = if got_full {
                "valid-full"
            } else if got_partial {
                "valid-partial"
            } else if san.len() == s.len() {
                "invalid-replaced"
            } else {
                "invalid-resized"
            };
            Verdict::ok(!s.is_empty(), class)
        }
        b"j" => {
            let base = f_str(c, 1);
            let comp = f_str(c, 2);
            let p = match gix_ref::PartialName::try_from(BString::from(base)) {
                Ok(p) => p,
                Err(_) => return Verdict::ok(false, "join-base-invalid"),
            };
            let mut whole = base.to_vec();
            whole.push(b'/');
            whole.extend_from_slice(comp);
            let want = naive_git(&whole, true);
            match catch_unwind(AssertUnwindSafe(|| p.join(comp.as_bstr()))) {
                Err(_) => Verdict::fail("join-panic", lossy(&whole)),
                Ok(Ok(j)) => {
                    if !want {
                        Verdict::fail("join-accepts-invalid", lossy(&whole))
                    } else if j.as_ref().as_bstr() != whole.as_bstr() {
                        Verdict::fail("join-wrong-value", lossy(&whole))
                    } else {
                        Verdict::ok(true, "join-ok")
                    }
                }
                Ok(Err(_)) => {
                    if want {
                        Verdict::fail("join-rejects-valid", lossy(&whole))
                    } else {
                        Verdict::ok(true, "join-err")
                    }
                }
            }
        }
        _ => Verdict::ok(false, "?"),
    }
}

fn main() {
    main_with(Harness { gen, imp, prop, git: Some(git), deadline: std::time::Duration::from_secs(20) });
}
