(* C15 proofs, part A: the index arithmetic of name_inner's loop never panics and is equivalent to
   an index-free loop [gloop] that carries the reversed consumed input [rin] instead of positions. *)
From Coq Require Import Lia.
From GixV.Base Require Import Bytes BytesFacts Outcome.
From GixV.C15 Require Import Model.
Local Open Scope outcome_scope.

Definition rlock6 (r : bytes) : bool := rlock r && Nat.leb 6 (length r).
Definition is_nil (l : bytes) : bool := match l with [] => true | _ => false end.

Fixpoint gloop (san : bool) (rest rin rout : bytes) : outcome bytes terr :=
  match rest with
  | [] => Ok rout
  | b :: rest' =>
      let prev := hd x00 rin in
      let continue (rout' : bytes) := gloop san rest' (b :: rin) rout' in
      if is_invalid_byte b then (if san then continue (dash :: rout) else Err InvalidByte)
      else if beqb b star then (if san then continue (dash :: rout) else Err Asterisk)
      else if beqb b dot && beqb prev dot then (if san then continue rout else Err RepeatedDot)
      else if beqb b dot && beqb prev slash then (if san then continue (dash :: rout) else Err StartsWithDot)
      else if beqb b lbrace && beqb prev at_ then (if san then continue (dash :: rout) else Err ReflogPortion)
      else if beqb b slash && beqb prev slash then (if san then continue rout else Err RepeatedSlash)
      else
        let midlock := beqb b slash && rlock rin in
        if midlock && negb san then Err LockFileSuffix
        else
          let rout1 := if midlock then strip_lock rout else rout in
          let rout2 := if san then b :: rout1 else rout1 in
          let fin := is_nil rest' && rlock6 (b :: rin) in
          if fin && negb san then Err LockFileSuffix
          else continue (if fin then strip_lock rout2 else rout2)
  end.

Lemma gloop_no_panic san : forall rest rin rout,
  gloop san rest rin rout <> Panic /\ gloop san rest rin rout <> OutOfFuel.
Proof.
  induction rest as [|b rest IH]; intros rin rout; cbn [gloop]; [split; discriminate|].
  repeat match goal with
  | |- context [if ?c then _ else _] => destruct c
  end; try (split; discriminate); apply IH.
Qed.

(* ---- ends_with ".lock" on a reversed list ------------------------------------------------ *)

Lemma ends_with_rlock r : ends_with (rev r) dot_lock = rlock r.
Proof.
  unfold ends_with, dot_lock. rewrite rev_length. cbn [length].
  destruct r as [|a [|b [|c [|d [|e t]]]]]; try reflexivity.
  replace (Nat.leb 5 (length (a :: b :: c :: d :: e :: t))) with true by (cbn [length]; reflexivity).
  rewrite skipn_rev.
  replace (length (a :: b :: c :: d :: e :: t) - (length (a :: b :: c :: d :: e :: t) - 5))%nat with 5%nat
    by (cbn [length]; lia).
  cbn [firstn rev app andb bytes_eqb rlock].
  destruct (beqb e x2e), (beqb d x6c), (beqb c x6f), (beqb b x63), (beqb a x6b); reflexivity.
Qed.

Lemma rlock_no_slash r : rlock r = true ->
  forall i, (i < 5)%nat -> nth_error r i <> Some slash.
Proof.
  destruct r as [|a [|b [|c [|d [|e t]]]]]; cbn [rlock]; try discriminate.
  intros H. repeat (apply Bool.andb_true_iff in H; destruct H as [H ?]).
  repeat match goal with Hx : beqb _ _ = true |- _ => apply beqb_eq in Hx end. subst.
  intros [|[|[|[|[|i]]]]] Hi; cbn [nth_error]; try discriminate; lia.
Qed.

Lemma rlock_firstn5 m r : (5 <= m)%nat -> rlock (firstn m r) = rlock r.
Proof.
  intros Hm. destruct m as [|[|[|[|[|m]]]]]; try lia.
  destruct r as [|a [|b [|c [|d [|e t]]]]]; reflexivity.
Qed.

Lemma rlock_short r : (length r < 5)%nat -> rlock r = false.
Proof. destruct r as [|a [|b [|c [|d [|e t]]]]]; cbn [length]; try reflexivity; lia. Qed.

(* a component slice that starts at the input's begin or at a recorded slash *)
Lemma rlock_firstn_mid m r :
  (m = length r \/ (1 <= m /\ nth_error r (m - 1) = Some slash)) ->
  rlock (firstn m r) = rlock r.
Proof.
  intros [->|[Hm Hs]]; [now rewrite firstn_all|].
  destruct (Nat.le_gt_cases 5 m) as [H5|H5]; [now apply rlock_firstn5|].
  rewrite rlock_short by (rewrite firstn_length; lia).
  destruct (rlock r) eqn:E; [|reflexivity].
  exfalso. apply (rlock_no_slash r E (m - 1)%nat); [lia|exact Hs].
Qed.

(* the tail slice input[cend+1..] at the last byte *)
Lemma rlock_firstn_tail m r :
  ((m = length r - 1)%nat \/ nth_error r m = Some slash) ->
  rlock (firstn m r) = rlock6 r.
Proof.
  unfold rlock6. intros H.
  destruct (Nat.le_gt_cases 5 m) as [H5|H5].
  - rewrite rlock_firstn5 by exact H5.
    assert (6 <= length r)%nat as Hl.
    { destruct H as [->|Hs]; [lia|]. assert (m < length r)%nat by (apply nth_error_Some; congruence). lia. }
    apply Nat.leb_le in Hl. rewrite Hl. now rewrite Bool.andb_true_r.
  - rewrite rlock_short by (rewrite firstn_length; lia).
    destruct (rlock r) eqn:E; [|reflexivity]. cbn [andb].
    destruct H as [->|Hs].
    + symmetry. apply Nat.leb_gt. lia.
    + exfalso. apply (rlock_no_slash r E m); [lia|exact Hs].
Qed.

(* ---- the invariant on component_end ------------------------------------------------------- *)

Definition cend_inv (cend : nat) (rin : bytes) : Prop :=
  cend = 0%nat \/ ((cend < length rin)%nat /\ nth_error rin (length rin - cend - 1) = Some slash).

Lemma cend_inv_push cend rin b : cend_inv cend rin -> cend_inv cend (b :: rin).
Proof.
  intros [->|[Hl Hs]]; [now left|right]. cbn [length]. split; [lia|].
  replace (S (length rin) - cend - 1)%nat with (S (length rin - cend - 1)) by lia. exact Hs.
Qed.

Lemma cend_inv_slash rin : cend_inv (length rin) (slash :: rin).
Proof.
  right. cbn [length]. split; [lia|]. replace (S (length rin) - length rin - 1)%nat with 0%nat by lia. reflexivity.
Qed.

Lemma slice_mid (rin rest : bytes) cend : cend_inv cend rin ->
  exists comp, @slice terr (rev rin ++ rest) cend (length rin) = Ok comp /\ ends_with comp dot_lock = rlock rin.
Proof.
  intros Hc. unfold slice.
  assert (cend <= length rin)%nat as Hle by (destruct Hc as [->|[? _]]; lia).
  apply Nat.leb_le in Hle as Hle'. rewrite Hle'.
  assert (Nat.leb (length rin) (length (rev rin ++ rest)) = true) as ->
    by (apply Nat.leb_le; rewrite app_length, rev_length; lia).
  cbn [andb]. eexists. split; [reflexivity|].
  rewrite skipn_app, rev_length, firstn_app.
  replace (cend - length rin)%nat with 0%nat by lia. cbn [skipn].
  rewrite skipn_length, rev_length.
  replace (length rin - cend - (length rin - cend))%nat with 0%nat by lia.
  cbn [firstn]. rewrite app_nil_r.
  rewrite firstn_all2 by (rewrite skipn_length, rev_length; lia).
  rewrite skipn_rev, ends_with_rlock.
  apply rlock_firstn_mid.
  destruct Hc as [->|[Hl Hs]]; [left; lia|right]. split; [lia|].
  replace (length rin - cend - 1)%nat with (length rin - cend - 1)%nat by lia. exact Hs.
Qed.

Lemma slice_tail (rin : bytes) cend : cend_inv cend rin -> rin <> [] ->
  exists tl, @slice_from terr (rev rin) (S cend) = Ok tl /\ ends_with tl dot_lock = rlock6 rin.
Proof.
  intros Hc Hne. unfold slice_from. rewrite rev_length.
  assert (S cend <= length rin)%nat as Hle.
  { destruct Hc as [->|[? _]]; [|lia]. destruct rin; [congruence|cbn [length]; lia]. }
  apply Nat.leb_le in Hle as Hle'. rewrite Hle'. eexists. split; [reflexivity|].
  rewrite skipn_rev, ends_with_rlock. apply rlock_firstn_tail.
  destruct Hc as [->|[Hl Hs]]; [left; lia|right].
  replace (length rin - S cend)%nat with (length rin - cend - 1)%nat by lia. exact Hs.
Qed.

Lemma eqb_last_pos (rin rest' : bytes) (b : byte) :
  Nat.eqb (length rin) (length (rev rin ++ b :: rest') - 1) = is_nil rest'.
Proof.
  rewrite app_length, rev_length. cbn [length].
  destruct rest' as [|x r]; cbn [is_nil length].
  - apply Nat.eqb_eq. lia.
  - apply Nat.eqb_neq. lia.
Qed.

Lemma loop_gloop san input : forall rest rin rout cend,
  input = rev rin ++ rest -> cend_inv cend rin ->
  loop san input (length input - 1) rest (length rin) rout (hd x00 rin) cend = gloop san rest rin rout.
Proof.
  induction rest as [|b rest IH]; intros rin rout cend Hin Hc; [reflexivity|].
  assert (Hin' : input = rev (b :: rin) ++ rest) by (cbn [rev]; rewrite <- app_assoc; exact Hin).
  pose proof (cend_inv_push cend rin b Hc) as Hc'.
  pose proof (IH (b :: rin)) as IHs. cbn [length hd] in IHs.
  cbn [loop gloop].
  destruct (is_invalid_byte b). { destruct san; [apply IHs; assumption|reflexivity]. }
  destruct (beqb b star). { destruct san; [apply IHs; assumption|reflexivity]. }
  destruct (beqb b dot && beqb (hd x00 rin) dot). { destruct san; [apply IHs; assumption|reflexivity]. }
  destruct (beqb b dot && beqb (hd x00 rin) slash). { destruct san; [apply IHs; assumption|reflexivity]. }
  destruct (beqb b lbrace && beqb (hd x00 rin) at_). { destruct san; [apply IHs; assumption|reflexivity]. }
  destruct (beqb b slash && beqb (hd x00 rin) slash). { destruct san; [apply IHs; assumption|reflexivity]. }
  assert (Hl : Nat.eqb (length rin) (length input - 1) = is_nil rest)
    by (rewrite Hin; apply eqb_last_pos).
  rewrite Hl.
  destruct (beqb b slash) eqn:Eb.
  - apply beqb_eq in Eb. subst b.
    destruct (slice_mid rin (slash :: rest) cend Hc) as (comp & Hs & He).
    rewrite <- Hin in Hs. rewrite Hs. cbn [obind]. rewrite He. cbn [andb].
    pose proof (cend_inv_slash rin) as Hcs.
    destruct (rlock rin); destruct san; cbn [andb negb obind fst snd]; try reflexivity.
    all: destruct (is_nil rest) eqn:En; cbn [andb obind];
      [ destruct rest; [|discriminate];
        destruct (slice_tail (slash :: rin) (length rin) Hcs ltac:(discriminate)) as (tl & Ht & Het);
        rewrite app_nil_r in Hin'; rewrite <- Hin' in Ht; rewrite Ht; cbn [obind]; rewrite Het;
        destruct (rlock6 (slash :: rin)); cbn [obind negb]; try reflexivity; apply IHs; assumption
      | apply IHs; assumption ].
  - cbn [andb obind fst snd].
    destruct (is_nil rest) eqn:En; cbn [andb obind].
    + destruct rest; [|discriminate].
      destruct (slice_tail (b :: rin) cend Hc' ltac:(discriminate)) as (tl & Ht & Het).
      rewrite app_nil_r in Hin'. rewrite <- Hin' in Ht. rewrite Ht. cbn [obind]. rewrite Het.
      destruct (rlock6 (b :: rin)); destruct san; cbn [obind negb andb]; try reflexivity; apply IHs; assumption.
    + destruct san; cbn [negb andb]; apply IHs; assumption.
Qed.
