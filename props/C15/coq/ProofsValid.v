(* C15 proofs, part B: what the validating mode accepts, as a predicate [valid_tag] on the name:
   every byte is acceptable after its predecessor ([pre_ok] on the reversed name), plus the
   conditions on the first and last byte. *)
From Coq Require Import Lia.
From GixV.Base Require Import Bytes BytesFacts Outcome.
From GixV.C15 Require Import Model ProofsLoop.
Local Open Scope outcome_scope.

(* may byte b follow the (reversed) prefix r ? *)
Definition step_ok (b : byte) (r : bytes) : bool :=
  let prev := hd x00 r in
  negb (is_invalid_byte b) && negb (beqb b star)
  && negb (beqb b dot && beqb prev dot) && negb (beqb b dot && beqb prev slash)
  && negb (beqb b lbrace && beqb prev at_) && negb (beqb b slash && beqb prev slash)
  && negb (beqb b slash && rlock r).

Fixpoint pre_ok (r : bytes) : bool :=
  match r with [] => true | b :: r' => step_ok b r' && pre_ok r' end.

Fixpoint steps_ok (rest rin : bytes) : bool :=
  match rest with [] => true | b :: rest' => step_ok b rin && steps_ok rest' (b :: rin) end.

Lemma pre_ok_steps rest : forall rin, pre_ok (rev rest ++ rin) = steps_ok rest rin && pre_ok rin.
Proof.
  induction rest as [|b rest IH]; intros rin; [reflexivity|].
  cbn [rev steps_ok]. rewrite <- app_assoc. cbn [app]. rewrite IH. cbn [pre_ok].
  destruct (step_ok b rin), (steps_ok rest (b :: rin)); reflexivity.
Qed.

Definition valid_tag (s : bytes) : bool :=
  negb (is_nil s) && negb (beqb (last s x00) slash) && negb (beqb (hd x00 s) slash)
  && pre_ok (rev s) && negb (rlock6 (rev s))
  && negb (beqb (hd x00 s) dot) && negb (beqb (last s x00) dot).

Lemma gloop_false_shape : forall rest rin,
  gloop false rest rin [] = Ok [] \/ exists e, gloop false rest rin [] = Err e.
Proof.
  induction rest as [|b rest IH]; intros rin; cbn [gloop]; [now left|].
  repeat match goal with
  | |- context [if ?c then _ else _] => destruct c
  end; cbn [negb andb]; try (right; eexists; reflexivity); apply IH.
Qed.

Lemma gloop_false_ok : forall rest rin,
  is_ok (gloop false rest rin []) = steps_ok rest rin && (is_nil rest || negb (rlock6 (rev rest ++ rin))).
Proof.
  induction rest as [|b rest IH]; intros rin; [reflexivity|].
  cbn [gloop steps_ok is_nil orb rev]. rewrite <- app_assoc. cbn [app]. unfold step_ok.
  destruct (is_invalid_byte b); [reflexivity|].
  destruct (beqb b star); [reflexivity|].
  destruct (beqb b dot && beqb (hd x00 rin) dot); [reflexivity|].
  destruct (beqb b dot && beqb (hd x00 rin) slash); [reflexivity|].
  destruct (beqb b lbrace && beqb (hd x00 rin) at_); [reflexivity|].
  destruct (beqb b slash && beqb (hd x00 rin) slash); [reflexivity|].
  destruct (beqb b slash && rlock rin); [reflexivity|].
  cbn [negb andb]. rewrite !Bool.andb_true_r.
  destruct rest as [|c rest].
  - cbn [is_nil andb rev app gloop steps_ok]. destruct (rlock6 (b :: rin)); reflexivity.
  - cbn [is_nil andb]. rewrite IH. cbn [is_nil orb]. reflexivity.
Qed.

Lemma nth_error_hd (s : bytes) : s <> [] -> nth_error s 0 = Some (hd x00 s).
Proof. destruct s; [congruence|reflexivity]. Qed.

Lemma nth_error_last (s : bytes) : s <> [] -> nth_error s (length s - 1) = Some (last s x00).
Proof.
  induction s as [|a s IH]; [congruence|]. intros _.
  destruct s as [|b s]; [reflexivity|].
  cbn [length]. replace (S (S (length s)) - 1)%nat with (S (length (b :: s) - 1)) by (cbn [length]; lia).
  cbn [nth_error]. rewrite IH by discriminate. reflexivity.
Qed.

Lemma loop_from_start san input :
  loop san input (length input - 1) input 0 [] x00 0 = gloop san input [] [].
Proof. apply (loop_gloop san input input [] [] 0%nat); [reflexivity|now left]. Qed.

Lemma finish_false input rout : input <> [] ->
  finish false input rout =
  if beqb (hd x00 input) dot then Err StartsWithDot
  else if beqb (last input x00) dot then Err EndsWithDot else Ok None.
Proof.
  intros Hne. unfold finish, index, usize_sub.
  rewrite (nth_error_hd input Hne). cbn [obind].
  destruct (beqb (hd x00 input) dot); [reflexivity|].
  assert (Nat.leb 1 (length input) = true) as -> by (destruct input; [congruence|reflexivity]).
  cbn [obind]. rewrite (nth_error_last input Hne). reflexivity.
Qed.

(* validating mode: Ok None or an error, never a panic; accepted exactly when [valid_tag] *)
Lemma name_inner_validate_shape s :
  name_inner s false = Ok None \/ exists e, name_inner s false = Err e.
Proof.
  unfold name_inner. destruct s as [|a s]; [right; eexists; reflexivity|].
  set (input := a :: s).
  destruct (beqb (last input x00) slash && negb false); [right; eexists; reflexivity|].
  destruct (beqb (hd x00 input) slash && negb false); [right; eexists; reflexivity|].
  rewrite loop_from_start.
  destruct (gloop_false_shape input []) as [->|[e ->]]; [|right; eexists; reflexivity].
  cbn [obind]. rewrite finish_false by discriminate.
  destruct (beqb (hd x00 input) dot); [right; eexists; reflexivity|].
  destruct (beqb (last input x00) dot); [right; eexists; reflexivity|now left].
Qed.

Lemma name_inner_validate_ok s : is_ok (name_inner s false) = valid_tag s.
Proof.
  unfold name_inner, valid_tag. destruct s as [|a s]; [reflexivity|].
  assert (Hne : a :: s <> []) by discriminate.
  assert (Hnil : is_nil (a :: s) = false) by reflexivity.
  generalize dependent (a :: s). intros input Hne Hnil.
  rewrite Hnil. cbn [negb andb].
  destruct (beqb (last input x00) slash); [destruct input; reflexivity|].
  destruct (beqb (hd x00 input) slash); [destruct input; reflexivity|].
  cbn [negb andb].
  rewrite loop_from_start.
  pose proof (gloop_false_ok input []) as Hk.
  replace (pre_ok (rev input)) with (steps_ok input [])
    by (rewrite <- (app_nil_r (rev input)), pre_ok_steps; cbn [pre_ok]; now rewrite Bool.andb_true_r).
  rewrite app_nil_r, Hnil in Hk. cbn [orb] in Hk.
  destruct (gloop_false_shape input []) as [E|[e E]]; rewrite E in Hk |- *; cbn [is_ok obind] in Hk |- *.
  - rewrite <- Hk. cbn [andb]. rewrite finish_false by exact Hne.
    destruct (beqb (hd x00 input) dot); [reflexivity|].
    destruct (beqb (last input x00) dot); reflexivity.
  - rewrite <- Hk. reflexivity.
Qed.

(* ---- the reference-level functions ------------------------------------------------------- *)

Definition has_slash (s : bytes) : bool := existsb (beqb slash) s.
Definition upper_us (s : bytes) : bool := forallb (fun c => is_ascii_uppercase c || beqb c underscore) s.
(* the known deviation: the name is exactly "@" *)
Definition standalone_at (s : bytes) : bool := bytes_eqb s [at_].
(* git's notion of a partial name / a full name, in terms of [valid_tag] (see ProofsGit) *)
Definition valid_partial (s : bytes) : bool := valid_tag s && negb (standalone_at s).
Definition valid_full (s : bytes) : bool := valid_partial s && (has_slash s || upper_us s).

Lemma tag_name_ok s : is_ok (tag_name s) = valid_tag s /\ tag_name s <> Panic /\ tag_name s <> OutOfFuel
  /\ (forall o, tag_name s = Ok o -> o = s).
Proof.
  unfold tag_name. rewrite <- name_inner_validate_ok.
  destruct (name_inner_validate_shape s) as [->|[e ->]]; cbn [obind is_ok];
    repeat split; try discriminate. intros o H. now injection H.
Qed.

Lemma ref_name_partial_ok s :
  is_ok (ref_name_partial s) = valid_tag s /\ ref_name_partial s <> Panic /\ ref_name_partial s <> OutOfFuel
  /\ (forall o, ref_name_partial s = Ok o -> o = s).
Proof.
  unfold ref_name_partial, validate. rewrite <- name_inner_validate_ok.
  destruct (name_inner_validate_shape s) as [->|[e ->]]; cbn [obind is_ok andb].
  - repeat split; try discriminate. intros o H. now injection H.
  - repeat split; discriminate.
Qed.

Lemma at_not_full s : standalone_at s = true -> has_slash s || upper_us s = false.
Proof. unfold standalone_at. intros H. apply bytes_eqb_eq in H. subst s. reflexivity. Qed.

Lemma ref_name_ok s :
  is_ok (ref_name s) = valid_full s /\ ref_name s <> Panic /\ ref_name s <> OutOfFuel
  /\ (forall o, ref_name s = Ok o -> o = s).
Proof.
  assert (Hv : valid_full s = valid_tag s && (has_slash s || upper_us s)).
  { unfold valid_full, valid_partial. destruct (standalone_at s) eqn:E.
    - rewrite (at_not_full s E). rewrite !Bool.andb_false_r. reflexivity.
    - cbn [negb]. rewrite Bool.andb_true_r. reflexivity. }
  rewrite Hv. unfold ref_name, validate. rewrite <- name_inner_validate_ok.
  destruct (name_inner_validate_shape s) as [->|[e ->]]; cbn [obind is_ok andb].
  - fold (has_slash s). fold (upper_us s).
    destruct (has_slash s), (upper_us s); cbn [negb andb orb obind is_ok]; repeat split; try discriminate;
      intros o H; now injection H.
  - repeat split; discriminate.
Qed.
