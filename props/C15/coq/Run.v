(* C15 — transcript printer. cases:  v <name> | vg <name> (same, also sent to real git) | j <base> <comp> *)
From GixV.Base Require Import Bytes Outcome.
From GixV.C15 Require Import Model Spec.

Definition terr_name (e : terr) : bytes :=
  match e with
  | InvalidByte => bs "InvalidByte" | StartsWithSlash => bs "StartsWithSlash"
  | RepeatedSlash => bs "RepeatedSlash" | RepeatedDot => bs "RepeatedDot"
  | LockFileSuffix => bs "LockFileSuffix" | ReflogPortion => bs "ReflogPortion"
  | Asterisk => bs "Asterisk" | StartsWithDot => bs "StartsWithDot" | EndsWithDot => bs "EndsWithDot"
  | EndsWithSlash => bs "EndsWithSlash" | Empty => bs "Empty"
  end.
Definition rerr_name (e : rerr) : bytes :=
  match e with
  | Tag t => bs "Tag." ++ terr_name t
  | SomeLowercase => bs "SomeLowercase"
  end.

Definition show {E} (en : E -> bytes) (o : outcome bytes E) : bytes :=
  match o with
  | Ok a => bs "ok:" ++ hex_encode a
  | Err e => bs "err:" ++ en e
  | Panic => bs "PANIC"
  | OutOfFuel => bs "HANG"
  end.

Definition run_model (fs : list bytes) : bytes :=
  let op := nth_field 0 fs in
  if bytes_eqb op (bs "v") || bytes_eqb op (bs "vg") then
    let s := nth_field 1 fs in
    bs "name=" ++ show rerr_name (ref_name s) ++ bs " partial=" ++ show rerr_name (ref_name_partial s)
    ++ bs " tag=" ++ show terr_name (tag_name s) ++ bs " san=" ++ show rerr_name (ref_sanitize s)
  else if bytes_eqb op (bs "j") then
    bs "join=" ++ show rerr_name (partial_join (nth_field 1 fs) (nth_field 2 fs))
  else bs "?".

Definition run_spec (fs : list bytes) : bytes :=
  let s := nth_field 1 fs in
  bs "full=" ++ bool_to_bytes (git_check s false) ++ bs " onelevel=" ++ bool_to_bytes (git_check s true).

Definition run (fs : list bytes) : bytes :=
  match fs with
  | mode :: rest => if bytes_eqb mode (bs "spec") then run_spec rest else run_model rest
  | [] => bs "?"
  end.
