(* C15 — git's side: refs.c (git 2.39) check_refname_component / check_or_sanitize_refname with
   sanitized == NULL, i.e. check_refname_format(refname, flags) for flags in {0, REFNAME_ALLOW_ONELEVEL}
   (REFNAME_REFSPEC_PATTERN never set), and the one-level rule of refname_is_safe().
   A C string ends at its first NUL; here the refname is a byte list, end-of-list plays the
   terminator, and a name that CONTAINS a NUL byte cannot be handed to git at all: [git_check]
   rejects it up front (the only deviation from a literal transcription). *)
From GixV.Base Require Import Bytes Outcome.
From GixV.C15 Require Import Model.

(* static unsigned char refname_disposition[256] — 128 explicit entries, the rest 0 *)
Definition refname_disposition_tbl : list N :=
  [ 1; 4; 4; 4; 4; 4; 4; 4; 4; 4; 4; 4; 4; 4; 4; 4;
    4; 4; 4; 4; 4; 4; 4; 4; 4; 4; 4; 4; 4; 4; 4; 4;
    4; 0; 0; 0; 0; 0; 0; 0; 0; 0; 5; 0; 0; 0; 2; 1;
    0; 0; 0; 0; 0; 0; 0; 0; 0; 0; 4; 0; 0; 0; 0; 4;
    0; 0; 0; 0; 0; 0; 0; 0; 0; 0; 0; 0; 0; 0; 0; 0;
    0; 0; 0; 0; 0; 0; 0; 0; 0; 0; 0; 4; 4; 0; 4; 0;
    0; 0; 0; 0; 0; 0; 0; 0; 0; 0; 0; 0; 0; 0; 0; 0;
    0; 0; 0; 0; 0; 0; 0; 0; 0; 0; 0; 3; 0; 0; 4; 4 ]%N.
Definition disp (ch : byte) : N := nth (N.to_nat (b2N ch)) refname_disposition_tbl 0%N.

(* the [for (cp = refname; ; cp++)] loop: None = return -1, Some n = reached `out:` with cp - refname = n *)
Fixpoint scan (s : bytes) (last : byte) : option nat :=
  match s with
  | [] => Some O                                  (* *cp == '\0', disposition 1 *)
  | ch :: s' =>
      match disp ch with
      | 1%N => Some O
      | 2%N => if beqb last dot then None else option_map S (scan s' ch)      (* ".." *)
      | 3%N => if beqb last at_ then None else option_map S (scan s' ch)      (* "@{" *)
      | 4%N => None                                                            (* forbidden char *)
      | 5%N => None                                   (* '*' and REFNAME_REFSPEC_PATTERN not set *)
      | _ => option_map S (scan s' ch)
      end
  end.

(* check_refname_component(refname, &flags, NULL): None = -1, Some n = component length *)
Definition check_refname_component (refname : bytes) : option nat :=
  match scan refname x00 with
  | None => None
  | Some n =>
      if Nat.eqb n 0 then Some O                                   (* Component has zero length. *)
      else if beqb (nth 0 refname x00) dot then None               (* Component starts with '.'. *)
      else if Nat.leb 5 n && bytes_eqb (firstn 5 (skipn (n - 5) refname)) dot_lock
      then None                                                    (* ends with ".lock" *)
      else Some n
  end.

(* the [while (1)] loop of check_or_sanitize_refname; on success returns component_count and
   refname[component_len - 1] of the last component *)
Fixpoint check_loop (fuel : nat) (refname : bytes) (count : nat) : outcome (nat * byte) unit :=
  match fuel with
  | O => OutOfFuel
  | S f =>
      match check_refname_component refname with
      | None => Err tt
      | Some O => Err tt                                           (* component_len <= 0 *)
      | Some n =>
          match skipn n refname with
          | [] => Ok (S count, nth (n - 1) refname x00)            (* refname[component_len] == '\0' *)
          | _ :: rest => check_loop f rest (S count)               (* refname += component_len + 1 *)
          end
      end
  end.

Definition check_refname_format (refname : bytes) (allow_onelevel : bool) : outcome bool unit :=
  if bytes_eqb refname [at_] then Ok false                         (* !strcmp(refname, "@") *)
  else
    match check_loop (S (length refname)) refname 0 with
    | Ok (count, lastc) =>
        if beqb lastc dot then Ok false                            (* Refname ends with '.'. *)
        else if negb allow_onelevel && Nat.ltb count 2 then Ok false
        else Ok true
    | Err _ => Ok false
    | Panic => Panic
    | OutOfFuel => OutOfFuel
    end.

(* `git check-ref-format [--allow-onelevel] <name>` exits 0 *)
Definition git_check (refname : bytes) (allow_onelevel : bool) : bool :=
  if existsb (beqb x00) refname then false
  else match check_refname_format refname allow_onelevel with Ok b => b | _ => false end.

(* refname_is_safe(): a one-level name must consist of upper-case letters and '_' *)
Definition one_level_safe (refname : bytes) : bool :=
  forallb (fun c => is_ascii_uppercase c || beqb c underscore) refname.

(* what the property asks of reference::name: git's verdict, one-level names by the one-level rule *)
Definition git_full_name (refname : bytes) : bool :=
  git_check refname false || (git_check refname true && one_level_safe refname).
