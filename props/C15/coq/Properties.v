(* C15 — Reference names are validated like git; sanitizing always yields a valid name.
   Only statements here; every proof is [exact <lemma>].
   Model.v : gix-validate tag::name_inner (both modes), reference::{validate, name, name_partial,
             name_partial_or_sanitize} as of the two `fix:` commits recorded in findings.txt.
   Spec.v  : refs.c check_refname_component / check_refname_format (git 2.39), refname_is_safe's
             one-level rule.  [git_check s allow] = `git check-ref-format [--allow-onelevel] s` exits 0;
             [git_full_name s] = git_check s false || (git_check s true && one_level_safe s).
   [is_ok o] = the call returned Ok. *)
From GixV.Base Require Import Bytes BytesFacts Outcome.
From GixV.C15 Require Import Model Spec ProofsLoop ProofsValid ProofsGit.

(* partial names: accepted exactly when `git check-ref-format --allow-onelevel` accepts — for ALL byte strings *)
Theorem partial_name_is_git : forall s, is_ok (ref_name_partial s) = git_check s true.
Proof. intros s. rewrite git_check_valid, Bool.andb_true_r. exact (proj1 (ref_name_partial_ok s)). Qed.

(* full names: git's verdict, one-level names judged by git's one-level rule (A-Z and '_' only) *)
Theorem full_name_is_git : forall s, is_ok (ref_name s) = git_full_name s.
Proof. intros s. rewrite git_full_name_valid. exact (proj1 (ref_name_ok s)). Qed.

(* the same, spelled out: a name with a slash is judged by plain `git check-ref-format`,
   a name without one by --allow-onelevel plus the one-level rule *)
Theorem full_name_cases : forall s,
  (has_slash s = true -> is_ok (ref_name s) = git_check s false) /\
  (has_slash s = false -> is_ok (ref_name s) = git_check s true && one_level_safe s).
Proof.
  intros s. rewrite (proj1 (ref_name_ok s)), !git_check_valid. unfold valid_full, one_level_safe.
  fold (upper_us s). split; intros ->; cbn [orb]; rewrite ?Bool.andb_true_r, ?Bool.andb_false_r; reflexivity.
Qed.

(* tag names (gix_validate::tag::name) differ from partial reference names only in the name "@" *)
Theorem tag_name_is_git_or_at : forall s, is_ok (tag_name s) = git_check s true || bytes_eqb s [at_].
Proof.
  intros s. rewrite (proj1 (tag_name_ok s)), git_check_valid, Bool.andb_true_r. unfold valid_partial.
  destruct (bytes_eqb s [at_]) eqn:E.
  - apply bytes_eqb_eq in E. subst s. reflexivity.
  - cbn [negb]. rewrite Bool.andb_true_r, Bool.orb_false_r. reflexivity.
Qed.

(* the validators never panic and never loop, and a successful validation returns its input unchanged *)
Theorem validators_total : forall s,
  (ref_name s <> Panic /\ ref_name s <> OutOfFuel /\ forall o, ref_name s = Ok o -> o = s) /\
  (ref_name_partial s <> Panic /\ ref_name_partial s <> OutOfFuel /\ forall o, ref_name_partial s = Ok o -> o = s) /\
  (tag_name s <> Panic /\ tag_name s <> OutOfFuel /\ forall o, tag_name s = Ok o -> o = s).
Proof.
  intros s. split; [|split].
  - exact (proj2 (ref_name_ok s)).
  - exact (proj2 (ref_name_partial_ok s)).
  - exact (proj2 (tag_name_ok s)).
Qed.

(* PartialName::join(base, component) is the partial-name check of base/component *)
Theorem join_is_git : forall base comp,
  is_ok (partial_join base comp) = git_check (base ++ slash :: comp) true.
Proof. intros. unfold partial_join. apply partial_name_is_git. Qed.

(* the transcription of git's loop has enough fuel for every NUL-free name *)
Theorem spec_total : forall s allow, existsb (beqb x00) s = false ->
  exists b, check_refname_format s allow = Ok b.
Proof. exact check_refname_format_total. Qed.

(* non-vacuity / sanity *)
Example ex_accept : is_ok (ref_name (bs "refs/heads/main")) = true /\ is_ok (ref_name (bs "FETCH_HEAD")) = true
  /\ is_ok (ref_name (bs "main")) = false /\ is_ok (ref_name_partial (bs "main")) = true
  /\ is_ok (ref_name_partial (bs "@")) = false /\ is_ok (tag_name (bs "@")) = true
  /\ is_ok (ref_name_partial (bs "a.lock/b")) = false /\ has_slash (bs "a/b") = true.
Proof. vm_compute. repeat split. Qed.
