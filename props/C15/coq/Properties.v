(* C15 — Reference names are validated like git; sanitizing always yields a valid name.
   Only statements here; every proof is [exact <lemma of ProofsTop.v>].
   Model.v : gix-validate tag::name_inner (both modes), reference::{validate, name, name_partial,
             name_partial_or_sanitize}, gix_ref::PartialName::join — the code as of the `fix:` commit
             recorded in findings.txt (sanitiser panic repaired; the name "@" is still accepted, a
             known finding pinned by gix-validate's own test suite).
   Spec.v  : refs.c check_refname_component / check_refname_format (git 2.39), refname_is_safe's
             one-level rule.  [git_check s allow] = `git check-ref-format [--allow-onelevel] s` exits 0;
             [git_full_name s] = git_check s false || (git_check s true && one_level_safe s).
   [is_ok o] = the call returned Ok.  [standalone_at s] = the name is exactly "@" (the known class).
   All statements quantify over ALL byte strings. *)
From GixV.Base Require Import Bytes BytesFacts Outcome.
From GixV.C15 Require Import Model Spec ProofsValid ProofsTop.

(* ---- partial names vs `git check-ref-format --allow-onelevel` ------------------------------- *)
Definition partial_name_is_git_full_statement : Prop :=
  forall s, is_ok (ref_name_partial s) = git_check s true.

(* false of the code: "@" *)
Theorem partial_name_is_git_refuted : exists s, is_ok (ref_name_partial s) <> git_check s true.
Proof. exact L_partial_name_is_git_refuted. Qed.

(* true of every other byte string *)
Theorem partial_name_is_git_except_known : forall s, standalone_at s = false ->
  is_ok (ref_name_partial s) = git_check s true.
Proof. exact L_partial_name_is_git_except_known. Qed.

(* both at once, exactly: gix accepts what git accepts, plus "@" *)
Theorem partial_name_vs_git : forall s, is_ok (ref_name_partial s) = git_check s true || standalone_at s.
Proof. exact L_partial_name_vs_git. Qed.

(* ---- full names: git's verdict, one-level names by git's one-level rule (A-Z and '_' only);
        holds without exception ("@" is not upper case) -------------------------------------------- *)
Theorem full_name_is_git : forall s, is_ok (ref_name s) = git_full_name s.
Proof. exact L_full_name_is_git. Qed.

(* the same, spelled out: a name with a slash is judged by plain `git check-ref-format`,
   a name without one by --allow-onelevel plus the one-level rule *)
Theorem full_name_cases : forall s,
  (has_slash s = true -> is_ok (ref_name s) = git_check s false) /\
  (has_slash s = false -> is_ok (ref_name s) = git_check s true && one_level_safe s).
Proof. exact L_full_name_cases. Qed.

(* tag names (gix_validate::tag::name): what git accepts with --allow-onelevel, plus "@"
   (git itself allows refs/tags/@) *)
Theorem tag_name_is_git_or_at : forall s, is_ok (tag_name s) = git_check s true || standalone_at s.
Proof. exact L_tag_name_is_git_or_at. Qed.

(* the validators never panic and never loop, and a successful validation returns its input unchanged *)
Theorem validators_total : forall s,
  (ref_name s <> Panic /\ ref_name s <> OutOfFuel /\ forall o, ref_name s = Ok o -> o = s) /\
  (ref_name_partial s <> Panic /\ ref_name_partial s <> OutOfFuel /\ forall o, ref_name_partial s = Ok o -> o = s) /\
  (tag_name s <> Panic /\ tag_name s <> OutOfFuel /\ forall o, tag_name s = Ok o -> o = s).
Proof. exact L_validators_total. Qed.

(* ---- sanitising --------------------------------------------------------------------------------
   converting ANY byte string into a partial name succeeds (no panic: the slices, the index
   operations on the output buffer and the two `expect`s are all modelled), and the result passes
   validation (name_partial) *)
Theorem sanitize_valid : forall s, exists o,
  ref_sanitize s = Ok o /\ is_ok (ref_name_partial o) = true.
Proof. exact L_sanitize_valid. Qed.

Theorem sanitize_total : forall s, ref_sanitize s <> Panic /\ ref_sanitize s <> OutOfFuel.
Proof. exact L_sanitize_total. Qed.

(* measured against git instead of gix's own validator the same known class shows: "@/" -> "@" *)
Definition sanitize_git_full_statement : Prop :=
  forall s o, ref_sanitize s = Ok o -> git_check o true = true.
Theorem sanitize_git_refuted : exists s o, ref_sanitize s = Ok o /\ git_check o true = false.
Proof. exact L_sanitize_git_refuted. Qed.
Theorem sanitize_git_except_known : forall s o, ref_sanitize s = Ok o -> standalone_at o = false ->
  git_check o true = true.
Proof. exact L_sanitize_git_except_known. Qed.

(* a name that passes name_partial is returned unchanged; hence sanitising twice changes nothing more *)
Theorem sanitize_keeps_valid : forall s, is_ok (ref_name_partial s) = true -> ref_sanitize s = Ok s.
Proof. exact L_sanitize_keeps_valid. Qed.

Theorem sanitize_idempotent : forall s o, ref_sanitize s = Ok o -> ref_sanitize o = Ok o.
Proof. exact L_sanitize_idempotent. Qed.

(* PartialName::join(base, component) is the partial-name check of base/component; never "@" *)
Theorem join_is_git : forall base comp,
  is_ok (partial_join base comp) = git_check (base ++ slash :: comp) true.
Proof. exact L_join_is_git. Qed.

(* the transcription of git's loop has enough fuel for every NUL-free name *)
Theorem spec_total : forall s allow, existsb (beqb x00) s = false ->
  exists b, check_refname_format s allow = Ok b.
Proof. exact ProofsGit.check_refname_format_total. Qed.

(* non-vacuity / sanity *)
Example ex_accept : is_ok (ref_name (bs "refs/heads/main")) = true /\ is_ok (ref_name (bs "FETCH_HEAD")) = true
  /\ is_ok (ref_name (bs "main")) = false /\ is_ok (ref_name_partial (bs "main")) = true
  /\ is_ok (ref_name_partial (bs "@")) = true /\ git_check (bs "@") true = false /\ is_ok (ref_name (bs "@")) = false
  /\ is_ok (ref_name_partial (bs "a.lock/b")) = false /\ has_slash (bs "a/b") = true
  /\ has_slash (bs "HEAD") = false /\ existsb (beqb x00) (bs "refs/heads/main") = false
  /\ standalone_at (bs "refs/heads/@") = false /\ standalone_at (bs "@") = true.
Proof. vm_compute. repeat split. Qed.

Example ex_keeps : is_ok (ref_name_partial (bs "refs/heads/x@y.lck")) = true
  /\ ref_sanitize (bs "a@{b") = Ok (bs "a@-b") /\ ref_sanitize (bs "a@-b") = Ok (bs "a@-b")
  /\ standalone_at (bs "a@-b") = false.
Proof. vm_compute. repeat split. Qed.

Example ex_sanitize : ref_sanitize (bs "/") = Ok (bs "-") /\ ref_sanitize (bs ".lock.lock") = Ok (bs "-")
  /\ ref_sanitize (bs "@/") = Ok (bs "@") /\ ref_sanitize (bs "refs//heads/a b.lock/.x.") = Ok (bs "refs/heads/a-b/-x-").
Proof. vm_compute. repeat split. Qed.
