From GixV.Base Require Import Bytes BytesFacts Outcome.
From GixV.C15 Require Import Model Spec.
Example placeholder : ref_name_partial (bs "refs/heads/main") = Ok (bs "refs/heads/main").
Proof. vm_compute. reflexivity. Qed.
