(* C15 proofs: the statements of Properties.v, assembled from parts A-D. *)
From GixV.Base Require Import Bytes BytesFacts Outcome.
From GixV.C15 Require Import Model Spec ProofsLoop ProofsValid ProofsGit ProofsSan.

Lemma git_partial_tag s : git_check s true = valid_tag s && negb (standalone_at s).
Proof. rewrite git_check_valid, Bool.andb_true_r. reflexivity. Qed.

Lemma L_partial_name_vs_git : forall s, is_ok (ref_name_partial s) = git_check s true || standalone_at s.
Proof.
  intros s. rewrite (proj1 (ref_name_partial_ok s)), git_partial_tag.
  destruct (standalone_at s) eqn:E.
  - unfold standalone_at in E. apply bytes_eqb_eq in E. subst s. reflexivity.
  - cbn [negb]. rewrite Bool.andb_true_r, Bool.orb_false_r. reflexivity.
Qed.

Lemma L_partial_name_is_git_refuted : exists s, is_ok (ref_name_partial s) <> git_check s true.
Proof. exists [at_]. vm_compute. discriminate. Qed.

Lemma L_partial_name_is_git_except_known : forall s, standalone_at s = false ->
  is_ok (ref_name_partial s) = git_check s true.
Proof. intros s H. rewrite L_partial_name_vs_git, H. apply Bool.orb_false_r. Qed.

Lemma L_full_name_is_git : forall s, is_ok (ref_name s) = git_full_name s.
Proof. intros s. rewrite git_full_name_valid. exact (proj1 (ref_name_ok s)). Qed.

Lemma L_full_name_cases : forall s,
  (has_slash s = true -> is_ok (ref_name s) = git_check s false) /\
  (has_slash s = false -> is_ok (ref_name s) = git_check s true && one_level_safe s).
Proof.
  intros s. rewrite (proj1 (ref_name_ok s)), !git_check_valid. unfold valid_full, one_level_safe.
  fold (upper_us s). split; intros ->; cbn [orb]; rewrite ?Bool.andb_true_r, ?Bool.andb_false_r; reflexivity.
Qed.

Lemma L_tag_name_is_git_or_at : forall s, is_ok (tag_name s) = git_check s true || standalone_at s.
Proof.
  intros s. rewrite (proj1 (tag_name_ok s)), <- (proj1 (ref_name_partial_ok s)). apply L_partial_name_vs_git.
Qed.

Lemma L_validators_total : forall s,
  (ref_name s <> Panic /\ ref_name s <> OutOfFuel /\ forall o, ref_name s = Ok o -> o = s) /\
  (ref_name_partial s <> Panic /\ ref_name_partial s <> OutOfFuel /\ forall o, ref_name_partial s = Ok o -> o = s) /\
  (tag_name s <> Panic /\ tag_name s <> OutOfFuel /\ forall o, tag_name s = Ok o -> o = s).
Proof.
  intros s. split; [|split].
  - exact (proj2 (ref_name_ok s)).
  - exact (proj2 (ref_name_partial_ok s)).
  - exact (proj2 (tag_name_ok s)).
Qed.

Lemma join_not_at base comp : standalone_at (base ++ slash :: comp) = false.
Proof.
  unfold standalone_at. destruct base as [|b base]; [reflexivity|]. cbn [app bytes_eqb].
  destruct (base ++ slash :: comp) eqn:E; [destruct base; discriminate|]. apply Bool.andb_false_r.
Qed.

Lemma L_join_is_git : forall base comp,
  is_ok (partial_join base comp) = git_check (base ++ slash :: comp) true.
Proof. intros. unfold partial_join. apply L_partial_name_is_git_except_known, join_not_at. Qed.

(* sanitising: total, and the result is accepted by name_partial *)
Lemma L_sanitize_valid : forall s, exists o,
  ref_sanitize s = Ok o /\ is_ok (ref_name_partial o) = true.
Proof.
  intros s. destruct (ref_sanitize_valid s) as (o & E & V). exists o. split; [exact E|].
  rewrite (proj1 (ref_name_partial_ok o)). exact V.
Qed.

Lemma L_sanitize_total : forall s, ref_sanitize s <> Panic /\ ref_sanitize s <> OutOfFuel.
Proof. intros s. destruct (ref_sanitize_valid s) as (o & E & _). rewrite E. split; discriminate. Qed.

Lemma L_sanitize_git_refuted : exists s o, ref_sanitize s = Ok o /\ git_check o true = false.
Proof. exists [at_; slash], [at_]. vm_compute. split; reflexivity. Qed.

Lemma L_sanitize_git_except_known : forall s o, ref_sanitize s = Ok o -> standalone_at o = false ->
  git_check o true = true.
Proof.
  intros s o E Hk. destruct (ref_sanitize_valid s) as (o' & E' & V). rewrite E in E'. injection E' as <-.
  rewrite git_partial_tag, V, Hk. reflexivity.
Qed.

(* a name that name_partial accepts is returned unchanged by the sanitiser *)
Lemma L_sanitize_keeps_valid : forall s, is_ok (ref_name_partial s) = true -> ref_sanitize s = Ok s.
Proof. intros s H. rewrite (proj1 (ref_name_partial_ok s)) in H. exact (ref_sanitize_id s H). Qed.

Lemma L_sanitize_idempotent : forall s o, ref_sanitize s = Ok o -> ref_sanitize o = Ok o.
Proof.
  intros s o E. destruct (L_sanitize_valid s) as (o' & E' & V).
  rewrite E in E'. injection E' as <-. exact (L_sanitize_keeps_valid o V).
Qed.
