(* C15 proofs, part C: the transcription of refs.c (Spec.v) accepts exactly [valid_partial]
   (with --allow-onelevel) resp. [valid_partial] names containing a slash (without). *)
From Coq Require Import Lia.
From GixV.Base Require Import Bytes BytesFacts Outcome.
From GixV.C15 Require Import Model Spec ProofsLoop ProofsValid.

(* ---- the disposition table, as tests on the byte ------------------------------------------ *)
Definition cls (ch : byte) : N :=
  if beqb ch slash || beqb ch x00 then 1%N
  else if is_invalid_byte ch then 4%N
  else if beqb ch star then 5%N
  else if beqb ch dot then 2%N
  else if beqb ch lbrace then 3%N else 0%N.

Lemma disp_cls_b : forall ch, N.eqb (disp ch) (cls ch) = true.
Proof. apply forall_bytes. vm_compute. reflexivity. Qed.
Lemma disp_cls ch : disp ch = cls ch.
Proof. apply N.eqb_eq, disp_cls_b. Qed.

Definition char_ok (ch last : byte) : bool :=
  negb (is_invalid_byte ch || beqb ch star) && negb (beqb ch dot && beqb last dot)
  && negb (beqb ch lbrace && beqb last at_).

Lemma scan_unfold ch s' last :
  scan (ch :: s') last =
  if beqb ch slash || beqb ch x00 then Some O
  else if char_ok ch last then option_map S (scan s' ch) else None.
Proof.
  cbn [scan]. rewrite disp_cls. unfold cls, char_ok.
  destruct (beqb ch slash || beqb ch x00); [reflexivity|].
  destruct (is_invalid_byte ch); [reflexivity|].
  destruct (beqb ch star) eqn:Es.
  { reflexivity. }
  destruct (beqb ch dot) eqn:Ed.
  { cbn [orb negb andb]. destruct (beqb last dot); cbn [negb andb].
    - reflexivity.
    - apply beqb_eq in Ed. subst ch. reflexivity. }
  destruct (beqb ch lbrace) eqn:El.
  { cbn [orb negb andb]. destruct (beqb last at_); reflexivity. }
  reflexivity.
Qed.

Definition no_slash (c : bytes) : bool := forallb (fun b => negb (beqb b slash)) c.
Definition nonul (c : bytes) : bool := forallb (fun b => negb (beqb b x00)) c.

Fixpoint cclean (c : bytes) (last : byte) : bool :=
  match c with [] => true | ch :: c' => char_ok ch last && cclean c' ch end.

Lemma scan_comp c : forall last rest,
  no_slash c = true -> nonul c = true -> (rest = [] \/ exists r, rest = slash :: r) ->
  scan (c ++ rest) last = if cclean c last then Some (length c) else None.
Proof.
  induction c as [|ch c IH]; intros last rest Hs Hn Hr.
  - cbn [app cclean length]. destruct Hr as [->|[r ->]]; [reflexivity|].
    rewrite scan_unfold. reflexivity.
  - cbn [no_slash nonul forallb] in Hs, Hn.
    apply Bool.andb_true_iff in Hs. destruct Hs as [Hs1 Hs].
    apply Bool.andb_true_iff in Hn. destruct Hn as [Hn1 Hn].
    cbn [app]. rewrite scan_unfold.
    apply Bool.negb_true_iff in Hs1. apply Bool.negb_true_iff in Hn1. rewrite Hs1, Hn1. cbn [orb].
    cbn [cclean length]. destruct (char_ok ch last); [|reflexivity]. cbn [andb].
    rewrite (IH ch rest Hs Hn Hr). destruct (cclean c ch); reflexivity.
Qed.

(* a component's own checks *)
Definition comp_good (c : bytes) : bool :=
  cclean c x00 && negb (is_nil c) && negb (beqb (hd x00 c) dot) && negb (rlock (rev c)).

Lemma lock_suffix_test c rest : (5 <= length c)%nat ->
  bytes_eqb (firstn 5 (skipn (length c - 5) (c ++ rest))) dot_lock = rlock (rev c).
Proof.
  intros H5. rewrite skipn_app. replace (length c - 5 - length c)%nat with 0%nat by lia.
  cbn [skipn]. rewrite firstn_app.
  rewrite skipn_length. replace (5 - (length c - (length c - 5)))%nat with 0%nat by lia.
  rewrite firstn_O, app_nil_r. rewrite firstn_all2 by (rewrite skipn_length; lia).
  rewrite <- (rev_involutive c) at 1 2. rewrite <- ends_with_rlock.
  unfold ends_with. rewrite !rev_involutive. cbn [length dot_lock].
  apply Nat.leb_le in H5. rewrite H5. reflexivity.
Qed.

Lemma component_check c rest :
  no_slash c = true -> nonul c = true -> (rest = [] \/ exists r, rest = slash :: r) ->
  check_refname_component (c ++ rest) =
  if cclean c x00 then
    (if is_nil c then Some O else if comp_good c then Some (length c) else None)
  else None.
Proof.
  intros Hs Hn Hr. unfold check_refname_component, comp_good. rewrite (scan_comp c x00 rest Hs Hn Hr).
  destruct (cclean c x00); [|reflexivity]. cbn [andb].
  destruct c as [|a c]; [reflexivity|].
  cbn [is_nil negb andb]. replace (Nat.eqb (length (a :: c)) 0) with false by reflexivity.
  change (nth 0 ((a :: c) ++ rest) x00) with a. cbn [hd].
  destruct (beqb a dot); [reflexivity|]. cbn [negb andb].
  destruct (Nat.leb 5 (length (a :: c))) eqn:E5.
  - apply Nat.leb_le in E5. rewrite (lock_suffix_test (a :: c) rest E5). cbn [andb].
    destruct (rlock (rev (a :: c))); reflexivity.
  - apply Nat.leb_gt in E5. rewrite (rlock_short (rev (a :: c))) by (rewrite rev_length; exact E5).
    reflexivity.
Qed.

(* ---- splitting off the first component ---------------------------------------------------- *)
Fixpoint comp_of (s : bytes) : bytes :=
  match s with [] => [] | b :: s' => if beqb b slash then [] else b :: comp_of s' end.
Fixpoint after (s : bytes) : bytes :=
  match s with [] => [] | b :: s' => if beqb b slash then s else after s' end.

Lemma comp_split s : s = comp_of s ++ after s /\ no_slash (comp_of s) = true
  /\ (after s = [] \/ exists r, after s = slash :: r) /\ (length (after s) <= length s)%nat.
Proof.
  induction s as [|b s IH]; [repeat split; auto|].
  cbn [comp_of after]. destruct (beqb b slash) eqn:E.
  - apply beqb_eq in E. subst b. repeat split; [right; eexists; reflexivity|lia].
  - destruct IH as (I1 & I2 & I3 & I4). cbn [app no_slash forallb length]. rewrite <- I1, E.
    repeat split; auto.
Qed.

Fixpoint nslash (s : bytes) : nat :=
  match s with [] => O | b :: s' => (if beqb b slash then 1 else 0) + nslash s' end.

(* the model-side predicate for a suffix [s] of the name that starts a component, after the
   reversed context [rin] *)
Definition V (s rin : bytes) : bool :=
  negb (is_nil s) && negb (beqb (hd x00 s) slash) && negb (beqb (last s x00) slash)
  && steps_ok s rin && negb (rlock (rev s)) && negb (beqb (hd x00 s) dot).

Definition ctx (rin : bytes) : Prop := rin = [] \/ exists r, rin = slash :: r.

Lemma steps_ok_app a : forall b rin, steps_ok (a ++ b) rin = steps_ok a rin && steps_ok b (rev a ++ rin).
Proof.
  induction a as [|x a IH]; intros b rin; [reflexivity|].
  cbn [app steps_ok rev]. rewrite IH, <- app_assoc. cbn [app].
  destruct (step_ok x rin); reflexivity.
Qed.

Lemma step_ok_plain b r : beqb b slash = false -> beqb (hd x00 r) slash = false ->
  step_ok b r = char_ok b (hd x00 r).
Proof.
  intros Hb Hp. unfold step_ok, char_ok. rewrite Hb, Hp. cbn [andb negb].
  destruct (is_invalid_byte b), (beqb b star), (beqb b dot && beqb (hd x00 r) dot),
    (beqb b dot), (beqb b lbrace && beqb (hd x00 r) at_); reflexivity.
Qed.

Lemma steps_mid c : forall rin, no_slash c = true -> beqb (hd x00 rin) slash = false ->
  steps_ok c rin = cclean c (hd x00 rin).
Proof.
  induction c as [|b c IH]; intros rin Hs Hp; [reflexivity|].
  cbn [no_slash forallb] in Hs. apply Bool.andb_true_iff in Hs. destruct Hs as [Hb Hs].
  apply Bool.negb_true_iff in Hb.
  cbn [steps_ok cclean]. rewrite (step_ok_plain b rin Hb Hp). rewrite (IH (b :: rin) Hs Hb). reflexivity.
Qed.

(* at a component start the predecessor is '/' (or nothing): same verdict as git's last = NUL,
   provided the component does not begin with '.' *)
Lemma steps_start c rin : ctx rin -> no_slash c = true -> beqb (hd x00 c) dot = false ->
  steps_ok c rin = cclean c x00.
Proof.
  intros Hc Hs Hd. destruct c as [|b c]; [reflexivity|].
  cbn [no_slash forallb] in Hs. apply Bool.andb_true_iff in Hs. destruct Hs as [Hb Hs].
  apply Bool.negb_true_iff in Hb. cbn [hd] in Hd.
  cbn [steps_ok cclean]. rewrite (steps_mid c (b :: rin) Hs Hb). cbn [hd]. f_equal.
  unfold step_ok, char_ok. rewrite Hb, Hd. cbn [andb negb].
  assert (beqb (hd x00 rin) at_ = false) as ->.
  { destruct Hc as [->|[r ->]]; reflexivity. }
  change (beqb x00 at_) with false. rewrite !Bool.andb_false_r. cbn [negb]. rewrite !Bool.andb_true_r.
  destruct (is_invalid_byte b), (beqb b star); reflexivity.
Qed.

Lemma rlock_app_slash x y : rlock (x ++ slash :: y) = rlock x.
Proof.
  destruct (rlock x) eqn:E.
  - destruct x as [|a [|b [|c [|d [|e t]]]]]; try discriminate. exact E.
  - destruct (rlock (x ++ slash :: y)) eqn:E2; [|reflexivity].
    destruct (Nat.le_gt_cases 5 (length x)) as [H5|H5].
    + destruct x as [|a [|b [|c [|d [|e t]]]]]; cbn [length] in H5; try lia. cbn in E, E2. congruence.
    + exfalso. apply (rlock_no_slash _ E2 (length x) H5).
      rewrite nth_error_app2 by lia. rewrite Nat.sub_diag. reflexivity.
Qed.

Lemma rlock_app_ctx x rin : ctx rin -> rlock (x ++ rin) = rlock x.
Proof. intros [->|[r ->]]; [now rewrite app_nil_r|apply rlock_app_slash]. Qed.

Lemma no_slash_last c : no_slash c = true -> c <> [] -> beqb (last c x00) slash = false.
Proof.
  induction c as [|a c IH]; [congruence|]. intros Hs _.
  cbn [no_slash forallb] in Hs. apply Bool.andb_true_iff in Hs. destruct Hs as [Ha Hs].
  destruct c as [|b c]; [cbn [last]; now apply Bool.negb_true_iff in Ha|].
  change (last (a :: b :: c) x00) with (last (b :: c) x00). apply IH; [exact Hs|discriminate].
Qed.

Lemma hd_rev_last (c : bytes) : hd x00 (rev c) = last c x00.
Proof.
  induction c as [|a c IH]; [reflexivity|]. cbn [rev]. destruct c as [|b c]; [reflexivity|].
  change (last (a :: b :: c) x00) with (last (b :: c) x00). rewrite <- IH.
  destruct (rev (b :: c)) eqn:E; [|reflexivity].
  apply (f_equal (@length byte)) in E. rewrite rev_length in E. discriminate.
Qed.

Lemma last_app_cons (a : bytes) x b : last (a ++ x :: b) x00 = last (x :: b) x00.
Proof.
  induction a as [|y a IH]; [reflexivity|]. cbn [app].
  destruct (a ++ x :: b) eqn:E; [destruct a; discriminate|].
  change (last (y :: b0 :: l) x00) with (last (b0 :: l) x00). exact IH.
Qed.

Lemma nslash_app a b : nslash (a ++ b) = (nslash a + nslash b)%nat.
Proof. induction a as [|x a IH]; [reflexivity|]. cbn [app nslash]. rewrite IH. lia. Qed.
Lemma nslash_no c : no_slash c = true -> nslash c = 0%nat.
Proof.
  induction c as [|x c IH]; [reflexivity|]. cbn [no_slash forallb nslash]. intros H.
  apply Bool.andb_true_iff in H. destruct H as [H1 H2]. apply Bool.negb_true_iff in H1. rewrite H1, IH; auto.
Qed.

Lemma nonul_app a b : nonul (a ++ b) = nonul a && nonul b.
Proof. unfold nonul. apply forallb_app. Qed.

Lemma nth_last (c : bytes) : c <> [] -> nth (length c - 1) c x00 = last c x00.
Proof. intros H. apply nth_error_nth. apply nth_error_last. exact H. Qed.

Lemma step_slash_after c rin : ctx rin -> c <> [] -> no_slash c = true ->
  step_ok slash (rev c ++ rin) = negb (rlock (rev c)).
Proof.
  intros Hc Hne Hs. unfold step_ok.
  assert (hd x00 (rev c ++ rin) = last c x00) as ->.
  { rewrite <- hd_rev_last. destruct (rev c) eqn:E; [|reflexivity].
    apply (f_equal (@length byte)) in E. rewrite rev_length in E. destruct c; [congruence|discriminate]. }
  rewrite (no_slash_last c Hs Hne). rewrite (rlock_app_ctx _ _ Hc).
  change (is_invalid_byte slash) with false. change (beqb slash star) with false.
  change (beqb slash dot) with false. change (beqb slash lbrace) with false.
  change (beqb slash slash) with true. cbn [negb andb]. reflexivity.
Qed.

Lemma steps_first_after_slash b r rin' : (beqb b slash || beqb b dot) = true ->
  steps_ok (b :: r) (slash :: rin') = false.
Proof.
  intros H. cbn [steps_ok]. unfold step_ok. cbn [hd]. change (beqb slash slash) with true.
  rewrite !Bool.andb_true_r.
  destruct (beqb b slash), (beqb b dot); cbn [orb] in H; try discriminate;
    cbn [negb andb]; rewrite ?Bool.andb_false_r; reflexivity.
Qed.

Lemma check_loop_V : forall n s rin count fuel,
  (length s <= n)%nat -> (length s < fuel)%nat -> nonul s = true -> ctx rin ->
  check_loop fuel s count = if V s rin then Ok (count + 1 + nslash s, last s x00)%nat else Err tt.
Proof.
  induction n as [|n IH]; intros s rin count fuel Hn Hf Hnul Hc.
  - destruct s; [|cbn [length] in Hn; lia]. destruct fuel; [cbn [length] in Hf; lia|]. reflexivity.
  - destruct fuel as [|f]; [lia|].
    destruct (comp_split s) as (Hs & Hns & Hr & _).
    set (c := comp_of s) in *. set (rest := after s) in *. clearbody c rest. subst s.
    rewrite nonul_app in Hnul. apply Bool.andb_true_iff in Hnul. destruct Hnul as [Hnc Hnr].
    cbn [check_loop]. rewrite (component_check c rest Hns Hnc Hr).
    unfold V.
    destruct (cclean c x00) eqn:Ecl.
    2:{ (* the scan rejects *)
      destruct c as [|a c']; [discriminate|].
      destruct (beqb a dot) eqn:Ed.
      - cbn [app hd]. rewrite Ed. cbn [negb]. rewrite !Bool.andb_false_r. reflexivity.
      - rewrite steps_ok_app. rewrite (steps_start (a :: c') rin Hc Hns Ed), Ecl.
        cbn [andb]. rewrite !Bool.andb_false_r. reflexivity. }
    destruct c as [|a c'] eqn:Ec.
    { (* empty component *)
      cbn [is_nil app].
      destruct Hr as [->|[r ->]]; [reflexivity|]. cbn [is_nil hd negb andb].
      change (beqb slash slash) with true. reflexivity. }
    rewrite <- Ec in *. assert (Hne : c <> []) by (rewrite Ec; discriminate).
    assert (Ha : beqb a slash = false).
    { rewrite Ec in Hns. cbn [no_slash forallb] in Hns. apply Bool.andb_true_iff in Hns.
      destruct Hns as [H _]. now apply Bool.negb_true_iff in H. }
    assert (Hhd : hd x00 (c ++ rest) = a) by (rewrite Ec; reflexivity).
    assert (Hnil : is_nil (c ++ rest) = false) by (rewrite Ec; reflexivity).
    replace (is_nil c) with false by (rewrite Ec; reflexivity).
    rewrite Hnil, Hhd, Ha. cbn [negb andb].
    destruct (comp_good c) eqn:Eg.
    2:{ (* component starts with '.' or ends with ".lock" *)
      unfold comp_good in Eg. rewrite Ecl in Eg. cbn [andb] in Eg.
      replace (is_nil c) with false in Eg by (rewrite Ec; reflexivity).
      replace (hd x00 c) with a in Eg by (rewrite Ec; reflexivity). cbn [negb andb] in Eg.
      destruct (beqb a dot) eqn:Ed; [cbn [negb]; rewrite !Bool.andb_false_r; reflexivity|].
      cbn [negb andb] in Eg. apply Bool.negb_false_iff in Eg.
      destruct Hr as [Hr|[r Hr]]; subst rest.
      - rewrite app_nil_r, Eg. cbn [negb]. rewrite !Bool.andb_false_r. reflexivity.
      - rewrite steps_ok_app. cbn [steps_ok].
        rewrite (step_slash_after c rin Hc Hne Hns), Eg. cbn [negb andb].
        rewrite !Bool.andb_false_r. reflexivity. }
    (* the component is fine *)
    pose proof Eg as Eg'. unfold comp_good in Eg'. rewrite Ecl in Eg'. cbn [andb] in Eg'.
    replace (is_nil c) with false in Eg' by (rewrite Ec; reflexivity).
    replace (hd x00 c) with a in Eg' by (rewrite Ec; reflexivity). cbn [negb andb] in Eg'.
    apply Bool.andb_true_iff in Eg'. destruct Eg' as [Ed El].
    apply Bool.negb_true_iff in Ed. apply Bool.negb_true_iff in El. rewrite Ed. cbn [negb].
    rewrite Bool.andb_true_r.
    assert (Hsc : steps_ok c rin = true).
    { rewrite (steps_start c rin Hc Hns); [exact Ecl|rewrite Ec; exact Ed]. }
    assert (Hlc : length c = S (length c')) by (rewrite Ec; reflexivity).
    rewrite Hlc. rewrite <- Hlc.
    rewrite skipn_app, Nat.sub_diag, skipn_all. cbn [app skipn].
    destruct Hr as [Hr|[r Hr]]; subst rest.
    + (* last component *)
      rewrite app_nil_r.
      rewrite nth_last by exact Hne. rewrite Hsc, El, (no_slash_last c Hns Hne), (nslash_no c Hns).
      cbn [negb andb]. do 2 f_equal. lia.
    + assert (Hlr : (length r <= n)%nat /\ (length r < f)%nat).
      { rewrite app_length in Hn, Hf. cbn [length] in Hn, Hf. lia. }
      assert (Hnr' : nonul r = true).
      { cbn [nonul forallb] in Hnr. now apply Bool.andb_true_iff in Hnr. }
      assert (Hc' : ctx (slash :: rev c ++ rin)) by (right; eexists; reflexivity).
      rewrite (IH r (slash :: rev c ++ rin) (S count) f (proj1 Hlr) (proj2 Hlr) Hnr' Hc').
      rewrite steps_ok_app, Hsc. cbn [steps_ok andb].
      rewrite (step_slash_after c rin Hc Hne Hns), El. cbn [negb andb].
      rewrite last_app_cons, nslash_app, (nslash_no c Hns). cbn [nslash].
      change (beqb slash slash) with true.
      rewrite rev_app_distr. cbn [rev]. rewrite <- app_assoc. cbn [app]. rewrite rlock_app_slash.
      unfold V. destruct r as [|b r'].
      * cbn [is_nil negb andb last]. change (beqb slash slash) with true. reflexivity.
      * change (last (slash :: b :: r') x00) with (last (b :: r') x00).
        cbn [is_nil negb andb hd].
        destruct (beqb b slash || beqb b dot) eqn:Eb.
        -- rewrite (steps_first_after_slash b r' _ Eb). rewrite !Bool.andb_false_r.
           destruct (beqb b slash); cbn [negb andb]; rewrite ?Bool.andb_false_r; reflexivity.
        -- apply Bool.orb_false_iff in Eb. destruct Eb as [-> ->]. cbn [negb andb].
           rewrite Bool.andb_true_r.
           destruct (negb (beqb (last (b :: r') x00) slash) && steps_ok (b :: r') (slash :: rev c ++ rin)
                     && negb (rlock (rev (b :: r')))); [|reflexivity].
           do 2 f_equal. lia.
Qed.

(* ---- top level ------------------------------------------------------------------------------ *)

Lemma steps_nul s : existsb (beqb x00) s = true -> forall rin, steps_ok s rin = false.
Proof.
  induction s as [|b s IH]; [discriminate|]. cbn [existsb]. intros H rin. cbn [steps_ok].
  destruct (beqb x00 b) eqn:E.
  - apply beqb_eq in E. subst b. reflexivity.
  - cbn [orb] in H. rewrite (IH H). apply Bool.andb_false_r.
Qed.

Lemma nonul_of_existsb s : existsb (beqb x00) s = false -> nonul s = true.
Proof.
  induction s as [|b s IH]; [reflexivity|]. cbn [existsb nonul forallb]. intros H.
  apply Bool.orb_false_iff in H. destruct H as [H1 H2].
  assert (beqb b x00 = false) as ->.
  { destruct (beqb b x00) eqn:E; [|reflexivity]. apply beqb_eq in E. subst b. discriminate. }
  cbn [negb andb]. apply IH, H2.
Qed.

Lemma pre_ok_rev s : pre_ok (rev s) = steps_ok s [].
Proof. rewrite <- (app_nil_r (rev s)), pre_ok_steps. cbn [pre_ok]. apply Bool.andb_true_r. Qed.

Lemma rlock6_not_dot s : beqb (hd x00 s) dot = false -> rlock6 (rev s) = rlock (rev s).
Proof.
  intros Hd. unfold rlock6. destruct (rlock (rev s)) eqn:E; [|reflexivity]. cbn [andb].
  apply Nat.leb_le. rewrite rev_length.
  destruct (rev s) as [|k [|c [|o [|l [|d t]]]]] eqn:Er; try discriminate.
  cbn [rlock] in E. repeat (apply Bool.andb_true_iff in E; destruct E as [E ?]).
  assert (Hl : length s = length (k :: c :: o :: l :: d :: t)) by (rewrite <- Er, rev_length; reflexivity).
  cbn [length] in Hl. destruct t as [|x t]; [|cbn [length] in Hl; lia].
  exfalso. apply (f_equal (@rev byte)) in Er. rewrite rev_involutive in Er. rewrite Er in Hd.
  cbn in Hd. match goal with Hx : beqb d x2e = true |- _ => apply beqb_eq in Hx; subst d end.
  discriminate.
Qed.

Lemma has_slash_nslash s : has_slash s = negb (Nat.eqb (nslash s) 0).
Proof.
  induction s as [|b s IH]; [reflexivity|]. unfold has_slash in *. cbn [existsb nslash].
  destruct (beqb slash b) eqn:E.
  - apply beqb_eq in E. subst b. reflexivity.
  - assert (beqb b slash = false) as ->.
    { destruct (beqb b slash) eqn:E2; [|reflexivity]. apply beqb_eq in E2. subst b. discriminate. }
    cbn [orb]. exact IH.
Qed.

Lemma git_check_valid s allow :
  git_check s allow = valid_partial s && (allow || has_slash s).
Proof.
  unfold git_check, valid_partial, valid_tag.
  destruct (existsb (beqb x00) s) eqn:En.
  { rewrite pre_ok_rev, (steps_nul s En). rewrite !Bool.andb_false_r. reflexivity. }
  apply nonul_of_existsb in En.
  unfold check_refname_format, standalone_at. destruct (bytes_eqb s [at_]).
  { cbn [negb]. rewrite Bool.andb_false_r. reflexivity. }
  rewrite (check_loop_V (length s) s [] 0%nat (S (length s)) (le_n _) ltac:(lia) En ltac:(now left)).
  unfold V. rewrite pre_ok_rev. cbn [negb]. rewrite Bool.andb_true_r.
  destruct (beqb (hd x00 s) dot) eqn:Ed.
  { cbn [negb]. rewrite !Bool.andb_false_r. reflexivity. }
  rewrite (rlock6_not_dot s Ed). cbn [negb]. rewrite !Bool.andb_true_r.
  rewrite has_slash_nslash.
  destruct (is_nil s), (beqb (last s x00) slash), (beqb (hd x00 s) slash), (steps_ok s []),
    (rlock (rev s)); cbn [negb andb]; try reflexivity.
  destruct (beqb (last s x00) dot); cbn [negb andb]; [reflexivity|].
  destruct allow; cbn [negb andb orb]; [reflexivity|].
  destruct (nslash s); reflexivity.
Qed.

Lemma git_full_name_valid s : git_full_name s = valid_full s.
Proof.
  unfold git_full_name, valid_full. rewrite !git_check_valid. cbn [orb]. fold (upper_us s).
  unfold one_level_safe. fold (upper_us s).
  destruct (valid_partial s), (has_slash s), (upper_us s); reflexivity.
Qed.

Lemma check_refname_format_total s allow :
  existsb (beqb x00) s = false -> exists b, check_refname_format s allow = Ok b.
Proof.
  intros En. apply nonul_of_existsb in En. unfold check_refname_format.
  destruct (bytes_eqb s [at_]); [eexists; reflexivity|].
  rewrite (check_loop_V (length s) s [] 0%nat (S (length s)) (le_n _) ltac:(lia) En ltac:(now left)).
  destruct (V s []); [|eexists; reflexivity].
  destruct (beqb (last s x00) dot); [eexists; reflexivity|].
  destruct (negb allow && Nat.ltb (0 + 1 + nslash s) 2); eexists; reflexivity.
Qed.
