(* C15 proofs, part D: the sanitising mode.  Loop invariant on the (reversed) output buffer:
   it is an acceptable prefix ([pre_ok]), its last byte is the previous input byte or '-', and
   whenever it ends with a non-empty prefix of ".lock" so does the input consumed so far. *)
From Coq Require Import Lia.
From GixV.Base Require Import Bytes BytesFacts Outcome.
From GixV.C15 Require Import Model ProofsLoop ProofsValid.
Local Open Scope outcome_scope.

Definition lk1 (r : bytes) : bool := match r with a :: _ => beqb a x2e | [] => false end.
Definition lk2 (r : bytes) : bool := match r with a :: r' => beqb a x6c && lk1 r' | [] => false end.
Definition lk3 (r : bytes) : bool := match r with a :: r' => beqb a x6f && lk2 r' | [] => false end.
Definition lk4 (r : bytes) : bool := match r with a :: r' => beqb a x63 && lk3 r' | [] => false end.
Definition lk5 (r : bytes) : bool := match r with a :: r' => beqb a x6b && lk4 r' | [] => false end.

Lemma rlock_lk5 r : rlock r = lk5 r.
Proof.
  destruct r as [|a [|b [|c [|d [|e t]]]]]; cbn [rlock lk5 lk4 lk3 lk2 lk1];
    rewrite ?Bool.andb_false_r; try reflexivity.
  destruct (beqb a x6b), (beqb b x63), (beqb c x6f), (beqb d x6c), (beqb e x2e); reflexivity.
Qed.

Definition T (rout rin : bytes) : Prop :=
  (lk1 rout = true -> lk1 rin = true) /\ (lk2 rout = true -> lk2 rin = true) /\
  (lk3 rout = true -> lk3 rin = true) /\ (lk4 rout = true -> lk4 rin = true) /\
  (lk5 rout = true -> lk5 rin = true).
Definition R (rout : bytes) (prev : byte) : Prop := hd x00 rout = prev \/ hd x00 rout = dash.
Definition Inv (rout rin : bytes) : Prop :=
  pre_ok rout = true /\ R rout (hd x00 rin) /\ T rout rin /\ (length rout <= length rin)%nat.

(* ---- strip_lock ----------------------------------------------------------------------------- *)
Lemma strip_lock_id r : rlock r = false -> strip_lock r = r.
Proof.
  destruct r as [|a [|b [|c [|d [|e t]]]]]; try reflexivity. cbn [rlock strip_lock]. intros ->. reflexivity.
Qed.

Lemma step_ok_dot_hd r : step_ok dot r = true ->
  beqb (hd x00 r) dot = false /\ beqb (hd x00 r) slash = false.
Proof.
  unfold step_ok. change (beqb dot dot) with true. cbn [andb]. intros H.
  destruct (beqb (hd x00 r) dot), (beqb (hd x00 r) slash); cbn in H; try discriminate; split; reflexivity.
Qed.

Lemma strip_lock_props : forall n r, (length r <= n)%nat -> pre_ok r = true ->
  pre_ok (strip_lock r) = true /\ rlock (strip_lock r) = false
  /\ (rlock r = true -> beqb (hd x00 (strip_lock r)) slash = false)
  /\ (length (strip_lock r) <= length r)%nat.
Proof.
  induction n as [|n IH]; intros r Hn Hp.
  - destruct r; [|cbn [length] in Hn; lia]. repeat split; auto; discriminate.
  - destruct (rlock r) eqn:E.
    2:{ rewrite (strip_lock_id r E). repeat split; auto; discriminate. }
    destruct r as [|a [|b [|c [|d [|e t]]]]]; try discriminate.
    cbn [rlock] in E. cbn [strip_lock]. rewrite E.
    repeat (apply Bool.andb_true_iff in E; destruct E as [E ?]).
    match goal with Hx : beqb e x2e = true |- _ => apply beqb_eq in Hx; subst e end.
    cbn [pre_ok] in Hp. repeat (apply Bool.andb_true_iff in Hp; destruct Hp as [? Hp]).
    match goal with Hx : step_ok x2e t = true |- _ => apply step_ok_dot_hd in Hx; destruct Hx as [_ Hsl] end.
    cbn [length] in Hn. destruct (IH t ltac:(lia) Hp) as (I1 & I2 & I3 & I4).
    repeat split; auto.
    + intros _. destruct (rlock t) eqn:Et; [apply I3; reflexivity|].
      rewrite (strip_lock_id t Et). exact Hsl.
    + cbn [length]. lia.
Qed.

(* ---- one step of the sanitising loop --------------------------------------------------------- *)
Definition sstep (b : byte) (rin rout : bytes) : bytes :=
  let prev := hd x00 rin in
  if is_invalid_byte b then dash :: rout
  else if beqb b star then dash :: rout
  else if beqb b dot && beqb prev dot then rout
  else if beqb b dot && beqb prev slash then dash :: rout
  else if beqb b lbrace && beqb prev at_ then dash :: rout
  else if beqb b slash && beqb prev slash then rout
  else b :: (if beqb b slash && rlock rin then strip_lock rout else rout).

Lemma rlock6_head b rin : rlock6 (b :: rin) = true -> b = x6b.
Proof.
  unfold rlock6. intros H. apply Bool.andb_true_iff in H. destruct H as [H _].
  destruct rin as [|c [|o [|l [|d t]]]]; try discriminate. cbn [rlock] in H.
  repeat (apply Bool.andb_true_iff in H; destruct H as [H ?]). now apply beqb_eq in H.
Qed.

Lemma gloop_true_step b rest' rin rout :
  gloop true (b :: rest') rin rout =
  gloop true rest' (b :: rin)
    (if is_nil rest' && rlock6 (b :: rin) then strip_lock (sstep b rin rout) else sstep b rin rout).
Proof.
  destruct (is_nil rest' && rlock6 (b :: rin)) eqn:F.
  - apply Bool.andb_true_iff in F. destruct F as [F1 F2].
    pose proof (rlock6_head b rin F2). subst b.
    cbn [gloop]. unfold sstep. rewrite F1, F2.
    change (is_invalid_byte x6b) with false. change (beqb x6b star) with false.
    change (beqb x6b dot) with false. change (beqb x6b lbrace) with false. change (beqb x6b slash) with false.
    cbn [andb negb]. reflexivity.
  - cbn [gloop]. unfold sstep. rewrite F.
    destruct (is_invalid_byte b); [reflexivity|].
    destruct (beqb b star); [reflexivity|].
    destruct (beqb b dot && beqb (hd x00 rin) dot); [reflexivity|].
    destruct (beqb b dot && beqb (hd x00 rin) slash); [reflexivity|].
    destruct (beqb b lbrace && beqb (hd x00 rin) at_); [reflexivity|].
    destruct (beqb b slash && beqb (hd x00 rin) slash); [reflexivity|].
    cbn [negb andb]. rewrite !Bool.andb_false_r. reflexivity.
Qed.

Lemma step_ok_dash r : step_ok dash r = true.
Proof. reflexivity. Qed.

Lemma T_dash rout rin : T (dash :: rout) rin.
Proof. unfold T. cbn [lk1 lk2 lk3 lk4 lk5]. repeat split; intros H; discriminate H. Qed.

Lemma T_slash rout rin : T (slash :: rout) rin.
Proof. unfold T. cbn [lk1 lk2 lk3 lk4 lk5]. repeat split; intros H; discriminate H. Qed.

Lemma T_push b rout rin : T rout rin -> T (b :: rout) (b :: rin).
Proof.
  intros (T1 & T2 & T3 & T4 & T5). unfold T. cbn [lk1 lk2 lk3 lk4 lk5].
  repeat split; intros H; try exact H;
    apply Bool.andb_true_iff in H; destruct H as [H1 H2]; rewrite H1; cbn [andb]; auto.
Qed.

(* a dropped byte: '.' after '.', '/' after '/' — the buffer ends with that byte or with '-' *)
Lemma T_drop_dot rout rin : R rout dot -> T rout (dot :: rin).
Proof.
  intros HR. unfold T. destruct rout as [|h t]; [cbn; repeat split; intros H; discriminate H|].
  unfold R in HR. cbn [hd] in HR. cbn [lk1 lk2 lk3 lk4 lk5].
  destruct HR as [-> | ->]; repeat split; intros H; try reflexivity; discriminate H.
Qed.
Lemma T_drop_slash rout rin : R rout slash -> T rout (slash :: rin).
Proof.
  intros HR. unfold T. destruct rout as [|h t]; [cbn; repeat split; intros H; discriminate H|].
  unfold R in HR. cbn [hd] in HR. cbn [lk1 lk2 lk3 lk4 lk5].
  destruct HR as [-> | ->]; repeat split; intros H; discriminate H.
Qed.

Lemma R_not (rout : bytes) prev x : R rout prev -> beqb prev x = false -> beqb dash x = false ->
  beqb (hd x00 rout) x = false.
Proof. intros [-> | ->] H1 H2; assumption. Qed.

Ltac split4 := split; [|split; [|split]].

Lemma sstep_inv b rin rout : Inv rout rin -> Inv (sstep b rin rout) (b :: rin).
Proof.
  intros (Hp & HR & HT & Hl). unfold sstep, Inv. cbn [hd length].
  assert (Dash : pre_ok (dash :: rout) = true /\ R (dash :: rout) b /\ T (dash :: rout) (b :: rin)
                 /\ (length (dash :: rout) <= S (length rin))%nat).
  { split4; [cbn [pre_ok]; rewrite step_ok_dash; exact Hp|right; reflexivity|apply T_dash|cbn [length]; lia]. }
  destruct (is_invalid_byte b) eqn:C1; [exact Dash|].
  destruct (beqb b star) eqn:C2; [exact Dash|].
  destruct (beqb b dot && beqb (hd x00 rin) dot) eqn:C3.
  { apply Bool.andb_true_iff in C3. destruct C3 as [Cb Cp]. apply beqb_eq in Cb, Cp. subst b.
    rewrite Cp in HR. split4; [exact Hp|exact HR|apply T_drop_dot, HR|lia]. }
  destruct (beqb b dot && beqb (hd x00 rin) slash) eqn:C4; [exact Dash|].
  destruct (beqb b lbrace && beqb (hd x00 rin) at_) eqn:C5; [exact Dash|].
  destruct (beqb b slash && beqb (hd x00 rin) slash) eqn:C6.
  { apply Bool.andb_true_iff in C6. destruct C6 as [Cb Cp]. apply beqb_eq in Cb, Cp. subst b.
    rewrite Cp in HR. split4; [exact Hp|exact HR|apply T_drop_slash, HR|lia]. }
  clear Dash.
  destruct (beqb b slash) eqn:Cs.
  - apply beqb_eq in Cs. subst b. cbn [andb] in C6 |- *.
    assert (Hhd : beqb (hd x00 rout) slash = false) by (apply (R_not rout _ slash HR C6); reflexivity).
    destruct (strip_lock_props (length rout) rout (le_n _) Hp) as (S1 & S2 & S3 & S4).
    assert (Hgood : pre_ok (slash :: (if rlock rin then strip_lock rout else rout)) = true
                    /\ (length (if rlock rin then strip_lock rout else rout) <= length rout)%nat).
    { destruct (rlock rin) eqn:Er.
      - split; [|exact S4]. cbn [pre_ok]. rewrite S1, Bool.andb_true_r.
        assert (beqb (hd x00 (strip_lock rout)) slash = false) as Hh.
        { destruct (rlock rout) eqn:Eo; [apply S3; reflexivity|]. rewrite (strip_lock_id rout Eo). exact Hhd. }
        unfold step_ok. rewrite Hh, S2. reflexivity.
      - split; [|lia]. cbn [pre_ok]. rewrite Hp, Bool.andb_true_r.
        assert (rlock rout = false) as Ho.
        { destruct (rlock rout) eqn:Eo; [|reflexivity]. rewrite rlock_lk5 in Eo, Er.
          destruct HT as (_ & _ & _ & _ & T5). rewrite (T5 Eo) in Er. discriminate. }
        unfold step_ok. rewrite Hhd, Ho. reflexivity. }
    destruct Hgood as [G1 G2].
    split4; [exact G1|left; reflexivity|apply T_slash|cbn [length]; lia].
  - cbn [andb]. split4; [|left; reflexivity|apply T_push, HT|cbn [length]; lia].
    cbn [pre_ok]. rewrite Hp, Bool.andb_true_r. unfold step_ok. rewrite C1, C2, Cs. cbn [negb andb].
    destruct (beqb b dot) eqn:Cd.
    + cbn [andb] in C3, C4.
      rewrite (R_not rout _ dot HR C3 eq_refl), (R_not rout _ slash HR C4 eq_refl).
      apply beqb_eq in Cd. subst b. reflexivity.
    + cbn [andb negb]. destruct (beqb b lbrace) eqn:Cl; [|reflexivity].
      cbn [andb] in C5. rewrite (R_not rout _ at_ HR C5 eq_refl). reflexivity.
Qed.

Lemma rlock6_of_short r : (length r < 6)%nat -> rlock6 r = false.
Proof. intros H. unfold rlock6. apply Nat.leb_gt in H. rewrite H. apply Bool.andb_false_r. Qed.

Lemma san_loop : forall rest rin rout, Inv rout rin ->
  exists r, gloop true rest rin rout = Ok r /\ pre_ok r = true /\ (rest <> [] -> rlock6 r = false).
Proof.
  induction rest as [|b rest IH]; intros rin rout HI.
  - exists rout. repeat split; [exact (proj1 HI)|congruence].
  - rewrite gloop_true_step. pose proof (sstep_inv b rin rout HI) as HI2.
    destruct rest as [|c rest].
    + cbn [is_nil andb gloop]. destruct HI2 as (Hp & HR & HT & Hl).
      destruct (strip_lock_props _ _ (le_n _) Hp) as (S1 & S2 & _ & _).
      destruct (rlock6 (b :: rin)) eqn:E6.
      * eexists. repeat split; [exact S1|]. intros _. unfold rlock6. rewrite S2. reflexivity.
      * eexists. repeat split; [exact Hp|]. intros _.
        destruct (rlock (sstep b rin rout)) eqn:Eo; [|unfold rlock6; rewrite Eo; reflexivity].
        apply rlock6_of_short. rewrite rlock_lk5 in Eo. destruct HT as (_ & _ & _ & _ & T5).
        apply T5 in Eo. rewrite <- rlock_lk5 in Eo. unfold rlock6 in E6. rewrite Eo in E6. cbn [andb] in E6.
        apply Nat.leb_gt in E6. lia.
    + cbn [is_nil andb]. destruct (IH (b :: rin) _ HI2) as (r & E & P1 & P2).
      exists r. repeat split; [exact E|exact P1|]. intros _. apply P2. discriminate.
Qed.

Lemma Inv_init : Inv [] [].
Proof. split4; [reflexivity|left; reflexivity|repeat split; intros H; discriminate H|apply le_n]. Qed.

(* ---- after the loop --------------------------------------------------------------------------- *)
Lemma rlock_mono r X : rlock r = true -> rlock (r ++ X) = true.
Proof. destruct r as [|a [|b [|c [|d [|e t]]]]]; try discriminate. intros H; exact H. Qed.

Lemma rlock6_mono r X : rlock6 r = true -> rlock6 (r ++ X) = true.
Proof.
  unfold rlock6. intros H. apply Bool.andb_true_iff in H. destruct H as [H1 H2].
  rewrite (rlock_mono r X H1). cbn [andb]. apply Nat.leb_le in H2. apply Nat.leb_le. rewrite app_length. lia.
Qed.

Lemma step_ok_app_l b r X : step_ok b (r ++ X) = true -> step_ok b r = true.
Proof.
  unfold step_ok. destruct r as [|h t].
  - cbn [app hd]. change (rlock []) with false. change (beqb x00 dot) with false.
    change (beqb x00 slash) with false. change (beqb x00 at_) with false.
    destruct (is_invalid_byte b), (beqb b star); cbn [negb andb]; try (intros H; discriminate H).
    intros _. rewrite !Bool.andb_false_r. reflexivity.
  - cbn [app hd]. destruct (rlock (h :: t)) eqn:E.
    + change (h :: t ++ X) with ((h :: t) ++ X). rewrite (rlock_mono _ X E). intros H; exact H.
    + intros H. rewrite Bool.andb_false_r. cbn [negb]. rewrite Bool.andb_true_r.
      apply Bool.andb_true_iff in H. exact (proj1 H).
Qed.

Lemma pre_ok_app_l r X : pre_ok (r ++ X) = true -> pre_ok r = true.
Proof.
  induction r as [|b r IH]; [reflexivity|]. cbn [app pre_ok]. intros H.
  apply Bool.andb_true_iff in H. destruct H as [H1 H2].
  rewrite (step_ok_app_l b r X H1), (IH H2). reflexivity.
Qed.

Lemma ds_hd l : beqb (hd x00 (drop_slashes l)) slash = false.
Proof.
  induction l as [|b l IH]; [reflexivity|]. cbn [drop_slashes].
  destruct (beqb b slash) eqn:E; [exact IH|exact E].
Qed.
Lemma ds_id l : beqb (hd x00 l) slash = false -> drop_slashes l = l.
Proof. destruct l as [|b l]; [reflexivity|]. cbn [hd drop_slashes]. intros ->. reflexivity. Qed.
Lemma ds_split l : exists X, l = X ++ drop_slashes l.
Proof.
  induction l as [|b l [X IH]]; [exists []; reflexivity|]. cbn [drop_slashes].
  destruct (beqb b slash); [exists (b :: X); cbn [app]; congruence|exists []; reflexivity].
Qed.

Lemma hd_rev_last' (c : bytes) : hd x00 (rev c) = last c x00.
Proof.
  induction c as [|a c IH]; [reflexivity|]. cbn [rev]. destruct c as [|b c]; [reflexivity|].
  change (last (a :: b :: c) x00) with (last (b :: c) x00). rewrite <- IH.
  destruct (rev (b :: c)) eqn:E; [|reflexivity].
  apply (f_equal (@length byte)) in E. rewrite rev_length in E. discriminate.
Qed.

Definition Q (o : bytes) : Prop :=
  o <> [] /\ pre_ok (rev o) = true /\ rlock6 (rev o) = false
  /\ beqb (hd x00 o) slash = false /\ beqb (last o x00) slash = false.

Definition trimmed (rout : bytes) : bytes :=
  let o := drop_slashes (rev (drop_slashes rout)) in match o with [] => [dash] | _ => o end.

Lemma Q_trimmed rout : pre_ok rout = true -> rlock6 rout = false -> Q (trimmed rout).
Proof.
  intros Hp H6.
  (* trailing slashes *)
  assert (H1 : pre_ok (drop_slashes rout) = true /\ rlock6 (drop_slashes rout) = false).
  { destruct rout as [|h t]; [split; reflexivity|]. cbn [drop_slashes].
    destruct (beqb h slash) eqn:Eh; [|split; assumption].
    apply beqb_eq in Eh. subst h. cbn [pre_ok] in Hp. apply Bool.andb_true_iff in Hp. destruct Hp as [Hs Hp].
    unfold step_ok in Hs. change (beqb slash slash) with true in Hs.
    assert (beqb (hd x00 t) slash = false /\ rlock t = false) as [Ht Hl].
    { destruct (beqb (hd x00 t) slash), (rlock t); cbn in Hs; try discriminate Hs; split; reflexivity. }
    rewrite (ds_id t Ht). split; [exact Hp|]. unfold rlock6. rewrite Hl. reflexivity. }
  destruct H1 as [Hp1 H61]. pose proof (ds_hd rout) as Hh1.
  unfold trimmed. cbv zeta.
  set (r1 := drop_slashes rout) in *. clearbody r1.
  destruct (ds_split (rev r1)) as [X HX]. set (o := drop_slashes (rev r1)) in *.
  pose proof (ds_hd (rev r1)) as Hho. fold o in Hho. clearbody o.
  assert (Hr : r1 = rev o ++ rev X).
  { rewrite <- rev_app_distr, <- HX, rev_involutive. reflexivity. }
  destruct o as [|a o'].
  - unfold Q. repeat split; try reflexivity. discriminate.
  - set (oo := a :: o') in *. assert (Hne : oo <> []) by discriminate. clearbody oo.
    unfold Q. repeat split.
    + exact Hne.
    + rewrite Hr in Hp1. exact (pre_ok_app_l _ _ Hp1).
    + destruct (rlock6 (rev oo)) eqn:E; [|reflexivity].
      rewrite Hr, (rlock6_mono _ (rev X) E) in H61. discriminate.
    + exact Hho.
    + rewrite <- hd_rev_last'. rewrite Hr in Hh1.
      destruct (rev oo) eqn:Er; [|exact Hh1].
      apply (f_equal (@length byte)) in Er. rewrite rev_length in Er. destruct oo; [congruence|discriminate].
Qed.

Definition fix_first (o : bytes) : bytes := if beqb (hd x00 o) dot then set_first o dash else o.
Definition fix_last (o : bytes) : bytes := if beqb (last o x00) dot then set_last o dash else o.

Lemma step_ok_last_dash b r : step_ok b (r ++ [dot]) = true -> step_ok b (r ++ [dash]) = true.
Proof.
  unfold step_ok. destruct r as [|h t].
  - cbn [app hd]. change (rlock [dash]) with false. change (rlock [dot]) with false.
    change (beqb dash dot) with false. change (beqb dash slash) with false. change (beqb dash at_) with false.
    destruct (is_invalid_byte b), (beqb b star); cbn [negb andb]; try (intros H; discriminate H).
    intros _. rewrite !Bool.andb_false_r. reflexivity.
  - cbn [app hd].
    assert (rlock (h :: t ++ [dash]) = true -> rlock (h :: t ++ [dot]) = true) as Hm.
    { destruct t as [|b1 [|c1 [|d1 [|e1 t']]]]; cbn [app rlock]; try (intros H; discriminate H).
      - change (beqb dash x2e) with false. rewrite !Bool.andb_false_r. intros H; discriminate H.
      - intros H; exact H. }
    destruct (rlock (h :: t ++ [dash])) eqn:E.
    + rewrite (Hm eq_refl). intros H; exact H.
    + intros H. rewrite Bool.andb_false_r. cbn [negb]. rewrite Bool.andb_true_r.
      apply Bool.andb_true_iff in H. exact (proj1 H).
Qed.

Lemma pre_ok_last_dash r : pre_ok (r ++ [dot]) = true -> pre_ok (r ++ [dash]) = true.
Proof.
  induction r as [|b r IH]; [reflexivity|]. cbn [app pre_ok]. intros H.
  apply Bool.andb_true_iff in H. destruct H as [H1 H2].
  rewrite (step_ok_last_dash b r H1), (IH H2). reflexivity.
Qed.

Lemma rlock6_last_dash r : rlock6 (r ++ [dot]) = false -> rlock6 (r ++ [dash]) = false.
Proof.
  unfold rlock6. rewrite !app_length. cbn [length]. intros H.
  destruct (rlock (r ++ [dash])) eqn:E; [|reflexivity].
  assert (rlock (r ++ [dot]) = true) as E2.
  { destruct r as [|a [|b [|c [|d [|e t]]]]]; cbn [app rlock] in E |- *; try discriminate E.
    - change (beqb dash x2e) with false in E. rewrite !Bool.andb_false_r in E. discriminate E.
    - exact E. }
  rewrite E2 in H. exact H.
Qed.

Lemma Q_fix_first o : Q o -> Q (fix_first o) /\ beqb (hd x00 (fix_first o)) dot = false.
Proof.
  intros (Hne & Hp & H6 & Hh & Hl). unfold fix_first.
  destruct (beqb (hd x00 o) dot) eqn:Ed; [|split; [repeat split; assumption|exact Ed]].
  destruct o as [|a t]; [congruence|]. cbn [hd] in Ed. apply beqb_eq in Ed. subst a.
  cbn [set_first]. split; [|reflexivity]. cbn [rev] in Hp, H6.
  unfold Q. repeat split.
  - discriminate.
  - cbn [rev]. apply pre_ok_last_dash, Hp.
  - cbn [rev]. apply rlock6_last_dash, H6.
  - destruct t as [|b t]; [reflexivity|].
    change (last (dash :: b :: t) x00) with (last (b :: t) x00).
    change (last (dot :: b :: t) x00) with (last (b :: t) x00) in Hl. exact Hl.
Qed.

Lemma last_snoc (l : bytes) x : last (l ++ [x]) x00 = x.
Proof. apply last_last. Qed.

Lemma valid_fix_last o : Q o -> beqb (hd x00 o) dot = false -> valid_tag (fix_last o) = true.
Proof.
  intros (Hne & Hp & H6 & Hh & Hl) Hd. unfold fix_last.
  destruct (beqb (last o x00) dot) eqn:El.
  - apply beqb_eq in El. rewrite <- hd_rev_last' in El.
    unfold set_last. destruct (rev o) as [|x r'] eqn:Er.
    { apply (f_equal (@length byte)) in Er. rewrite rev_length in Er. destruct o; [congruence|discriminate]. }
    cbn [hd] in El. subst x. cbn [set_first].
    assert (Ho : o = rev r' ++ [dot]) by (rewrite <- (rev_involutive o), Er; reflexivity).
    assert (Hr' : r' <> []).
    { intros ->. cbn in Ho. subst o. discriminate Hd. }
    assert (Hhd : hd x00 (rev (dash :: r')) = hd x00 o).
    { rewrite Ho. cbn [rev]. destruct (rev r') eqn:E; [|reflexivity].
      apply (f_equal (@length byte)) in E. rewrite rev_length in E. destruct r'; [congruence|discriminate]. }
    unfold valid_tag. rewrite rev_involutive. rewrite Hhd, Hh, Hd.
    cbn [rev]. rewrite last_snoc. cbn [pre_ok] in Hp |- *.
    apply Bool.andb_true_iff in Hp. destruct Hp as [_ Hp]. rewrite Hp, step_ok_dash.
    assert (is_nil (rev r' ++ [dash]) = false) as -> by (destruct (rev r'); reflexivity).
    assert (rlock6 (dash :: r') = false) as ->.
    { unfold rlock6. destruct r' as [|c [|o' [|l [|d t]]]]; reflexivity. }
    reflexivity.
  - unfold valid_tag. rewrite Hp, H6, Hh, Hl, Hd, El.
    destruct o; [congruence|reflexivity].
Qed.

Lemma set_first_ne o b : o <> [] -> set_first o b <> [].
Proof. destruct o; [congruence|discriminate]. Qed.

Definition finish_tail (out : bytes) : outcome (option bytes) terr :=
  b0 <- index out 0 ;;
  let out := if beqb b0 dot then set_first out dash else out in
  lastp <- usize_sub (length out) 1 ;;
  bl <- index out lastp ;;
  let out := if beqb bl dot then set_last out dash else out in
  Ok (Some out).

Lemma finish_tail_eq o3 : o3 <> [] -> finish_tail o3 = Ok (Some (fix_last (fix_first o3))).
Proof.
  intros Hne. unfold finish_tail.
  unfold index at 1. rewrite (nth_error_hd o3 Hne). cbn [obind]. fold (fix_first o3).
  assert (Hne4 : fix_first o3 <> []).
  { unfold fix_first. destruct (beqb (hd x00 o3) dot); [apply set_first_ne|]; exact Hne. }
  set (o4 := fix_first o3) in *. clearbody o4.
  unfold usize_sub. assert (Nat.leb 1 (length o4) = true) as -> by (destruct o4; [congruence|reflexivity]).
  cbn [obind]. unfold index. rewrite (nth_error_last o4 Hne4). cbn [obind]. reflexivity.
Qed.

Lemma finish_true input rout :
  finish true input rout = Ok (Some (fix_last (fix_first (trimmed rout)))).
Proof.
  change (finish true input rout) with (finish_tail (trimmed rout)).
  apply finish_tail_eq. unfold trimmed. cbv zeta.
  destruct (drop_slashes (rev (drop_slashes rout))); discriminate.
Qed.

(* the sanitiser's result is accepted by the validating mode (which is what name_partial runs) *)
Lemma ref_sanitize_valid s :
  exists o, ref_sanitize s = Ok o /\ valid_tag o = true.
Proof.
  unfold ref_sanitize, validate.
  assert (H : exists o, name_inner s true = Ok (Some o) /\ valid_tag o = true).
  { unfold name_inner. destruct s as [|a s]; [exists [dash]; split; reflexivity|].
    rewrite !Bool.andb_false_r. rewrite loop_from_start.
    destruct (san_loop (a :: s) [] [] Inv_init) as (r & E & P1 & P2). rewrite E. cbn [obind].
    rewrite finish_true. eexists. split; [reflexivity|].
    pose proof (Q_trimmed r P1 (P2 ltac:(discriminate))) as HQ.
    destruct (Q_fix_first _ HQ) as [HQ2 Hd]. exact (valid_fix_last _ HQ2 Hd). }
  destruct H as (o & -> & Hv). exists o. split; [reflexivity|exact Hv].
Qed.

(* ---- a valid name is left alone ----------------------------------------------------------------- *)
Lemma sstep_valid b rin rout : step_ok b rin = true -> sstep b rin rout = b :: rout.
Proof.
  unfold step_ok, sstep.
  destruct (is_invalid_byte b); [intros H; discriminate H|].
  destruct (beqb b star); [intros H; discriminate H|].
  destruct (beqb b dot && beqb (hd x00 rin) dot); [intros H; discriminate H|].
  destruct (beqb b dot && beqb (hd x00 rin) slash); [intros H; discriminate H|].
  destruct (beqb b lbrace && beqb (hd x00 rin) at_); [intros H; discriminate H|].
  destruct (beqb b slash && beqb (hd x00 rin) slash); [intros H; discriminate H|].
  destruct (beqb b slash && rlock rin); [intros H; discriminate H|]. reflexivity.
Qed.

Lemma gloop_true_valid : forall rest rin,
  steps_ok rest rin = true -> (rest <> [] -> rlock6 (rev rest ++ rin) = false) ->
  gloop true rest rin rin = Ok (rev rest ++ rin).
Proof.
  induction rest as [|b rest IH]; intros rin Hs H6; [reflexivity|].
  cbn [steps_ok] in Hs. apply Bool.andb_true_iff in Hs. destruct Hs as [Hb Hs].
  rewrite gloop_true_step, (sstep_valid b rin rin Hb).
  cbn [rev] in H6 |- *. rewrite <- app_assoc in H6 |- *. cbn [app] in H6 |- *.
  destruct rest as [|c rest].
  - cbn [is_nil andb rev app] in H6 |- *. rewrite (H6 ltac:(discriminate)). reflexivity.
  - cbn [is_nil andb]. apply IH; [exact Hs|]. intros _. apply H6. discriminate.
Qed.

Lemma ref_sanitize_id s : valid_tag s = true -> ref_sanitize s = Ok s.
Proof.
  unfold valid_tag. intros H.
  repeat (apply Bool.andb_true_iff in H; destruct H as [H ?]).
  repeat match goal with Hx : negb _ = true |- _ => apply Bool.negb_true_iff in Hx end.
  assert (Hne : s <> []) by (destruct s; [discriminate|discriminate]).
  unfold ref_sanitize, validate, name_inner.
  destruct s as [|a s']; [congruence|]. set (s := a :: s') in *.
  rewrite !Bool.andb_false_r, loop_from_start.
  assert (Hst : steps_ok s [] = true).
  { match goal with Hx : pre_ok (rev s) = true |- _ =>
      rewrite <- (app_nil_r (rev s)), pre_ok_steps in Hx; apply Bool.andb_true_iff in Hx; exact (proj1 Hx) end. }
  rewrite (gloop_true_valid s [] Hst) by (intros _; rewrite app_nil_r; assumption).
  cbn [obind]. rewrite app_nil_r, finish_true.
  assert (Htr : trimmed (rev s) = s).
  { unfold trimmed. cbv zeta. rewrite (ds_id (rev s)) by (rewrite hd_rev_last'; assumption).
    rewrite rev_involutive, (ds_id s) by assumption. reflexivity. }
  rewrite Htr. unfold fix_first.
  match goal with Hx : beqb (hd x00 s) dot = false |- _ => rewrite Hx end.
  unfold fix_last. match goal with Hx : beqb (last s x00) dot = false |- _ => rewrite Hx end.
  reflexivity.
Qed.
