//! C46 — merge bases agree with git.
//!
//! case:  mb <mode> <n> (<id20> <time> <gen|-> <parents: 20-byte ids concatenated>){n} <first id20> <others: ids concatenated>
//!   mode = mem     in-memory object database holding exactly the n commits (ids are arbitrary 20-byte strings), no commit-graph
//!          memcg   the same plus a commit-graph file written by this harness holding the commits whose gen field is set
//!          repo    a real repository on disk (loose objects; ids are the SHA-1s of the commit objects), no commit-graph
//!          repocg  the same plus a commit-graph written by `git commit-graph write` over the commits whose gen field is set
//!   commits are listed parents first; a parent/first/other id that is not listed is a missing object.
//! transcript:  ok none | ok <hex>,<hex>,…  (in the order returned) | err | BADCASE …
use gixv_common::*;
use std::collections::{BTreeSet, HashMap};
use std::io::Write as _;
use std::path::{Path, PathBuf};
use std::process::{Command, Stdio};
use std::sync::atomic::{AtomicU64, Ordering};
use std::time::Duration;

use gix_hash::ObjectId;
use gix_odb::Write as _;
use gix_revision::merge_base::Flags;

#[derive(Clone, Debug)]
struct Cm {
    id: Vec<u8>,
    time: i64,
    gen: Option<u32>,
    parents: Vec<Vec<u8>>,
}
#[derive(Clone, Debug)]
struct Q {
    mode: String,
    d: Vec<Cm>,
    first: Vec<u8>,
    others: Vec<Vec<u8>>,
}

fn split_ids(b: &[u8]) -> Vec<Vec<u8>> {
    b.chunks(20).map(|c| c.to_vec()).collect()
}

fn parse(c: &Case) -> Option<Q> {
    if f_str(c, 0) != b"mb" {
        return None;
    }
    let mode = String::from_utf8_lossy(f_str(c, 1)).into_owned();
    let n = f_u64(c, 2) as usize;
    if c.len() != 3 + 4 * n + 2 {
        return None;
    }
    let mut d = Vec::new();
    for i in 0..n {
        let b = 3 + 4 * i;
        let g = f_str(c, b + 2);
        d.push(Cm {
            id: f_str(c, b).to_vec(),
            time: f_i64(c, b + 1),
            gen: if g.is_empty() { None } else { Some(f_u64(c, b + 2) as u32) },
            parents: split_ids(f_str(c, b + 3)),
        });
    }
    let first = f_str(c, 3 + 4 * n).to_vec();
    let others = split_ids(f_str(c, 4 + 4 * n));
    if first.len() != 20 || d.iter().any(|c| c.id.len() != 20 || c.parents.iter().any(|p| p.len() != 20)) {
        return None;
    }
    if others.iter().any(|o| o.len() != 20) {
        return None;
    }
    Some(Q { mode, d, first, others })
}

fn to_case(q: &Q) -> Case {
    let mut c = vec![tag("mb"), tag(&q.mode), num(q.d.len())];
    for cm in &q.d {
        c.push(cm.id.clone());
        c.push(num(cm.time));
        c.push(match cm.gen {
            None => vec![],
            Some(g) => num(g),
        });
        c.push(cm.parents.concat());
    }
    c.push(q.first.clone());
    c.push(q.others.concat());
    c
}

const EMPTY_TREE: &str = "4b825dc642cb6eb9a060e54bf8d69288fbee4904";

fn commit_bytes(parents: &[Vec<u8>], time: i64, salt: usize) -> Vec<u8> {
    let mut s = format!("tree {EMPTY_TREE}\n");
    for p in parents {
        s.push_str(&format!("parent {}\n", hexs(p)));
    }
    s.push_str(&format!("author a <a@b> {time} +0000\ncommitter a <a@b> {time} +0000\n\nc{salt}\n"));
    s.into_bytes()
}

fn real_id(parents: &[Vec<u8>], time: i64, salt: usize) -> Vec<u8> {
    gix_object::compute_hash(gix_hash::Kind::Sha1, gix_object::Kind::Commit, &commit_bytes(parents, time, salt))
        .as_bytes()
        .to_vec()
}

// ---------------------------------------------------------------------------------------------------
// in-memory object database
struct MemOdb(HashMap<ObjectId, Vec<u8>>);
impl gix_object::Find for MemOdb {
    fn try_find<'a>(
        &self,
        id: &gix_hash::oid,
        buffer: &'a mut Vec<u8>,
    ) -> Result<Option<gix_object::Data<'a>>, gix_object::find::Error> {
        match self.0.get(id) {
            None => Ok(None),
            Some(b) => {
                buffer.clear();
                buffer.extend_from_slice(b);
                Ok(Some(gix_object::Data { kind: gix_object::Kind::Commit, data: buffer }))
            }
        }
    }
}
fn oid(b: &[u8]) -> ObjectId {
    ObjectId::from_bytes_or_panic(b)
}
fn mem_odb(q: &Q) -> MemOdb {
    let mut m = HashMap::new();
    for (i, cm) in q.d.iter().enumerate() {
        m.entry(oid(&cm.id)).or_insert_with(|| commit_bytes(&cm.parents, cm.time, i));
    }
    MemOdb(m)
}

// ---------------------------------------------------------------------------------------------------
// scratch directories
static COUNTER: AtomicU64 = AtomicU64::new(0);
struct Scratch(PathBuf);
impl Scratch {
    fn new() -> Scratch {
        let base = if Path::new("/dev/shm").is_dir() { PathBuf::from("/dev/shm") } else { std::env::temp_dir() };
        let p = base.join(format!("gixv-c46-{}-{}", std::process::id(), COUNTER.fetch_add(1, Ordering::SeqCst)));
        let _ = std::fs::remove_dir_all(&p);
        std::fs::create_dir_all(&p).expect("scratch dir");
        Scratch(p)
    }
}
impl Drop for Scratch {
    fn drop(&mut self) {
        let _ = std::fs::remove_dir_all(&self.0);
    }
}

// ---------------------------------------------------------------------------------------------------
// commit-graph file written by hand (format: Documentation/gitformat-commit-graph.txt), for arbitrary ids
fn write_commit_graph(q: &Q) -> Result<Vec<u8>, String> {
    let mut recs: Vec<&Cm> = q.d.iter().filter(|c| c.gen.is_some()).collect();
    recs.sort_by(|a, b| a.id.cmp(&b.id));
    recs.dedup_by(|a, b| a.id == b.id);
    let pos: HashMap<&[u8], u32> = recs.iter().enumerate().map(|(i, c)| (c.id.as_slice(), i as u32)).collect();
    let mut fan = vec![0u32; 256];
    for r in &recs {
        fan[r.id[0] as usize] += 1;
    }
    for i in 1..256 {
        fan[i] += fan[i - 1];
    }
    let mut cdat = Vec::new();
    let mut edges: Vec<u32> = Vec::new();
    for r in &recs {
        let mut ps = Vec::new();
        for p in &r.parents {
            ps.push(*pos.get(p.as_slice()).ok_or("commit-graph commit with a parent outside of the graph")?);
        }
        cdat.extend_from_slice(&[0x11; 20]);
        let p1 = ps.first().copied().unwrap_or(0x7000_0000);
        let p2 = match ps.len() {
            0 | 1 => 0x7000_0000,
            2 => ps[1],
            _ => {
                let at = edges.len() as u32;
                for (k, p) in ps[1..].iter().enumerate() {
                    edges.push(if k == ps.len() - 2 { *p | 0x8000_0000 } else { *p });
                }
                0x8000_0000 | at
            }
        };
        cdat.extend_from_slice(&p1.to_be_bytes());
        cdat.extend_from_slice(&p2.to_be_bytes());
        let w = ((r.gen.unwrap() as u64) << 34) | ((r.time as u64) & ((1 << 34) - 1));
        cdat.extend_from_slice(&w.to_be_bytes());
    }
    let mut chunks: Vec<(&[u8], Vec<u8>)> = vec![
        (b"OIDF", fan.iter().flat_map(|v| v.to_be_bytes()).collect()),
        (b"OIDL", recs.iter().flat_map(|r| r.id.clone()).collect()),
        (b"CDAT", cdat),
    ];
    if !edges.is_empty() {
        chunks.push((b"EDGE", edges.iter().flat_map(|v| v.to_be_bytes()).collect()));
    }
    let n = chunks.len();
    let mut out = b"CGPH".to_vec();
    out.extend_from_slice(&[1, 1, n as u8, 0]);
    let mut ofs = (8 + 12 * (n + 1)) as u64;
    for (id, c) in &chunks {
        out.extend_from_slice(id);
        out.extend_from_slice(&ofs.to_be_bytes());
        ofs += c.len() as u64;
    }
    out.extend_from_slice(&[0, 0, 0, 0]);
    out.extend_from_slice(&ofs.to_be_bytes());
    for (_, c) in &chunks {
        out.extend_from_slice(c);
    }
    out.extend_from_slice(&[0xcc; 20]);
    Ok(out)
}

// ---------------------------------------------------------------------------------------------------
// real git
fn git(dir: &Path, args: &[&str], stdin: &[u8]) -> Result<Vec<u8>, String> {
    let mut ch = Command::new("git")
        .args(args)
        .env("GIT_DIR", dir)
        .env("GIT_CONFIG_NOSYSTEM", "1")
        .env("GIT_CONFIG_GLOBAL", "/dev/null")
        .env("HOME", dir)
        .env_remove("GIT_WORK_TREE")
        .stdin(Stdio::piped())
        .stdout(Stdio::piped())
        .stderr(Stdio::piped())
        .spawn()
        .map_err(|e| format!("spawn git: {e}"))?;
    ch.stdin.take().unwrap().write_all(stdin).map_err(|e| e.to_string())?;
    let o = ch.wait_with_output().map_err(|e| e.to_string())?;
    if !o.status.success() && !(args.first() == Some(&"merge-base") && o.status.code() == Some(1)) {
        return Err(format!("git {:?}: {}", args, String::from_utf8_lossy(&o.stderr)));
    }
    Ok(o.stdout)
}

fn bare_repo(dir: &Path) -> Result<gix_odb::loose::Store, String> {
    std::fs::create_dir_all(dir.join("objects/info")).map_err(|e| e.to_string())?;
    std::fs::create_dir_all(dir.join("refs")).map_err(|e| e.to_string())?;
    std::fs::write(dir.join("HEAD"), "ref: refs/heads/main\n").map_err(|e| e.to_string())?;
    let store = gix_odb::loose::Store::at(dir.join("objects"), gix_hash::Kind::Sha1);
    store.write_buf(gix_object::Kind::Tree, b"").map_err(|e| e.to_string())?;
    Ok(store)
}

/// Write the dag as a real repository. Returns the map case id -> real id (the identity in repo modes).
fn realize(q: &Q, dir: &Path) -> Result<HashMap<Vec<u8>, Vec<u8>>, String> {
    let store = bare_repo(dir)?;
    let mut map: HashMap<Vec<u8>, Vec<u8>> = HashMap::new();
    for (i, cm) in q.d.iter().enumerate() {
        let mut ps = Vec::new();
        for p in &cm.parents {
            ps.push(map.get(p).ok_or("parent is missing or listed later")?.clone());
        }
        let id = store
            .write_buf(gix_object::Kind::Commit, &commit_bytes(&ps, cm.time, i))
            .map_err(|e| e.to_string())?;
        if map.insert(cm.id.clone(), id.as_bytes().to_vec()).is_some() {
            return Err("duplicate id".into());
        }
    }
    Ok(map)
}

/// `git merge-base --all first others…` on the realized dag, mapped back to case ids, sorted.
fn git_merge_base(q: &Q) -> Result<Vec<Vec<u8>>, String> {
    let sc = Scratch::new();
    let map = realize(q, &sc.0)?;
    let back: HashMap<&[u8], &[u8]> = map.iter().map(|(k, v)| (v.as_slice(), k.as_slice())).collect();
    let mut args = vec!["merge-base".to_string(), "--all".to_string()];
    args.push(hexs(map.get(&q.first).ok_or("first is missing")?));
    for o in &q.others {
        args.push(hexs(map.get(o).ok_or("other is missing")?));
    }
    let a: Vec<&str> = args.iter().map(|s| s.as_str()).collect();
    let out = git(&sc.0, &a, b"")?;
    let mut res = Vec::new();
    for l in String::from_utf8_lossy(&out).lines() {
        let real = unhex(l.trim());
        res.push(back.get(real.as_slice()).ok_or("git printed an unknown id")?.to_vec());
    }
    res.sort();
    Ok(res)
}

// ---------------------------------------------------------------------------------------------------
// the implementation
fn show(r: Result<Option<Vec<ObjectId>>, gix_revision::merge_base::Error>) -> String {
    match r {
        Err(_) => "err".into(),
        Ok(None) => "ok none".into(),
        Ok(Some(v)) => format!("ok {}", v.iter().map(|i| hexs(i.as_bytes())).collect::<Vec<_>>().join(",")),
    }
}

fn check_gens(q: &Q, cg: &gix_commitgraph::Graph) -> Result<(), String> {
    for cm in &q.d {
        let got = cg.commit_by_id(oid(&cm.id)).map(|c| c.generation());
        if got != cm.gen {
            return Err(format!("BADCASE generation of {}: case {:?}, commit-graph {:?}", hexs(&cm.id), cm.gen, got));
        }
    }
    Ok(())
}

fn run_impl(q: &Q) -> Result<Result<Option<Vec<ObjectId>>, gix_revision::merge_base::Error>, String> {
    let first = oid(&q.first);
    let others: Vec<ObjectId> = q.others.iter().map(|o| oid(o)).collect();
    match q.mode.as_str() {
        "memcg" if q.d.iter().any(|c| c.gen.is_some()) => {
            let sc = Scratch::new();
            let odb = mem_odb(q);
            let p = sc.0.join("commit-graph");
            std::fs::write(&p, write_commit_graph(q).map_err(|e| format!("BADCASE {e}"))?).map_err(|e| e.to_string())?;
            let cg = gix_commitgraph::at(&p).map_err(|e| format!("BADCASE commit-graph does not open: {e}"))?;
            check_gens(q, &cg)?;
            let mut graph = gix_revision::Graph::<gix_revwalk::graph::Commit<Flags>>::new(odb, Some(&cg));
            Ok(gix_revision::merge_base(first, &others, &mut graph))
        }
        "mem" | "memcg" => {
            let odb = mem_odb(q);
            let mut graph = gix_revision::Graph::<gix_revwalk::graph::Commit<Flags>>::new(odb, None);
            Ok(gix_revision::merge_base(first, &others, &mut graph))
        }
        "repo" | "repocg" => {
            let sc = Scratch::new();
            let map = realize(q, &sc.0).map_err(|e| format!("BADCASE {e}"))?;
            if map.iter().any(|(k, v)| k != v) {
                return Err("BADCASE id in the case is not the id of the commit object".into());
            }
            let cg = if q.mode == "repocg" && q.d.iter().any(|c| c.gen.is_some()) {
                let mut input = String::new();
                for cm in q.d.iter().filter(|c| c.gen.is_some()) {
                    input.push_str(&hexs(&cm.id));
                    input.push('\n');
                }
                git(&sc.0, &["commit-graph", "write", "--stdin-commits"], input.as_bytes()).map_err(|e| format!("BADCASE {e}"))?;
                let cg = gix_commitgraph::Graph::from_info_dir(&sc.0.join("objects/info"))
                    .map_err(|e| format!("BADCASE commit-graph does not open: {e}"))?;
                check_gens(q, &cg)?;
                Some(cg)
            } else {
                None
            };
            let odb = gix_odb::at(sc.0.join("objects")).map_err(|e| format!("BADCASE {e}"))?;
            let mut graph = gix_revision::Graph::<gix_revwalk::graph::Commit<Flags>>::new(&odb, cg.as_ref());
            Ok(gix_revision::merge_base(first, &others, &mut graph))
        }
        _ => Err("BADCASE mode".into()),
    }
}

fn imp(c: &Case) -> String {
    match parse(c) {
        None => "BADCASE parse".into(),
        Some(q) => match run_impl(&q) {
            Ok(r) => show(r),
            Err(e) => e,
        },
    }
}

// ---------------------------------------------------------------------------------------------------
// naive oracle: maximal elements of the set of common ancestors
fn reach(q: &Q, idx: &HashMap<&[u8], usize>, from: &[u8]) -> BTreeSet<usize> {
    let mut seen = BTreeSet::new();
    let mut todo = Vec::new();
    if let Some(i) = idx.get(from) {
        todo.push(*i);
    }
    while let Some(i) = todo.pop() {
        if seen.insert(i) {
            for p in &q.d[i].parents {
                if let Some(j) = idx.get(p.as_slice()) {
                    todo.push(*j);
                }
            }
        }
    }
    seen
}

fn index_of(q: &Q) -> HashMap<&[u8], usize> {
    let mut idx: HashMap<&[u8], usize> = HashMap::new();
    for (i, cm) in q.d.iter().enumerate() {
        idx.entry(cm.id.as_slice()).or_insert(i);
    }
    idx
}

/// (common ancestors, maximal common ancestors) as sorted id lists
fn naive(q: &Q) -> (Vec<Vec<u8>>, Vec<Vec<u8>>) {
    let idx = index_of(q);
    let r1 = reach(q, &idx, &q.first);
    let mut r2 = BTreeSet::new();
    for o in &q.others {
        r2.extend(reach(q, &idx, o));
    }
    let ca: BTreeSet<usize> = r1.intersection(&r2).copied().collect();
    let mut maximal = Vec::new();
    for x in &ca {
        let dominated = ca.iter().any(|y| y != x && reach(q, &idx, &q.d[*y].id).contains(x));
        if !dominated {
            maximal.push(q.d[*x].id.clone());
        }
    }
    let mut cav: Vec<Vec<u8>> = ca.iter().map(|i| q.d[*i].id.clone()).collect();
    cav.sort();
    maximal.sort();
    (cav, maximal)
}

fn show_set(v: &[Vec<u8>]) -> String {
    if v.is_empty() {
        "ok none".into()
    } else {
        format!("ok {}", v.iter().map(|i| hexs(i)).collect::<Vec<_>>().join(","))
    }
}

fn shortcut(q: &Q) -> bool {
    q.others.is_empty() || q.others.contains(&q.first)
}

fn git_applicable(q: &Q) -> bool {
    let idx = index_of(q);
    let mut seen: BTreeSet<&[u8]> = BTreeSet::new();
    for cm in &q.d {
        if cm.parents.iter().any(|p| !seen.contains(p.as_slice())) {
            return false;
        }
        if !seen.insert(cm.id.as_slice()) {
            return false;
        }
    }
    !q.others.is_empty() && idx.contains_key(q.first.as_slice()) && q.others.iter().all(|o| idx.contains_key(o.as_slice()))
}

fn prop(c: &Case) -> Verdict {
    let q = match parse(c) {
        None => return Verdict::ok(false, "unparsed"),
        Some(q) => q,
    };
    let got = match run_impl(&q) {
        Err(e) => return Verdict::fail("badcase", e),
        Ok(Err(_)) => return Verdict::fail("error", "merge_base returned an error on a well-formed history"),
        Ok(Ok(r)) => r,
    };
    let got_ids: Vec<Vec<u8>> = got.clone().unwrap_or_default().iter().map(|i| i.as_bytes().to_vec()).collect();
    if got.is_some() && got_ids.is_empty() {
        return Verdict::fail("empty-some", "Some(vec![]) returned");
    }
    let mut sorted = got_ids.clone();
    sorted.sort();
    let kind = if shortcut(&q) {
        if sorted != vec![q.first.clone()] {
            return Verdict::fail("shortcut", format!("expected the first commit alone, got {}", show_set(&sorted)));
        }
        "shortcut".to_string()
    } else {
        let (ca, maximal) = naive(&q);
        let mut dedup = sorted.clone();
        dedup.dedup();
        if dedup.len() != sorted.len() {
            return Verdict::fail("duplicate-base", show_set(&sorted));
        }
        for x in &sorted {
            if !ca.contains(x) {
                return Verdict::fail("not-a-common-ancestor", format!("{} in {} ; maximal common ancestors {}", hexs(x), show_set(&sorted), show_set(&maximal)));
            }
        }
        for x in &sorted {
            if !maximal.contains(x) {
                return Verdict::fail("redundant-base", format!("{} is an ancestor of another common ancestor: got {} ; maximal common ancestors {}", hexs(x), show_set(&sorted), show_set(&maximal)));
            }
        }
        for x in &maximal {
            if !sorted.contains(x) {
                return Verdict::fail("missing-base", format!("{} not returned: got {} ; maximal common ancestors {}", hexs(x), show_set(&sorted), show_set(&maximal)));
            }
        }
        match maximal.len() {
            0 => "none".to_string(),
            1 => if ca.len() > 1 { "one".to_string() } else { "one-root".to_string() },
            _ => "many".to_string(),
        }
    };
    // real git as second oracle: always in the repo modes, for a quarter of the in-memory cases
    let h = c.iter().flatten().fold(0u64, |a, b| a.wrapping_mul(1099511628211).wrapping_add(*b as u64));
    let with_git = git_applicable(&q) && (q.mode.starts_with("repo") || h % 4 == 0);
    if with_git {
        match git_merge_base(&q) {
            Err(e) => return Verdict::fail("git-failed", e),
            Ok(g) => {
                if g != sorted {
                    return Verdict::fail("git-disagrees", format!("git merge-base --all: {} ; gix: {}", show_set(&g), show_set(&sorted)));
                }
            }
        }
    }
    let nontrivial = kind != "shortcut" && q.d.len() >= 3;
    Verdict::ok(nontrivial, format!("{}/{}{}", q.mode, kind, if with_git { "+git" } else { "" }))
}

fn git_fn(c: &Case) -> String {
    match parse(c) {
        Some(q) if git_applicable(&q) => match git_merge_base(&q) {
            Ok(v) => show_set(&v),
            Err(e) => format!("git failed: {e}"),
        },
        _ => "-".into(),
    }
}

// ---------------------------------------------------------------------------------------------------
// generator
#[derive(Clone)]
struct Shape {
    parents: Vec<Vec<usize>>, // indices of earlier commits
    times: Vec<i64>,
}

fn gen_shape(rng: &mut Rng, n: usize) -> Shape {
    let style = rng.below(6);
    let mut parents: Vec<Vec<usize>> = Vec::new();
    for i in 0..n {
        let mut ps: Vec<usize> = Vec::new();
        if i > 0 {
            let k = match rng.below(20) {
                0..=2 => 0,
                3..=10 => 1,
                11..=17 => 2,
                18 => 3,
                _ => 4,
            };
            for _ in 0..k {
                let p = if rng.chance(2, 3) { i - 1 - rng.below((i as u64).min(3)) as usize } else { rng.below(i as u64) as usize };
                if !ps.contains(&p) || rng.chance(1, 30) {
                    ps.push(p);
                }
            }
        }
        parents.push(ps);
    }
    let base = *rng.pick(&[0i64, 1, 1000, 1_600_000_000, (1 << 32) - 4, (1 << 34) - 100]);
    let times = (0..n)
        .map(|i| match style {
            0 => base + i as i64,                 // monotone: children are younger
            1 => base,                            // all equal
            2 => base + rng.below(4) as i64,      // heavy ties, random skew
            3 => base + (n - i) as i64,           // inverted: parents are younger than children
            4 => base + rng.below(2 * n as u64 + 1) as i64,
            _ => base + i as i64 / 2 + if rng.chance(1, 4) { 30 } else { 0 }, // monotone with a few far outliers
        })
        .collect();
    Shape { parents, times }
}

/// layers of commits, each with two or three parents in the layer below: many criss-cross merges, and with
/// skewed dates many common ancestors that are painted before their descendants
fn gen_ladder(rng: &mut Rng) -> Shape {
    let layers = 2 + rng.below(4) as usize;
    let width = 2 + rng.below(2) as usize;
    let mut parents: Vec<Vec<usize>> = Vec::new();
    let mut prev: Vec<usize> = Vec::new();
    let roots = 1 + rng.below(width as u64) as usize;
    for _ in 0..roots {
        prev.push(parents.len());
        parents.push(vec![]);
    }
    for _ in 0..layers {
        let mut cur = Vec::new();
        for _ in 0..width {
            let mut ps: Vec<usize> = Vec::new();
            let k = 1 + rng.below(3) as usize;
            for _ in 0..k {
                let p = *rng.pick(&prev);
                if !ps.contains(&p) {
                    ps.push(p);
                }
            }
            if rng.chance(1, 6) && !parents.is_empty() {
                let p = rng.below(parents.len() as u64) as usize;
                if !ps.contains(&p) && !cur.contains(&p) {
                    ps.push(p);
                }
            }
            cur.push(parents.len());
            parents.push(ps);
        }
        prev = cur;
    }
    let n = parents.len();
    let style = rng.below(4);
    let times = (0..n)
        .map(|i| match style {
            0 => 100 + i as i64,
            1 => 100 + rng.below(3) as i64,
            2 => 100 + (n - i) as i64 + rng.below(3) as i64,
            _ => 100 + i as i64 + if rng.chance(1, 3) { 50 + rng.below(20) as i64 } else { 0 },
        })
        .collect();
    Shape { parents, times }
}

fn gen_id(rng: &mut Rng, used: &mut Vec<Vec<u8>>) -> Vec<u8> {
    loop {
        let id = match rng.below(3) {
            0 => {
                let mut v = vec![0u8; 20];
                v[19] = rng.below(32) as u8;
                v
            }
            1 => {
                let mut v = vec![0u8; 20];
                v[0] = *rng.pick(&[0u8, 1, 0x7f, 0x80, 0xff]);
                v[19] = rng.below(8) as u8;
                v
            }
            _ => rng.bytes(20),
        };
        if !used.contains(&id) {
            used.push(id.clone());
            return id;
        }
    }
}

/// gens for the commit-graph modes: topological levels of a parent-closed subset
fn assign_gens(rng: &mut Rng, s: &Shape, missing_parent: &[bool]) -> Vec<Option<u32>> {
    let n = s.parents.len();
    // commits that may be in a commit-graph: all ancestors present
    let mut okc = vec![true; n];
    for i in 0..n {
        okc[i] = !missing_parent[i] && s.parents[i].iter().all(|p| okc[*p]);
    }
    let full = rng.chance(1, 2);
    let mut inside = vec![false; n];
    for i in (0..n).rev() {
        if okc[i] && (full || rng.chance(1, 3)) {
            inside[i] = true;
        }
        if inside[i] {
            for p in &s.parents[i] {
                inside[*p] = true;
            }
        }
    }
    // propagate closure properly (parents have smaller indices, so one descending pass suffices)
    let mut gens = vec![None; n];
    for i in 0..n {
        if inside[i] {
            let g = s.parents[i].iter().map(|p| gens[*p].unwrap_or(0)).max().unwrap_or(0) + 1;
            gens[i] = Some(g);
        }
    }
    gens
}

fn build(rng: &mut Rng, mode: &str, s: &Shape, allow_missing: bool) -> Q {
    let n = s.parents.len();
    let real = mode.starts_with("repo");
    let mut used = Vec::new();
    let mut ids: Vec<Vec<u8>> = Vec::new();
    let mut d: Vec<Cm> = Vec::new();
    let mut missing_parent = vec![false; n];
    let mut plists: Vec<Vec<Vec<u8>>> = Vec::new();
    for i in 0..n {
        let mut ps: Vec<Vec<u8>> = s.parents[i].iter().map(|p| ids[*p].clone()).collect();
        if !real && allow_missing && rng.chance(1, 25) {
            let m = gen_id(rng, &mut used);
            let at = rng.below(ps.len() as u64 + 1) as usize;
            ps.insert(at, m);
            missing_parent[i] = true;
        }
        let id = if real { real_id(&ps, s.times[i], i) } else { gen_id(rng, &mut used) };
        ids.push(id);
        plists.push(ps);
    }
    let gens = if mode.ends_with("cg") { assign_gens(rng, s, &missing_parent) } else { vec![None; n] };
    for i in 0..n {
        d.push(Cm { id: ids[i].clone(), time: s.times[i], gen: gens[i], parents: plists[i].clone() });
    }
    // query: mostly among the youngest commits
    let pickc = |rng: &mut Rng| -> Vec<u8> {
        if n == 0 || (!real && allow_missing && rng.chance(1, 40)) {
            let mut v = vec![0xeeu8; 20];
            v[19] = rng.below(3) as u8;
            v
        } else if rng.chance(2, 3) {
            ids[n - 1 - rng.below((n as u64).min(4)) as usize].clone()
        } else {
            ids[rng.below(n as u64) as usize].clone()
        }
    };
    let first = pickc(rng);
    let k = match rng.below(20) {
        0 => 0,
        1..=11 => 1,
        12..=16 => 2,
        17..=18 => 3,
        _ => 5,
    };
    let mut others = Vec::new();
    for _ in 0..k {
        let mut o = pickc(rng);
        let mut tries = 0;
        while o == first && tries < 6 && !rng.chance(1, 12) {
            o = pickc(rng);
            tries += 1;
        }
        others.push(o);
    }
    Q { mode: mode.to_string(), d, first, others }
}

fn fixed_shapes() -> Vec<(Shape, usize, Vec<usize>)> {
    let mut v = Vec::new();
    let mut add = |parents: Vec<Vec<usize>>, times: Vec<i64>, first: usize, others: Vec<usize>| {
        v.push((Shape { parents, times }, first, others));
    };
    // single commit, two roots, linear
    add(vec![vec![]], vec![5], 0, vec![0]);
    add(vec![vec![]], vec![5], 0, vec![]);
    add(vec![vec![], vec![]], vec![5, 6], 0, vec![1]);
    add(vec![vec![], vec![0], vec![1]], vec![1, 2, 3], 2, vec![0]);
    add(vec![vec![], vec![0], vec![1]], vec![1, 2, 3], 0, vec![2]);
    // fork
    add(vec![vec![], vec![0], vec![0]], vec![1, 2, 3], 1, vec![2]);
    // criss-cross: 0 root; 1,2 children; 3 = merge(1,2); 4 = merge(2,1)
    add(vec![vec![], vec![0], vec![0], vec![1, 2], vec![2, 1]], vec![1, 2, 3, 4, 5], 3, vec![4]);
    add(vec![vec![], vec![0], vec![0], vec![1, 2], vec![2, 1]], vec![7, 7, 7, 7, 7], 3, vec![4]);
    add(vec![vec![], vec![0], vec![0], vec![1, 2], vec![2, 1]], vec![9, 2, 3, 4, 5], 3, vec![4]);
    // an older common ancestor with a younger date, reachable from the younger base only through a second parent
    // 0 = Q root, 1 = Y root (skewed), 2 = M(Q,Y), 3 = X(M), 4 = A(X,Y), 5 = B(X,Y)
    add(
        vec![vec![], vec![], vec![0, 1], vec![2], vec![3, 1], vec![3, 1]],
        vec![5, 1000, 5, 6, 10, 9],
        4,
        vec![5],
    );
    // the same through a first parent
    add(
        vec![vec![], vec![], vec![1, 0], vec![2], vec![3, 1], vec![3, 1]],
        vec![5, 1000, 5, 6, 10, 9],
        4,
        vec![5],
    );
    // three others, octopus
    add(
        vec![vec![], vec![0], vec![0], vec![0], vec![1, 2, 3], vec![1], vec![2], vec![3]],
        vec![1, 2, 3, 4, 5, 6, 7, 8],
        4,
        vec![5, 6, 7],
    );
    // skewed chain: dates decrease towards the tips
    add(vec![vec![], vec![0], vec![1], vec![2], vec![2]], vec![50, 40, 30, 20, 10], 3, vec![4]);
    // deep second-parent-only redundancy with three bases popped out of order
    add(
        vec![vec![], vec![], vec![], vec![0, 1], vec![3, 2], vec![4], vec![5, 1, 2], vec![5, 2, 1]],
        vec![1, 900, 800, 3, 4, 5, 20, 19],
        6,
        vec![7],
    );
    v
}

fn from_fixed(rng: &mut Rng, mode: &str, s: &Shape, first: usize, others: &[usize]) -> Q {
    let mut q = build(rng, mode, s, false);
    q.first = q.d[first].id.clone();
    q.others = others.iter().map(|o| q.d[*o].id.clone()).collect();
    q
}

fn gen(rng: &mut Rng, n: usize) -> Vec<Case> {
    let mut out: Vec<Case> = Vec::new();
    let repo_share = 12; // one case in repo_share is a real repository (they spawn git)
    for (s, f, o) in fixed_shapes() {
        for mode in ["mem", "memcg", "repo", "repocg"] {
            if out.len() < n {
                out.push(to_case(&from_fixed(rng, mode, &s, f, &o)));
            }
        }
    }
    while out.len() < n {
        let mode = match rng.below(repo_share * 2) {
            0 => "repo",
            1 => "repocg",
            x if x % 2 == 0 => "mem",
            _ => "memcg",
        };
        let size = match rng.below(10) {
            0 => rng.below(3) as usize,
            1..=5 => 3 + rng.below(6) as usize,
            6..=8 => 8 + rng.below(8) as usize,
            _ => 16 + rng.below(14) as usize,
        };
        let s = if rng.chance(1, 3) { gen_ladder(rng) } else { gen_shape(rng, size) };
        let q = build(rng, mode, &s, true);
        out.push(to_case(&q));
    }
    out
}

fn main() {
    main_with(Harness { gen, imp, prop, git: Some(git_fn), deadline: Duration::from_secs(180) });
}
