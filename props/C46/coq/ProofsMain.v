(* C46 — merge_base = paint_down_to_common ; remove_redundant. *)
From Coq Require Import Lia Permutation.
From GixV.Base Require Import Bytes BytesFacts Outcome.
From GixV.C46 Require Import Model Spec ProofsBase ProofsPaint ProofsRR.

Definition bases_of (r : option (list id)) : list id := match r with Some l => l | None => [] end.

Lemma existsb_eqb_in (first : id) others : existsb (bytes_eqb first) others = true <-> In first others.
Proof.
  rewrite existsb_exists. split.
  - intros [x [H E]]. apply bytes_eqb_eq in E. subst; auto.
  - intros H. exists first. split; auto. apply eqb_refl.
Qed.

Lemma mb_shortcut_lemma fuel o g first others :
  others = [] \/ In first others -> merge_base fuel o g first others = Ok (g, Some [first]).
Proof.
  intros H. unfold merge_base. destruct others as [|t ts]; auto.
  destruct H as [H|H]; [discriminate|]. apply existsb_eqb_in in H. rewrite H. reflexivity.
Qed.

(* the two phases, when the shortcut is not taken *)
Lemma mb_phases fuel o g first others g' res :
  others <> [] -> ~ In first others ->
  merge_base fuel o g first others = Ok (g', res) ->
  exists g1 bases r,
    paint_down_to_common fuel o (g_clear g) first others = Ok (g1, bases) /\
    remove_redundant fuel o g1 bases = Ok (g', r) /\ bases_of res = r /\
    (res = None <-> r = []).
Proof.
  intros Hne Hnin. unfold merge_base.
  destruct others as [|t ts]; [congruence|].
  destruct (existsb (bytes_eqb first) (t :: ts)) eqn:E.
  { apply existsb_eqb_in in E. contradiction. }
  destruct (paint_down_to_common fuel o (g_clear g) first (t :: ts)) as [[g1 bases]|e| |]; try discriminate.
  destruct (remove_redundant fuel o g1 bases) as [[g2 [|x r]]|e| |] eqn:R; try discriminate;
    intros X; inversion X; subst.
  - exists g1, bases, []. cbn. split; auto. split; auto. split; auto. split; auto.
  - exists g1, bases, (x :: r). cbn. split; auto. split; auto. split; auto. split; congruence.
Qed.

Section Main.
Variable o : odb.
Variable first : id.
Variable others : list id.
Variables (fuel : nat) (g g' : graph) (res : option (list id)).
Hypothesis Hok : graph_ok o g.
Hypothesis Hne : others <> [].
Hypothesis Hnin : ~ In first others.
Hypothesis Hrun : merge_base fuel o g first others = Ok (g', res).

Lemma mb_facts :
  exists g1 bases,
    paint_down_to_common fuel o (g_clear g) first others = Ok (g1, bases) /\
    remove_redundant fuel o g1 bases = Ok (g', bases_of res) /\
    graph_ok o g1 /\ NoDup (map fst bases) /\ keys_ok o bases /\
    (forall i, In i (map fst bases) -> common_ancestor o first others i).
Proof.
  destruct (mb_phases _ _ _ _ _ _ _ Hne Hnin Hrun) as [g1 [bases [r [P [R [B _]]]]]].
  exists g1, bases. rewrite B. split; auto. split; auto.
  destruct (paint_sound o first others fuel (g_clear g) g1 bases (ok_clear _ _ Hok) (fl_clear g) P)
    as [Ok1 [Nd Hb]].
  split; auto. split; auto. split.
  - intros i k Hi. destruct (Hb i k Hi) as [_ [_ X]]. exact X.
  - intros i Hi. apply in_map_iff in Hi. destruct Hi as [[i' k] [E Hi]]. cbn in E; subst i'.
    apply (Hb i k Hi).
Qed.

Lemma mb_sound_lemma x : In x (bases_of res) -> common_ancestor o first others x.
Proof.
  destruct mb_facts as [g1 [bases [P [R [Ok1 [Nd [Ky Hca]]]]]]].
  destruct (rr_spec o bases Nd fuel g1 g' (bases_of res) Ok1 Ky R) as [_ [Sub _]].
  intros Hx. apply Hca. apply Sub; auto.
Qed.

Lemma mb_complete_lemma x : is_merge_base o first others x -> In x (bases_of res).
Proof.
  destruct mb_facts as [g1 [bases [P [R [Ok1 [Nd [Ky Hca]]]]]]].
  destruct (rr_spec o bases Nd fuel g1 g' (bases_of res) Ok1 Ky R) as [_ [_ [Keep _]]].
  intros Hmb. apply Keep.
  - apply (paint_complete o first others fuel (g_clear g) g1 bases x (ok_clear _ _ Hok) (fl_clear g) P Hmb).
  - intros y Hy. destruct Hmb as [_ Hmax]. apply Hmax. apply Hca; auto.
Qed.

Lemma mb_irredundant_lemma x y :
  acyclic o -> gens_valid o -> In x (bases_of res) -> In y (bases_of res) -> ~ reach_plus o y x.
Proof.
  intros Hac GV Hx Hy.
  destruct mb_facts as [g1 [bases [P [R [Ok1 [Nd [Ky Hca]]]]]]].
  destruct (rr_spec o bases Nd fuel g1 g' (bases_of res) Ok1 Ky R) as [_ [Sub [_ [Irr _]]]].
  apply (Irr Hac GV x y); auto.
Qed.

Lemma mb_exact_lemma x :
  acyclic o -> gens_valid o -> (In x (bases_of res) <-> is_merge_base o first others x).
Proof.
  intros Hac GV. split; [|apply mb_complete_lemma].
  intros Hx. split; [apply mb_sound_lemma; auto|].
  intros y Hy Ryx.
  destruct mb_facts as [g1 [bases [P [R [Ok1 [Nd [Ky Hca]]]]]]].
  destruct (rr_spec o bases Nd fuel g1 g' (bases_of res) Ok1 Ky R) as [_ [Sub [_ [Irr _]]]].
  destruct (paint_tops o first others fuel (g_clear g) g1 bases y Hac (ok_clear _ _ Hok) (fl_clear g) P Hy)
    as [m [M1 M2]].
  apply (Irr Hac GV x m Hx M1). eapply reach_plus_trans_l; eauto.
Qed.

Lemma mb_none_lemma :
  acyclic o -> (res = None <-> forall x, ~ common_ancestor o first others x).
Proof.
  intros Hac.
  destruct (mb_phases _ _ _ _ _ _ _ Hne Hnin Hrun) as [g1 [bases [r [P [R [B N]]]]]].
  destruct (paint_sound o first others fuel (g_clear g) g1 bases (ok_clear _ _ Hok) (fl_clear g) P)
    as [Ok1 [Nd Hb]].
  assert (Ky : keys_ok o bases).
  { intros i k Hi. destruct (Hb i k Hi) as [_ [_ X]]. exact X. }
  destruct (rr_spec o bases Nd fuel g1 g' r Ok1 Ky R) as [_ [Sub [Keep [_ Nonempty]]]].
  rewrite N. split.
  - intros -> x Hx.
    destruct (paint_tops o first others fuel (g_clear g) g1 bases x Hac (ok_clear _ _ Hok) (fl_clear g) P Hx)
      as [m [M1 M2]].
    apply (Nonempty Hac); auto. intros ->. destruct M1.
  - intros Hno. destruct r as [|x r]; auto. exfalso.
    apply (Hno x). assert (Hx : In x (map fst bases)) by (apply Sub; left; auto).
    apply in_map_iff in Hx. destruct Hx as [[i k] [E Hi]]. cbn in E; subst i. apply (Hb x k Hi).
Qed.
End Main.

(* ---- checkable sufficient conditions for the two hypotheses about histories ---- *)
Lemma odb_find_In o a c : odb_find o a = Some c -> In (a, c) o.
Proof.
  induction o as [|[j cj] o' IH]; cbn [odb_find]; [discriminate|].
  destruct (bytes_eqb j a) eqn:E.
  - apply bytes_eqb_eq in E. intros X; inversion X; subst. left; auto.
  - intros H. right. auto.
Qed.

Definition rank_ok (rank : id -> nat) (o : odb) : bool :=
  forallb (fun e => forallb (fun p => match odb_find o p with
                                      | None => true
                                      | Some _ => Nat.ltb (rank p) (rank (fst e))
                                      end) (c_parents (snd e))) o.

Lemma rank_acyclic rank o : rank_ok rank o = true -> acyclic o.
Proof.
  intros H.
  assert (He : forall a b, edge o a b -> (rank b < rank a)%nat).
  { intros a b [c [Oa [Ib Pb]]]. unfold rank_ok in H. rewrite forallb_forall in H.
    specialize (H (a, c) (odb_find_In _ _ _ Oa)). cbn [fst snd] in H. rewrite forallb_forall in H.
    specialize (H b Ib). destruct (odb_find o b); [|exfalso; apply Pb; auto].
    apply Nat.ltb_lt in H. auto. }
  assert (Hr : forall a b, reach o a b -> (rank b <= rank a)%nat).
  { induction 1 as [|a b c E R IH]; [lia|]. specialize (He _ _ E). lia. }
  intros a [b [E R]]. specialize (He _ _ E). specialize (Hr _ _ R). lia.
Qed.

Definition gens_ok (o : odb) : bool :=
  forallb (fun e => forallb (fun p => match odb_find o p with
                                      | None => true
                                      | Some pc => N.leb (fst (key_of pc)) (fst (key_of (snd e)))
                                      end) (c_parents (snd e))) o.

Lemma gens_ok_valid o : gens_ok o = true -> gens_valid o.
Proof.
  intros H a b [c [Oa [Ib Pb]]]. unfold gens_ok in H. rewrite forallb_forall in H.
  specialize (H (a, c) (odb_find_In _ _ _ Oa)). cbn [fst snd] in H. rewrite forallb_forall in H.
  specialize (H b Ib). unfold gen_of. rewrite Oa.
  destruct (odb_find o b) as [pc|]; [|exfalso; apply Pb; auto].
  apply N.leb_le in H. auto.
Qed.

Fixpoint index_of (o : odb) (i : id) : nat :=
  match o with
  | [] => O
  | (j, _) :: o' => if bytes_eqb j i then O else S (index_of o' i)
  end.
