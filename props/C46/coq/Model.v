(* C46 — executable model of gix_revision::merge_base (gix-revision/src/merge_base.rs) together with
   the parts of gix_revwalk::Graph (graph/mod.rs: get, get_mut, get_or_insert_full_commit,
   clear_commit_data) and gix_revwalk::PriorityQueue (queue.rs, a std BinaryHeap ordered by the key
   only) it uses.  No proofs here.

   The object database (plus the optional commit-graph) is a finite map
       id |-> (commit time, generation if the commit is in the commit-graph, parent ids);
   an id without an entry is a missing object (shallow boundary) or not a commit: [try_lookup]
   answers None for both.  With and without a commit-graph differ only in [c_gen]. *)
From GixV.Base Require Import Bytes Outcome.
Local Open Scope N_scope.

Definition id := bytes.

Record commit := mkCommit { c_time : Z; c_gen : option N; c_parents : list id }.
Definition odb := list (id * commit).

Fixpoint odb_find (o : odb) (i : id) : option commit :=
  match o with
  | [] => None
  | (j, c) :: o' => if bytes_eqb j i then Some c else odb_find o' i
  end.

(* merge_base::Flags (bitflags over u8; only these four bits are ever used) *)
Record flags := mkFlags { f_c1 : bool; f_c2 : bool; f_stale : bool; f_result : bool }.
Definition f_empty := mkFlags false false false false.
Definition set_c1 (f : flags) := mkFlags true (f_c2 f) (f_stale f) (f_result f).
Definition set_c2 (f : flags) := mkFlags (f_c1 f) true (f_stale f) (f_result f).
Definition set_stale (b : bool) (f : flags) := mkFlags (f_c1 f) (f_c2 f) b (f_result f).
Definition set_result (b : bool) (f : flags) := mkFlags (f_c1 f) (f_c2 f) (f_stale f) b.
(* [a & (COMMIT1|COMMIT2|STALE)] *)
Definition without_result (f : flags) := mkFlags (f_c1 f) (f_c2 f) (f_stale f) false.
Definition f_or (a b : flags) :=
  mkFlags (f_c1 a || f_c1 b) (f_c2 a || f_c2 b) (f_stale a || f_stale b) (f_result a || f_result b).
(* [(a & b) == b] *)
Definition f_contains (a b : flags) : bool :=
  implb (f_c1 b) (f_c1 a) && implb (f_c2 b) (f_c2 a) && implb (f_stale b) (f_stale a)
  && implb (f_result b) (f_result a).

(* gix_revwalk::Graph<Commit<Flags>>::map — the commit data is copied from the database on insertion *)
Definition graph := list (id * (commit * flags)).

Fixpoint g_get (g : graph) (i : id) : option (commit * flags) :=
  match g with
  | [] => None
  | (j, v) :: g' => if bytes_eqb j i then Some v else g_get g' i
  end.

(* overwrite the flags of an entry that exists *)
Fixpoint g_set (g : graph) (i : id) (f : flags) : graph :=
  match g with
  | [] => []
  | (j, (c, f0)) :: g' => if bytes_eqb j i then (j, (c, f)) :: g' else (j, (c, f0)) :: g_set g' i f
  end.

Definition g_clear (g : graph) : graph := map (fun e => (fst e, (fst (snd e), f_empty))) g.

(* [get_or_insert_full_commit(id, update)] up to the update: None if the object is missing; otherwise the
   graph in which the commit is present (inserted with default flags if it was new) and its entry *)
Definition g_lookup_or_insert (o : odb) (g : graph) (i : id) : option (graph * commit * flags) :=
  match g_get g i with
  | Some (c, f) => Some (g, c, f)
  | None =>
      match odb_find o i with
      | Some c => Some ((i, (c, f_empty)) :: g, c, f_empty)
      | None => None
      end
  end.

(* GenThenTime *)
Definition GENERATION_NUMBER_INFINITY : N := 4294967295.
Definition key := (N * Z)%type.
Definition key_of (c : commit) : key :=
  (match c_gen c with Some g => g | None => GENERATION_NUMBER_INFINITY end, c_time c).
Definition key_cmp (a b : key) : comparison :=
  match N.compare (fst a) (fst b) with
  | Eq => Z.compare (snd a) (snd b)
  | c => c
  end.
Definition key_le (a b : key) : bool := match key_cmp a b with Gt => false | _ => true end.

(* ---- std::collections::BinaryHeap<Item>, Item ordered by key only (transcribed from library/alloc
   binary_heap; the "hole" moves are written as swaps, which leaves the same vector) ---- *)
Definition item := (key * id)%type.
Definition heap := list item.
Definition dummy_item : item := ((0, 0%Z), []).

Fixpoint set_nth {A} (l : list A) (n : nat) (x : A) : list A :=
  match l, n with
  | [], _ => []
  | _ :: t, O => x :: t
  | h :: t, S n' => h :: set_nth t n' x
  end.
Definition swap (l : heap) (i j : nat) : heap :=
  let a := nth i l dummy_item in
  let b := nth j l dummy_item in
  set_nth (set_nth l i b) j a.

Fixpoint sift_up (fuel : nat) (l : heap) (pos : nat) : heap :=
  match fuel with
  | O => l
  | S fuel' =>
      match pos with
      | O => l
      | S _ =>
          let parent := Nat.div (pos - 1) 2 in
          if key_le (fst (nth pos l dummy_item)) (fst (nth parent l dummy_item)) then l
          else sift_up fuel' (swap l pos parent) parent
      end
  end.

Definition heap_push (l : heap) (x : item) : heap :=
  let l' := l ++ [x] in sift_up (length l') l' (length l).

(* sift_down_to_bottom(0): returns the vector and the final position of the hole *)
Fixpoint sift_down_to_bottom (fuel : nat) (l : heap) (pos : nat) (en : nat) : heap * nat :=
  match fuel with
  | O => (l, pos)
  | S fuel' =>
      let child := (2 * pos + 1)%nat in
      if Nat.leb child (en - 2) && Nat.leb 2 en then
        let child' :=
          if key_le (fst (nth child l dummy_item)) (fst (nth (child + 1) l dummy_item))
          then (child + 1)%nat else child in
        sift_down_to_bottom fuel' (swap l pos child') child' en
      else if Nat.eqb child (en - 1) && Nat.leb 1 en then (swap l pos child, child)
      else (l, pos)
  end.

Definition heap_pop (l : heap) : option (item * heap) :=
  match rev l with
  | [] => None
  | last :: _ =>
      match removelast l with
      | [] => Some (last, [])
      | top :: rest =>
          let l1 := last :: rest in
          let '(l2, pos) := sift_down_to_bottom (length l1) l1 0 (length l1) in
          Some (top, sift_up (length l2) l2 pos)
      end
  end.

(* ---- paint_down_to_common ---- *)
Definition not_stale_in (g : graph) (i : id) : bool :=
  match g_get g i with Some (_, f) => negb (f_stale f) | None => false end.

(* the loop over the parents of the popped commit *)
Fixpoint paint_parents (o : odb) (fl : flags) (ps : list id) (g : graph) (q : heap) : graph * heap :=
  match ps with
  | [] => (g, q)
  | p :: ps' =>
      match g_lookup_or_insert o g p with
      | None => paint_parents o fl ps' g q
      | Some (g1, pc, pf) =>
          if f_contains pf fl then paint_parents o fl ps' g1 q
          else paint_parents o fl ps' (g_set g1 p (f_or pf fl)) (heap_push q (key_of pc, p))
      end
  end.

Record pstate := mkP { p_g : graph; p_q : heap; p_out : list (id * key) (* newest first *) }.

(* one iteration of the while loop; None = the loop condition is false *)
Definition paint_step (o : odb) (s : pstate) : option (outcome pstate unit) :=
  if existsb (fun it => not_stale_in (p_g s) (snd it)) (p_q s) then
    Some
      match heap_pop (p_q s) with
      | None => Panic
      | Some ((info, cid), q1) =>
          match g_get (p_g s) cid with
          | None => Panic
          | Some (c, d) =>
              let fwr := without_result d in
              let is_base := f_c1 fwr && f_c2 fwr && negb (f_stale fwr) in
              let '(g1, out1) :=
                if is_base && negb (f_result d)
                then (g_set (p_g s) cid (set_result true d), (cid, info) :: p_out s)
                else (p_g s, p_out s) in
              let fwr1 := if is_base then set_stale true fwr else fwr in
              let '(g2, q2) := paint_parents o fwr1 (c_parents c) g1 q1 in
              Ok (mkP g2 q2 out1)
          end
      end
  else None.

Fixpoint paint_loop (fuel : nat) (o : odb) (s : pstate) : outcome pstate unit :=
  match fuel with
  | O => OutOfFuel
  | S fuel' =>
      match paint_step o s with
      | None => Ok s
      | Some (Ok s') => paint_loop fuel' o s'
      | Some r => r
      end
  end.

Definition paint_init_one (o : odb) (setf : flags -> flags) (i : id) (gq : graph * heap) : graph * heap :=
  match g_lookup_or_insert o (fst gq) i with
  | None => gq
  | Some (g1, c, f) => (g_set g1 i (setf f), heap_push (snd gq) (key_of c, i))
  end.

Definition paint_init (o : odb) (g : graph) (first : id) (others : list id) : pstate :=
  let gq := paint_init_one o set_c1 first (g, []) in
  let gq := fold_left (fun gq i => paint_init_one o set_c2 i gq) others gq in
  mkP (fst gq) (snd gq) [].

Definition paint_down_to_common (fuel : nat) (o : odb) (g : graph) (first : id) (others : list id)
  : outcome (graph * list (id * key)) unit :=
  match paint_loop fuel o (paint_init o g first others) with
  | Ok s => Ok (p_g s, rev (p_out s))
  | Err e => Err e
  | Panic => Panic
  | OutOfFuel => OutOfFuel
  end.

(* ---- remove_redundant ---- *)
(* slice::sort_by is stable: insertion sort keeping equal elements in their original order *)
Fixpoint insert_by {A} (cmp : A -> A -> comparison) (x : A) (l : list A) : list A :=
  match l with
  | [] => [x]
  | y :: l' => match cmp x y with Gt => y :: insert_by cmp x l' | _ => x :: l end
  end.
Fixpoint sort_by {A} (cmp : A -> A -> comparison) (l : list A) : list A :=
  match l with
  | [] => []
  | x :: l' => insert_by cmp x (sort_by cmp l')
  end.

(* first loop: flag the inputs RESULT, collect their parents once each (STALE prevents double addition) *)
Fixpoint rr_mark_parents (o : odb) (ps : list id) (g : graph) (ws : list (id * key)) : graph * list (id * key) :=
  match ps with
  | [] => (g, ws)
  | p :: ps' =>
      match g_lookup_or_insert o g p with
      | None => rr_mark_parents o ps' g ws
      | Some (g1, pc, pf) =>
          if f_stale pf then rr_mark_parents o ps' g1 ws
          else rr_mark_parents o ps' (g_set g1 p (set_stale true pf)) ((p, key_of pc) :: ws)
      end
  end.

Fixpoint rr_mark (o : odb) (cs : list (id * key)) (g : graph) (ws : list (id * key))
  : outcome (graph * list (id * key)) unit :=
  match cs with
  | [] => Ok (g, ws)
  | (i, _) :: cs' =>
      match g_get g i with
      | None => Panic                                  (* expect("previously added") *)
      | Some (c, f) =>
          let g1 := g_set g i (set_result true f) in
          let '(g2, ws2) := rr_mark_parents o (c_parents c) g1 ws in
          rr_mark o cs' g2 ws2
      end
  end.

Fixpoint rr_unstale (ws : list (id * key)) (g : graph) : outcome graph unit :=
  match ws with
  | [] => Ok g
  | (i, _) :: ws' =>
      match g_get g i with
      | None => Panic
      | Some (_, f) => rr_unstale ws' (g_set g i (set_stale false f))
      end
  end.

Record rstate := mkR {
  r_g : graph;
  r_stack : list (id * key);      (* top first *)
  r_count : nat;                  (* count_still_independent *)
  r_pos : nat;                    (* min_gen_pos *)
  r_min : N                       (* min_gen *)
}.

(* [while min_gen_pos < commits.len() - 1 && graph.get(sorted[min_gen_pos]).expect().contains(STALE)] *)
Fixpoint advance_min (fuel : nat) (g : graph) (sorted : list (id * key)) (pos : nat) : outcome nat unit :=
  match fuel with
  | O => Ok pos
  | S fuel' =>
      if Nat.ltb pos (length sorted - 1) then
        match nth_error sorted pos with
        | None => Panic
        | Some (i, _) =>
            match g_get g i with
            | None => Panic
            | Some (_, f) => if f_stale f then advance_min fuel' g sorted (S pos) else Ok pos
            end
        end
      else Ok pos
  end.

(* the loop over the parents: push the first one that is not STALE yet *)
Fixpoint rr_push_parent (o : odb) (ps : list id) (g : graph) : graph * option (id * key) :=
  match ps with
  | [] => (g, None)
  | p :: ps' =>
      match g_lookup_or_insert o g p with
      | None => rr_push_parent o ps' g
      | Some (g1, pc, pf) =>
          if f_stale pf then rr_push_parent o ps' g1
          else (g_set g1 p (set_stale true pf), Some (p, key_of pc))
      end
  end.

Inductive step_result := Continue (s : rstate) | Break (s : rstate).

(* one iteration of the inner while loop, the stack being non-empty with [top] on top *)
Definition rr_step (o : odb) (sorted : list (id * key)) (s : rstate) (top : id * key) (below : list (id * key))
  : outcome step_result unit :=
  let '(cid, cinfo) := top in
  match g_get (r_g s) cid with
  | None => Panic
  | Some (c, f) =>
      let after_result : outcome step_result unit :=
        if f_result f then
          let g1 := g_set (r_g s) cid (set_result false f) in
          match r_count s with
          | O => Panic                                    (* count_still_independent -= 1 *)
          | S cnt =>
              if Nat.leb cnt 1 then Ok (Break (mkR g1 (r_stack s) cnt (r_pos s) (r_min s)))
              else
                match nth_error sorted (r_pos s) with
                | None => Panic
                | Some (mi, _) =>
                    if bytes_eqb cid mi then
                      match advance_min (length sorted) g1 sorted (r_pos s) with
                      | Ok pos' =>
                          match nth_error sorted pos' with
                          | None => Panic
                          | Some (_, k) => Ok (Continue (mkR g1 (r_stack s) cnt pos' (fst k)))
                          end
                      | _ => Panic
                      end
                    else Ok (Continue (mkR g1 (r_stack s) cnt (r_pos s) (r_min s)))
                end
          end
        else Ok (Continue s) in
      match after_result with
      | Ok (Continue s1) =>
          if N.ltb (fst cinfo) (r_min s1) then
            Ok (Continue (mkR (r_g s1) below (r_count s1) (r_pos s1) (r_min s1)))
          else
            match rr_push_parent o (c_parents c) (r_g s1) with
            | (g2, Some e) => Ok (Continue (mkR g2 (e :: top :: below) (r_count s1) (r_pos s1) (r_min s1)))
            | (g2, None) => Ok (Continue (mkR g2 below (r_count s1) (r_pos s1) (r_min s1)))
            end
      | r => r
      end
  end.

Fixpoint rr_inner (fuel : nat) (o : odb) (sorted : list (id * key)) (s : rstate) : outcome rstate unit :=
  match fuel with
  | O => OutOfFuel
  | S fuel' =>
      match r_stack s with
      | [] => Ok s
      | top :: below =>
          match rr_step o sorted s top below with
          | Ok (Continue s') => rr_inner fuel' o sorted s'
          | Ok (Break s') => Ok s'
          | Err e => Err e
          | Panic => Panic
          | OutOfFuel => OutOfFuel
          end
      end
  end.

(* the outer loop: [ws] is walk_start in popping order (last element of the vector first) *)
Fixpoint rr_outer (fuel : nat) (o : odb) (sorted : list (id * key)) (ws : list (id * key)) (s : rstate)
  : outcome rstate unit :=
  match ws with
  | [] => Ok s
  | (i, k) :: ws' =>
      if Nat.ltb 1 (r_count s) then
        match g_get (r_g s) i with
        | None => Panic
        | Some (_, f) =>
            let s1 := mkR (g_set (r_g s) i (set_stale true f)) [(i, k)] (r_count s) (r_pos s) (r_min s) in
            match rr_inner fuel o sorted s1 with
            | Ok s2 => rr_outer fuel o sorted ws' s2
            | r => r
            end
        end
      else Ok s
  end.

Definition id_cmp (a b : id * key) : comparison := bytes_cmp (fst a) (fst b).
Definition by_key (a b : id * key) : comparison := key_cmp (snd a) (snd b).

Definition remove_redundant (fuel : nat) (o : odb) (g : graph) (commits : list (id * key))
  : outcome (graph * list id) unit :=
  match commits with
  | [] => Ok (g, [])
  | _ :: _ =>
      let g0 := g_clear g in
      let sorted := sort_by by_key commits in
      match nth_error sorted 0 with
      | None => Panic
      | Some (_, k0) =>
          match rr_mark o commits g0 [] with
          | Ok (g1, ws_rev) =>
              let ws := sort_by id_cmp (rev ws_rev) in
              match rr_unstale ws g1 with
              | Ok g2 =>
                  match rr_outer fuel o sorted (rev ws) (mkR g2 [] (length commits) 0 (fst k0)) with
                  | Ok s =>
                      Ok (r_g s,
                          map fst (filter (fun e => not_stale_in (r_g s) (fst e)) commits))
                  | Err e => Err e
                  | Panic => Panic
                  | OutOfFuel => OutOfFuel
                  end
              | _ => Panic
              end
          | _ => Panic
          end
      end
  end.

(* ---- merge_base ---- *)
Definition merge_base (fuel : nat) (o : odb) (g : graph) (first : id) (others : list id)
  : outcome (graph * option (list id)) unit :=
  if match others with [] => true | _ => existsb (bytes_eqb first) others end then
    Ok (g, Some [first])
  else
    match paint_down_to_common fuel o (g_clear g) first others with
    | Ok (g1, bases) =>
        match remove_redundant fuel o g1 bases with
        | Ok (g2, []) => Ok (g2, None)
        | Ok (g2, r) => Ok (g2, Some r)
        | Err e => Err e
        | Panic => Panic
        | OutOfFuel => OutOfFuel
        end
    | Err e => Err e
    | Panic => Panic
    | OutOfFuel => OutOfFuel
    end.
