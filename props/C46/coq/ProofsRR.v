(* C46 — remove_redundant: the commits that survive are exactly those inputs that are not a proper
   ancestor of another input. *)
From Coq Require Import Lia Permutation Sorted.
From GixV.Base Require Import Bytes BytesFacts Outcome.
From GixV.C46 Require Import Model Spec ProofsBase.

(* ---- lists ---- *)
Lemma insert_by_perm {A} (cmp : A -> A -> comparison) x l : Permutation (insert_by cmp x l) (x :: l).
Proof.
  induction l as [|y l IH]; cbn [insert_by]; auto.
  destruct (cmp x y); auto. eapply perm_trans; [apply perm_skip, IH|apply perm_swap].
Qed.
Lemma sort_by_perm {A} (cmp : A -> A -> comparison) l : Permutation (sort_by cmp l) l.
Proof.
  induction l as [|x l IH]; cbn [sort_by]; auto.
  eapply perm_trans; [apply insert_by_perm|]. auto.
Qed.

Definition gen_le (a b : id * key) : Prop := (fst (snd a) <= fst (snd b))%N.

Lemma by_key_not_gt a b : by_key a b <> Gt -> gen_le a b.
Proof.
  unfold by_key, key_cmp, gen_le. destruct (N.compare (fst (snd a)) (fst (snd b))) eqn:E.
  - apply N.compare_eq in E. intros _. rewrite E. apply N.le_refl.
  - intros _. apply N.compare_lt_iff in E. apply N.lt_le_incl; auto.
  - congruence.
Qed.
Lemma by_key_gt a b : by_key a b = Gt -> gen_le b a.
Proof.
  unfold by_key, key_cmp, gen_le. destruct (N.compare (fst (snd a)) (fst (snd b))) eqn:E.
  - apply N.compare_eq in E. intros _. rewrite E. apply N.le_refl.
  - discriminate.
  - intros _. apply N.compare_gt_iff in E. apply N.lt_le_incl; auto.
Qed.

Lemma insert_sorted x l :
  StronglySorted gen_le l -> StronglySorted gen_le (insert_by by_key x l).
Proof.
  induction 1 as [|y l Hs IH Hf]; cbn [insert_by].
  - constructor; constructor.
  - destruct (by_key x y) eqn:E.
    + assert (G : gen_le x y) by (apply by_key_not_gt; congruence).
      constructor; [constructor; auto|]. constructor; auto.
      eapply Forall_impl; [|exact Hf]. intros z Hz. unfold gen_le in *. eapply N.le_trans; eauto.
    + assert (G : gen_le x y) by (apply by_key_not_gt; congruence).
      constructor; [constructor; auto|]. constructor; auto.
      eapply Forall_impl; [|exact Hf]. intros z Hz. unfold gen_le in *. eapply N.le_trans; eauto.
    + constructor; auto. apply by_key_gt in E.
      eapply Permutation_Forall; [symmetry; apply insert_by_perm|]. constructor; auto.
Qed.
Lemma sort_sorted l : StronglySorted gen_le (sort_by by_key l).
Proof. induction l; cbn [sort_by]; [constructor | apply insert_sorted; auto]. Qed.

Lemma sorted_nth l : StronglySorted gen_le l -> forall a b ea eb,
  (a <= b)%nat -> nth_error l a = Some ea -> nth_error l b = Some eb -> gen_le ea eb.
Proof.
  induction 1 as [|y l Hs IH Hf]; intros a b ea eb Hab Ha Hb.
  - destruct a; discriminate.
  - destruct a, b; cbn in Ha, Hb.
    + inversion Ha; inversion Hb; subst. apply N.le_refl.
    + inversion Ha; subst. rewrite Forall_forall in Hf. apply Hf. eapply nth_error_In; eauto.
    + inversion Hab.
    + apply (IH a b ea eb); auto. apply le_S_n; auto.
Qed.

Lemma filter_count_drop {A} (P P' : A -> bool) (l : list A) c :
  NoDup l -> In c l -> P c = true -> P' c = false -> (forall j, j <> c -> P' j = P j) ->
  length (filter P l) = S (length (filter P' l)).
Proof.
  induction l as [|x l IH]; intros Hnd Hin Hc Hc' Hoth; [contradiction|].
  inversion Hnd as [|? ? Hx Hnd']; subst. cbn [filter].
  destruct Hin as [->|Hin].
  - rewrite Hc, Hc'. cbn [length]. f_equal. f_equal. apply filter_ext_in.
    intros j Hj. symmetry. apply Hoth. intros ->. contradiction.
  - assert (x <> c) by (intros ->; contradiction).
    rewrite (Hoth x); auto. destruct (P x); cbn [length]; [f_equal|]; apply IH; auto.
Qed.
Lemma filter_two {A} (P : A -> bool) (l : list A) a b :
  In a l -> In b l -> a <> b -> P a = true -> P b = true -> (2 <= length (filter P l))%nat.
Proof.
  intros Ha Hb Hab Pa Pb.
  assert (Ia : In a (filter P l)) by (apply filter_In; auto).
  assert (Ib : In b (filter P l)) by (apply filter_In; auto).
  destruct (filter P l) as [|x [|y r]]; cbn in *; try lia.
  destruct Ia as [<-|[]], Ib as [<-|[]]. contradiction.
Qed.
Lemma filter_all {A} (P : A -> bool) (l : list A) : (forall x, In x l -> P x = true) -> filter P l = l.
Proof.
  induction l as [|x l IH]; intros H; cbn [filter]; auto.
  rewrite (H x (or_introl eq_refl)). f_equal. apply IH. intros y Hy. apply H. right; auto.
Qed.

Section RR.
Variable o : odb.
Variable commits : list (id * key).
Notation inputs := (map fst commits).
Notation sorted := (sort_by by_key commits).

Definition keys_ok : Prop :=
  forall i k, In (i, k) commits -> exists c, odb_find o i = Some c /\ k = key_of c.

(* ---- phase 1: flag the inputs, collect their parents ---- *)
Lemma rr_mark_parents_spec : forall ps g ws g2 ws2,
  graph_ok o g -> (forall j, f_stale (fl g j) = true <-> In j (map fst ws)) ->
  rr_mark_parents o ps g ws = (g2, ws2) ->
  graph_ok o g2 /\
  (forall j, f_stale (fl g2 j) = true <-> In j (map fst ws2)) /\
  (forall j, fl g2 j = fl g j \/ (In j ps /\ present o j /\ fl g2 j = set_stale true (fl g j))) /\
  (forall p, In p ps -> present o p -> In p (map fst ws2)) /\
  (forall e, In e ws2 -> In e ws \/
      (In (fst e) ps /\ exists c, odb_find o (fst e) = Some c /\ snd e = key_of c)) /\
  (forall e, In e ws -> In e ws2) /\
  (forall j, in_dom g j -> in_dom g2 j).
Proof.
  induction ps as [|p ps IH]; intros g ws g2 ws2 Hok Hst H; cbn [rr_mark_parents] in H.
  - inversion H; subst. split; [auto|]. split; [auto|]. split; [auto|]. split; [intros p []|]. auto.
  - destruct (g_lookup_or_insert o g p) as [[[g1 pc] pf]|] eqn:L.
    + destruct (lookup_some _ _ _ _ _ _ Hok L) as [Ho [Hpf [Hg1 [Hok1 [Hfl1 [Hd1 Hd1']]]]]].
      assert (Hpres : present o p) by (unfold present; congruence).
      assert (Hdp : in_dom g1 p) by (unfold in_dom; congruence).
      destruct (f_stale pf) eqn:St.
      * assert (Hst1 : forall j, f_stale (fl g1 j) = true <-> In j (map fst ws)).
        { intros j. rewrite Hfl1. apply Hst. }
        destruct (IH _ _ _ _ Hok1 Hst1 H) as [A [B [C [D [E [F G]]]]]].
        split; [auto|]. split; [auto|]. split; [|split; [|split; [|split]]]; auto.
        -- intros j. destruct (C j) as [X|[X1 [X2 X3]]]; [left; rewrite X; auto|].
           right. split; [right; auto|]. split; auto. rewrite X3, Hfl1. reflexivity.
        -- intros q [<-|Hq] Pq; auto. apply B.
           destruct (C p) as [X|[_ [_ X]]]; rewrite X; [|reflexivity]. rewrite Hfl1, <- Hpf. auto.
        -- intros e He. destruct (E e He) as [X|[X1 X2]]; auto. right. split; [right|]; auto.
      * set (g1' := g_set g1 p (set_stale true pf)) in *.
        assert (Hok1' : graph_ok o g1') by (apply ok_set; auto).
        assert (Hflp : fl g1' p = set_stale true (fl g p)).
        { unfold g1'. rewrite fl_set_same; auto. congruence. }
        assert (Hflo : forall j, j <> p -> fl g1' j = fl g j).
        { intros j Hj. unfold g1'. rewrite fl_set_other; auto. }
        assert (Hst1 : forall j, f_stale (fl g1' j) = true <-> In j (map fst ((p, key_of pc) :: ws))).
        { intros j. cbn [map fst In]. destruct (eqb_spec j p) as [->|Ne].
          - rewrite Hflp. cbn. tauto.
          - rewrite Hflo; auto. rewrite Hst. split; [auto|]. intros [X|X]; [congruence|auto]. }
        destruct (IH _ _ _ _ Hok1' Hst1 H) as [A [B [C [D [E [F G]]]]]].
        split; [auto|]. split; [auto|]. split; [|split; [|split; [|split]]].
        -- intros j. destruct (eqb_spec j p) as [->|Ne].
           ++ right. split; [left; auto|]. split; auto.
              destruct (C p) as [X|[_ [_ X]]]; rewrite X, Hflp; auto;
                try (destruct (fl g p) as [? ? ? ?]; reflexivity).
           ++ destruct (C j) as [X|[X1 [X2 X3]]]; [left; rewrite X; auto|].
              right. split; [right; auto|]. split; auto. rewrite X3, Hflo; auto.
        -- intros q [<-|Hq] Pq; auto. apply B.
           destruct (C p) as [X|[_ [_ X]]]; rewrite X, Hflp; reflexivity.
        -- intros e He. destruct (E e He) as [[X|X]|[X1 X2]]; auto.
           ++ subst e. right. cbn [fst snd]. split; [left; auto|]. exists pc; auto.
           ++ right. split; [right|]; auto.
        -- intros e He. apply F. right; auto.
        -- intros j Hj. apply G. unfold g1'. apply dom_set. auto.
    + pose proof (lookup_none _ _ _ Hok L) as Ho.
      destruct (IH _ _ _ _ Hok Hst H) as [A [B [C [D [E [F G]]]]]].
      split; [auto|]. split; [auto|]. split; [|split; [|split; [|split]]]; auto.
      * intros j. destruct (C j) as [X|[X1 X2]]; [left; auto | right; split; [right|]; auto].
      * intros q [<-|Hq] Pq; [contradiction|auto].
      * intros e He. destruct (E e He) as [X|[X1 X2]]; auto. right. split; [right|]; auto.
Qed.

(* state of the marking loop: [done] are the inputs handled so far *)
Record MInv (done : list id) (g : graph) (ws : list (id * key)) : Prop := {
  mi_ok : graph_ok o g;
  mi_stale : forall j, f_stale (fl g j) = true <-> In j (map fst ws);
  mi_res : forall j, f_result (fl g j) = true <-> In j done;
  mi_ws : forall e, In e ws ->
      (exists y, In y done /\ edge o y (fst e)) /\ exists c, odb_find o (fst e) = Some c /\ snd e = key_of c;
  mi_par : forall y p, In y done -> edge o y p -> In p (map fst ws);
  mi_dom : forall y, In y done -> in_dom g y
}.

Lemma rr_mark_spec : forall cs done g ws g2 ws2,
  MInv done g ws -> rr_mark o cs g ws = Ok (g2, ws2) ->
  MInv (rev (map fst cs) ++ done) g2 ws2.
Proof.
  induction cs as [|[i k] cs IH]; intros done g ws g2 ws2 I H; cbn [rr_mark] in H.
  - inversion H; subst. exact I.
  - destruct (g_get g i) as [[c f]|] eqn:G; [|discriminate].
    assert (Hoc : odb_find o i = Some c) by (eapply (mi_ok _ _ _ I); eauto).
    assert (Hdi : in_dom g i) by (unfold in_dom; congruence).
    assert (Hf : f = fl g i) by (unfold fl; rewrite G; auto).
    set (g1 := g_set g i (set_result true f)) in *.
    destruct (rr_mark_parents o (c_parents c) g1 ws) as [g2' ws2'] eqn:MP.
    assert (Hok1 : graph_ok o g1) by (apply ok_set; apply (mi_ok _ _ _ I)).
    assert (Hst1 : forall j, f_stale (fl g1 j) = true <-> In j (map fst ws)).
    { intros j. destruct (eqb_spec i j) as [<-|Ne].
      - unfold g1. rewrite fl_set_same; auto. cbn. rewrite Hf. apply (mi_stale _ _ _ I).
      - unfold g1. rewrite fl_set_other; auto. apply (mi_stale _ _ _ I). }
    destruct (rr_mark_parents_spec _ _ _ _ _ Hok1 Hst1 MP) as [A [B [C [D [E [F Gd]]]]]].
    cbn [map fst rev]. rewrite <- app_assoc. cbn [app].
    apply (IH (i :: done) g2' ws2'); auto.
    constructor; auto.
    + intros j. assert (R : f_result (fl g2' j) = f_result (fl g1 j)).
      { destruct (C j) as [X|[_ [_ X]]]; rewrite X; auto. }
      rewrite R. cbn [In]. destruct (eqb_spec i j) as [<-|Ne].
      * unfold g1. rewrite fl_set_same; auto. cbn. tauto.
      * unfold g1. rewrite fl_set_other; auto. rewrite (mi_res _ _ _ I). split; [auto|]. intros [X|X]; [congruence|auto].
    + intros e He. destruct (E e He) as [X|[X1 [c' [X2 X3]]]].
      * destruct (mi_ws _ _ _ I e X) as [[y [Y1 Y2]] Z]. split; auto. exists y. split; [right|]; auto.
      * split; [|exists c'; auto]. exists i. split; [left; auto|]. exists c. split; auto. split; auto.
        unfold present; congruence.
    + intros y p [<-|Hy] Ed.
      * destruct Ed as [c' [E1 [E2 E3]]]. assert (c' = c) by congruence. subst c'. apply D; auto.
      * pose proof (mi_par _ _ _ I y p Hy Ed) as X. apply in_map_iff in X. destruct X as [e [E1 E2]].
        apply in_map_iff. exists e. split; auto.
    + intros y [<-|Hy]; apply Gd; unfold g1; apply dom_set; auto. apply (mi_dom _ _ _ I); auto.
Qed.

Lemma rr_unstale_spec : forall ws g g2,
  graph_ok o g -> rr_unstale ws g = Ok g2 ->
  graph_ok o g2 /\
  (forall j, In j (map fst ws) -> f_stale (fl g2 j) = false) /\
  (forall j, fl g2 j = fl g j \/ fl g2 j = set_stale false (fl g j)) /\
  (forall j, in_dom g j <-> in_dom g2 j).
Proof.
  induction ws as [|[i k] ws IH]; intros g g2 Hok H; cbn [rr_unstale] in H.
  - inversion H; subst. split; auto. split; [intros j []|]. split; [auto|tauto].
  - destruct (g_get g i) as [[c f]|] eqn:G; [|discriminate].
    assert (Hdi : in_dom g i) by (unfold in_dom; congruence).
    assert (Hf : f = fl g i) by (unfold fl; rewrite G; auto).
    destruct (IH _ _ (ok_set _ _ i (set_stale false f) Hok) H) as [A [B [C D]]].
    split; auto. split; [|split].
    + intros j [<-|Hj]; auto. cbn [fst].
      destruct (C i) as [X|X]; rewrite X, fl_set_same; auto.
    + intros j. destruct (eqb_spec i j) as [<-|Ne].
      * right. destruct (C i) as [X|X]; rewrite X, fl_set_same; auto; rewrite Hf; auto;
          try (destruct (fl g i); reflexivity).
      * destruct (C j) as [X|X]; rewrite X, fl_set_other; auto.
    + intros j. rewrite <- D. symmetry. apply dom_set.
Qed.

(* ---- phase 3 ---- *)
Definition cnt (g : graph) : nat := length (filter (fun j => f_result (fl g j)) inputs).

Record Core (g : graph) : Prop := {
  co_ok : graph_ok o g;
  co_stale : forall j, f_stale (fl g j) = true -> exists y, In y inputs /\ reach_plus o y j;
  co_res1 : forall j, f_result (fl g j) = true -> In j inputs;
  co_res2 : forall j, In j inputs -> f_stale (fl g j) = false -> f_result (fl g j) = true;
  co_dom : forall j, In j inputs -> in_dom g j
}.

Lemma cnt_ext g g' : (forall j, f_result (fl g' j) = f_result (fl g j)) -> cnt g' = cnt g.
Proof. intros H. unfold cnt. f_equal. apply filter_ext. auto. Qed.

Lemma core_ext g g' :
  Core g -> graph_ok o g' -> (forall j, fl g' j = fl g j) -> (forall j, in_dom g j -> in_dom g' j) ->
  Core g' /\ cnt g' = cnt g.
Proof.
  intros C Hok Hfl Hd. split; [|apply cnt_ext; intros j; rewrite Hfl; auto].
  constructor; auto; intros j; rewrite ?Hfl; try apply C. intros Hj. apply Hd. apply C; auto.
Qed.

Lemma core_stale g j0 :
  Core g -> in_dom g j0 -> (exists y, In y inputs /\ reach_plus o y j0) ->
  Core (g_set g j0 (set_stale true (fl g j0))) /\ cnt (g_set g j0 (set_stale true (fl g j0))) = cnt g.
Proof.
  intros C Hd Hy.
  assert (Hfl : forall j, fl (g_set g j0 (set_stale true (fl g j0))) j =
                          if bytes_eqb j0 j then set_stale true (fl g j0) else fl g j).
  { intros j. destruct (eqb_spec j0 j) as [<-|Ne].
    - rewrite eqb_refl, fl_set_same; auto.
    - rewrite eqb_neq, fl_set_other; auto. }
  split.
  - constructor.
    + apply ok_set. apply C.
    + intros j. rewrite Hfl. destruct (bytes_eqb j0 j) eqn:E.
      * apply bytes_eqb_eq in E; subst j. auto.
      * apply C.
    + intros j. rewrite Hfl. destruct (bytes_eqb j0 j) eqn:E.
      * apply bytes_eqb_eq in E; subst j. cbn. apply C.
      * apply C.
    + intros j Hj. rewrite Hfl. destruct (bytes_eqb j0 j) eqn:E.
      * cbn. discriminate.
      * apply C; auto.
    + intros j Hj. apply dom_set. apply C; auto.
  - apply cnt_ext. intros j. rewrite Hfl. destruct (bytes_eqb j0 j) eqn:E; auto.
    apply bytes_eqb_eq in E; subst j. reflexivity.
Qed.

(* the loop over the parents inside the walk *)
Lemma rr_push_parent_spec : forall ps g g2 r,
  graph_ok o g -> rr_push_parent o ps g = (g2, r) ->
  graph_ok o g2 /\ (forall j, in_dom g j -> in_dom g2 j) /\
  match r with
  | None => (forall j, fl g2 j = fl g j) /\
            (forall p, In p ps -> present o p -> f_stale (fl g p) = true)
  | Some (p, k) =>
      In p ps /\ in_dom g2 p /\ (exists pc, odb_find o p = Some pc /\ k = key_of pc) /\
      f_stale (fl g p) = false /\ fl g2 p = set_stale true (fl g p) /\
      (forall j, j <> p -> fl g2 j = fl g j)
  end.
Proof.
  induction ps as [|p ps IH]; intros g g2 r Hok H; cbn [rr_push_parent] in H.
  - inversion H; subst. split; [auto|]. split; [auto|]. split; [auto|]. intros p [].
  - destruct (g_lookup_or_insert o g p) as [[[g1 pc] pf]|] eqn:L.
    + destruct (lookup_some _ _ _ _ _ _ Hok L) as [Ho [Hpf [Hg1 [Hok1 [Hfl1 [Hd1 Hd1']]]]]].
      assert (Hdp : in_dom g1 p) by (unfold in_dom; congruence).
      destruct (f_stale pf) eqn:St.
      * destruct (IH _ _ _ Hok1 H) as [A [B C]]. split; auto. split; [intros j Hj; apply B, Hd1, Hj|].
        destruct r as [[p' k']|].
        -- destruct C as [C1 [C2 [C3 [C4 [C5 C6]]]]]. rewrite Hfl1 in C4, C5.
           split; [right; auto|]. split; auto. split; auto. split; auto. split; auto.
           intros j Hj. rewrite C6; auto.
        -- destruct C as [C1 C2]. split; [intros j; rewrite C1; auto|].
           intros q [<-|Hq] Pq; [congruence|]. rewrite <- Hfl1. auto.
      * inversion H; subst g2 r. split; [apply ok_set; auto|].
        split; [intros j Hj; apply dom_set, Hd1, Hj|].
        split; [left; auto|]. split; [apply dom_set; auto|]. split; [exists pc; auto|].
        split; [congruence|]. split; [rewrite fl_set_same; auto; congruence|].
        intros j Hj. rewrite fl_set_other; auto.
    + pose proof (lookup_none _ _ _ Hok L) as Ho.
      destruct (IH _ _ _ Hok H) as [A [B C]]. split; auto. split; auto.
      destruct r as [[p' k']|].
      * destruct C as [C1 C2]. split; [right; auto|auto].
      * destruct C as [C1 C2]. split; auto. intros q [<-|Hq] Pq; [contradiction|auto].
Qed.

Lemma advance_min_spec g : forall fuel pos pos',
  advance_min fuel g sorted pos = Ok pos' ->
  (pos <= pos')%nat /\ ((pos < length sorted)%nat -> (pos' < length sorted)%nat) /\
  forall n e, (pos <= n < pos')%nat -> nth_error sorted n = Some e -> f_stale (fl g (fst e)) = true.
Proof.
  induction fuel as [|fuel IH]; intros pos pos' H; cbn [advance_min] in H.
  - inversion H; subst. split; [lia|]. split; auto. intros; lia.
  - destruct (Nat.ltb pos (length sorted - 1)) eqn:E.
    + apply Nat.ltb_lt in E. destruct (nth_error sorted pos) as [[i k]|] eqn:N; [|discriminate].
      destruct (g_get g i) as [[c f]|] eqn:G; [|discriminate].
      destruct (f_stale f) eqn:St.
      * destruct (IH _ _ H) as [A [B C]]. split; [lia|]. split; [intros _; apply B; lia|].
        intros n e Hn He. destruct (Nat.eq_dec n pos) as [->|Ne].
        -- rewrite N in He. inversion He; subst. cbn [fst]. unfold fl. rewrite G. auto.
        -- apply (C n e); auto. lia.
      * inversion H; subst. split; [lia|]. split; auto. intros; lia.
    + inversion H; subst. split; [lia|]. split; auto. intros; lia.
Qed.

Record RInvA (s : rstate) : Prop := {
  ra_core : Core (r_g s);
  ra_count : r_count s = cnt (r_g s);
  ra_min : exists e, nth_error sorted (r_pos s) = Some e /\ r_min s = fst (snd e);
  ra_low : forall n e, (n < r_pos s)%nat -> nth_error sorted n = Some e -> f_stale (fl (r_g s) (fst e)) = true;
  ra_closed : forall j c, f_stale (fl (r_g s) j) = true -> odb_find o j = Some c ->
      ~ In j (map fst (r_stack s)) ->
      (gen_of o j < r_min s)%N \/
      forall p, In p (c_parents c) -> present o p -> f_stale (fl (r_g s) p) = true;
  ra_stack : forall j k, In (j, k) (r_stack s) ->
      f_stale (fl (r_g s) j) = true /\ exists c, odb_find o j = Some c /\ k = key_of c
}.
Definition RInvB (s : rstate) : Prop := Core (r_g s) /\ r_count s = cnt (r_g s) /\ (r_count s <= 1)%nat.
Definition stale_mono (g g' : graph) : Prop := forall j, f_stale (fl g j) = true -> f_stale (fl g' j) = true.

Hypothesis Hnodup : NoDup inputs.

Lemma rr_step_inv s top below :
  RInvA s -> r_stack s = top :: below ->
  match rr_step o sorted s top below with
  | Ok (Continue s') => RInvA s' /\ stale_mono (r_g s) (r_g s')
  | Ok (Break s') => RInvB s' /\ stale_mono (r_g s) (r_g s')
  | _ => True
  end.
Proof.
  intros I Hstack. destruct top as [cid cinfo]. unfold rr_step.
  destruct (g_get (r_g s) cid) as [[c f]|] eqn:G; [|exact Logic.I].
  assert (Hf : f = fl (r_g s) cid) by (unfold fl; rewrite G; auto).
  assert (Hdc : in_dom (r_g s) cid) by (unfold in_dom; congruence).
  assert (Hoc : odb_find o cid = Some c) by (eapply (co_ok _ (ra_core _ I)); eauto).
  destruct (ra_stack _ I cid cinfo) as [Hst [c' [Hc' Hinfo]]]; [rewrite Hstack; left; auto|].
  assert (c' = c) by congruence. subst c'.
  (* first part: the RESULT flag *)
  assert (Hres :
    match (if f_result f then
          let g1 := g_set (r_g s) cid (set_result false f) in
          match r_count s with
          | O => Panic
          | S cnt0 =>
              if Nat.leb cnt0 1 then Ok (Break (mkR g1 (r_stack s) cnt0 (r_pos s) (r_min s)))
              else
                match nth_error sorted (r_pos s) with
                | None => Panic
                | Some (mi, _) =>
                    if bytes_eqb cid mi then
                      match advance_min (length sorted) g1 sorted (r_pos s) with
                      | Ok pos' =>
                          match nth_error sorted pos' with
                          | None => Panic
                          | Some (_, k) => Ok (Continue (mkR g1 (r_stack s) cnt0 pos' (fst k)))
                          end
                      | _ => Panic
                      end
                    else Ok (Continue (mkR g1 (r_stack s) cnt0 (r_pos s) (r_min s)))
                end
          end
        else Ok (Continue s) : outcome step_result unit) with
    | Ok (Continue s1) => RInvA s1 /\ stale_mono (r_g s) (r_g s1) /\ r_stack s1 = r_stack s /\
                          fl (r_g s1) cid = set_result false f /\ g_get (r_g s1) cid <> None
    | Ok (Break s') => RInvB s' /\ stale_mono (r_g s) (r_g s')
    | _ => True
    end).
  { destruct (f_result f) eqn:R.
    - set (g1 := g_set (r_g s) cid (set_result false f)). cbv zeta.
      assert (Hfl1 : forall j, fl g1 j = if bytes_eqb cid j then set_result false f else fl (r_g s) j).
      { intros j. destruct (eqb_spec cid j) as [<-|Ne].
        - rewrite eqb_refl. unfold g1. rewrite fl_set_same; auto.
        - rewrite eqb_neq; auto. unfold g1. rewrite fl_set_other; auto. }
      assert (Hstale1 : forall j, f_stale (fl g1 j) = f_stale (fl (r_g s) j)).
      { intros j. rewrite Hfl1. destruct (bytes_eqb cid j) eqn:E; auto.
        apply bytes_eqb_eq in E; subst j. rewrite Hf. reflexivity. }
      assert (Hin : In cid inputs) by (apply (co_res1 _ (ra_core _ I)); rewrite <- Hf; auto).
      assert (Hcore1 : Core g1).
      { constructor.
        - apply ok_set. apply I.
        - intros j. rewrite Hstale1. apply I.
        - intros j. rewrite Hfl1. destruct (bytes_eqb cid j) eqn:E; [cbn; discriminate|apply I].
        - intros j Hj. rewrite Hstale1, Hfl1. destruct (bytes_eqb cid j) eqn:E; [|apply I; auto].
          apply bytes_eqb_eq in E; subst j. congruence.
        - intros j Hj. apply dom_set. apply I; auto. }
      assert (Hcnt : cnt (r_g s) = S (cnt g1)).
      { unfold cnt. apply (filter_count_drop _ _ _ cid); auto.
        - rewrite <- Hf; auto.
        - rewrite Hfl1, eqb_refl. reflexivity.
        - intros j Hj. rewrite Hfl1, eqb_neq; auto. }
      assert (Hmono1 : stale_mono (r_g s) g1) by (intros j; rewrite Hstale1; auto).
      destruct (r_count s) as [|cnt0] eqn:Cn; [exact Logic.I|].
      assert (Hcnt0 : cnt0 = cnt g1) by (pose proof (ra_count _ I); lia).
      destruct (Nat.leb cnt0 1) eqn:Le.
      + apply Nat.leb_le in Le. split; auto. split; auto.
      + assert (Hbase : RInvA (mkR g1 (r_stack s) cnt0 (r_pos s) (r_min s))).
        { constructor; cbn [r_g r_stack r_count r_pos r_min].
          - exact Hcore1.
          - exact Hcnt0.
          - apply I.
          - intros n e Hn He. rewrite Hstale1. eapply (ra_low _ I); eauto.
          - intros j cj. rewrite Hstale1. intros Sj Oj Nj.
            destruct (ra_closed _ I j cj Sj Oj Nj) as [X|X]; [left; exact X|].
            right. intros p Hp Pp. rewrite Hstale1. auto.
          - intros j k Hj. rewrite Hstale1. apply (ra_stack _ I); auto. }
        assert (Hget1 : g_get g1 cid <> None) by (apply dom_set; auto).
        assert (Hflc : fl g1 cid = set_result false f) by (rewrite Hfl1, eqb_refl; auto).
        destruct (nth_error sorted (r_pos s)) as [[mi mk]|] eqn:Nth; [|exact Logic.I].
        destruct (bytes_eqb cid mi) eqn:Em; [|cbn [r_g r_stack]; auto].
        destruct (advance_min (length sorted) g1 sorted (r_pos s)) as [pos'|e0| |] eqn:Adv; try exact Logic.I.
        destruct (nth_error sorted pos') as [[mi' mk']|] eqn:Nth'; [|exact Logic.I].
        destruct (advance_min_spec _ _ _ _ Adv) as [A1 [A2 A3]].
        cbn [r_g r_stack]. split; [|auto].
        constructor; cbn [r_g r_stack r_count r_pos r_min]; auto.
        * exists (mi', mk'). auto.
        * intros n e Hn He. destruct (Nat.lt_ge_cases n (r_pos s)) as [Lt|Ge].
          -- rewrite Hstale1. eapply (ra_low _ I); eauto.
          -- apply (A3 n e); auto.
        * intros j cj Sj Oj Nj.
          destruct (ra_closed _ Hbase j cj Sj Oj Nj) as [X|X]; auto.
          left. cbn [r_min] in X. destruct (ra_min _ I) as [e0 [E1 E2]].
          rewrite Nth in E1. inversion E1; subst e0. cbn [snd] in E2.
          eapply N.lt_le_trans; [exact X|]. rewrite E2.
          apply (sorted_nth _ (sort_sorted commits) (r_pos s) pos' (mi, mk) (mi', mk')); auto.
        * apply (ra_stack _ Hbase).
    - split; auto. split; [intros j; auto|]. split; auto. split.
      + rewrite <- Hf. destruct f as [? ? ? []]; [discriminate|reflexivity].
      + congruence. }
  set (AR := if f_result f then _ else _) in *.
  destruct AR as [[s1|s1]| | |]; auto.
  destruct Hres as [I1 [M1 [Hst1 [Hfl1c Hg1c]]]].
  assert (Hstc1 : f_stale (fl (r_g s1) cid) = true).
  { rewrite Hfl1c. cbn. rewrite Hf. auto. }
  destruct (N.ltb (fst cinfo) (r_min s1)) eqn:Cut.
  - (* below the generation cutoff: pop *)
    apply N.ltb_lt in Cut. split; auto.
    constructor; cbn [r_g r_stack r_count r_pos r_min]; try apply I1.
    + intros j cj Sj Oj Nj. destruct (eqb_spec j cid) as [->|Ne].
      * left. unfold gen_of. rewrite Hoc. rewrite <- Hinfo. auto.
      * apply (ra_closed _ I1 j cj Sj Oj). rewrite Hst1, Hstack. cbn [map fst]. intros [X|X]; [congruence|auto].
    + intros j k Hj. apply (ra_stack _ I1). rewrite Hst1, Hstack. right; auto.
  - apply N.ltb_ge in Cut.
    destruct (rr_push_parent o (c_parents c) (r_g s1)) as [g2 r] eqn:PP.
    destruct (rr_push_parent_spec _ _ _ _ (co_ok _ (ra_core _ I1)) PP) as [Hok2 [Hd2 Hr]].
    destruct r as [[p k]|].
    + destruct Hr as [Hp [Hdp [[pc [Hpc Hk]] [Hnst [Hflp Hflo]]]]].
      assert (Hfl2 : forall j, fl g2 j = if bytes_eqb p j then set_stale true (fl (r_g s1) p) else fl (r_g s1) j).
      { intros j. destruct (eqb_spec p j) as [<-|Ne]; [rewrite eqb_refl; auto | rewrite eqb_neq; auto]. }
      assert (Hm2 : stale_mono (r_g s1) g2).
      { intros j Sj. rewrite Hfl2. destruct (bytes_eqb p j); auto. }
      assert (Hedge : edge o cid p).
      { exists c. split; auto. split; auto. unfold present; congruence. }
      split; [|intros j Sj; apply Hm2, M1, Sj].
      constructor; cbn [r_g r_stack r_count r_pos r_min].
      * constructor; auto.
        -- intros j. rewrite Hfl2. destruct (bytes_eqb p j) eqn:E; [|apply I1].
           apply bytes_eqb_eq in E; subst j. intros _.
           destruct (co_stale _ (ra_core _ I1) cid Hstc1) as [y [Y1 Y2]]. exists y. split; auto.
           eapply reach_plus_trans_r; eauto. apply edge_reach; auto.
        -- intros j. rewrite Hfl2. destruct (bytes_eqb p j) eqn:E; [|apply I1].
           apply bytes_eqb_eq in E; subst j. cbn. apply I1.
        -- intros j Hj. rewrite Hfl2. destruct (bytes_eqb p j) eqn:E; [cbn; discriminate|apply I1; auto].
        -- intros j Hj. apply Hd2. apply I1; auto.
      * rewrite (ra_count _ I1). symmetry. apply cnt_ext. intros j. rewrite Hfl2.
        destruct (bytes_eqb p j) eqn:E; auto. apply bytes_eqb_eq in E; subst j. reflexivity.
      * apply I1.
      * intros n e Hn He. apply Hm2. eapply (ra_low _ I1); eauto.
      * intros j cj Sj Oj Nj. cbn [map fst In] in Nj.
        assert (j <> p) by (intros ->; apply Nj; auto).
        assert (j <> cid) by (intros ->; apply Nj; auto).
        rewrite Hflo in Sj; auto.
        assert (Nj1 : ~ In j (map fst (r_stack s1))).
        { rewrite Hst1, Hstack. cbn [map fst]. intros [Y|Y]; [congruence|apply Nj; auto]. }
        destruct (ra_closed _ I1 j cj Sj Oj Nj1) as [X|X]; [left; exact X|].
        right. intros q Hq Pq. apply Hm2. auto.
      * intros j k0 [X|[X|X]].
        -- inversion X; subst j k0. split; [rewrite Hflp; reflexivity|exists pc; auto].
        -- inversion X; subst j k0. split; [apply Hm2; auto|exists c; auto].
        -- destruct (ra_stack _ I1 j k0) as [Y1 Y2]; [rewrite Hst1, Hstack; right; auto|].
           split; auto.
    + destruct Hr as [Hfl2 Hall].
      split; [|intros j Sj; rewrite Hfl2; apply M1, Sj].
      destruct (core_ext _ g2 (ra_core _ I1) Hok2 Hfl2 Hd2) as [Cg2 Cn2].
      constructor; cbn [r_g r_stack r_count r_pos r_min]; auto.
      * rewrite Cn2. apply I1.
      * apply I1.
      * intros n e Hn He. rewrite Hfl2. eapply (ra_low _ I1); eauto.
      * intros j cj. rewrite Hfl2. intros Sj Oj Nj. destruct (eqb_spec j cid) as [->|Ne].
        -- right. assert (cj = c) by congruence. subst cj. intros q Hq Pq. rewrite Hfl2. auto.
        -- assert (Nj1 : ~ In j (map fst (r_stack s1))).
           { rewrite Hst1, Hstack. cbn [map fst]. intros [Y|Y]; [congruence|auto]. }
           destruct (ra_closed _ I1 j cj Sj Oj Nj1) as [X|X]; [left; exact X|].
           right. intros q Hq Pq. rewrite Hfl2. auto.
      * intros j k Hj. rewrite Hfl2. apply (ra_stack _ I1). rewrite Hst1, Hstack. right; auto.
Qed.
End RR.

Definition rr_body (fuel : nat) (o : odb) (g : graph) (commits : list (id * key))
  : outcome (graph * list id) unit :=
      let g0 := g_clear g in
      let sorted := sort_by by_key commits in
      match nth_error sorted 0 with
      | None => Panic
      | Some (_, k0) =>
          match rr_mark o commits g0 [] with
          | Ok (g1, ws_rev) =>
              let ws := sort_by id_cmp (rev ws_rev) in
              match rr_unstale ws g1 with
              | Ok g2 =>
                  match rr_outer fuel o sorted (rev ws) (mkR g2 [] (length commits) 0 (fst k0)) with
                  | Ok s =>
                      Ok (r_g s,
                          map fst (filter (fun e => not_stale_in (r_g s) (fst e)) commits))
                  | Err e => Err e
                  | Panic => Panic
                  | OutOfFuel => OutOfFuel
                  end
              | _ => Panic
              end
          | _ => Panic
          end
      end.
Lemma rr_unfold fuel o g commits :
  commits = [] \/ remove_redundant fuel o g commits = rr_body fuel o g commits.
Proof. destruct commits; [left|right]; reflexivity. Qed.

Section RR2.
Variable o : odb.
Variable commits : list (id * key).
Notation inputs := (map fst commits).
Notation sorted := (sort_by by_key commits).
Hypothesis Hnodup : NoDup inputs.
Notation RInvA := (RInvA o commits).
Notation RInvB := (RInvB o commits).
Notation Core := (Core o commits).
Notation cnt := (cnt commits).

Lemma rr_inner_inv fuel : forall s s',
  RInvA s -> rr_inner fuel o sorted s = Ok s' ->
  ((RInvA s' /\ r_stack s' = []) \/ RInvB s') /\ stale_mono (r_g s) (r_g s').
Proof.
  induction fuel as [|fuel IH]; intros s s' I H; cbn [rr_inner] in H; [discriminate|].
  destruct (r_stack s) as [|top below] eqn:St.
  - inversion H; subst. split; [left; auto|]. intros j; auto.
  - pose proof (rr_step_inv o commits Hnodup s top below I St) as P.
    destruct (rr_step o sorted s top below) as [[s1|s1]|e| |]; try discriminate.
    + destruct P as [I1 M1]. destruct (IH _ _ I1 H) as [A M]. split; auto.
      intros j Sj. apply M, M1, Sj.
    + inversion H; subst. destruct P as [B M]. split; auto.
Qed.

Lemma rr_outer_B fuel ws s s' : RInvB s -> rr_outer fuel o sorted ws s = Ok s' -> s' = s.
Proof.
  intros [_ [_ Le]] H. destruct ws as [|[i k] ws]; cbn [rr_outer] in H; [congruence|].
  destruct (Nat.ltb 1 (r_count s)) eqn:E; [|congruence].
  apply Nat.ltb_lt in E. lia.
Qed.

Definition ws_ok (e : id * key) : Prop :=
  (exists y, In y inputs /\ edge o y (fst e)) /\ exists c, odb_find o (fst e) = Some c /\ snd e = key_of c.

Lemma rr_outer_inv fuel : forall ws s s',
  RInvA s -> r_stack s = [] -> (forall e, In e ws -> ws_ok e) ->
  rr_outer fuel o sorted ws s = Ok s' ->
  (RInvB s' \/
   (RInvA s' /\ r_stack s' = [] /\ forall e, In e ws -> f_stale (fl (r_g s') (fst e)) = true)) /\
  stale_mono (r_g s) (r_g s').
Proof.
  induction ws as [|[i k] ws IH]; intros s s' I St Hws H; cbn [rr_outer] in H.
  - inversion H; subst. split; [right; split; auto; split; auto; intros e []|intros j; auto].
  - destruct (Nat.ltb 1 (r_count s)) eqn:E.
    + destruct (g_get (r_g s) i) as [[c f]|] eqn:G; [|discriminate].
      assert (Hf : f = fl (r_g s) i) by (unfold fl; rewrite G; auto).
      assert (Hdi : in_dom (r_g s) i) by (unfold in_dom; congruence).
      destruct (Hws (i, k) (or_introl eq_refl)) as [[y [Y1 Y2]] [ci [Ci Ki]]]. cbn [fst snd] in *.
      assert (Hrp : exists y, In y inputs /\ reach_plus o y i).
      { exists y. split; auto. exists i. split; auto. apply reach_refl. unfold present; congruence. }
      set (g1 := g_set (r_g s) i (set_stale true f)) in *.
      destruct (core_stale o commits (r_g s) i (ra_core _ _ _ I) Hdi Hrp) as [C1 N1].
      rewrite <- Hf in C1, N1. fold g1 in C1, N1.
      assert (Hfl1 : forall j, fl g1 j = if bytes_eqb i j then set_stale true f else fl (r_g s) j).
      { intros j. destruct (eqb_spec i j) as [<-|Ne].
        - rewrite eqb_refl. unfold g1. rewrite fl_set_same; auto.
        - rewrite eqb_neq; auto. unfold g1. rewrite fl_set_other; auto. }
      assert (Hm1 : stale_mono (r_g s) g1).
      { intros j Sj. rewrite Hfl1. destruct (bytes_eqb i j); auto. }
      assert (I1 : RInvA (mkR g1 [(i, k)] (r_count s) (r_pos s) (r_min s))).
      { constructor; cbn [r_g r_stack r_count r_pos r_min].
        - exact C1.
        - rewrite N1. apply I.
        - apply I.
        - intros n e Hn He. apply Hm1. eapply (ra_low _ _ _ I); eauto.
        - intros j cj Sj Oj Nj. cbn [map fst In] in Nj.
          assert (Ne : i <> j) by (intros ->; apply Nj; auto).
          rewrite Hfl1, eqb_neq in Sj; auto.
          destruct (ra_closed _ _ _ I j cj Sj Oj) as [X|X]; [rewrite St; intros []|left; exact X|].
          right. intros p Hp Pp. apply Hm1. auto.
        - intros j k0 [X|[]]. inversion X; subst j k0. split.
          + rewrite Hfl1, eqb_refl. reflexivity.
          + exists ci. auto. }
      destruct (rr_inner fuel o sorted (mkR g1 [(i, k)] (r_count s) (r_pos s) (r_min s))) as [s2|e| |] eqn:Inn;
        try discriminate.
      destruct (rr_inner_inv _ _ _ I1 Inn) as [[[I2 St2]|B2] M2]; cbn [r_g] in M2.
      * destruct (IH _ _ I2 St2 (fun e He => Hws e (or_intror He)) H) as [[B|[I3 [St3 A3]]] M3].
        -- split; [left; auto|]. intros j Sj. apply M3, M2, Hm1, Sj.
        -- split; [|intros j Sj; apply M3, M2, Hm1, Sj].
           right. split; auto. split; auto. intros e [<-|He]; auto.
           cbn [fst]. apply M3, M2. rewrite Hfl1, eqb_refl. reflexivity.
      * pose proof (rr_outer_B _ _ _ _ B2 H) as ->. split; [left; auto|].
        intros j Sj. apply M2, Hm1, Sj.
    + inversion H; subst. apply Nat.ltb_ge in E. split; [left|intros j; auto].
      split; [apply I|]. split; [apply I|auto].
Qed.

Lemma rp_trans a b c : reach_plus o a b -> reach_plus o b c -> reach_plus o a c.
Proof. intros H1 H2. eapply reach_plus_trans_r; eauto. apply plus_reach; auto. Qed.

Lemma reach_gen a b : gens_valid o -> reach o a b -> (gen_of o b <= gen_of o a)%N.
Proof.
  intros GV. induction 1 as [|a b c E R IH]; [apply N.le_refl|].
  eapply N.le_trans; [exact IH|]. apply GV; auto.
Qed.

(* at most one input is still flagged RESULT: nothing else can have survived *)
Lemma chain_contra g x y :
  acyclic o -> Core g -> (cnt g <= 1)%nat ->
  In x inputs -> f_stale (fl g x) = false -> In y inputs -> reach_plus o y x -> False.
Proof.
  intros Hac C Hc Hx Sx Hy Ryx.
  assert (Hnon : forall z, In z inputs -> reach_plus o z x -> f_stale (fl g z) = true).
  { intros z Hz Rz. destruct (f_stale (fl g z)) eqn:E; auto. exfalso.
    assert (Ne : z <> x) by (intros ->; apply (Hac x); auto).
    pose proof (filter_two (fun j => f_result (fl g j)) inputs z x Hz Hx Ne
                  (co_res2 _ _ _ C z Hz E) (co_res2 _ _ _ C x Hx Sx)) as T.
    unfold ProofsRR.cnt in Hc. lia. }
  assert (Aux : forall n l top, (n + length (top :: l) = S (length inputs))%nat ->
            NoDup (top :: l) -> incl (top :: l) inputs ->
            (forall a, In a l -> reach_plus o top a) -> reach_plus o top x -> False).
  { induction n as [|n IH]; intros l top Hlen Hnd Hincl Habove Rtop.
    - pose proof (NoDup_incl_length Hnd Hincl). lia.
    - assert (Ht : In top inputs) by (apply Hincl; left; auto).
      destruct (co_stale _ _ _ C top (Hnon top Ht Rtop)) as [y' [Y1 Y2]].
      apply (IH (top :: l) y').
      + cbn [length] in *. lia.
      + constructor; auto. intros [E|Hin].
        * subst y'. apply (Hac _ Y2).
        * apply (Hac top). apply (rp_trans top y' top); auto.
      + intros a [<-|Ha]; auto.
      + intros a [<-|Ha]; auto. apply (rp_trans y' top a); auto.
      + apply (rp_trans y' top x); auto. }
  apply (Aux (length inputs) [] y); auto.
  - cbn [length]. lia.
  - constructor; [intros []|constructor].
  - intros a [<-|[]]; auto.
  - intros a [].
Qed.

Lemma exists_nonstale g x :
  acyclic o -> Core g -> In x inputs -> exists m, In m inputs /\ f_stale (fl g m) = false.
Proof.
  intros Hac C Hx.
  assert (Aux : forall n l top, (n + length (top :: l) = S (length inputs))%nat ->
            NoDup (top :: l) -> incl (top :: l) inputs ->
            (forall a, In a l -> reach_plus o top a) ->
            exists m, In m inputs /\ f_stale (fl g m) = false).
  { induction n as [|n IH]; intros l top Hlen Hnd Hincl Habove.
    - pose proof (NoDup_incl_length Hnd Hincl). lia.
    - assert (Ht : In top inputs) by (apply Hincl; left; auto).
      destruct (f_stale (fl g top)) eqn:St; [|exists top; auto].
      destruct (co_stale _ _ _ C top St) as [y' [Y1 Y2]].
      apply (IH (top :: l) y').
      + cbn [length] in *. lia.
      + constructor; auto. intros [E|Hin].
        * subst y'. apply (Hac _ Y2).
        * apply (Hac top). apply (rp_trans top y' top); auto.
      + intros a [<-|Ha]; auto.
      + intros a [<-|Ha]; auto. apply (rp_trans y' top a); auto. }
  apply (Aux (length inputs) [] x); auto.
  - cbn [length]. lia.
  - constructor; [intros []|constructor].
  - intros a [<-|[]]; auto.
  - intros a [].
Qed.

Lemma in_result g x :
  In x (map fst (filter (fun e => not_stale_in g (fst e)) commits)) <->
  In x inputs /\ in_dom g x /\ f_stale (fl g x) = false.
Proof.
  unfold not_stale_in, fl, in_dom. split.
  - intros H. apply in_map_iff in H. destruct H as [[i k] [E H]]. cbn [fst] in E; subst i.
    apply filter_In in H. destruct H as [H1 H2]. cbn [fst] in H2.
    split; [apply in_map_iff; exists (x, k); auto|].
    destruct (g_get g x) as [[c f]|]; [|discriminate]. split; [congruence|].
    destruct (f_stale f); [discriminate|auto].
  - intros [H1 [H2 H3]]. apply in_map_iff in H1. destruct H1 as [[i k] [E H1]]. cbn [fst] in E; subst i.
    apply in_map_iff. exists (x, k). split; auto. apply filter_In. split; auto. cbn [fst].
    destruct (g_get g x) as [[c f]|]; [|contradiction]. rewrite H3. reflexivity.
Qed.

Theorem rr_spec fuel g g' r :
  graph_ok o g -> keys_ok o commits ->
  remove_redundant fuel o g commits = Ok (g', r) ->
  graph_ok o g' /\
  (forall x, In x r -> In x inputs) /\
  (forall x, In x inputs -> (forall y, In y inputs -> ~ reach_plus o y x) -> In x r) /\
  (acyclic o -> gens_valid o -> forall x y, In x r -> In y inputs -> ~ reach_plus o y x) /\
  (acyclic o -> commits <> [] -> r <> []).
Proof.
  intros Hok Hkeys.
  destruct (rr_unfold fuel o g commits) as [Ec|Ec].
  { assert (Ei : forall x, ~ In x inputs) by (rewrite Ec; intros x []).
    rewrite Ec at 1. cbn [remove_redundant]. intros X; inversion X; subst.
    split; [auto|]. split; [intros x []|]. split; [intros x Hx; destruct (Ei x Hx)|].
    split; [intros _ _ x y []|]. intros _ Hne. congruence. }
  rewrite Ec. unfold rr_body. cbv zeta.
  destruct (nth_error sorted 0) as [[i0 k0]|] eqn:N0; [|discriminate].
  destruct (rr_mark o commits (g_clear g) []) as [[g1 ws_rev]|e| |] eqn:Mk; try discriminate.
  destruct (rr_unstale (sort_by id_cmp (rev ws_rev)) g1) as [g2|e| |] eqn:Un; try discriminate.
  destruct (rr_outer fuel o sorted (rev (sort_by id_cmp (rev ws_rev)))
              (mkR g2 [] (length commits) 0 (fst k0))) as [s|e| |] eqn:Out; try discriminate.
  intros X; inversion X; subst g' r; clear X.
  (* phase 1 *)
  assert (M0 : MInv o [] (g_clear g) []).
  { constructor.
    - apply ok_clear; auto.
    - intros j. rewrite fl_clear. cbn. split; [discriminate|intros []].
    - intros j. rewrite fl_clear. cbn. split; [discriminate|intros []].
    - intros e [].
    - intros y p [].
    - intros y []. }
  pose proof (rr_mark_spec o _ _ _ _ _ _ M0 Mk) as M1. rewrite app_nil_r in M1.
  assert (Hin_rev : forall j, In j (rev inputs) <-> In j inputs) by (intros j; symmetry; apply in_rev).
  (* phase 2 *)
  set (ws := sort_by id_cmp (rev ws_rev)) in *.
  assert (Hws_in : forall e, In e ws <-> In e ws_rev).
  { intros e. unfold ws. split; intros H.
    - apply in_rev. eapply Permutation_in; [apply sort_by_perm|exact H].
    - eapply Permutation_in; [symmetry; apply sort_by_perm|]. apply -> in_rev. exact H. }
  destruct (rr_unstale_spec o _ _ _ (mi_ok _ _ _ _ M1) Un) as [Hok2 [U1 [U2 U3]]].
  assert (Hns2 : forall j, f_stale (fl g2 j) = false).
  { intros j. destruct (U2 j) as [X|X]; [|rewrite X; destruct (fl g1 j); reflexivity].
    destruct (f_stale (fl g1 j)) eqn:E; [|rewrite X; auto].
    apply (mi_stale _ _ _ _ M1) in E. apply U1.
    apply in_map_iff in E. destruct E as [e [E1 E2]]. apply in_map_iff. exists e. split; auto.
    apply Hws_in; auto. }
  assert (Hres2 : forall j, f_result (fl g2 j) = true <-> In j inputs).
  { intros j. rewrite <- Hin_rev, <- (mi_res _ _ _ _ M1).
    destruct (U2 j) as [X|X]; rewrite X; [tauto|]. destruct (fl g1 j); cbn; tauto. }
  assert (C2 : Core g2).
  { constructor; auto.
    - intros j Sj. rewrite Hns2 in Sj. discriminate.
    - intros j. apply Hres2.
    - intros j Hj _. apply Hres2; auto.
    - intros j Hj. apply U3. apply (mi_dom _ _ _ _ M1). apply Hin_rev; auto. }
  assert (I0 : RInvA (mkR g2 [] (length commits) 0 (fst k0))).
  { constructor; cbn [r_g r_stack r_count r_pos r_min]; auto.
    - unfold ProofsRR.cnt. rewrite filter_all; [rewrite map_length; auto|].
      intros x Hx. apply Hres2; auto.
    - exists (i0, k0). auto.
    - intros n e Hn. lia.
    - intros j c Sj. rewrite Hns2 in Sj. discriminate.
    - intros j k []. }
  assert (Hwsok : forall e, In e (rev ws) -> ws_ok e).
  { intros e He. apply in_rev in He. apply Hws_in in He.
    destruct (mi_ws _ _ _ _ M1 e He) as [[y [Y1 Y2]] Z]. split; auto. exists y. split; auto.
    apply Hin_rev; auto. }
  destruct (rr_outer_inv _ _ _ _ I0 eq_refl Hwsok Out) as [Fin _].
  assert (Cs : Core (r_g s)) by (destruct Fin as [[C _]|[I _]]; [auto|apply I]).
  split; [apply Cs|]. split; [|split; [|split]].
  4: { intros Hac Hne Hr.
       assert (Hex : forall l : list (id * key), l <> [] -> exists x0, In x0 (map fst l)).
       { intros [|[x0 k0'] l'] Hl; [congruence|]. exists x0. left; auto. }
       destruct (Hex commits Hne) as [x0 Hx0].
       destruct (exists_nonstale (r_g s) x0 Hac Cs Hx0) as [m [Mi Ms]].
       assert (Hm : In m (map fst (filter (fun e => not_stale_in (r_g s) (fst e)) commits))).
       { apply in_result. split; auto. split; auto. apply Cs; auto. }
       rewrite Hr in Hm. destruct Hm. }
  - intros x Hx. apply in_result in Hx. tauto.
  - intros x Hx Hmax. apply in_result. split; auto. split; [apply Cs; auto|].
    destruct (f_stale (fl (r_g s) x)) eqn:E; auto.
    destruct (co_stale _ _ _ Cs x E) as [y [Y1 Y2]]. exfalso. apply (Hmax y); auto.
  - intros Hac GV x y Hx Hy Ryx. apply in_result in Hx. destruct Hx as [Hx [Dx Sx]].
    destruct Fin as [[CB [NB LB]]|[IA [StA AllA]]].
    + apply (chain_contra (r_g s) x y); auto. rewrite <- NB. auto.
    + destruct Ryx as [b [Eb Rb]].
      assert (Sb : f_stale (fl (r_g s) b) = true).
      { assert (Hb : In b (map fst ws_rev)).
        { apply (mi_par _ _ _ _ M1 y b); auto. apply Hin_rev; auto. }
        apply in_map_iff in Hb. destruct Hb as [e [E1 E2]]. subst b. apply AllA.
        apply -> in_rev. apply Hws_in. auto. }
      assert (Hflow : forall a, reach o a x -> f_stale (fl (r_g s) a) = true -> False).
      { intros a Ra. induction Ra as [a Pa | a a' c0 Eaa' Ra' IH]; [congruence|].
        intros Sa. destruct Eaa' as [ca [Oa [Ia Pa']]].
        destruct (ra_closed _ _ _ IA a ca Sa Oa) as [Cut|Par]; [rewrite StA; intros []| |].
        - (* cut off below the minimal generation: x would be a stale input *)
          assert (Rax : reach o a c0) by (eapply reach_step; [exists ca; eauto|auto]).
          pose proof (reach_gen _ _ GV Rax) as Gx.
          destruct (ra_min _ _ _ IA) as [em [Em1 Em2]].
          apply in_map_iff in Hx. destruct Hx as [[x' kx] [Ex Hxk]]. cbn [fst] in Ex; subst x'.
          assert (Hxs : In (c0, kx) sorted).
          { eapply Permutation_in; [symmetry; apply sort_by_perm|auto]. }
          apply In_nth_error in Hxs. destruct Hxs as [n Hn].
          destruct (Hkeys _ _ Hxk) as [cx [Ox Kx]].
          assert (Gk : fst kx = gen_of o c0) by (unfold gen_of; rewrite Ox, Kx; auto).
          destruct (Nat.lt_ge_cases n (r_pos s)) as [Lt|Ge].
          + pose proof (ra_low _ _ _ IA n _ Lt Hn) as Sx'. cbn [fst] in Sx'. congruence.
          + pose proof (sorted_nth _ (sort_sorted commits) _ _ _ _ Ge Em1 Hn) as Le.
            unfold gen_le in Le. cbn [snd] in Le. rewrite Gk, <- Em2 in Le.
            apply (N.lt_irrefl (gen_of o c0)).
            eapply N.le_lt_trans; [exact Gx|]. eapply N.lt_le_trans; [exact Cut|exact Le].
        - apply IH; auto. }
      apply (Hflow b Rb Sb).
Qed.
End RR2.
