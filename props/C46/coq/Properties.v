(* C46 — merge bases agree with git: the theorems.  [merge_base] is the model of
   gix_revision::merge_base (Model.v); the specification is Spec.v: the merge bases of [first] and
   [others] are the maximal elements of the set of common ancestors, which is what
   `git merge-base --all first others…` prints (checked against git 2.39.5 by the harness). *)
From GixV.Base Require Import Bytes Outcome.
From GixV.C46 Require Import Model Spec ProofsBase ProofsPaint ProofsRR ProofsMain.

(* the shortcut: no others, or first among the others *)
Theorem mb_shortcut : forall fuel o g first others,
  others = [] \/ In first others -> merge_base fuel o g first others = Ok (g, Some [first]).
Proof. exact mb_shortcut_lemma. Qed.

(* every returned id is a common ancestor of first and of one of the others — for every history, every
   commit dates and generation numbers, every (consistent) content of the reused graph *)
Theorem mb_sound : forall o first others fuel g g' res,
  graph_ok o g -> others <> [] -> ~ In first others ->
  merge_base fuel o g first others = Ok (g', res) ->
  forall x, In x (bases_of res) -> common_ancestor o first others x.
Proof. exact mb_sound_lemma. Qed.

(* every maximal common ancestor is returned — again without any assumption on dates or generations *)
Theorem mb_complete : forall o first others fuel g g' res,
  graph_ok o g -> others <> [] -> ~ In first others ->
  merge_base fuel o g first others = Ok (g', res) ->
  forall x, is_merge_base o first others x -> In x (bases_of res).
Proof. exact mb_complete_lemma. Qed.

(* no returned id is a proper ancestor of another returned id *)
Theorem mb_irredundant : forall o first others fuel g g' res,
  graph_ok o g -> others <> [] -> ~ In first others ->
  merge_base fuel o g first others = Ok (g', res) ->
  forall x y, acyclic o -> gens_valid o ->
  In x (bases_of res) -> In y (bases_of res) -> ~ reach_plus o y x.
Proof. exact mb_irredundant_lemma. Qed.

(* the result is exactly the set `git merge-base --all` is specified to print *)
Theorem mb_exact : forall o first others fuel g g' res,
  graph_ok o g -> others <> [] -> ~ In first others ->
  merge_base fuel o g first others = Ok (g', res) ->
  forall x, acyclic o -> gens_valid o ->
  (In x (bases_of res) <-> is_merge_base o first others x).
Proof. exact mb_exact_lemma. Qed.

(* None is returned exactly when there is no common ancestor; Some is never empty *)
Theorem mb_none : forall o first others fuel g g' res,
  graph_ok o g -> others <> [] -> ~ In first others ->
  merge_base fuel o g first others = Ok (g', res) ->
  acyclic o -> (res = None <-> forall x, ~ common_ancestor o first others x).
Proof. exact mb_none_lemma. Qed.

(* the two phases on their own *)
Theorem paint_down_to_common_sound : forall o first others fuel g g' bases,
  graph_ok o g -> (forall i, fl g i = f_empty) ->
  paint_down_to_common fuel o g first others = Ok (g', bases) ->
  graph_ok o g' /\ NoDup (map fst bases) /\
  forall i k, In (i, k) bases ->
    common_ancestor o first others i /\ in_dom g' i /\ exists c, odb_find o i = Some c /\ k = key_of c.
Proof. exact paint_sound. Qed.

Theorem paint_down_to_common_complete : forall o first others fuel g g' bases x,
  graph_ok o g -> (forall i, fl g i = f_empty) ->
  paint_down_to_common fuel o g first others = Ok (g', bases) ->
  is_merge_base o first others x -> In x (map fst bases).
Proof. exact paint_complete. Qed.

(* the first phase never panics (queue non-empty when popped, everything queued is in the graph) *)
Theorem paint_down_to_common_no_panic : forall o first others fuel g,
  graph_ok o g -> (forall i, fl g i = f_empty) ->
  paint_down_to_common fuel o g first others <> Panic.
Proof. exact paint_no_panic. Qed.

Theorem remove_redundant_spec : forall o commits, NoDup (map fst commits) ->
  forall fuel g g' r,
  graph_ok o g -> keys_ok o commits ->
  remove_redundant fuel o g commits = Ok (g', r) ->
  graph_ok o g' /\
  (forall x, In x r -> In x (map fst commits)) /\
  (forall x, In x (map fst commits) -> (forall y, In y (map fst commits) -> ~ reach_plus o y x) -> In x r) /\
  (acyclic o -> gens_valid o -> forall x y, In x r -> In y (map fst commits) -> ~ reach_plus o y x) /\
  (acyclic o -> commits <> [] -> r <> []).
Proof. exact rr_spec. Qed.

(* the priority queue hands back what was put in *)
Theorem heap_push_is_insert : forall l x, Permutation.Permutation (heap_push l x) (x :: l).
Proof. exact heap_push_perm. Qed.
Theorem heap_pop_is_remove : forall l x l', heap_pop l = Some (x, l') -> Permutation.Permutation l (x :: l').
Proof. exact heap_pop_perm. Qed.

(* sufficient, checkable conditions for the hypotheses on histories *)
Theorem acyclic_by_rank : forall rank o, rank_ok rank o = true -> acyclic o.
Proof. exact rank_acyclic. Qed.
Theorem gens_valid_by_check : forall o, gens_ok o = true -> gens_valid o.
Proof. exact gens_ok_valid. Qed.

(* ---- non-vacuity ---- *)
(* an older common ancestor Y with a younger date, reachable from the base X only through a second parent
   (the history on which the unfixed code returned Y and X) *)
Definition ex_odb : odb :=
  [ (bs "Q", mkCommit 5 None []);
    (bs "Y", mkCommit 1000 None []);
    (bs "M", mkCommit 5 None [bs "Q"; bs "Y"]);
    (bs "X", mkCommit 6 None [bs "M"]);
    (bs "A", mkCommit 10 None [bs "X"; bs "Y"]);
    (bs "B", mkCommit 9 None [bs "X"; bs "Y"]) ].
Example ex_run :
  match merge_base 100 ex_odb [] (bs "A") [bs "B"] with Ok (_, r) => r = Some [bs "X"] | _ => False end.
Proof. vm_compute. reflexivity. Qed.
Example ex_graph_ok : graph_ok ex_odb [].
Proof. intros i c f H. discriminate. Qed.
Example ex_acyclic : acyclic ex_odb.
Proof. apply (rank_acyclic (index_of ex_odb)). vm_compute. reflexivity. Qed.
Example ex_gens_valid : gens_valid ex_odb.
Proof. apply gens_ok_valid. vm_compute. reflexivity. Qed.
Example ex_is_merge_base : is_merge_base ex_odb (bs "A") [bs "B"] (bs "X").
Proof.
  destruct (merge_base 100 ex_odb [] (bs "A") [bs "B"]) as [[g' r]| | |] eqn:E.
  - pose proof ex_run as H. rewrite E in H. subst r.
    apply (mb_exact ex_odb (bs "A") [bs "B"] 100 [] g' (Some [bs "X"]) ex_graph_ok); auto.
    + discriminate.
    + intros [X|[]]. discriminate.
    + exact ex_acyclic.
    + exact ex_gens_valid.
    + left; auto.
  - pose proof ex_run as H. rewrite E in H. destruct H.
  - pose proof ex_run as H. rewrite E in H. destruct H.
  - pose proof ex_run as H. rewrite E in H. destruct H.
Qed.
(* criss-cross with a commit-graph: two merge bases *)
Definition ex_cc : odb :=
  [ (bs "R", mkCommit 1 (Some 1%N) []);
    (bs "P", mkCommit 2 (Some 2%N) [bs "R"]);
    (bs "S", mkCommit 2 (Some 2%N) [bs "R"]);
    (bs "C", mkCommit 3 (Some 3%N) [bs "P"; bs "S"]);
    (bs "D", mkCommit 3 None [bs "S"; bs "P"]) ].
Example ex_cc_run :
  match merge_base 100 ex_cc [] (bs "C") [bs "D"] with
  | Ok (_, r) => r = Some [bs "P"; bs "S"] \/ r = Some [bs "S"; bs "P"] | _ => False end.
Proof. vm_compute. auto. Qed.
Example ex_cc_hyps : acyclic ex_cc /\ gens_valid ex_cc.
Proof.
  split; [apply (rank_acyclic (index_of ex_cc)) | apply gens_ok_valid]; vm_compute; reflexivity.
Qed.
Example ex_none :
  match merge_base 100 ex_odb [] (bs "Q") [bs "Y"] with Ok (_, r) => r = None | _ => False end.
Proof. vm_compute. reflexivity. Qed.
