From GixV.Base Require Import Bytes Outcome.
From GixV.C46 Require Import Model Spec.
