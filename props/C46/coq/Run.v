(* C46 — transcript printer. *)
From GixV.Base Require Import Bytes Outcome.
From GixV.C46 Require Import Model Spec.

Fixpoint chunks20 (fuel : nat) (b : bytes) : list bytes :=
  match fuel with
  | O => []
  | S fuel' => match b with [] => [] | _ => firstn 20 b :: chunks20 fuel' (skipn 20 b) end
  end.
Definition ids_of (b : bytes) : list id := chunks20 (length b) b.

Fixpoint parse_commits (n : nat) (fs : list bytes) : odb * list bytes :=
  match n with
  | O => ([], fs)
  | S n' =>
      match fs with
      | i :: t :: g :: ps :: rest =>
          let '(o, rest') := parse_commits n' rest in
          let time := match dec_to_Z t with Some z => z | None => 0%Z end in
          let gen := match g with [] => None | _ => dec_to_N g end in
          ((i, mkCommit time gen (ids_of ps)) :: o, rest')
      | _ => ([], [])
      end
  end.

Fixpoint join_comma (l : list bytes) : bytes :=
  match l with
  | [] => []
  | [x] => x
  | x :: l' => x ++ bs "," ++ join_comma l'
  end.

Definition show_ids (l : list id) : bytes :=
  match l with
  | [] => bs "ok none"
  | _ => bs "ok " ++ join_comma (map hex_encode l)
  end.

Definition run_fuel (o : odb) (others : list id) : nat := (4 * (length o + length others) + 8)%nat.

Definition run_case (spec : bool) (fs : list bytes) : bytes :=
  let n := N.to_nat (field_N 2 fs) in
  let '(o, rest) := parse_commits n (skipn 3 fs) in
  let first := nth_field 0 rest in
  let others := ids_of (nth_field 1 rest) in
  if spec then show_ids (sort_by bytes_cmp (spec_merge_bases o first others))
  else
    match merge_base (run_fuel o others) o [] first others with
    | Ok (_, None) => bs "ok none"
    | Ok (_, Some l) => show_ids l
    | Err _ => bs "err"
    | Panic => bs "PANIC"
    | OutOfFuel => bs "HANG"
    end.

Definition run (fs : list bytes) : bytes :=
  match fs with
  | mode :: rest =>
      if bytes_eqb (nth_field 0 rest) (bs "mb") then run_case (bytes_eqb mode (bs "spec")) rest
      else bs "?"
  | [] => bs "?"
  end.
