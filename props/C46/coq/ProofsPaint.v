(* C46 — paint_down_to_common: every element of the output is a common ancestor, and every maximal
   common ancestor is in the output.  Neither fact depends on the order in which the queue hands out
   its elements, hence not on commit dates or generation numbers. *)
From Coq Require Import Lia Permutation.
From GixV.Base Require Import Bytes BytesFacts Outcome.
From GixV.C46 Require Import Model Spec ProofsBase.

Definition ids (q : heap) : list id := map snd q.
Definition is_base (f : flags) : bool := f_c1 f && f_c2 f && negb (f_stale f).
Definition eff (f : flags) : flags :=
  if is_base f then set_stale true (without_result f) else without_result f.

Lemma eff_c1 A B : f_contains A (eff B) = true -> f_c1 B = true -> f_c1 A = true.
Proof. destruct A as [[] [] [] []], B as [[] [] [] []]; cbn; auto. Qed.
Lemma eff_c2 A B : f_contains A (eff B) = true -> f_c2 B = true -> f_c2 A = true.
Proof. destruct A as [[] [] [] []], B as [[] [] [] []]; cbn; auto. Qed.
Lemma f_or_twice a b : f_or (f_or a b) b = f_or a b.
Proof. destruct a as [[] [] [] []], b as [[] [] [] []]; reflexivity. Qed.
Lemma eff_result b d : eff (set_result b d) = eff d.
Proof. destruct d as [[] [] [] []], b; reflexivity. Qed.

Lemma contains_c1 a b : f_contains a b = true -> f_c1 b = true -> f_c1 a = true.
Proof. destruct a as [[] [] [] []], b as [[] [] [] []]; cbn; auto. Qed.
Lemma contains_c2 a b : f_contains a b = true -> f_c2 b = true -> f_c2 a = true.
Proof. destruct a as [[] [] [] []], b as [[] [] [] []]; cbn; auto. Qed.
Lemma contains_result a b : f_contains a b = true -> f_result b = true -> f_result a = true.
Proof. destruct a as [[] [] [] []], b as [[] [] [] []]; cbn; auto. Qed.

Section Paint.
Variable o : odb.
Variable first : id.
Variable others : list id.
Notation CA := (common_ancestor o first others).

(* ---- the loop over the parents ---- *)
Lemma paint_parents_spec flg : forall ps g q g2 q2,
  graph_ok o g -> paint_parents o flg ps g q = (g2, q2) ->
  graph_ok o g2 /\
  (forall j, In j ps -> present o j -> fl g2 j = f_or (fl g j) flg) /\
  (forall j, fl g2 j = fl g j \/ (In j ps /\ present o j)) /\
  (forall j, in_dom g j -> in_dom g2 j) /\
  (forall it, In it q -> In it q2) /\
  (forall k j, In (k, j) q2 -> In (k, j) q \/
       (In j ps /\ in_dom g2 j /\ exists c, odb_find o j = Some c /\ k = key_of c)) /\
  (forall j, fl g2 j <> fl g j -> In j (ids q2)).
Proof.
  induction ps as [|p ps IH]; intros g q g2 q2 Hok H; cbn [paint_parents] in H.
  - inversion H; subst. split; [auto|]. split; [|split; [|split; [|split; [|split]]]]; auto.
    + intros j X. contradiction.
    + intros j X. exfalso. apply X. reflexivity.
  - destruct (g_lookup_or_insert o g p) as [[[g1 pc] pf]|] eqn:L.
    + destruct (lookup_some _ _ _ _ _ _ Hok L) as [Ho [Hpf [Hg1 [Hok1 [Hfl1 [Hd1 Hd1']]]]]].
      assert (Hpres : present o p) by (unfold present; congruence).
      destruct (f_contains pf flg) eqn:C.
      * destruct (IH _ _ _ _ Hok1 H) as [A [B [Cc [D [E [F G]]]]]].
        split; [auto|]. split; [|split; [|split; [|split; [|split]]]].
        -- intros j [<-|Hj] Pj.
           ++ destruct (Cc p) as [X|[X1 X2]].
              ** rewrite X, Hfl1. rewrite f_or_absorb; auto. congruence.
              ** rewrite (B p X1 X2), Hfl1. rewrite f_or_absorb; auto. congruence.
           ++ rewrite (B j Hj Pj), Hfl1. reflexivity.
        -- intros j. destruct (Cc j) as [X|[X1 X2]]; [left; rewrite X; apply Hfl1 | right; split; [right|]; auto].
        -- intros j Hj. apply D, Hd1, Hj.
        -- exact E.
        -- intros k j Hj. destruct (F k j Hj) as [X|[X1 X2]]; [left; auto | right; split; [right|]; auto].
        -- intros j Hj. apply G. rewrite Hfl1. exact Hj.
      * set (g1' := g_set g1 p (f_or pf flg)) in *.
        assert (Hok1' : graph_ok o g1') by (apply ok_set; auto).
        assert (Hdp : in_dom g1 p) by (unfold in_dom; congruence).
        destruct (IH _ _ _ _ Hok1' H) as [A [B [Cc [D [E [F G]]]]]].
        assert (Hflp : fl g1' p = f_or (fl g p) flg).
        { unfold g1'. rewrite fl_set_same; auto. congruence. }
        assert (Hflo : forall j, j <> p -> fl g1' j = fl g j).
        { intros j Hj. unfold g1'. rewrite fl_set_other; auto. }
        split; [auto|]. split; [|split; [|split; [|split; [|split]]]].
        -- intros j [<-|Hj] Pj.
           ++ destruct (Cc p) as [X|[X1 X2]].
              ** rewrite X. exact Hflp.
              ** rewrite (B p X1 X2), Hflp. apply f_or_twice.
           ++ destruct (eqb_spec j p) as [->|Ne].
              ** rewrite (B p Hj Pj), Hflp. apply f_or_twice.
              ** rewrite (B j Hj Pj), Hflo; auto.
        -- intros j. destruct (eqb_spec j p) as [->|Ne]; [right; split; [left|]; auto|].
           destruct (Cc j) as [X|[X1 X2]]; [left; rewrite X; auto | right; split; [right|]; auto].
        -- intros j Hj. apply D. unfold g1'. apply dom_set. apply Hd1, Hj.
        -- intros it Hit. apply E. eapply Permutation_in; [symmetry; apply heap_push_perm|]. right; auto.
        -- intros k j Hj. destruct (F k j Hj) as [X|[X1 X2]].
           ++ eapply Permutation_in in X; [|apply heap_push_perm]. destruct X as [X|X]; [|left; auto].
              inversion X; subst. right. split; [left; auto|]. split.
              ** apply D. unfold g1'. apply dom_set. auto.
              ** exists pc; auto.
           ++ right; split; [right|]; auto.
        -- intros j Hj. destruct (eqb_spec j p) as [->|Ne].
           ++ unfold ids. apply in_map_iff. exists (key_of pc, p). split; auto.
              apply E. eapply Permutation_in; [symmetry; apply heap_push_perm|]. left; auto.
           ++ apply G. rewrite Hflo; auto.
    + pose proof (lookup_none _ _ _ Hok L) as Ho.
      destruct (IH _ _ _ _ Hok H) as [A [B [Cc [D [E [F G]]]]]].
      split; [auto|]. split; [|split; [|split; [|split; [|split]]]]; auto.
      * intros j [<-|Hj] Pj; [contradiction|auto].
      * intros j. destruct (Cc j) as [X|[X1 X2]]; [left; auto | right; split; [right|]; auto].
      * intros k j Hj. destruct (F k j Hj) as [X|[X1 X2]]; [left; auto | right; split; [right|]; auto].
Qed.

(* ---- the loop invariant ---- *)
Record PInv (s : pstate) : Prop := {
  pi_ok : graph_ok o (p_g s);
  pi_c1 : forall i, f_c1 (fl (p_g s) i) = true -> reach o first i;
  pi_c2 : forall i, f_c2 (fl (p_g s) i) = true -> exists t, In t others /\ reach o t i;
  pi_stale : forall i, f_stale (fl (p_g s) i) = true -> exists y, CA y /\ reach_plus o y i;
  pi_out : forall i k, In (i, k) (p_out s) -> CA i /\ exists c, odb_find o i = Some c /\ k = key_of c;
  pi_res : forall i, f_result (fl (p_g s) i) = true -> In i (map fst (p_out s));
  pi_q : forall k i, In (k, i) (p_q s) -> in_dom (p_g s) i /\ exists c, odb_find o i = Some c /\ k = key_of c;
  pi_closed : forall i c, odb_find o i = Some c -> ~ In i (ids (p_q s)) ->
      (forall p, In p (c_parents c) -> present o p ->
                 f_contains (fl (p_g s) p) (eff (fl (p_g s) i)) = true)
      /\ (is_base (fl (p_g s) i) = true -> f_result (fl (p_g s) i) = true);
  pi_nodup : NoDup (map fst (p_out s));
  pi_out_dom : forall i, In i (map fst (p_out s)) -> in_dom (p_g s) i /\ f_result (fl (p_g s) i) = true;
  pi_first : present o first -> f_c1 (fl (p_g s) first) = true;
  pi_others : forall t, In t others -> present o t -> f_c2 (fl (p_g s) t) = true
}.

Lemma in_ids q i : In i (ids q) <-> exists k, In (k, i) q.
Proof.
  unfold ids. rewrite in_map_iff. split.
  - intros [[k j] [E H]]. cbn in E; subst. eauto.
  - intros [k H]. exists (k, i); auto.
Qed.

Lemma or_c1 a b : f_c1 (f_or a b) = true -> f_c1 a = true \/ f_c1 b = true.
Proof. destruct a as [[] ? ? ?], b as [[] ? ? ?]; cbn; auto. Qed.
Lemma or_c2 a b : f_c2 (f_or a b) = true -> f_c2 a = true \/ f_c2 b = true.
Proof. destruct a as [? [] ? ?], b as [? [] ? ?]; cbn; auto. Qed.
Lemma or_stale a b : f_stale (f_or a b) = true -> f_stale a = true \/ f_stale b = true.
Proof. destruct a as [? ? [] ?], b as [? ? [] ?]; cbn; auto. Qed.
Lemma or_result a b : f_result (f_or a b) = true -> f_result a = true \/ f_result b = true.
Proof. destruct a as [? ? ? []], b as [? ? ? []]; cbn; auto. Qed.
Lemma eff_no_result d : f_result (eff d) = false.
Proof. destruct d as [[] [] [] []]; reflexivity. Qed.
Lemma eff_c1_inv d : f_c1 (eff d) = true -> f_c1 d = true.
Proof. destruct d as [[] [] [] []]; cbn; auto. Qed.
Lemma eff_c2_inv d : f_c2 (eff d) = true -> f_c2 d = true.
Proof. destruct d as [[] [] [] []]; cbn; auto. Qed.
Lemma eff_stale_inv d : f_stale (eff d) = true -> f_stale d = true \/ is_base d = true.
Proof. destruct d as [[] [] [] []]; cbn; auto. Qed.
Lemma is_base_inv d : is_base d = true -> f_c1 d = true /\ f_c2 d = true /\ f_stale d = false.
Proof. destruct d as [[] [] [] []]; cbn; auto; discriminate. Qed.
Lemma or_mono_c1 a b : f_c1 a = true -> f_c1 (f_or a b) = true.
Proof. destruct a as [[] ? ? ?]; cbn; auto; discriminate. Qed.
Lemma or_mono_c2 a b : f_c2 a = true -> f_c2 (f_or a b) = true.
Proof. destruct a as [? [] ? ?]; cbn; auto; discriminate. Qed.

Lemma paint_step_inv s s' : PInv s -> paint_step o s = Some (Ok s') -> PInv s'.
Proof.
  intros I. unfold paint_step.
  destruct (existsb _ _); [|discriminate].
  destruct (heap_pop (p_q s)) as [[[info cid] q1]|] eqn:Pop; [|discriminate].
  destruct (g_get (p_g s) cid) as [[c d]|] eqn:G; [|discriminate].
  pose proof (heap_pop_perm _ _ _ Pop) as Perm.
  assert (Hd : d = fl (p_g s) cid) by (unfold fl; rewrite G; reflexivity).
  assert (Hoc : odb_find o cid = Some c) by (eapply (pi_ok _ I); eauto).
  assert (Hdom : in_dom (p_g s) cid) by (unfold in_dom; congruence).
  assert (Hinfo : info = key_of c).
  { destruct (pi_q _ I info cid) as [_ [c' [E1 E2]]].
    - eapply Permutation_in; [symmetry; exact Perm|]. left; auto.
    - congruence. }
  change (f_c1 (without_result d) && f_c2 (without_result d) && negb (f_stale (without_result d)))
    with (is_base d).
  change (if is_base d then set_stale true (without_result d) else without_result d) with (eff d).
  set (g1 := if is_base d && negb (f_result d) then g_set (p_g s) cid (set_result true d) else p_g s).
  set (out1 := if is_base d && negb (f_result d) then (cid, info) :: p_out s else p_out s).
  replace (if is_base d && negb (f_result d)
           then (g_set (p_g s) cid (set_result true d), (cid, info) :: p_out s)
           else (p_g s, p_out s)) with (g1, out1)
    by (unfold g1, out1; destruct (is_base d && negb (f_result d)); reflexivity).
  destruct (paint_parents o (eff d) (c_parents c) g1 q1) as [g2 q2] eqn:PP.
  intros X; inversion X; subst s'; clear X.
  (* facts about g1 *)
  assert (Hok1 : graph_ok o g1).
  { unfold g1. destruct (_ && _); [apply ok_set|]; apply (pi_ok _ I). }
  assert (Hfl1 : forall j, j <> cid -> fl g1 j = fl (p_g s) j).
  { intros j Hj. unfold g1. destruct (_ && _); auto. rewrite fl_set_other; auto. }
  assert (Hfl1c : fl g1 cid = d \/ (fl g1 cid = set_result true d /\ is_base d = true /\ f_result d = false
                                     /\ out1 = (cid, info) :: p_out s)).
  { unfold g1, out1. destruct (is_base d && negb (f_result d)) eqn:E; [right|left; auto].
    apply andb_prop in E. destruct E as [E1 E2]. rewrite fl_set_same; auto.
    destruct (f_result d); [discriminate|auto]. }
  assert (Hdom1 : forall j, in_dom (p_g s) j <-> in_dom g1 j).
  { intros j. unfold g1. destruct (_ && _); [symmetry; apply dom_set | tauto]. }
  assert (Hout1 : forall e, In e out1 -> In e (p_out s) \/ (e = (cid, info) /\ is_base d = true)).
  { intros e. unfold out1. destruct (is_base d && negb (f_result d)) eqn:E; auto.
    apply andb_prop in E. intros [<-|H]; [right; tauto | left; auto]. }
  assert (Hout1' : forall e, In e (p_out s) -> In e out1).
  { intros e. unfold out1. destruct (_ && _); [right|]; auto. }
  assert (Hmono1 : forall j, f_contains (fl g1 j) (fl (p_g s) j) = true).
  { intros j. destruct (eqb_spec j cid) as [->|Ne].
    - destruct Hfl1c as [->|[-> _]]; rewrite <- Hd.
      + apply f_contains_refl.
      + destruct d as [[] [] [] []]; reflexivity.
    - rewrite Hfl1; auto. apply f_contains_refl. }
  destruct (paint_parents_spec _ _ _ _ _ _ Hok1 PP) as [Hok2 [B [Cc [D [E [F Gq]]]]]].
  assert (Hmono2 : forall j, f_contains (fl g2 j) (fl g1 j) = true).
  { intros j. destruct (Cc j) as [->|[X1 X2]]; [apply f_contains_refl|].
    rewrite (B j X1 X2). apply f_contains_or_l. }
  assert (Hcid_ca : is_base d = true -> CA cid).
  { intros Hb. apply is_base_inv in Hb. destruct Hb as [H1 [H2 _]]. rewrite Hd in H1, H2.
    split; [apply (pi_c1 _ I); auto | apply (pi_c2 _ I); auto]. }
  assert (Hedge : forall j, In j (c_parents c) -> present o j -> edge o cid j).
  { intros j Hj Pj. exists c. auto. }
  (* every flag of g2 comes from g or from eff d on a parent *)
  assert (Hsrc : forall j, fl g2 j = fl g1 j \/
                 (In j (c_parents c) /\ present o j /\ fl g2 j = f_or (fl g1 j) (eff d))).
  { intros j. destruct (Cc j) as [X|[X1 X2]]; [left; auto | right; auto]. }
  assert (Hc1_1 : forall j, f_c1 (fl g1 j) = true -> reach o first j).
  { intros j Hj. apply (pi_c1 _ I). destruct (eqb_spec j cid) as [->|Ne].
    - rewrite <- Hd. destruct Hfl1c as [X|[X _]]; rewrite X in Hj; auto.
    - rewrite <- Hfl1; auto. }
  assert (Hc2_1 : forall j, f_c2 (fl g1 j) = true -> exists t, In t others /\ reach o t j).
  { intros j Hj. apply (pi_c2 _ I). destruct (eqb_spec j cid) as [->|Ne].
    - rewrite <- Hd. destruct Hfl1c as [X|[X _]]; rewrite X in Hj; auto.
    - rewrite <- Hfl1; auto. }
  assert (Hst_1 : forall j, f_stale (fl g1 j) = true -> exists y, CA y /\ reach_plus o y j).
  { intros j Hj. apply (pi_stale _ I). destruct (eqb_spec j cid) as [->|Ne].
    - rewrite <- Hd. destruct Hfl1c as [X|[X _]]; rewrite X in Hj; auto.
    - rewrite <- Hfl1; auto. }
  constructor; cbn [p_g p_q p_out].
  - exact Hok2.
  - intros j Hj. destruct (Hsrc j) as [X|[X1 [X2 X3]]].
    + rewrite X in Hj. auto.
    + rewrite X3 in Hj. apply or_c1 in Hj. destruct Hj as [Hj|Hj]; auto.
      apply eff_c1_inv in Hj. rewrite Hd in Hj. eapply reach_edge_r; [apply (pi_c1 _ I); eauto|auto].
  - intros j Hj. destruct (Hsrc j) as [X|[X1 [X2 X3]]].
    + rewrite X in Hj. auto.
    + rewrite X3 in Hj. apply or_c2 in Hj. destruct Hj as [Hj|Hj]; auto.
      apply eff_c2_inv in Hj. rewrite Hd in Hj. destruct (pi_c2 _ I _ Hj) as [t [T1 T2]].
      exists t. split; auto. eapply reach_edge_r; eauto.
  - intros j Hj. destruct (Hsrc j) as [X|[X1 [X2 X3]]].
    + rewrite X in Hj. auto.
    + rewrite X3 in Hj. apply or_stale in Hj. destruct Hj as [Hj|Hj]; auto.
      apply eff_stale_inv in Hj. destruct Hj as [Hj|Hj].
      * rewrite Hd in Hj. destruct (pi_stale _ I _ Hj) as [y [Y1 Y2]]. exists y. split; auto.
        eapply reach_plus_trans_r; eauto. apply edge_reach; auto.
      * exists cid. split; auto. eapply reach_plus_edge_r; [apply reach_refl; unfold present; congruence|auto].
  - intros i k Hi. destruct (Hout1 _ Hi) as [X|[X Hb]].
    + apply (pi_out _ I); auto.
    + inversion X; subst i k. split; auto. exists c; auto.
  - intros j Hj. apply in_map_iff.
    assert (Hj1 : f_result (fl g1 j) = true).
    { destruct (Hsrc j) as [X|[X1 [X2 X3]]]; [rewrite <- X; auto|].
      rewrite X3 in Hj. apply or_result in Hj. destruct Hj as [Hj|Hj]; auto.
      rewrite eff_no_result in Hj. discriminate. }
    destruct (eqb_spec j cid) as [->|Ne].
    + destruct Hfl1c as [X|[X [_ [_ X4]]]].
      * rewrite X, Hd in Hj1. apply (pi_res _ I) in Hj1. apply in_map_iff in Hj1.
        destruct Hj1 as [e [E1 E2]]. exists e; auto.
      * exists (cid, info). rewrite X4. split; [reflexivity | left; auto].
    + rewrite Hfl1 in Hj1; auto. apply (pi_res _ I) in Hj1. apply in_map_iff in Hj1.
      destruct Hj1 as [e [E1 E2]]. exists e; auto.
  - intros k i Hi. destruct (F k i Hi) as [X|[X1 [X2 X3]]]; [|auto].
    destruct (pi_q _ I k i) as [Q1 Q2].
    + eapply Permutation_in; [symmetry; exact Perm|]. right; auto.
    + split; auto. apply D, Hdom1, Q1.
  - intros i ci Hoi Hnq.
    assert (Hnq1 : ~ In i (ids q1)).
    { intros X. apply Hnq. apply in_ids in X. destruct X as [k X]. apply in_ids. exists k. apply E; auto. }
    assert (Hi2 : fl g2 i = fl g1 i).
    { destruct (bool_dec true true) as [_|]; [|congruence].
      destruct (Cc i) as [X|[X1 X2]]; auto.
      (* it changed only if it was pushed *)
      destruct (f_contains (fl g1 i) (eff d)) eqn:Cn.
      - rewrite (B i X1 X2). apply f_or_absorb; auto.
      - exfalso. apply Hnq. apply Gq. rewrite (B i X1 X2). intros Y.
        rewrite <- Y in Cn. rewrite f_contains_or in Cn. discriminate. }
    destruct (eqb_spec i cid) as [->|Ne].
    + assert (ci = c) by congruence. subst ci.
      assert (Heff : eff (fl g2 cid) = eff d).
      { rewrite Hi2. destruct Hfl1c as [->|[-> _]]; auto; try apply eff_result. }
      split.
      * intros p Hp Pp. rewrite Heff. rewrite (B p Hp Pp). apply f_contains_or.
      * rewrite Hi2. destruct Hfl1c as [X|[X _]]; rewrite X.
        -- intros Hb. unfold g1 in X. destruct (f_result d) eqn:R; auto.
           rewrite Hb in X. cbn in X. rewrite fl_set_same in X; auto.
           assert (R2 : f_result d = true) by (rewrite <- X; reflexivity). congruence.
        -- reflexivity.
    + assert (Hnq0 : ~ In i (ids (p_q s))).
      { intros X. apply in_ids in X. destruct X as [k X].
        eapply Permutation_in in X; [|exact Perm]. destruct X as [X|X].
        - inversion X; subst. contradiction.
        - apply Hnq1. apply in_ids. eauto. }
      destruct (pi_closed _ I i ci Hoi Hnq0) as [C1 C2].
      rewrite Hi2, Hfl1; auto. split; auto.
      intros p Hp Pp. eapply f_contains_trans; [apply Hmono2|].
      eapply f_contains_trans; [apply Hmono1|]. auto.
  - unfold out1. destruct (is_base d && negb (f_result d)) eqn:Eb; [|apply (pi_nodup _ I)].
    cbn [map fst]. constructor; [|apply (pi_nodup _ I)].
    intros X. apply andb_prop in Eb. destruct Eb as [_ Eb].
    (* cid in out would mean RESULT was set *)
    assert (f_result d = true); [|destruct (f_result d); discriminate].
    rewrite Hd. apply (pi_out_dom _ I). exact X.
  - intros i Hi. apply in_map_iff in Hi. destruct Hi as [e [E1 E2]].
    assert (Hres_mono : f_result (fl g1 i) = true -> f_result (fl g2 i) = true).
    { intros R. eapply contains_result; [apply Hmono2|auto]. }
    destruct (Hout1 _ E2) as [X|[X Hb]].
    + destruct (pi_out_dom _ I i) as [P1 P2]; [apply in_map_iff; exists e; auto|].
      split; [apply D, Hdom1, P1|]. apply Hres_mono.
      eapply contains_result; [apply Hmono1|auto].
    + subst e. cbn in E1. subst i. split; [apply D, Hdom1; auto|]. apply Hres_mono.
      destruct Hfl1c as [Y|[Y _]]; rewrite Y; [|reflexivity].
      (* the flags were left alone although it is a base: RESULT was set already *)
      unfold out1 in E2. destruct (f_result d) eqn:R; auto.
      exfalso. unfold g1 in Y. rewrite Hb in Y. cbn in Y. rewrite fl_set_same in Y; auto.
      rewrite <- Y in R. discriminate.
  - intros P. pose proof (pi_first _ I P) as H.
    eapply contains_c1; [apply Hmono2|]. eapply contains_c1; [apply Hmono1|auto].
  - intros t Ht P. pose proof (pi_others _ I t Ht P) as H.
    eapply contains_c2; [apply Hmono2|]. eapply contains_c2; [apply Hmono1|auto].
Qed.
End Paint.

Section Paint2.
Variable o : odb.
Variable first : id.
Variable others : list id.
Notation CA := (common_ancestor o first others).
Notation PInv := (PInv o first others).

Lemma paint_loop_inv fuel : forall s s',
  PInv s -> paint_loop fuel o s = Ok s' -> PInv s' /\ paint_step o s' = None.
Proof.
  induction fuel as [|fuel IH]; intros s s' I H; cbn [paint_loop] in H; [discriminate|].
  destruct (paint_step o s) as [[s1| | |]|] eqn:St; try discriminate.
  - apply (IH s1); auto. eapply paint_step_inv; eauto.
  - inversion H; subst. auto.
Qed.

(* at the end of the loop every maximal common ancestor is in the output *)
Lemma paint_exit s x :
  PInv s -> paint_step o s = None -> is_merge_base o first others x -> In x (map fst (p_out s)).
Proof.
  intros I St [[R1 [t [Ht R2]]] Hmax].
  assert (Hex : forall it, In it (p_q s) -> not_stale_in (p_g s) (snd it) = false).
  { unfold paint_step in St.
    match type of St with (if ?b then _ else _) = _ => destruct b eqn:E end; [discriminate St|].
    intros it Hit. destruct (not_stale_in (p_g s) (snd it)) eqn:N; auto.
    assert (existsb (fun it0 => not_stale_in (p_g s) (snd it0)) (p_q s) = true); [|congruence].
    apply existsb_exists. exists it; auto. }
  (* a queued commit is stale at the end, hence below a common ancestor *)
  assert (Hq : forall a, In a (ids (p_q s)) -> exists y, CA y /\ reach_plus o y a).
  { intros a Ha. apply in_ids in Ha. destruct Ha as [k Ha].
    pose proof (Hex _ Ha) as N. cbn [snd] in N.
    destruct (pi_q _ _ _ _ I k a Ha) as [Hd _].
    apply (pi_stale _ _ _ _ I). unfold not_stale_in in N. unfold fl. unfold in_dom in Hd.
    destruct (g_get (p_g s) a) as [[c f]|]; [|contradiction].
    destruct (f_stale f); [reflexivity|discriminate]. }
  assert (Hnotq : forall a, reach o a x -> ~ In a (ids (p_q s))).
  { intros a Ra Ha. destruct (Hq a Ha) as [y [Y1 Y2]].
    apply (Hmax y Y1). eapply reach_plus_trans_r; eauto. }
  assert (Hflow1 : forall a, reach o a x -> f_c1 (fl (p_g s) a) = true -> f_c1 (fl (p_g s) x) = true).
  { intros a Ra. induction Ra as [a Pa | a b c0 Eab Rbc IH]; auto.
    intros Ha. apply IH; auto. destruct Eab as [ca [Oa [Ib Pb]]].
    assert (Ra : reach o a c0) by (eapply reach_step; [exists ca; eauto|auto]).
    destruct (pi_closed _ _ _ _ I a ca Oa (Hnotq a Ra)) as [C _].
    eapply eff_c1; [apply C; auto|auto]. }
  assert (Hflow2 : forall a, reach o a x -> f_c2 (fl (p_g s) a) = true -> f_c2 (fl (p_g s) x) = true).
  { intros a Ra. induction Ra as [a Pa | a b c0 Eab Rbc IH]; auto.
    intros Ha. apply IH; auto. destruct Eab as [ca [Oa [Ib Pb]]].
    assert (Ra : reach o a c0) by (eapply reach_step; [exists ca; eauto|auto]).
    destruct (pi_closed _ _ _ _ I a ca Oa (Hnotq a Ra)) as [C _].
    eapply eff_c2; [apply C; auto|auto]. }
  assert (H1 : f_c1 (fl (p_g s) x) = true).
  { apply (Hflow1 first R1). apply (pi_first _ _ _ _ I). eapply reach_present_l; eauto. }
  assert (H2 : f_c2 (fl (p_g s) x) = true).
  { apply (Hflow2 t R2). apply (pi_others _ _ _ _ I t Ht). eapply reach_present_l; eauto. }
  assert (H3 : f_stale (fl (p_g s) x) = false).
  { destruct (f_stale (fl (p_g s) x)) eqn:S; auto.
    destruct (pi_stale _ _ _ _ I x S) as [y [Y1 Y2]]. exfalso. apply (Hmax y Y1 Y2). }
  assert (Px : present o x) by (eapply reach_present_r; eauto).
  destruct (odb_find o x) as [cx|] eqn:Ox; [|exfalso; apply Px; auto].
  destruct (pi_closed _ _ _ _ I x cx Ox (Hnotq x (reach_refl _ _ Px))) as [_ C].
  apply (pi_res _ _ _ _ I). apply C. unfold is_base. rewrite H1, H2, H3. reflexivity.
Qed.

(* ---- the initial state ---- *)
Record PInit (g : graph) (q : heap) : Prop := {
  pn_ok : graph_ok o g;
  pn_c1 : forall i, f_c1 (fl g i) = true -> i = first /\ present o first;
  pn_c2 : forall i, f_c2 (fl g i) = true -> In i others /\ present o i;
  pn_stale : forall i, f_stale (fl g i) = false;
  pn_res : forall i, f_result (fl g i) = false;
  pn_q : forall k i, In (k, i) q -> in_dom g i /\ exists c, odb_find o i = Some c /\ k = key_of c;
  pn_nonempty : forall i, fl g i <> f_empty -> In i (ids q)
}.

Lemma paint_init_one_c1 g q :
  PInit g q ->
  PInit (fst (paint_init_one o set_c1 first (g, q))) (snd (paint_init_one o set_c1 first (g, q))) /\
  (present o first -> f_c1 (fl (fst (paint_init_one o set_c1 first (g, q))) first) = true).
Proof.
  intros I. unfold paint_init_one. cbn [fst snd].
  destruct (g_lookup_or_insert o g first) as [[[g1 c] f]|] eqn:L.
  - destruct (lookup_some _ _ _ _ _ _ (pn_ok _ _ I) L) as [Ho [Hf [Hg1 [Hok1 [Hfl1 [Hd1 Hd1']]]]]].
    assert (Hdp : in_dom g1 first) by (unfold in_dom; congruence).
    cbn [fst snd]. split; [|intros _; rewrite fl_set_same; auto].
    constructor.
    + apply ok_set; auto.
    + intros i. destruct (eqb_spec first i) as [<-|Ne].
      * intros _. split; auto. unfold present; congruence.
      * rewrite fl_set_other; auto. rewrite Hfl1. intros X. apply (pn_c1 _ _ I) in X. destruct X; congruence.
    + intros i. destruct (eqb_spec first i) as [<-|Ne].
      * rewrite fl_set_same; auto. cbn. rewrite Hf. apply (pn_c2 _ _ I).
      * rewrite fl_set_other; auto. rewrite Hfl1. apply (pn_c2 _ _ I).
    + intros i. destruct (eqb_spec first i) as [<-|Ne].
      * rewrite fl_set_same; auto. cbn. rewrite Hf. apply (pn_stale _ _ I).
      * rewrite fl_set_other; auto. rewrite Hfl1. apply (pn_stale _ _ I).
    + intros i. destruct (eqb_spec first i) as [<-|Ne].
      * rewrite fl_set_same; auto. cbn. rewrite Hf. apply (pn_res _ _ I).
      * rewrite fl_set_other; auto. rewrite Hfl1. apply (pn_res _ _ I).
    + intros k i Hi. eapply Permutation_in in Hi; [|apply heap_push_perm]. destruct Hi as [X|X].
      * inversion X; subst. split; [apply dom_set; auto | exists c; auto].
      * destruct (pn_q _ _ I k i X) as [Q1 Q2]. split; auto. apply dom_set. auto.
    + intros i Hi. destruct (eqb_spec first i) as [<-|Ne].
      * apply in_ids. exists (key_of c). eapply Permutation_in; [symmetry; apply heap_push_perm|]. left; auto.
      * rewrite fl_set_other in Hi; auto. rewrite Hfl1 in Hi. apply (pn_nonempty _ _ I) in Hi.
        apply in_ids in Hi. destruct Hi as [k Hi]. apply in_ids. exists k.
        eapply Permutation_in; [symmetry; apply heap_push_perm|]. right; auto.
  - split; auto. intros P. exfalso. apply P. eapply lookup_none; eauto. apply (pn_ok _ _ I).
Qed.

Lemma paint_init_one_c2 t g q :
  In t others -> PInit g q ->
  PInit (fst (paint_init_one o set_c2 t (g, q))) (snd (paint_init_one o set_c2 t (g, q))) /\
  (present o t -> f_c2 (fl (fst (paint_init_one o set_c2 t (g, q))) t) = true) /\
  (forall j, f_c1 (fl g j) = true -> f_c1 (fl (fst (paint_init_one o set_c2 t (g, q))) j) = true) /\
  (forall j, f_c2 (fl g j) = true -> f_c2 (fl (fst (paint_init_one o set_c2 t (g, q))) j) = true).
Proof.
  intros Ht I. unfold paint_init_one. cbn [fst snd].
  destruct (g_lookup_or_insert o g t) as [[[g1 c] f]|] eqn:L.
  - destruct (lookup_some _ _ _ _ _ _ (pn_ok _ _ I) L) as [Ho [Hf [Hg1 [Hok1 [Hfl1 [Hd1 Hd1']]]]]].
    assert (Hdp : in_dom g1 t) by (unfold in_dom; congruence).
    cbn [fst snd]. split; [|split; [intros _; rewrite fl_set_same; auto|split]].
    + constructor.
      * apply ok_set; auto.
      * intros i. destruct (eqb_spec t i) as [<-|Ne].
        -- rewrite fl_set_same; auto. cbn. rewrite Hf. apply (pn_c1 _ _ I).
        -- rewrite fl_set_other; auto. rewrite Hfl1. apply (pn_c1 _ _ I).
      * intros i. destruct (eqb_spec t i) as [<-|Ne].
        -- intros _. split; auto. unfold present; congruence.
        -- rewrite fl_set_other; auto. rewrite Hfl1. apply (pn_c2 _ _ I).
      * intros i. destruct (eqb_spec t i) as [<-|Ne].
        -- rewrite fl_set_same; auto. cbn. rewrite Hf. apply (pn_stale _ _ I).
        -- rewrite fl_set_other; auto. rewrite Hfl1. apply (pn_stale _ _ I).
      * intros i. destruct (eqb_spec t i) as [<-|Ne].
        -- rewrite fl_set_same; auto. cbn. rewrite Hf. apply (pn_res _ _ I).
        -- rewrite fl_set_other; auto. rewrite Hfl1. apply (pn_res _ _ I).
      * intros k i Hi. eapply Permutation_in in Hi; [|apply heap_push_perm]. destruct Hi as [X|X].
        -- inversion X; subst. split; [apply dom_set; auto | exists c; auto].
        -- destruct (pn_q _ _ I k i X) as [Q1 Q2]. split; auto. apply dom_set. auto.
      * intros i Hi. destruct (eqb_spec t i) as [<-|Ne].
        -- apply in_ids. exists (key_of c). eapply Permutation_in; [symmetry; apply heap_push_perm|]. left; auto.
        -- rewrite fl_set_other in Hi; auto. rewrite Hfl1 in Hi. apply (pn_nonempty _ _ I) in Hi.
           apply in_ids in Hi. destruct Hi as [k Hi]. apply in_ids. exists k.
           eapply Permutation_in; [symmetry; apply heap_push_perm|]. right; auto.
    + intros j. destruct (eqb_spec t j) as [<-|Ne].
      * rewrite fl_set_same; auto. cbn. rewrite Hf. auto.
      * rewrite fl_set_other; auto. rewrite Hfl1. auto.
    + intros j. destruct (eqb_spec t j) as [<-|Ne].
      * rewrite fl_set_same; auto.
      * rewrite fl_set_other; auto. rewrite Hfl1. auto.
  - split; [auto|split; [|split; auto]]. intros P. exfalso. apply P. eapply lookup_none; eauto. apply (pn_ok _ _ I).
Qed.

Lemma paint_init_others : forall ts gq,
  (forall t, In t ts -> In t others) -> PInit (fst gq) (snd gq) ->
  let gq' := fold_left (fun gq i => paint_init_one o set_c2 i gq) ts gq in
  PInit (fst gq') (snd gq') /\
  (forall t, In t ts -> present o t -> f_c2 (fl (fst gq') t) = true) /\
  (forall j, f_c1 (fl (fst gq) j) = true -> f_c1 (fl (fst gq') j) = true) /\
  (forall j, f_c2 (fl (fst gq) j) = true -> f_c2 (fl (fst gq') j) = true).
Proof.
  induction ts as [|t ts IH]; intros [g q] Hsub I; cbn [fold_left fst snd] in *.
  - split; [exact I|split; [intros t []|split; auto]].
  - destruct (paint_init_one_c2 t g q (Hsub t (or_introl eq_refl)) I) as [I1 [A [B C]]].
    specialize (IH (paint_init_one o set_c2 t (g, q)) (fun t' H => Hsub t' (or_intror H)) I1).
    cbn zeta in IH. destruct IH as [I2 [A2 [B2 C2]]].
    split; [auto|split; [|split]].
    + intros t' [<-|Ht'] P; auto.
    + intros j Hj. apply B2, B, Hj.
    + intros j Hj. apply C2, C, Hj.
Qed.

Lemma paint_init_inv g :
  graph_ok o g -> (forall i, fl g i = f_empty) -> PInv (paint_init o g first others).
Proof.
  intros Hok Hemp. unfold paint_init.
  assert (I0 : PInit g []).
  { constructor; auto.
    - intros i; rewrite Hemp; cbn; congruence.
    - intros i; rewrite Hemp; cbn; congruence.
    - intros i; rewrite Hemp; reflexivity.
    - intros i; rewrite Hemp; reflexivity.
    - intros k i [].
    - intros i X. exfalso. apply X, Hemp. }
  destruct (paint_init_one_c1 g [] I0) as [I1 F1].
  set (gq1 := paint_init_one o set_c1 first (g, [])) in *.
  destruct (paint_init_others others gq1 (fun t H => H) I1) as [I2 [A2 [B2 C2]]].
  cbn zeta in *.
  set (gq2 := fold_left (fun gq i => paint_init_one o set_c2 i gq) others gq1) in *.
  constructor; cbn [p_g p_q p_out].
  - apply (pn_ok _ _ I2).
  - intros i Hi. destruct (pn_c1 _ _ I2 i Hi) as [-> P]. apply reach_refl; auto.
  - intros i Hi. destruct (pn_c2 _ _ I2 i Hi) as [T P]. exists i. split; auto. apply reach_refl; auto.
  - intros i Hi. rewrite (pn_stale _ _ I2) in Hi. discriminate.
  - intros i k [].
  - intros i Hi. rewrite (pn_res _ _ I2) in Hi. discriminate.
  - apply (pn_q _ _ I2).
  - intros i c Hc Hnq.
    assert (E : fl (fst gq2) i = f_empty).
    { destruct (fl (fst gq2) i) as [a b c0 d] eqn:F.
      destruct a, b, c0, d; try reflexivity; exfalso; apply Hnq; apply (pn_nonempty _ _ I2);
        rewrite F; discriminate. }
    rewrite E. split; [|cbn; discriminate].
    intros p _ _. cbn. destruct (fl (fst gq2) p) as [[] [] [] []]; reflexivity.
  - constructor.
  - intros i [].
  - intros P. apply B2. apply F1; auto.
  - intros t Ht P. apply A2; auto.
Qed.

Theorem paint_sound fuel g g' bases :
  graph_ok o g -> (forall i, fl g i = f_empty) ->
  paint_down_to_common fuel o g first others = Ok (g', bases) ->
  graph_ok o g' /\ NoDup (map fst bases) /\
  forall i k, In (i, k) bases ->
    CA i /\ in_dom g' i /\ exists c, odb_find o i = Some c /\ k = key_of c.
Proof.
  intros Hok Hemp. unfold paint_down_to_common.
  destruct (paint_loop fuel o (paint_init o g first others)) as [s| | |] eqn:L; try discriminate.
  intros X; inversion X; subst; clear X.
  destruct (paint_loop_inv _ _ _ (paint_init_inv g Hok Hemp) L) as [I _].
  split; [apply (pi_ok _ _ _ _ I)|]. split.
  - rewrite map_rev. apply NoDup_rev. apply (pi_nodup _ _ _ _ I).
  - intros i k Hi. apply in_rev in Hi. destruct (pi_out _ _ _ _ I i k Hi) as [A B].
    split; auto. split; auto. apply (pi_out_dom _ _ _ _ I). apply in_map_iff. exists (i, k); auto.
Qed.

Theorem paint_complete fuel g g' bases x :
  graph_ok o g -> (forall i, fl g i = f_empty) ->
  paint_down_to_common fuel o g first others = Ok (g', bases) ->
  is_merge_base o first others x -> In x (map fst bases).
Proof.
  intros Hok Hemp. unfold paint_down_to_common.
  destruct (paint_loop fuel o (paint_init o g first others)) as [s| | |] eqn:L; try discriminate.
  intros X; inversion X; subst; clear X.
  destruct (paint_loop_inv _ _ _ (paint_init_inv g Hok Hemp) L) as [I St].
  intros M. rewrite map_rev. apply -> in_rev. eapply paint_exit; eauto.
Qed.
End Paint2.

Section Paint3.
Variable o : odb.
Variable first : id.
Variable others : list id.
Notation CA := (common_ancestor o first others).
Notation PInv := (PInv o first others).

(* at the end of the loop a common ancestor is in the output or properly below another common ancestor *)
Lemma paint_exit_up s z :
  PInv s -> paint_step o s = None -> CA z ->
  In z (map fst (p_out s)) \/ exists y, CA y /\ reach_plus o y z.
Proof.
  intros I St [R1 [t [Ht R2]]].
  assert (Hex : forall it, In it (p_q s) -> not_stale_in (p_g s) (snd it) = false).
  { unfold paint_step in St.
    match type of St with (if ?b then _ else _) = _ => destruct b eqn:E end; [discriminate St|].
    intros it Hit. destruct (not_stale_in (p_g s) (snd it)) eqn:N; auto.
    assert (existsb (fun it0 => not_stale_in (p_g s) (snd it0)) (p_q s) = true); [|congruence].
    apply existsb_exists. exists it; auto. }
  assert (Hq : forall a, In a (ids (p_q s)) -> exists y, CA y /\ reach_plus o y a).
  { intros a Ha. apply in_ids in Ha. destruct Ha as [k Ha].
    pose proof (Hex _ Ha) as N. cbn [snd] in N.
    destruct (pi_q _ _ _ _ I k a Ha) as [Hd _].
    apply (pi_stale _ _ _ _ I). unfold not_stale_in in N. unfold fl. unfold in_dom in Hd.
    destruct (g_get (p_g s) a) as [[c f]|]; [|contradiction].
    destruct (f_stale f); [reflexivity|discriminate]. }
  assert (Hflow : forall (bit : flags -> bool),
            (forall A B, f_contains A (eff B) = true -> bit B = true -> bit A = true) ->
            forall z' a, reach o a z' -> bit (fl (p_g s) a) = true ->
            bit (fl (p_g s) z') = true \/ exists y, CA y /\ reach_plus o y z').
  { clear R1 R2 Ht. intros bit Hbit z' a Ra. induction Ra as [a Pa | a b c0 Eab Rbc IH]; auto.
    intros Ha. destruct (in_dec eqb_spec a (ids (p_q s))) as [Q|NQ].
    - right. destruct (Hq a Q) as [y [Y1 Y2]]. exists y. split; auto.
      eapply reach_plus_trans_r; eauto. eapply reach_step; eauto.
    - apply IH. destruct Eab as [ca [Oa [Ib Pb]]].
      destruct (pi_closed _ _ _ _ I a ca Oa NQ) as [C _].
      eapply Hbit; [apply C; auto|auto]. }
  destruct (Hflow f_c1 eff_c1 z first R1) as [H1|U]; auto.
  { apply (pi_first _ _ _ _ I). eapply reach_present_l; eauto. }
  destruct (Hflow f_c2 eff_c2 z t R2) as [H2|U]; auto.
  { apply (pi_others _ _ _ _ I t Ht). eapply reach_present_l; eauto. }
  destruct (f_stale (fl (p_g s) z)) eqn:H3.
  { right. apply (pi_stale _ _ _ _ I). auto. }
  destruct (in_dec eqb_spec z (ids (p_q s))) as [Q|NQ].
  { right. apply Hq; auto. }
  assert (Pz : present o z) by (eapply reach_present_r; eauto).
  destruct (odb_find o z) as [cz|] eqn:Oz; [|exfalso; apply Pz; auto].
  destruct (pi_closed _ _ _ _ I z cz Oz NQ) as [_ C].
  left. apply (pi_res _ _ _ _ I). apply C. unfold is_base. rewrite H1, H2, H3. reflexivity.
Qed.

Lemma odb_find_in i : present o i -> In i (map fst o).
Proof.
  unfold present. induction o as [|[j c] o' IH]; cbn [odb_find map fst]; [congruence|].
  destruct (bytes_eqb j i) eqn:E.
  - apply bytes_eqb_eq in E. left; auto.
  - intros H. right. apply IH; auto.
Qed.

Lemma paint_exit_top s z :
  acyclic o -> PInv s -> paint_step o s = None -> CA z ->
  exists m, In m (map fst (p_out s)) /\ reach o m z.
Proof.
  intros Hac I St Hz.
  assert (Aux : forall n l top, (n + length (top :: l) = S (length (map fst o)))%nat ->
            NoDup (top :: l) -> (forall a, In a (top :: l) -> present o a) ->
            (forall a, In a l -> reach_plus o top a) -> CA top -> reach o top z ->
            exists m, In m (map fst (p_out s)) /\ reach o m z).
  { induction n as [|n IH]; intros l top Hlen Hnd Hpres Habove Ctop Rtop.
    - assert (Hincl : incl (top :: l) (map fst o)) by (intros a Ha; apply odb_find_in; auto).
      pose proof (NoDup_incl_length Hnd Hincl). lia.
    - destruct (paint_exit_up s top I St Ctop) as [Hin|[y [Y1 Y2]]]; [exists top; auto|].
      apply (IH (top :: l) y).
      + cbn [length] in *. lia.
      + constructor; auto. intros [E|Hin].
        * subst y. apply (Hac _ Y2).
        * apply (Hac top). eapply reach_plus_trans_r; [apply Habove; exact Hin|]. apply plus_reach; auto.
      + intros a [<-|Ha]; auto. destruct Y1 as [R _]. eapply reach_present_r; eauto.
      + intros a [<-|Ha]; auto. eapply reach_plus_trans_r; [exact Y2|]. apply plus_reach; auto.
      + exact Y1.
      + eapply reach_trans; [apply plus_reach; exact Y2|exact Rtop]. }
  apply (Aux (length (map fst o)) [] z); auto.
  - cbn [length]. lia.
  - constructor; [intros []|constructor].
  - intros a [<-|[]]. destruct Hz as [R _]. eapply reach_present_r; eauto.
  - intros a [].
  - apply reach_refl. destruct Hz as [R _]. eapply reach_present_r; eauto.
Qed.

Theorem paint_tops fuel g g' bases z :
  acyclic o -> graph_ok o g -> (forall i, fl g i = f_empty) ->
  paint_down_to_common fuel o g first others = Ok (g', bases) ->
  CA z -> exists m, In m (map fst bases) /\ reach o m z.
Proof.
  intros Hac Hok Hemp. unfold paint_down_to_common.
  destruct (paint_loop fuel o (paint_init o g first others)) as [s| | |] eqn:L; try discriminate.
  intros X; inversion X; subst; clear X.
  destruct (paint_loop_inv _ _ _ _ _ _ (paint_init_inv o first others g Hok Hemp) L) as [I St].
  intros Hz. destruct (paint_exit_top s z Hac I St Hz) as [m [M1 M2]].
  exists m. split; auto. rewrite map_rev. apply -> in_rev. auto.
Qed.
End Paint3.

(* the first phase never panics: the queue is non-empty when popped and everything queued is in the graph *)
Lemma paint_step_no_panic o first others s :
  PInv o first others s -> paint_step o s <> Some Panic.
Proof.
  intros I. unfold paint_step.
  match goal with |- (if ?b then _ else _) <> _ => destruct b eqn:E end; [|discriminate].
  destruct (heap_pop (p_q s)) as [[[info cid] q1]|] eqn:Pop.
  - assert (Hin : In (info, cid) (p_q s)).
    { eapply Permutation_in; [symmetry; apply heap_pop_perm; eauto|]. left; auto. }
    destruct (pi_q _ _ _ _ I info cid Hin) as [Hd _]. unfold in_dom in Hd.
    destruct (g_get (p_g s) cid) as [[c d]|]; [|contradiction].
    match goal with |- context [let '(g1, out1) := ?x in _] => destruct x as [g1 out1] end.
    destruct (paint_parents _ _ _ _ _). discriminate.
  - apply heap_pop_none in Pop. rewrite Pop in E. cbn in E. discriminate.
Qed.

Theorem paint_no_panic o first others fuel g :
  graph_ok o g -> (forall i, fl g i = f_empty) ->
  paint_down_to_common fuel o g first others <> Panic.
Proof.
  intros Hok Hemp. unfold paint_down_to_common.
  assert (H : forall fuel s, PInv o first others s -> paint_loop fuel o s <> Panic).
  { induction fuel0 as [|f IH]; intros s I; cbn [paint_loop]; [discriminate|].
    destruct (paint_step o s) as [[s1|e| |]|] eqn:St; try discriminate.
    - apply IH. eapply paint_step_inv; eauto.
    - exfalso. eapply paint_step_no_panic; eauto. }
  specialize (H fuel _ (paint_init_inv o first others g Hok Hemp)).
  destruct (paint_loop fuel o (paint_init o g first others)); try discriminate. congruence.
Qed.
