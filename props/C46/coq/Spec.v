(* C46 — specification: the merge bases of [first] and [others] are the maximal elements of the set of
   common ancestors (what `git merge-base --all first others…` prints).  A declarative version (for
   the theorems) and an executable one (compared with real git by the check, mode "spec"). *)
From GixV.Base Require Import Bytes Outcome.
From GixV.C46 Require Import Model.

(* a -> b: b is a parent of a and both objects exist *)
Definition edge (o : odb) (a b : id) : Prop :=
  exists c, odb_find o a = Some c /\ In b (c_parents c) /\ odb_find o b <> None.

(* reflexive-transitive closure over existing commits *)
Inductive reach (o : odb) : id -> id -> Prop :=
| reach_refl a : odb_find o a <> None -> reach o a a
| reach_step a b c : edge o a b -> reach o b c -> reach o a c.

(* proper ancestor *)
Definition reach_plus (o : odb) (a c : id) : Prop := exists b, edge o a b /\ reach o b c.

Definition common_ancestor (o : odb) (first : id) (others : list id) (x : id) : Prop :=
  reach o first x /\ exists t, In t others /\ reach o t x.

Definition is_merge_base (o : odb) (first : id) (others : list id) (x : id) : Prop :=
  common_ancestor o first others x /\
  forall y, common_ancestor o first others y -> ~ reach_plus o y x.

(* histories are acyclic (a commit's id is a hash over its parents' ids) *)
Definition acyclic (o : odb) : Prop := forall a, ~ reach_plus o a a.

(* generation numbers as a commit-graph provides them: the graph is closed under parents and a parent
   has a smaller generation than its child *)
Definition gen_of (o : odb) (i : id) : N :=
  match odb_find o i with Some c => fst (key_of c) | None => GENERATION_NUMBER_INFINITY end.
Definition gens_valid (o : odb) : Prop :=
  forall a b, edge o a b -> (gen_of o b <= gen_of o a)%N.

(* ---- executable ---- *)
Fixpoint mem_id (i : id) (l : list id) : bool :=
  match l with [] => false | j :: l' => bytes_eqb j i || mem_id i l' end.

Fixpoint reach_set (fuel : nat) (o : odb) (todo seen : list id) : list id :=
  match fuel with
  | O => seen
  | S fuel' =>
      match todo with
      | [] => seen
      | i :: t =>
          if mem_id i seen then reach_set fuel' o t seen
          else match odb_find o i with
               | None => reach_set fuel' o t seen
               | Some c => reach_set fuel' o (c_parents c ++ t) (i :: seen)
               end
      end
  end.

Definition spec_fuel (o : odb) (extra : nat) : nat :=
  S (extra + fold_left (fun a e => a + S (length (c_parents (snd e))))%nat o O).

Definition reachable_from (o : odb) (starts : list id) : list id :=
  reach_set (spec_fuel o (length starts)) o starts [].

Definition spec_merge_bases (o : odb) (first : id) (others : list id) : list id :=
  match others with
  | [] => [first]
  | _ =>
      if mem_id first others then [first] else
      let r1 := reachable_from o [first] in
      let r2 := reachable_from o others in
      let ca := filter (fun x => mem_id x r2) r1 in
      let above x := filter (fun y => negb (bytes_eqb y x) && mem_id x (reachable_from o [y])) ca in
      filter (fun x => match above x with [] => true | _ => false end) ca
  end.
