(* C46 — basic facts: the flag map, lookups, reachability, the heap as a multiset. *)
From Coq Require Import Lia Permutation.
From GixV.Base Require Import Bytes BytesFacts Outcome.
From GixV.C46 Require Import Model Spec.

Lemma eqb_refl (i : id) : bytes_eqb i i = true.
Proof. apply bytes_eqb_eq; reflexivity. Qed.
Lemma eqb_neq (i j : id) : i <> j -> bytes_eqb i j = false.
Proof. intros H. destruct (bytes_eqb i j) eqn:E; auto. apply bytes_eqb_eq in E. contradiction. Qed.
Lemma eqb_spec (i j : id) : {i = j} + {i <> j}.
Proof. destruct (bytes_eqb i j) eqn:E; [left; apply bytes_eqb_eq; auto | right; intros ->; rewrite eqb_refl in E; discriminate]. Qed.

(* ---- flags ---- *)
Definition fl (g : graph) (i : id) : flags :=
  match g_get g i with Some (_, f) => f | None => f_empty end.
Definition in_dom (g : graph) (i : id) : Prop := g_get g i <> None.
Definition graph_ok (o : odb) (g : graph) : Prop :=
  forall i c f, g_get g i = Some (c, f) -> odb_find o i = Some c.
Definition present (o : odb) (i : id) : Prop := odb_find o i <> None.

Lemma g_get_set g i f j :
  g_get (g_set g i f) j =
  if bytes_eqb i j then match g_get g i with Some (c, _) => Some (c, f) | None => None end
  else g_get g j.
Proof.
  induction g as [|[k [c f0]] g IH]; cbn [g_set g_get].
  - destruct (bytes_eqb i j); reflexivity.
  - destruct (bytes_eqb k i) eqn:Eki.
    + apply bytes_eqb_eq in Eki; subst k. cbn [g_get]. destruct (bytes_eqb i j); reflexivity.
    + cbn [g_get]. destruct (bytes_eqb k j) eqn:Ekj.
      * apply bytes_eqb_eq in Ekj; subst k. rewrite eqb_neq; auto.
        intros ->. rewrite eqb_refl in Eki; discriminate.
      * exact IH.
Qed.

Lemma fl_set_same g i f : in_dom g i -> fl (g_set g i f) i = f.
Proof.
  unfold fl, in_dom. rewrite g_get_set, eqb_refl. destruct (g_get g i) as [[c f0]|]; [reflexivity | contradiction].
Qed.
Lemma fl_set_other g i f j : i <> j -> fl (g_set g i f) j = fl g j.
Proof. intros H. unfold fl. rewrite g_get_set, eqb_neq; auto. Qed.
Lemma dom_set g i f j : in_dom (g_set g i f) j <-> in_dom g j.
Proof.
  unfold in_dom. rewrite g_get_set. destruct (bytes_eqb i j) eqn:E.
  - apply bytes_eqb_eq in E; subst j. destruct (g_get g i) as [[c f0]|]; split; congruence.
  - tauto.
Qed.
Lemma ok_set o g i f : graph_ok o g -> graph_ok o (g_set g i f).
Proof.
  intros H j c f'. rewrite g_get_set. destruct (bytes_eqb i j) eqn:E.
  - apply bytes_eqb_eq in E; subst j. destruct (g_get g i) as [[c0 f0]|] eqn:G; [|discriminate].
    intros X; inversion X; subst. eapply H; eauto.
  - apply H.
Qed.

Lemma g_get_clear g i :
  g_get (g_clear g) i = match g_get g i with Some (c, _) => Some (c, f_empty) | None => None end.
Proof.
  induction g as [|[k [c f0]] g IH]; cbn [g_clear map g_get fst snd]; auto.
  destruct (bytes_eqb k i); auto.
Qed.
Lemma fl_clear g i : fl (g_clear g) i = f_empty.
Proof. unfold fl. rewrite g_get_clear. destruct (g_get g i) as [[c f]|]; reflexivity. Qed.
Lemma dom_clear g i : in_dom (g_clear g) i <-> in_dom g i.
Proof. unfold in_dom. rewrite g_get_clear. destruct (g_get g i) as [[c f]|]; split; congruence. Qed.
Lemma ok_clear o g : graph_ok o g -> graph_ok o (g_clear g).
Proof.
  intros H i c f. rewrite g_get_clear. destruct (g_get g i) as [[c0 f0]|] eqn:G; [|discriminate].
  intros X; inversion X; subst. eapply H; eauto.
Qed.

(* get_or_insert_full_commit *)
Lemma lookup_some o g i g1 c f :
  graph_ok o g -> g_lookup_or_insert o g i = Some (g1, c, f) ->
  odb_find o i = Some c /\ f = fl g i /\ g_get g1 i = Some (c, f) /\ graph_ok o g1 /\
  (forall j, fl g1 j = fl g j) /\ (forall j, in_dom g j -> in_dom g1 j) /\
  (forall j, in_dom g1 j -> in_dom g j \/ j = i).
Proof.
  intros Hok. unfold g_lookup_or_insert, fl, in_dom.
  destruct (g_get g i) as [[c0 f0]|] eqn:G.
  - intros X; inversion X; subst. rewrite G. repeat split; auto. eapply Hok; eauto.
  - destruct (odb_find o i) as [c0|] eqn:O; [|discriminate].
    intros X; inversion X; subst. cbn [g_get]. rewrite eqb_refl. repeat split; auto.
    + intros j c' f'. cbn [g_get]. destruct (bytes_eqb i j) eqn:E.
      * apply bytes_eqb_eq in E; subst j. intros Y; inversion Y; subst; auto.
      * apply Hok.
    + intros j. destruct (bytes_eqb i j) eqn:E; auto.
      apply bytes_eqb_eq in E; subst j. rewrite G. reflexivity.
    + intros j. destruct (bytes_eqb i j) eqn:E; auto. congruence.
    + intros j. destruct (bytes_eqb i j) eqn:E; auto.
      apply bytes_eqb_eq in E; auto.
Qed.
Lemma lookup_none o g i :
  graph_ok o g -> g_lookup_or_insert o g i = None -> odb_find o i = None.
Proof.
  intros Hok. unfold g_lookup_or_insert.
  destruct (g_get g i) as [[c0 f0]|] eqn:G; [discriminate|].
  destruct (odb_find o i); [discriminate|auto].
Qed.

(* ---- flag algebra ---- *)
Lemma f_contains_or a b : f_contains (f_or a b) b = true.
Proof. destruct a as [[] [] [] []], b as [[] [] [] []]; reflexivity. Qed.
Lemma f_contains_trans a b c : f_contains a b = true -> f_contains b c = true -> f_contains a c = true.
Proof. destruct a as [[] [] [] []], b as [[] [] [] []], c as [[] [] [] []]; cbn; auto. Qed.
Lemma f_contains_or_l a b : f_contains (f_or a b) a = true.
Proof. destruct a as [[] [] [] []], b as [[] [] [] []]; reflexivity. Qed.
Lemma f_contains_refl a : f_contains a a = true.
Proof. destruct a as [[] [] [] []]; reflexivity. Qed.
Lemma f_or_absorb a b : f_contains a b = true -> f_or a b = a.
Proof. destruct a as [[] [] [] []], b as [[] [] [] []]; cbn; auto; discriminate. Qed.

(* ---- reachability ---- *)
Lemma reach_present_r o a b : reach o a b -> present o b.
Proof. induction 1; auto. Qed.
Lemma reach_present_l o a b : reach o a b -> present o a.
Proof. destruct 1 as [|a b c [c0 [H _]] _]; auto. unfold present; congruence. Qed.
Lemma reach_trans o a b c : reach o a b -> reach o b c -> reach o a c.
Proof. induction 1; intros; auto. eapply reach_step; eauto. Qed.
Lemma edge_reach o a b : edge o a b -> reach o a b.
Proof. intros H. eapply reach_step; eauto. apply reach_refl. destruct H as [c [_ [_ H]]]; auto. Qed.
Lemma reach_edge_r o a b c : reach o a b -> edge o b c -> reach o a c.
Proof. intros H E. eapply reach_trans; eauto. apply edge_reach; auto. Qed.
Lemma plus_reach o a c : reach_plus o a c -> reach o a c.
Proof. intros [b [E R]]. eapply reach_step; eauto. Qed.
Lemma reach_plus_trans_l o a b c : reach o a b -> reach_plus o b c -> reach_plus o a c.
Proof.
  induction 1; auto. intros P. exists b. split; auto. apply plus_reach. auto.
Qed.
Lemma reach_plus_trans_r o a b c : reach_plus o a b -> reach o b c -> reach_plus o a c.
Proof. intros [x [E R]] R2. exists x. split; auto. eapply reach_trans; eauto. Qed.
Lemma reach_plus_edge_r o a b c : reach o a b -> edge o b c -> reach_plus o a c.
Proof.
  intros R E. eapply reach_plus_trans_l; eauto. exists c. split; auto. apply reach_refl.
  destruct E as [c0 [_ [_ H]]]; auto.
Qed.
Lemma reach_inv o a c : reach o a c -> a = c \/ reach_plus o a c.
Proof. destruct 1; [left; auto | right; exists b; auto]. Qed.

(* ---- the heap is a permutation of what was pushed ---- *)
Lemma set_nth_length {A} (l : list A) n x : length (set_nth l n x) = length l.
Proof. revert n; induction l; destruct n; cbn; auto. Qed.

Lemma swap_perm (l : heap) i j : (i < length l)%nat -> (j < length l)%nat -> Permutation (swap l i j) l.
Proof.
  revert i j. induction l as [|a l IH]; intros i j Hi Hj; [cbn in Hi; lia|].
  unfold swap. destruct i as [|i], j as [|j]; cbn [nth set_nth].
  - reflexivity.
  - cbn in Hj. assert (Hj' : (j < length l)%nat) by lia. clear Hi Hj IH.
    revert j Hj'. induction l as [|b l IH]; intros j Hj; [cbn in Hj; lia|].
    destruct j; cbn [nth set_nth].
    + apply perm_swap.
    + cbn in Hj. assert (Hj' : (j < length l)%nat) by lia. specialize (IH j Hj').
      (* nth j l :: b :: set_nth l j a   ~   a :: b :: l *)
      eapply perm_trans; [apply perm_swap|]. eapply perm_trans; [|apply perm_swap].
      apply perm_skip. exact IH.
  - cbn in Hi. assert (Hi' : (i < length l)%nat) by lia. clear Hi Hj IH.
    revert i Hi'. induction l as [|b l IH]; intros i Hi; [cbn in Hi; lia|].
    destruct i; cbn [nth set_nth].
    + apply perm_swap.
    + cbn in Hi. assert (Hi' : (i < length l)%nat) by lia. specialize (IH i Hi').
      eapply perm_trans; [apply perm_swap|]. eapply perm_trans; [|apply perm_swap].
      apply perm_skip. exact IH.
  - cbn in Hi, Hj. apply perm_skip. apply (IH i j); lia.
Qed.
Lemma swap_length (l : heap) i j : length (swap l i j) = length l.
Proof. unfold swap. rewrite !set_nth_length. reflexivity. Qed.

Lemma sift_up_perm fuel : forall l pos, (pos < length l)%nat -> Permutation (sift_up fuel l pos) l.
Proof.
  induction fuel as [|fuel IH]; intros l pos Hp; cbn [sift_up]; [reflexivity|].
  destruct pos as [|pos]; [reflexivity|].
  destruct (key_le _ _); [reflexivity|].
  assert (Hd : (Nat.div (S pos - 1) 2 < length l)%nat).
  { pose proof (Nat.div_le_upper_bound (S pos - 1) 2 (S pos - 1)). 
    assert (Nat.div (S pos - 1) 2 <= S pos - 1)%nat by (apply Nat.div_le_upper_bound; lia). lia. }
  eapply perm_trans; [apply IH; rewrite swap_length; exact Hd|].
  apply swap_perm; auto.
Qed.

Lemma heap_push_perm l x : Permutation (heap_push l x) (x :: l).
Proof.
  unfold heap_push. eapply perm_trans; [apply sift_up_perm; rewrite app_length; cbn; lia|].
  eapply perm_trans; [apply Permutation_app_comm|]. reflexivity.
Qed.

Lemma sdb_perm fuel : forall l pos en, en = length l -> (pos < en)%nat ->
  Permutation (fst (sift_down_to_bottom fuel l pos en)) l /\
  (snd (sift_down_to_bottom fuel l pos en) < en)%nat /\
  length (fst (sift_down_to_bottom fuel l pos en)) = length l.
Proof.
  induction fuel as [|fuel IH]; intros l pos en He Hp; cbn [sift_down_to_bottom]; [cbn; auto|].
  destruct (Nat.leb (2 * pos + 1) (en - 2) && Nat.leb 2 en) eqn:E1.
  - apply andb_prop in E1. destruct E1 as [E1 E2]. apply Nat.leb_le in E1, E2.
    set (ch := if key_le _ _ then (2 * pos + 1 + 1)%nat else (2 * pos + 1)%nat).
    assert (Hch : (ch < en)%nat) by (unfold ch; destruct (key_le _ _); lia).
    destruct (IH (swap l pos ch) ch en) as [P [S L]]; [rewrite swap_length; auto | auto |].
    split; [|split]; auto.
    + eapply perm_trans; [exact P|]. apply swap_perm; lia.
    + rewrite L. apply swap_length.
  - destruct (Nat.eqb (2 * pos + 1) (en - 1) && Nat.leb 1 en) eqn:E2; cbn [fst snd].
    + apply andb_prop in E2. destruct E2 as [E2 E3]. apply Nat.eqb_eq in E2. apply Nat.leb_le in E3.
      split; [|split]; [apply swap_perm; lia | lia | apply swap_length].
    + auto.
Qed.

Lemma removelast_rev {A} (l : list A) x r : rev l = x :: r -> l = rev r ++ [x] /\ removelast l = rev r.
Proof.
  intros H. assert (E : l = rev r ++ [x]).
  { rewrite <- (rev_involutive l), H. reflexivity. }
  split; auto. rewrite E. apply removelast_last.
Qed.

Lemma heap_pop_perm l x l' : heap_pop l = Some (x, l') -> Permutation l (x :: l').
Proof.
  unfold heap_pop. destruct (rev l) as [|last r] eqn:R; [discriminate|].
  destruct (removelast_rev l last r R) as [El Er]. rewrite Er.
  destruct (rev r) as [|top rest] eqn:RR.
  - intros X; inversion X; subst. cbn. reflexivity.
  - destruct (sift_down_to_bottom _ _ _ _) as [l2 pos] eqn:S.
    intros X; inversion X; subst x l'. clear X.
    pose proof (sdb_perm (length (last :: rest)) (last :: rest) 0 (length (last :: rest)) eq_refl) as H.
    rewrite S in H. cbn [fst snd] in H. destruct H as [P [Hpos L]]; [cbn; lia|].
    rewrite El. eapply perm_trans; [apply Permutation_app_comm|]. cbn [app].
    eapply perm_trans; [apply perm_swap|]. apply perm_skip.
    eapply perm_trans; [|symmetry; apply sift_up_perm; rewrite L; exact Hpos].
    symmetry. exact P.
Qed.

Lemma heap_pop_none l : heap_pop l = None -> l = [].
Proof.
  unfold heap_pop. destruct (rev l) as [|last r] eqn:R.
  - intros _. rewrite <- (rev_involutive l), R. reflexivity.
  - destruct (removelast l); [discriminate|]. destruct (sift_down_to_bottom _ _ _ _). discriminate.
Qed.
