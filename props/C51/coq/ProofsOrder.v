(* C51 — proofs about the InOrderIter model (Model.v part 1) and the EagerIter chunking (part 4). *)
From Coq Require Import List Arith Bool NArith Lia Permutation.
Import ListNotations.
From GixV.Base Require Import Bytes Outcome.
From GixV.C51 Require Import Model.

Definition keys (st : list (nat * N)) : list nat := map fst st.

(* ---- the store -------------------------------------------------------------------------- *)
Lemma st_remove_some k st : forall v st', st_remove k st = (Some v, st') -> Permutation st ((k, v) :: st').
Proof.
  induction st as [|[k' v'] r IH]; intros v st' H; cbn [st_remove] in H.
  - discriminate.
  - destruct (Nat.eqb k k') eqn:E.
    + apply Nat.eqb_eq in E. subst k'. injection H as <- <-. apply Permutation_refl.
    + destruct (st_remove k r) as [o r'] eqn:R. injection H as -> <-.
      specialize (IH v r' eq_refl).
      eapply perm_trans. apply perm_skip. exact IH. apply perm_swap.
Qed.

Lemma st_remove_none k st : forall st', st_remove k st = (None, st') -> st' = st /\ ~ In k (keys st).
Proof.
  induction st as [|[k' v'] r IH]; intros st' H; cbn [st_remove] in H.
  - injection H as <-. split; [reflexivity | intros []].
  - destruct (Nat.eqb k k') eqn:E; [discriminate|].
    destruct (st_remove k r) as [o r'] eqn:R. injection H as -> <-.
    destruct (IH r' eq_refl) as [-> Hn]. split; [reflexivity|].
    cbn. intros [H|H]; [apply Nat.eqb_neq in E; congruence | exact (Hn H)].
Qed.

Lemma st_remove_length_some k st v st' : st_remove k st = (Some v, st') -> length st = S (length st').
Proof. intros H. apply st_remove_some in H. apply Permutation_length in H. exact H. Qed.

Lemma keys_perm a b : Permutation a b -> Permutation (keys a) (keys b).
Proof. apply Permutation_map. Qed.

(* ---- 1. every arrival order of a complete sequence comes out in order -------------------- *)
Section Perm.
  Variable n : nat.
  Variable val : nat -> N.
  Definition mk (i : nat) : arrival := AOk i (val i).
  Definition yk (i : nat) : yield := YOk i (val i).

  Definition PInv (st : list (nat * N)) (nx : nat) (l : list nat) : Prop :=
    Permutation (keys st ++ l) (seq nx (n - nx)) /\ nx <= n /\ forall k v, In (k, v) st -> v = val k.

  Lemma seq_split_first nx : nx < n -> seq nx (n - nx) = nx :: seq (S nx) (n - S nx).
  Proof. intros H. replace (n - nx) with (S (n - S nx)) by lia. reflexivity. Qed.

  Lemma PInv_remove st nx l v st' :
    PInv st nx l -> st_remove nx st = (Some v, st') -> v = val nx /\ nx < n /\ PInv st' (S nx) l.
  Proof.
    intros (HP & Hle & Hv) HR.
    pose proof (st_remove_some _ _ _ _ HR) as Hp.
    assert (Hin : In (nx, v) st) by (eapply Permutation_in; [apply Permutation_sym; exact Hp | left; reflexivity]).
    assert (Hlt : nx < n).
    { assert (In nx (seq nx (n - nx))).
      { eapply Permutation_in; [exact HP|]. apply in_or_app. left. apply in_map_iff. exists (nx, v). auto. }
      apply in_seq in H. lia. }
    split; [apply Hv; exact Hin|]. split; [exact Hlt|].
    split; [|split; [lia|]].
    - rewrite (seq_split_first nx Hlt) in HP.
      apply keys_perm in Hp. cbn in Hp.
      apply Permutation_cons_inv with (a := nx).
      eapply perm_trans; [|exact HP].
      change (nx :: keys st' ++ l) with ((nx :: keys st') ++ l).
      apply Permutation_app_tail. apply Permutation_sym. exact Hp.
    - intros k v' Hk. apply Hv. eapply Permutation_in; [apply Permutation_sym; exact Hp|]. right. exact Hk.
  Qed.

  Lemma PInv_nodup st nx l : PInv st nx l -> NoDup (keys st ++ l).
  Proof. intros (HP & _). eapply Permutation_NoDup; [apply Permutation_sym; exact HP | apply seq_NoDup]. Qed.

  Lemma next_loop_perm : forall l st nx, PInv st nx l ->
    (nx = n /\ st = [] /\ l = [] /\ next_loop st nx (map mk l) = NNone (mk_ios [] n false) [])
    \/ (nx < n /\ exists st' l', next_loop st nx (map mk l) = NYield (yk nx) (mk_ios st' (S nx) false) (map mk l')
                                  /\ PInv st' (S nx) l').
  Proof.
    induction l as [|c l IH]; intros st nx HI.
    - cbn [map next_loop].
      destruct (st_remove nx st) as [[v|] st'] eqn:R.
      + right. destruct (PInv_remove _ _ _ _ _ HI R) as (-> & Hlt & HI').
        split; [exact Hlt|]. exists st', []. split; [reflexivity | exact HI'].
      + apply st_remove_none in R. destruct R as [-> Hnot].
        destruct HI as (HP & Hle & Hv). rewrite app_nil_r in HP.
        destruct (Nat.eq_dec nx n) as [->|Hne].
        * left. rewrite Nat.sub_diag in HP. cbn in HP. apply Permutation_sym, Permutation_nil in HP.
          destruct st; [|discriminate]. auto.
        * exfalso. apply Hnot. eapply Permutation_in; [apply Permutation_sym; exact HP|].
          apply in_seq. lia.
    - change (map mk (c :: l)) with (AOk c (val c) :: map mk l). cbn [next_loop]. unfold yk.
      pose proof (PInv_nodup _ _ _ HI) as Hnd.
      destruct HI as (HP & Hle & Hv).
      assert (Hc : nx <= c < n).
      { assert (In c (seq nx (n - nx))) by (eapply Permutation_in; [exact HP|]; apply in_or_app; right; left; reflexivity).
        apply in_seq in H. lia. }
      destruct (Nat.compare c nx) eqn:C.
      + apply Nat.compare_eq in C. subst c. right. split; [lia|]. exists st, l. split; [reflexivity|].
        split; [|split; [lia | exact Hv]].
        rewrite (seq_split_first nx) in HP by lia.
        apply Permutation_cons_inv with (a := nx).
        eapply perm_trans; [|exact HP]. apply Permutation_middle.
      + apply Nat.compare_lt_iff in C. lia.
      + apply Nat.compare_gt_iff in C.
        unfold st_insert.
        destruct (st_remove c st) as [[v0|] st0] eqn:R0.
        * exfalso. apply st_remove_some in R0.
          apply NoDup_remove_2 in Hnd. apply Hnd. apply in_or_app. left.
          apply in_map_iff. exists (c, v0). split; [reflexivity|].
          eapply Permutation_in; [apply Permutation_sym; exact R0 | left; reflexivity].
        * apply st_remove_none in R0. destruct R0 as [-> Hnot].
          assert (HI1 : PInv ((c, val c) :: st) nx l).
          { split; [|split; [exact Hle|]].
            - cbn. eapply perm_trans; [apply Permutation_middle | exact HP].
            - intros k v [E|Hk]; [injection E as <- <-; reflexivity | apply Hv; exact Hk]. }
          destruct (st_remove nx ((c, val c) :: st)) as [[v'|] st2] eqn:R2.
          -- right. destruct (PInv_remove _ _ _ _ _ HI1 R2) as (-> & Hlt & HI2).
             split; [exact Hlt|]. exists st2, l. split; [reflexivity | exact HI2].
          -- apply st_remove_none in R2. destruct R2 as [-> _].
             destruct (IH _ _ HI1) as [(-> & E & _)|(Hlt & st' & l' & E & HI')]; [discriminate|].
             right. split; [exact Hlt|]. exists st', l'. split; [exact E | exact HI'].
  Qed.

  Lemma collect_perm : forall fuel st nx l, PInv st nx l -> n - nx < fuel ->
    io_collect fuel (mk_ios st nx false) (map mk l)
    = (map yk (seq nx (n - nx)), EEnd, mk_ios [] n false, []).
  Proof.
    induction fuel as [|f IH]; intros st nx l HI Hf; [lia|].
    cbn [io_collect]. unfold io_next_call. cbn [io_done io_store io_next].
    destruct (next_loop_perm _ _ _ HI) as [(-> & -> & -> & E)|(Hlt & st' & l' & E & HI')].
    - cbn [map] in *. rewrite E. rewrite Nat.sub_diag. reflexivity.
    - rewrite E. rewrite (IH _ _ _ HI') by lia.
      rewrite (seq_split_first nx Hlt). reflexivity.
  Qed.
End Perm.

Lemma L_in_order_yields_sequence : forall n (val : nat -> N) (arrivals : list nat),
  Permutation arrivals (seq 0 n) ->
  io_run (map (fun i => AOk i (val i)) arrivals)
  = (map (fun i => YOk i (val i)) (seq 0 n), EEnd, mk_ios [] n false, []).
Proof.
  intros n val l HP. unfold io_run, ios_init.
  pose proof (collect_perm n val (io_fuel (map (mk val) l)) [] 0 l) as H.
  rewrite Nat.sub_0_r in H. apply H.
  - split; [cbn; rewrite Nat.sub_0_r; exact HP | split; [lia | intros k v []]].
  - unfold io_fuel. rewrite map_length. apply Permutation_length in HP. rewrite seq_length in HP. lia.
Qed.

(* once the end is reached every further call returns None *)
Lemma L_in_order_end_is_final : forall n, io_next_call (mk_ios [] n false) [] = NNone (mk_ios [] n false) [].
Proof. intros n. reflexivity. Qed.

(* ---- 2. safety for every input ---------------------------------------------------------- *)
Fixpoint good_from (A : list arrival) (nx : nat) (ys : list yield) : Prop :=
  match ys with
  | [] => True
  | YOk c v :: r => c = nx /\ In (AOk nx v) A /\ good_from A (S nx) r
  | YErr e :: r => In (AErr e) A /\ r = []
  end.

Definition store_from (A : list arrival) (st : list (nat * N)) : Prop :=
  forall k v, In (k, v) st -> In (AOk k v) A.

Lemma store_from_remove A k st o st' : store_from A st -> st_remove k st = (o, st') ->
  store_from A st' /\ (forall v, o = Some v -> In (AOk k v) A).
Proof.
  intros HS HR. destruct o as [v|].
  - pose proof (st_remove_some _ _ _ _ HR) as Hp. split.
    + intros k' v' Hk. apply HS. eapply Permutation_in; [apply Permutation_sym; exact Hp | right; exact Hk].
    + intros v0 [= <-]. apply HS. eapply Permutation_in; [apply Permutation_sym; exact Hp | left; reflexivity].
  - apply st_remove_none in HR. destruct HR as [-> _]. split; [exact HS | discriminate].
Qed.

Lemma next_loop_safe A : forall inner st nx y s' rest,
  store_from A st -> incl inner A -> next_loop st nx inner = NYield y s' rest ->
  store_from A (io_store s') /\ incl rest A /\
  2 * length rest + length (io_store s') < 2 * length inner + length st /\
  ((exists v, y = YOk nx v /\ In (AOk nx v) A /\ io_next s' = S nx /\ io_done s' = false)
   \/ (exists e, y = YErr e /\ In (AErr e) A /\ io_done s' = true)).
Proof.
  induction inner as [|a inner IH]; intros st nx y s' rest HS HI H; cbn [next_loop] in H.
  - destruct (st_remove nx st) as [[v|] st'] eqn:R.
    + injection H as <- <- <-. destruct (store_from_remove _ _ _ _ _ HS R) as [HS' Hv].
      apply st_remove_length_some in R. cbn [io_store io_next io_done length].
      split; [exact HS'|]. split; [exact HI|]. split; [lia|].
      left. exists v. auto.
    + destruct st; discriminate.
  - assert (HI' : incl inner A) by (intros x Hx; apply HI; right; exact Hx).
    destruct a as [c v|e].
    + destruct (Nat.compare c nx) eqn:C.
      * apply Nat.compare_eq in C. subst c. injection H as <- <- <-.
        cbn [io_store io_next io_done length]. split; [exact HS|]. split; [exact HI'|]. split; [lia|].
        left. exists v. split; [reflexivity|]. split; [apply HI; left; reflexivity | auto].
      * discriminate.
      * unfold st_insert in H. destruct (st_remove c st) as [[v0|] st0] eqn:R0; [discriminate|].
        apply st_remove_none in R0. destruct R0 as [-> _].
        assert (HS1 : store_from A ((c, v) :: st)).
        { intros k v' [E|Hk]; [injection E as <- <-; apply HI; left; reflexivity | apply HS; exact Hk]. }
        destruct (st_remove nx ((c, v) :: st)) as [[v'|] st2] eqn:R2.
        -- injection H as <- <- <-. destruct (store_from_remove _ _ _ _ _ HS1 R2) as [HS' Hv].
           apply st_remove_length_some in R2. cbn [io_store io_next io_done length] in *.
           split; [exact HS'|]. split; [exact HI'|]. split; [lia|].
           left. exists v'. auto.
        -- apply st_remove_none in R2. destruct R2 as [-> _].
           destruct (IH _ _ _ _ _ HS1 HI' H) as (A1 & A2 & A3 & A4).
           split; [exact A1|]. split; [exact A2|]. split; [cbn [length] in *; lia | exact A4].
    + injection H as <- <- <-. cbn [io_store io_next io_done length].
      split; [intros k v []|]. split; [exact HI'|]. split; [lia|].
      right. exists e. split; [reflexivity|]. split; [apply HI; left; reflexivity | reflexivity].
Qed.

Lemma collect_safe A : forall fuel s inner ys e s2 r2,
  store_from A (io_store s) -> incl inner A ->
  io_collect fuel s inner = (ys, e, s2, r2) ->
  (io_done s = true -> ys = []) /\ good_from A (io_next s) ys /\
  (2 * length inner + length (io_store s) < fuel -> e <> EFuel).
Proof.
  induction fuel as [|f IH]; intros s inner ys e s2 r2 HS HI H; cbn [io_collect] in H.
  - injection H as <- <- <- <-. cbn. split; [auto|]. split; [exact I | lia].
  - unfold io_next_call in H. destruct (io_done s) eqn:D.
    + injection H as <- <- <- <-. cbn. split; [auto|]. split; [exact I | discriminate].
    + destruct (next_loop (io_store s) (io_next s) inner) as [y s' rest| s' rest|] eqn:NL.
      * destruct (io_collect f s' rest) as [[[ys' e'] s2'] r2'] eqn:C. injection H as <- <- <- <-.
        destruct (next_loop_safe A _ _ _ _ _ _ HS HI NL) as (HS' & HI' & Hm & Hy).
        destruct (IH _ _ _ _ _ _ HS' HI' C) as (Hd & Hg & Hf).
        split; [discriminate|]. split.
        -- destruct Hy as [(v & -> & Hin & Hn & _)|(e0 & -> & Hin & Hdone)].
           ++ cbn [good_from]. rewrite Hn in Hg. auto.
           ++ cbn [good_from]. split; [exact Hin | apply Hd; exact Hdone].
        -- intros Hlt. apply Hf. lia.
      * injection H as <- <- <- <-. cbn. split; [auto|]. split; [exact I | discriminate].
      * injection H as <- <- <- <-. cbn. split; [auto|]. split; [exact I | discriminate].
Qed.

Lemma good_from_nth A : forall ys nx k,
  good_from A nx ys ->
  (forall c v, nth_error ys k = Some (YOk c v) -> c = nx + k /\ In (AOk c v) A) /\
  (forall e, nth_error ys k = Some (YErr e) -> S k = length ys /\ In (AErr e) A).
Proof.
  induction ys as [|y r IH]; intros nx k HG.
  - destruct k; split; intros; discriminate.
  - destruct y as [c0 v0|e0]; cbn [good_from] in HG.
    + destruct HG as (-> & Hin & HG). destruct k as [|k]; cbn [nth_error].
      * split; [intros c v [= <- <-]; split; [lia | exact Hin] | intros; discriminate].
      * destruct (IH _ k HG) as [I1 I2]. split.
        -- intros c v Hk. destruct (I1 _ _ Hk) as [-> Hi]. split; [lia | exact Hi].
        -- intros e Hk. destruct (I2 _ Hk) as [Hl Hi]. cbn [length]. split; [lia | exact Hi].
    + destruct HG as (Hin & ->). destruct k as [|k]; cbn [nth_error].
      * split; [intros; discriminate | intros e [= <-]; split; [reflexivity | exact Hin]].
      * destruct k; split; intros; discriminate.
Qed.

Lemma L_in_order_safe : forall arrivals ys e s r k,
  io_run arrivals = (ys, e, s, r) ->
  (forall c v, nth_error ys k = Some (YOk c v) -> c = k /\ In (AOk k v) arrivals) /\
  (forall x, nth_error ys k = Some (YErr x) -> S k = length ys /\ In (AErr x) arrivals) /\
  e <> EFuel.
Proof.
  intros arr ys e s r k H. unfold io_run in H.
  assert (HS0 : store_from arr (io_store ios_init)) by (intros k0 v0 []).
  destruct (collect_safe arr _ _ _ _ _ _ _ HS0 (incl_refl arr) H) as (_ & HG & Hf).
  destruct (good_from_nth arr ys 0 k HG) as [I1 I2].
  split; [|split].
  - intros c v Hk. destruct (I1 _ _ Hk) as [-> Hi]. split; [reflexivity | exact Hi].
  - exact I2.
  - apply Hf. unfold io_fuel, ios_init. cbn [io_store length]. lia.
Qed.

(* ---- 3. EagerIter: chunking loses and reorders nothing ---------------------------------- *)
Lemma eager_chunks_concat cs : forall items cur,
  concat (eager_chunks cs cur items) = rev cur ++ items.
Proof.
  induction items as [|x r IH]; intros cur; cbn [eager_chunks].
  - destruct cur as [|c0 cur]; [reflexivity | cbn [concat]; reflexivity].
  - destruct (Nat.eqb (length (x :: cur)) cs).
    + cbn [concat]. rewrite IH. cbn [rev app]. rewrite <- app_assoc. reflexivity.
    + rewrite IH. cbn [rev]. rewrite <- app_assoc. reflexivity.
Qed.

Lemma L_eager_items cs items : eager_items cs items = items.
Proof. unfold eager_items. rewrite eager_chunks_concat. reflexivity. Qed.

Lemma eager_chunks_sizes cs : 0 < cs -> forall items cur, length cur < cs ->
  Forall (fun c => 0 < length c <= cs) (eager_chunks cs cur items).
Proof.
  intros Hcs. induction items as [|x r IH]; intros cur Hc; cbn [eager_chunks].
  - destruct cur; constructor; [|constructor]. rewrite rev_length. cbn [length] in *. lia.
  - destruct (Nat.eqb (length (x :: cur)) cs) eqn:E.
    + apply Nat.eqb_eq in E. constructor; [rewrite rev_length; lia | apply IH; cbn; lia].
    + apply Nat.eqb_neq in E. apply IH. cbn [length] in *. lia.
Qed.

Lemma L_eager_chunk_sizes cs items : 0 < cs ->
  Forall (fun c => 0 < length c <= cs) (eager_chunks cs [] items).
Proof. intros H. apply eager_chunks_sizes; [exact H | cbn; lia]. Qed.
