(* C51 — proofs about the interleaving model of in_parallel_with_slice (Model.v part 2).
   Every statement is an invariant of [sl_step] lifted to [sl_exec] over an arbitrary schedule. *)
From Coq Require Import List Arith Bool NArith ZArith Lia Permutation.
Import ListNotations.
From GixV.Base Require Import Bytes Outcome.
From GixV.C51 Require Import Model.

(* ---- lists of threads ------------------------------------------------------------------- *)
Lemma upd_length {A} (x : A) : forall l i, length (upd i x l) = length l.
Proof. induction l as [|y r IH]; intros [|i]; cbn; auto. Qed.

Lemma nth_error_upd {A} (x : A) : forall l i j,
  nth_error (upd i x l) j =
  if Nat.eqb i j then match nth_error l i with Some _ => Some x | None => None end else nth_error l j.
Proof.
  induction l as [|y r IH]; intros [|i] [|j]; cbn [upd nth_error Nat.eqb]; auto.
  - destruct (Nat.eqb i j); reflexivity.
Qed.

Lemma nth_error_upd_same {A} (x y : A) l i : nth_error l i = Some y -> nth_error (upd i x l) i = Some x.
Proof. intros H. rewrite nth_error_upd, Nat.eqb_refl, H. reflexivity. Qed.

Lemma nth_error_upd_other {A} (x : A) l i j : i <> j -> nth_error (upd i x l) j = nth_error l j.
Proof. intros H. rewrite nth_error_upd. apply Nat.eqb_neq in H. rewrite H. reflexivity. Qed.

Lemma nth_error_upd_inv {A} (x z : A) l i j : nth_error (upd i x l) j = Some z ->
  (i = j /\ z = x /\ exists y, nth_error l i = Some y) \/ (i <> j /\ nth_error l j = Some z).
Proof.
  rewrite nth_error_upd. destruct (Nat.eqb_spec i j) as [->|Hn].
  - destruct (nth_error l j) eqn:E; [|discriminate]. intros [= <-]. left. eauto.
  - intros H. right. auto.
Qed.

Lemma snd_unique {A B} (l : list (A * B)) a b x :
  NoDup (map snd l) -> In (a, x) l -> In (b, x) l -> a = b.
Proof.
  induction l as [|[a0 x0] r IH]; intros Hnd Ha Hb; [destruct Ha|].
  cbn in Hnd. inversion Hnd as [|? ? Hni Hnd']; subst.
  destruct Ha as [Ea|Ha], Hb as [Eb|Hb].
  - congruence.
  - injection Ea as -> ->. exfalso. apply Hni. apply in_map_iff. exists (b, x). auto.
  - injection Eb as -> ->. exfalso. apply Hni. apply in_map_iff. exists (a, x). auto.
  - eauto.
Qed.

Lemma rev_seq_S n : rev (seq 0 (S n)) = n :: rev (seq 0 n).
Proof. rewrite seq_S, rev_app_distr. reflexivity. Qed.

(* ---- who holds which index -------------------------------------------------------------- *)
Definition holds_pc (p : tpc) (i : nat) : Prop := p = TCheck i \/ p = TConsume i.
Definition holds (thr : list thr) (t i : nat) : Prop :=
  exists th, nth_error thr t = Some th /\ holds_pc (t_pc th) i.
Definition holdsC (thr : list thr) (t i : nat) : Prop :=
  exists th, nth_error thr t = Some th /\ t_pc th = TConsume i.

Lemma holds_upd thr t th' t' i : holds (upd t th' thr) t' i ->
  (t' = t /\ holds_pc (t_pc th') i) \/ (t' <> t /\ holds thr t' i).
Proof.
  intros (x & Hx & Hp). apply nth_error_upd_inv in Hx.
  destruct Hx as [(-> & -> & _)|(Hn & Hx)]; [left; auto | right; split; [auto | exists x; auto]].
Qed.

(* ---- invariant 1: claims and consumption ------------------------------------------------ *)
Record Inv1c (n idx : nat) (thr : list thr) (claims consumed : list (nat * nat)) : Prop := {
  I_idx : idx <= n;
  I_claims : map snd claims = rev (seq 0 idx);
  I_held : forall t i, holds thr t i -> In (t, i) claims /\ ~ In i (map snd consumed);
  I_cons : incl consumed claims;
  I_nodup : NoDup (map snd consumed)
}.
Definition Inv1 (s : sl) : Prop := Inv1c (s_n s) (s_index s) (s_thr s) (s_claims s) (s_consumed s).

Lemma claims_nodup n idx thr cl co : Inv1c n idx thr cl co -> NoDup (map snd cl).
Proof. intros H. rewrite (I_claims _ _ _ _ _ H). apply NoDup_rev, seq_NoDup. Qed.

Lemma claims_lt n idx thr cl co t i : Inv1c n idx thr cl co -> In (t, i) cl -> i < idx.
Proof.
  intros H Hin. assert (In i (map snd cl)) by (apply in_map_iff; exists (t, i); auto).
  rewrite (I_claims _ _ _ _ _ H) in H0. apply in_rev in H0. apply in_seq in H0. lia.
Qed.

Lemma Inv1_init n threads : Inv1 (sl_init n threads).
Proof.
  unfold Inv1, sl_init. cbn. constructor; cbn.
  - lia.
  - reflexivity.
  - intros t i (th & Hth & Hp). apply nth_error_In, repeat_spec in Hth. subst th.
    destruct Hp; discriminate.
  - intros x [].
  - constructor.
Qed.

(* a thread that moves to a pc holding nothing new *)
Lemma Inv1c_release n idx thr cl co t th' :
  Inv1c n idx thr cl co -> (forall i, holds_pc (t_pc th') i -> holds thr t i) ->
  Inv1c n idx (upd t th' thr) cl co.
Proof.
  intros H Hrel. constructor; try apply H.
  intros t' i Hh. apply holds_upd in Hh. destruct Hh as [(-> & Hp)|(_ & Hh)].
  - apply (I_held _ _ _ _ _ H). apply Hrel. exact Hp.
  - apply (I_held _ _ _ _ _ H). exact Hh.
Qed.

Lemma Inv1_step fails s l s' : Inv1 s -> sl_step fails s l = Some s' -> Inv1 s' /\ s_n s' = s_n s.
Proof.
  unfold Inv1. intros H Hs. destruct l as [t|b|]; cbn [sl_step] in Hs.
  - destruct (nth_error (s_thr s) t) as [th|] eqn:Hth; [|discriminate].
    unfold thr_step in Hs. destruct (t_pc th) eqn:Hpc.
    + injection Hs as <-. cbn. split; [|reflexivity].
      apply Inv1c_release; [exact H|]. cbn. intros i [E|E]; discriminate.
    + destruct (s_index s <? s_n s) eqn:Hlt.
      * injection Hs as <-. cbn. split; [|reflexivity]. apply Nat.ltb_lt in Hlt.
        constructor.
        -- lia.
        -- cbn [map snd]. rewrite rev_seq_S. f_equal. apply H.
        -- intros t' i Hh. apply holds_upd in Hh. cbn [t_pc] in Hh.
           destruct Hh as [(-> & [E|E])|(_ & Hh)]; try discriminate.
           ++ injection E as <-. split; [left; reflexivity|].
              intros Hin. apply in_map_iff in Hin. destruct Hin as ([t0 i0] & E0 & Hin). cbn in E0. subst i0.
              apply (I_cons _ _ _ _ _ H) in Hin. apply (claims_lt _ _ _ _ _ _ _ H) in Hin. lia.
           ++ destruct (I_held _ _ _ _ _ H _ _ Hh). split; [right; auto | auto].
        -- apply incl_tl. apply H.
        -- apply H.
      * injection Hs as <-. cbn. split; [|reflexivity].
        apply Inv1c_release; [exact H|]. cbn. intros i [E|E]; discriminate.
    + destruct (s_stop s); injection Hs as <-; cbn; (split; [|reflexivity]);
        (apply Inv1c_release; [exact H|]); cbn; intros j [E|E]; try discriminate.
      injection E as <-. exists th. split; [exact Hth | left; exact Hpc].
    + injection Hs as <-. cbn. split; [|reflexivity].
      assert (Hme : holds (s_thr s) t i) by (exists th; split; [exact Hth | right; exact Hpc]).
      destruct (I_held _ _ _ _ _ H _ _ Hme) as [Hcl Hnc].
      constructor.
      * apply H.
      * apply H.
      * intros t' j Hh. apply holds_upd in Hh.
        destruct Hh as [(-> & Hp)|(Hne & Hh)].
        -- destruct (fails i); cbn in Hp; destruct Hp; discriminate.
        -- destruct (I_held _ _ _ _ _ H _ _ Hh) as [Hcl' Hnc']. split; [exact Hcl'|].
           cbn [map snd]. intros [E|Hin]; [|auto]. subst j. apply Hne.
           eapply snd_unique; [eapply claims_nodup; exact H | exact Hcl' | exact Hcl].
      * intros x [<-|Hx]; [exact Hcl | apply (I_cons _ _ _ _ _ H); exact Hx].
      * cbn [map snd]. constructor; [exact Hnc | apply H].
    + injection Hs as <-. cbn. split; [|reflexivity].
      apply Inv1c_release; [exact H|]. cbn. intros j [E|E]; discriminate.
    + injection Hs as <-. cbn. split; [|reflexivity].
      apply Inv1c_release; [exact H|]. cbn. intros j [E|E]; discriminate.
    + discriminate.
  - unfold watch_step in Hs. destruct (s_w s); try discriminate; injection Hs as <-; cbn; auto.
  - unfold main_step in Hs. destruct (s_m s) as [k acc|r]; [|discriminate].
    destruct (k <? length (s_thr s)).
    + destruct (nth_error (s_thr s) k) as [th|]; [|discriminate].
      destruct (t_pc th) as [| | | | | |[c|e]]; try discriminate; injection Hs as <-; cbn; auto.
    + injection Hs as <-. cbn. auto.
Qed.

Lemma Inv1_exec fails : forall sched s, Inv1 s -> Inv1 (sl_exec fails s sched) /\ s_n (sl_exec fails s sched) = s_n s.
Proof.
  induction sched as [|l r IH]; intros s H; cbn [sl_exec]; [auto|].
  destruct (sl_step fails s l) as [s'|] eqn:E; [|apply IH; exact H].
  destruct (Inv1_step _ _ _ _ H E) as [H' Hn]. destruct (IH _ H') as [H2 Hn2]. split; [exact H2 | congruence].
Qed.

Lemma L_each_index_claimed_once fails n threads sched :
  let s := sl_exec fails (sl_init n threads) sched in
  NoDup (map snd (s_claims s)) /\ map snd (s_claims s) = rev (seq 0 (s_index s)) /\ s_index s <= n /\
  NoDup (map snd (s_consumed s)) /\
  forall t i, In (t, i) (s_consumed s) -> i < n /\ In (t, i) (s_claims s).
Proof.
  intros s. destruct (Inv1_exec fails sched _ (Inv1_init n threads)) as [H Hn].
  fold s in H, Hn. unfold Inv1 in H. change (s_n (sl_init n threads)) with n in Hn. rewrite Hn in H.
  split; [eapply claims_nodup; exact H|]. split; [apply H|]. split; [apply H|]. split; [apply H|].
  intros t i Hin. pose proof (I_cons _ _ _ _ _ H _ Hin) as Hc.
  split; [|exact Hc]. pose proof (claims_lt _ _ _ _ _ _ _ H Hc). pose proof (I_idx _ _ _ _ _ H). lia.
Qed.

(* ---- stop: once the flag is set a worker starts at most the item it already checked ------ *)
Lemma stop_step fails s l s' : s_stop s = true -> sl_step fails s l = Some s' ->
  s_stop s' = true /\
  (forall t i, holdsC (s_thr s') t i -> holdsC (s_thr s) t i) /\
  (forall t i, In (t, i) (s_consumed s') -> In (t, i) (s_consumed s) \/ holdsC (s_thr s) t i).
Proof.
  intros Hstop Hs. destruct l as [t|b|]; cbn [sl_step] in Hs.
  - destruct (nth_error (s_thr s) t) as [th|] eqn:Hth; [|discriminate].
    assert (Hrel : forall th', (forall i, t_pc th' <> TConsume i) ->
                   forall t' i, holdsC (upd t th' (s_thr s)) t' i -> holdsC (s_thr s) t' i).
    { intros th' Hno t' i (x & Hx & Hp). apply nth_error_upd_inv in Hx.
      destruct Hx as [(-> & -> & _)|(_ & Hx)]; [exfalso; eapply Hno; exact Hp | exists x; auto]. }
    unfold thr_step in Hs. destruct (t_pc th) eqn:Hpc.
    + injection Hs as <-. cbn. split; [auto|]. split; [apply Hrel; cbn; discriminate | auto].
    + destruct (s_index s <? s_n s); injection Hs as <-; cbn;
        (split; [auto|]); (split; [apply Hrel; cbn; discriminate | auto]).
    + rewrite Hstop in Hs. injection Hs as <-. cbn. split; [auto|]. split; [apply Hrel; cbn; discriminate | auto].
    + injection Hs as <-. cbn. split; [auto|]. split.
      * apply Hrel. destruct (fails i); cbn; discriminate.
      * intros t' j [E|Hin]; [|auto]. injection E as <- <-. right. exists th. auto.
    + injection Hs as <-. cbn. split; [auto|]. split; [apply Hrel; cbn; discriminate | auto].
    + injection Hs as <-. cbn. split; [auto|]. split; [apply Hrel; cbn; discriminate | auto].
    + discriminate.
  - unfold watch_step in Hs. destruct (s_w s); try discriminate; injection Hs as <-; cbn; auto.
  - unfold main_step in Hs. destruct (s_m s) as [k acc|r]; [|discriminate].
    destruct (k <? length (s_thr s)).
    + destruct (nth_error (s_thr s) k) as [th|]; [|discriminate].
      destruct (t_pc th) as [| | | | | |[c|e]]; try discriminate; injection Hs as <-; cbn; auto.
    + injection Hs as <-. cbn. auto.
Qed.

Lemma L_stop_no_new_items fails : forall sched s, s_stop s = true ->
  let s' := sl_exec fails s sched in
  s_stop s' = true /\
  forall t i, In (t, i) (s_consumed s') -> In (t, i) (s_consumed s) \/ holdsC (s_thr s) t i.
Proof.
  induction sched as [|l r IH]; intros s Hstop; cbn [sl_exec]; [auto|].
  destruct (sl_step fails s l) as [s1|] eqn:E; [|apply IH; exact Hstop].
  destruct (stop_step _ _ _ _ Hstop E) as (H1 & H2 & H3).
  destruct (IH _ H1) as [H4 H5]. split; [exact H4|].
  intros t i Hin. destruct (H5 _ _ Hin) as [Hc|Hh]; [apply H3; exact Hc | right; apply H2; exact Hh].
Qed.

(* ---- progress and termination measure --------------------------------------------------- *)
Definition pc_rank (p : tpc) : nat :=
  match p with
  | TStart => 5 | TClaim => 4 | TCheck _ => 6 | TConsume _ => 5 | TFail _ => 3 | TLeave _ => 2 | TDone _ => 0
  end.
Fixpoint thr_rank (l : list thr) : nat :=
  match l with [] => 0 | th :: r => pc_rank (t_pc th) + thr_rank r end.
Definition main_rank (threads : nat) (m : mpc) : nat :=
  match m with MJoin k _ => S (threads - k) | MDone _ => 0 end.
Definition sl_measure (s : sl) : nat :=
  3 * (s_n s - s_index s) + thr_rank (s_thr s) + main_rank (length (s_thr s)) (s_m s).

Lemma thr_rank_upd th' : forall l t th, nth_error l t = Some th ->
  thr_rank (upd t th' l) + pc_rank (t_pc th) = thr_rank l + pc_rank (t_pc th').
Proof.
  induction l as [|y r IH]; intros [|t] th H; cbn in H; try discriminate.
  - injection H as ->. cbn. lia.
  - cbn [upd thr_rank]. specialize (IH _ _ H). lia.
Qed.

(* every step of a worker or of the joining thread decreases the measure; the watcher's steps keep it *)
Lemma L_measure_step fails s l s' : sl_step fails s l = Some s' ->
  match l with
  | LWatch _ => sl_measure s' = sl_measure s
  | _ => sl_measure s' < sl_measure s
  end.
Proof.
  intros Hs. destruct l as [t|b|]; cbn [sl_step] in Hs.
  - destruct (nth_error (s_thr s) t) as [th|] eqn:Hth; [|discriminate].
    unfold thr_step in Hs. unfold sl_measure.
    destruct (t_pc th) eqn:Hpc;
      repeat match type of Hs with context [if ?c then _ else _] => destruct c eqn:? end;
      try discriminate; injection Hs as <-; cbn [s_n s_index s_thr s_m sl_set_thr];
      rewrite upd_length;
      match goal with |- context [upd t ?x _] => pose proof (thr_rank_upd x _ _ _ Hth) as HR end;
      rewrite Hpc in HR; cbn [pc_rank t_pc] in HR;
      try (apply Nat.ltb_lt in Heqb); try lia.
  - unfold watch_step in Hs. destruct (s_w s); try discriminate; injection Hs as <-; reflexivity.
  - unfold main_step in Hs. unfold sl_measure. destruct (s_m s) as [k acc|r] eqn:Hm; [|discriminate].
    destruct (k <? length (s_thr s)) eqn:Hk.
    + apply Nat.ltb_lt in Hk. destruct (nth_error (s_thr s) k) as [th|]; [|discriminate].
      destruct (t_pc th) as [| | | | | |[c|e]]; try discriminate; injection Hs as <-; cbn; lia.
    + injection Hs as <-. cbn. lia.
Qed.

(* no deadlock: as long as something is unfinished some actor can move *)
Lemma L_progress fails s : sl_terminated s = false -> exists l s', sl_step fails s l = Some s'.
Proof.
  unfold sl_terminated. intros H.
  destruct (forallb thr_done (s_thr s)) eqn:Hall.
  - destruct (s_m s) as [k acc|r] eqn:Hm.
    + exists LMain. cbn [sl_step]. unfold main_step. rewrite Hm.
      destruct (k <? length (s_thr s)) eqn:Hk; [|eauto].
      apply Nat.ltb_lt in Hk. destruct (nth_error (s_thr s) k) as [th|] eqn:Hth.
      * rewrite forallb_forall in Hall. pose proof (Hall _ (nth_error_In _ _ Hth)) as Hd.
        unfold thr_done in Hd. destruct (t_pc th) as [| | | | | |[c|e]]; try discriminate; eauto.
      * apply nth_error_None in Hth. lia.
    + destruct (s_w s) eqn:Hw; cbn in H; try discriminate;
        exists (LWatch true); cbn [sl_step]; unfold watch_step; rewrite Hw; eauto.
  - assert (exists t th, nth_error (s_thr s) t = Some th /\ thr_done th = false) as (t & th & Hth & Hd).
    { clear H. induction (s_thr s) as [|y r IH]; [discriminate|]. cbn in Hall.
      destruct (thr_done y) eqn:Hy.
      - destruct (IH Hall) as (t & th & A & B). exists (S t), th. auto.
      - exists 0, y. auto. }
    exists (LThr t). cbn [sl_step]. rewrite Hth. unfold thr_step, thr_done in *.
    destruct (t_pc th); try discriminate; repeat match goal with |- context [if ?c then _ else _] => destruct c end; eauto.
Qed.

(* ---- invariant 2: why nothing is skipped on success ------------------------------------- *)
Section Success.
  Variable fails : nat -> bool.

  Definition excuse (s : sl) : Prop :=
    s_interrupted s = true \/ exists t i, In (t, i) (s_consumed s) /\ fails i = true.
  Definition err_pc (p : tpc) (i : nat) : Prop := p = TFail i \/ p = TLeave (RErr i) \/ p = TDone (RErr i).
  Definition ok_left_pc (p : tpc) : Prop := exists c, p = TLeave (ROk c) \/ p = TDone (ROk c).

  Record Inv2 (s : sl) : Prop := {
    J_stop : s_stop s = true -> excuse s \/ exists rs, s_m s = MDone (SOk rs);
    J_join : forall k acc, s_m s = MJoin k acc ->
             length acc = k /\ k <= length (s_thr s) /\ forall j, j < k -> exists th c, nth_error (s_thr s) j = Some th /\ t_pc th = TDone (ROk c);
    J_ok : forall rs, s_m s = MDone (SOk rs) ->
           length rs = length (s_thr s) /\ forall j th, nth_error (s_thr s) j = Some th -> exists c, t_pc th = TDone (ROk c);
    J_claimed : ~ excuse s -> forall t i, In (t, i) (s_claims s) -> In i (map snd (s_consumed s)) \/ holds (s_thr s) t i;
    J_left : forall t th, nth_error (s_thr s) t = Some th -> ok_left_pc (t_pc th) -> s_index s = s_n s \/ excuse s;
    J_fail : forall t i, In (t, i) (s_consumed s) -> fails i = true ->
             exists th, nth_error (s_thr s) t = Some th /\ err_pc (t_pc th) i;
    J_err : forall t th i, nth_error (s_thr s) t = Some th -> err_pc (t_pc th) i -> In (t, i) (s_consumed s) /\ fails i = true;
    J_merr : forall e, s_m s = MDone (SErr e) -> exists t th, nth_error (s_thr s) t = Some th /\ t_pc th = TDone (RErr e);
    K_errstop : forall t th i, nth_error (s_thr s) t = Some th ->
                t_pc th = TLeave (RErr i) \/ t_pc th = TDone (RErr i) -> s_stop s = true;
    K_mstop : forall r, s_m s = MDone r -> s_stop s = true
  }.

  Lemma Inv2_init n threads : Inv2 (sl_init n threads).
  Proof.
    assert (Hall : forall j th, nth_error (repeat (mk_thr TStart 0) threads) j = Some th -> t_pc th = TStart).
    { intros j th H. apply nth_error_In, repeat_spec in H. subst. reflexivity. }
    constructor; unfold sl_init; cbn.
    - discriminate.
    - intros k acc [= <- <-]. split; [reflexivity | split; [lia | intros j Hj; lia]].
    - discriminate.
    - intros _ t i [].
    - intros t th H (c & [E|E]); rewrite (Hall _ _ H) in E; discriminate.
    - intros t i [].
    - intros t th i H [E|[E|E]]; rewrite (Hall _ _ H) in E; discriminate.
    - discriminate.
    - intros t th i H [E|E]; rewrite (Hall _ _ H) in E; discriminate.
    - discriminate.
  Qed.

  (* what a worker step does, as far as the invariant is concerned *)
  Definition pc_of (thr : list thr) (t : nat) : option tpc := option_map t_pc (nth_error thr t).

  Lemma thr_step_shape s t th s' : nth_error (s_thr s) t = Some th -> thr_step fails s t th = Some s' ->
    exists th', s_thr s' = upd t th' (s_thr s) /\ s_n s' = s_n s /\ s_m s' = s_m s /\ s_w s' = s_w s /\
      s_interrupted s' = s_interrupted s /\
      ((t_pc th = TStart /\ t_pc th' = TClaim /\ s_index s' = s_index s /\ s_stop s' = s_stop s /\ s_claims s' = s_claims s /\ s_consumed s' = s_consumed s)
       \/ (t_pc th = TClaim /\ s_index s < s_n s /\ t_pc th' = TCheck (s_index s) /\ s_index s' = S (s_index s) /\ s_stop s' = s_stop s /\ s_claims s' = (t, s_index s) :: s_claims s /\ s_consumed s' = s_consumed s)
       \/ (t_pc th = TClaim /\ s_n s <= s_index s /\ (exists c, t_pc th' = TLeave (ROk c)) /\ s_index s' = s_index s /\ s_stop s' = s_stop s /\ s_claims s' = s_claims s /\ s_consumed s' = s_consumed s)
       \/ (exists i, t_pc th = TCheck i /\ s_stop s = true /\ (exists c, t_pc th' = TLeave (ROk c)) /\ s_index s' = s_index s /\ s_stop s' = s_stop s /\ s_claims s' = s_claims s /\ s_consumed s' = s_consumed s)
       \/ (exists i, t_pc th = TCheck i /\ s_stop s = false /\ t_pc th' = TConsume i /\ s_index s' = s_index s /\ s_stop s' = s_stop s /\ s_claims s' = s_claims s /\ s_consumed s' = s_consumed s)
       \/ (exists i, t_pc th = TConsume i /\ (if fails i then t_pc th' = TFail i else t_pc th' = TClaim) /\ s_index s' = s_index s /\ s_stop s' = s_stop s /\ s_claims s' = s_claims s /\ s_consumed s' = (t, i) :: s_consumed s)
       \/ (exists i, t_pc th = TFail i /\ t_pc th' = TLeave (RErr i) /\ s_index s' = s_index s /\ s_stop s' = true /\ s_claims s' = s_claims s /\ s_consumed s' = s_consumed s)
       \/ (exists r, t_pc th = TLeave r /\ t_pc th' = TDone r /\ s_index s' = s_index s /\ s_stop s' = s_stop s /\ s_claims s' = s_claims s /\ s_consumed s' = s_consumed s)).
  Proof.
    intros Hth Hs. unfold thr_step in Hs.
    Local Ltac shape_head := eexists; cbn; split; [reflexivity|]; repeat (split; [reflexivity|]).
    destruct (t_pc th) eqn:Hpc.
    - injection Hs as <-. shape_head. left. auto 10.
    - destruct (s_index s <? s_n s) eqn:Hlt; injection Hs as <-; shape_head.
      + apply Nat.ltb_lt in Hlt. right; left. auto 10.
      + apply Nat.ltb_ge in Hlt. right; right; left. repeat split; cbn; eauto.
    - destruct (s_stop s) eqn:Hst; injection Hs as <-; shape_head.
      + right; right; right; left. exists i. repeat split; cbn; eauto.
      + right; right; right; right; left. exists i. auto 10.
    - injection Hs as <-. shape_head.
      right; right; right; right; right; left. exists i. repeat split; auto. destruct (fails i); reflexivity.
    - injection Hs as <-. shape_head.
      right; right; right; right; right; right; left. exists i. auto 10.
    - injection Hs as <-. shape_head.
      right; right; right; right; right; right; right. exists r. auto 10.
    - discriminate.
  Qed.

  Lemma excuse_mono s s' : s_interrupted s' = s_interrupted s -> incl (s_consumed s) (s_consumed s') ->
    excuse s -> excuse s'.
  Proof.
    intros Hi Hc [H|(t & i & Hin & Hf)]; [left; congruence | right; exists t, i; auto].
  Qed.

  Ltac shape_cases H :=
    destruct H as [(Hpc & Hpc' & Hi & Hst & Hcl & Hco)
                  |[(Hpc & Hlt & Hpc' & Hi & Hst & Hcl & Hco)
                  |[(Hpc & Hge & (c' & Hpc') & Hi & Hst & Hcl & Hco)
                  |[(i & Hpc & Hstop & (c' & Hpc') & Hi & Hst & Hcl & Hco)
                  |[(i & Hpc & Hstop & Hpc' & Hi & Hst & Hcl & Hco)
                  |[(i & Hpc & Hpc' & Hi & Hst & Hcl & Hco)
                  |[(i & Hpc & Hpc' & Hi & Hst & Hcl & Hco)
                  |(r & Hpc & Hpc' & Hi & Hst & Hcl & Hco)]]]]]]].

  Lemma Inv2_thr_step s t th s' : Inv1 s -> Inv2 s -> nth_error (s_thr s) t = Some th -> thr_step fails s t th = Some s' -> Inv2 s'.
  Proof.
    intros HI1 H Hth Hs.
    destruct (thr_step_shape _ _ _ _ Hth Hs) as (th' & Ethr & En & Em & Ew & Eint & Hcase).
    assert (Hnd : forall r, t_pc th <> TDone r).
    { intros r E. unfold thr_step in Hs. rewrite E in Hs. discriminate. }
    assert (Hother : forall j thj r, nth_error (s_thr s) j = Some thj -> t_pc thj = TDone r -> nth_error (s_thr s') j = Some thj).
    { intros j thj r Hj Hp. rewrite Ethr, nth_error_upd_other; [exact Hj|].
      intros <-. rewrite Hth in Hj. injection Hj as <-. exact (Hnd _ Hp). }
    assert (Hcons : incl (s_consumed s) (s_consumed s')).
    { shape_cases Hcase; rewrite Hco; auto using incl_refl, incl_tl. }
    assert (Hex : excuse s -> excuse s') by (apply excuse_mono; auto).
    assert (Hnotok : forall rs, s_m s <> MDone (SOk rs)).
    { intros rs E. destruct (J_ok _ H _ E) as [_ Hall]. destruct (Hall _ _ Hth) as (c & Hc). exact (Hnd _ Hc). }
    assert (Hlook : forall j x, nth_error (s_thr s') j = Some x ->
                    (j = t /\ x = th') \/ (j <> t /\ nth_error (s_thr s) j = Some x)).
    { intros j x Hx. rewrite Ethr in Hx. apply nth_error_upd_inv in Hx.
      destruct Hx as [(<- & -> & _)|(Hn & Hx)]; [left; auto | right; auto]. }
    assert (Hmine : nth_error (s_thr s') t = Some th').
    { rewrite Ethr. eapply nth_error_upd_same. exact Hth. }
    assert (Hmono : s_stop s = true -> s_stop s' = true).
    { intros E. shape_cases Hcase; congruence. }
    constructor.
    - (* J_stop *)
      intros Hst'. rewrite Em.
      shape_cases Hcase;
        try (rewrite Hst in Hst'; destruct (J_stop _ H Hst') as [E|E]; [left; apply Hex; exact E | right; exact E]).
      left. right. destruct (J_err _ H t th i Hth (or_introl Hpc)) as [Hin Hf].
      exists t, i. split; [apply Hcons; exact Hin | exact Hf].
    - (* J_join *)
      intros k acc Hm. rewrite Em in Hm. destruct (J_join _ H _ _ Hm) as (Hl & Hk & Hj). split; [exact Hl|].
      split; [rewrite Ethr, upd_length; exact Hk|].
      intros j Hlt. destruct (Hj _ Hlt) as (thj & c & Hn & Hp). exists thj, c. split; [eapply Hother; eauto | exact Hp].
    - (* J_ok *)
      intros rs Hm. rewrite Em in Hm. exfalso. exact (Hnotok _ Hm).
    - (* J_claimed *)
      intros Hne t0 i0 Hin.
      assert (Hne0 : ~ excuse s) by (intros E; apply Hne, Hex, E).
      pose proof (J_claimed _ H Hne0) as Hold.
      assert (Hkeep : forall t1 i1, holds (s_thr s) t1 i1 -> t1 <> t -> holds (s_thr s') t1 i1).
      { intros t1 i1 (x & Hx & Hp) Hn. exists x. rewrite Ethr, nth_error_upd_other; auto. }
      assert (Hme : holds_pc (t_pc th') i0 -> t0 = t -> holds (s_thr s') t0 i0).
      { intros Hp ->. exists th'. split; [exact Hmine | exact Hp]. }
      (* what the moving thread held before *)
      assert (Hheld : forall i1, holds (s_thr s) t i1 -> holds_pc (t_pc th) i1).
      { intros i1 (x & Hx & Hp). rewrite Hth in Hx. injection Hx as <-. exact Hp. }
      shape_cases Hcase; rewrite Hcl in Hin; rewrite Hco.
      + destruct (Hold _ _ Hin) as [A|A]; [left; exact A|].
        destruct (Nat.eq_dec t0 t) as [->|Hn]; [|right; auto].
        apply Hheld in A. rewrite Hpc in A. destruct A; discriminate.
      + destruct Hin as [E|Hin].
        * injection E as <- <-. right. apply Hme; [left; exact Hpc' | reflexivity].
        * destruct (Hold _ _ Hin) as [A|A]; [left; exact A|].
          destruct (Nat.eq_dec t0 t) as [->|Hn]; [|right; auto].
          apply Hheld in A. rewrite Hpc in A. destruct A; discriminate.
      + destruct (Hold _ _ Hin) as [A|A]; [left; exact A|].
        destruct (Nat.eq_dec t0 t) as [->|Hn]; [|right; auto].
        apply Hheld in A. rewrite Hpc in A. destruct A; discriminate.
      + exfalso. destruct (J_stop _ H Hstop) as [E|(rs & E)]; [exact (Hne0 E) | exact (Hnotok _ E)].
      + destruct (Hold _ _ Hin) as [A|A]; [left; exact A|].
        destruct (Nat.eq_dec t0 t) as [->|Hn]; [|right; auto].
        apply Hheld in A. rewrite Hpc in A.
        right. apply Hme; [|reflexivity]. destruct A as [E|E]; [injection E as <-|discriminate]. right. exact Hpc'.
      + cbn [map snd]. destruct (Hold _ _ Hin) as [A|A]; [left; right; exact A|].
        destruct (Nat.eq_dec t0 t) as [->|Hn]; [|right; auto].
        apply Hheld in A. rewrite Hpc in A.
        destruct A as [E|E]; [discriminate|]. injection E as <-. left. left. reflexivity.
      + destruct (Hold _ _ Hin) as [A|A]; [left; exact A|].
        destruct (Nat.eq_dec t0 t) as [->|Hn]; [|right; auto].
        apply Hheld in A. rewrite Hpc in A. destruct A; discriminate.
      + destruct (Hold _ _ Hin) as [A|A]; [left; exact A|].
        destruct (Nat.eq_dec t0 t) as [->|Hn]; [|right; auto].
        apply Hheld in A. rewrite Hpc in A. destruct A; discriminate.
    - (* J_left *)
      intros t0 x Hx Hp. rewrite En.
      destruct (Hlook _ _ Hx) as [(-> & ->)|(Hn & Hx0)].
      + destruct Hp as (c & Hp).
        shape_cases Hcase; try (rewrite Hpc' in Hp; destruct Hp; discriminate).
        * left. pose proof (I_idx _ _ _ _ _ HI1). lia.
        * right. destruct (J_stop _ H Hstop) as [E|(rs & E)]; [apply Hex; exact E | exfalso; exact (Hnotok _ E)].
        * destruct (fails i); rewrite Hpc' in Hp; destruct Hp; discriminate.
        * rewrite Hpc' in Hp. assert (Hr : r = ROk c) by (destruct Hp as [E|E]; [discriminate | injection E; auto]). subst r.
          destruct (J_left _ H _ _ Hth (ex_intro _ c (or_introl Hpc))) as [E|E]; [left; congruence | right; apply Hex; exact E].
      + destruct (J_left _ H _ _ Hx0 Hp) as [E|E]; [|right; apply Hex; exact E].
        shape_cases Hcase; try (left; congruence). lia.
    - (* J_fail *)
      intros t0 i0 Hin Hf.
      assert (Hold : In (t0, i0) (s_consumed s) -> exists x, nth_error (s_thr s') t0 = Some x /\ err_pc (t_pc x) i0).
      { intros Hin0. destruct (J_fail _ H _ _ Hin0 Hf) as (x & Hx & Hp).
        destruct (Nat.eq_dec t0 t) as [->|Hn].
        - rewrite Hth in Hx. injection Hx as <-. exists th'. split; [exact Hmine|].
          shape_cases Hcase; rewrite Hpc in Hp; destruct Hp as [E|[E|E]]; try discriminate.
          + injection E as <-. right; left. exact Hpc'.
          + injection E as ->. right; right. exact Hpc'.
        - exists x. split; [rewrite Ethr, nth_error_upd_other; auto | exact Hp]. }
      shape_cases Hcase; rewrite Hco in Hin; auto.
      destruct Hin as [E|Hin]; [|auto]. injection E as <- <-.
      exists th'. split; [exact Hmine|]. rewrite Hf in Hpc'. left. exact Hpc'.
    - (* J_err *)
      intros t0 x i0 Hx Hp.
      destruct (Hlook _ _ Hx) as [(-> & ->)|(Hn & Hx0)].
      + shape_cases Hcase; try (rewrite Hpc' in Hp; destruct Hp as [E|[E|E]]; discriminate).
        * destruct (fails i) eqn:Hfx; rewrite Hpc' in Hp; destruct Hp as [E|[E|E]]; try discriminate.
          injection E as <-. rewrite Hco. split; [left; reflexivity | exact Hfx].
        * rewrite Hpc' in Hp. assert (i0 = i) by (destruct Hp as [E|[E|E]]; try discriminate; injection E; auto). subst i0.
          destruct (J_err _ H _ _ _ Hth (or_introl Hpc)) as [A B]. split; [apply Hcons; exact A | exact B].
        * rewrite Hpc' in Hp. assert (r = RErr i0) by (destruct Hp as [E|[E|E]]; try discriminate; injection E; auto). subst r.
          destruct (J_err _ H _ _ _ Hth (or_intror (or_introl Hpc))) as [A B]. split; [apply Hcons; exact A | exact B].
      + destruct (J_err _ H _ _ _ Hx0 Hp) as [A B]. split; [apply Hcons; exact A | exact B].
    - (* J_merr *)
      intros e Hm. rewrite Em in Hm. destruct (J_merr _ H _ Hm) as (t0 & x & Hx & Hp).
      exists t0, x. split; [eapply Hother; eauto | exact Hp].
    - (* K_errstop *)
      intros t0 x i0 Hx Hp.
      destruct (Hlook _ _ Hx) as [(-> & ->)|(Hn & Hx0)]; [|apply Hmono; eapply K_errstop; eauto].
      shape_cases Hcase; try (rewrite Hpc' in Hp; destruct Hp as [E|E]; discriminate); try assumption.
      * destruct (fails i); rewrite Hpc' in Hp; destruct Hp; discriminate.
      * rewrite Hpc' in Hp. assert (r = RErr i0) by (destruct Hp as [E|E]; try discriminate; injection E; auto). subst r.
        apply Hmono. eapply K_errstop; [exact H | exact Hth | left; exact Hpc].
    - (* K_mstop *)
      intros r Hm. rewrite Em in Hm. apply Hmono. eapply K_mstop; eauto.
  Qed.

  Lemma Inv2_step s l s' : Inv1 s -> Inv2 s -> sl_step fails s l = Some s' -> Inv2 s'.
  Proof.
    intros HI1 H Hs. destruct l as [t|b|]; cbn [sl_step] in Hs.
    - destruct (nth_error (s_thr s) t) as [th|] eqn:Hth; [|discriminate].
      eapply Inv2_thr_step; eauto.
    - unfold watch_step in Hs. destruct (s_w s); try discriminate; injection Hs as <-.
      + destruct H; constructor; cbn; auto.
      + destruct H; constructor; cbn; auto.
      + assert (Hex : excuse (mk_sl (s_n s) (s_index s) true (s_left s) (s_thr s) WDone (s_m s)
                                     (s_claims s) (s_consumed s) true)) by (left; reflexivity).
        destruct H; constructor; cbn; auto; try (intros Hne; exfalso; exact (Hne Hex)).
    - unfold main_step in Hs. destruct (s_m s) as [k acc|r] eqn:Hm; [|discriminate].
      destruct (J_join _ H _ _ Hm) as (Hl & Hk & Hj).
      destruct (k <? length (s_thr s)) eqn:Hlt.
      + apply Nat.ltb_lt in Hlt. destruct (nth_error (s_thr s) k) as [th|] eqn:Hth; [|discriminate].
        destruct (t_pc th) as [| | | | | |[c|e]] eqn:Hpc; try discriminate; injection Hs as <-.
        * assert (Hexq : forall P : Prop, (excuse s -> P) -> excuse (sl_set_m s (MJoin (S k) (c :: acc))) -> P).
          { intros P HP E. apply HP. destruct E as [E|E]; [left; exact E | right; exact E]. }
          constructor; cbn.
          -- intros Hst. destruct (J_stop _ H Hst) as [E|(rs & E)]; [left; destruct E as [E|E]; [left|right]; exact E | rewrite Hm in E; discriminate].
          -- intros k0 acc0 [= <- <-]. split; [cbn; lia|]. split; [lia|].
             intros j Hjk. destruct (Nat.eq_dec j k) as [->|Hn]; [eauto | apply Hj; lia].
          -- discriminate.
          -- intros Hne. apply (J_claimed _ H). intros E. apply Hne. destruct E as [E|E]; [left|right]; exact E.
          -- intros t0 x Hx Hp. destruct (J_left _ H _ _ Hx Hp) as [E|E]; [left; exact E | right; destruct E as [E|E]; [left|right]; exact E].
          -- apply (J_fail _ H).
          -- apply (J_err _ H).
          -- discriminate.
          -- apply (K_errstop _ H).
          -- discriminate.
        * constructor; cbn.
          -- intros Hst. destruct (J_stop _ H Hst) as [E|(rs & E)]; [left; destruct E as [E|E]; [left|right]; exact E | rewrite Hm in E; discriminate].
          -- discriminate.
          -- discriminate.
          -- intros Hne. apply (J_claimed _ H). intros E. apply Hne. destruct E as [E|E]; [left|right]; exact E.
          -- intros t0 x Hx Hp. destruct (J_left _ H _ _ Hx Hp) as [E|E]; [left; exact E | right; destruct E as [E|E]; [left|right]; exact E].
          -- apply (J_fail _ H).
          -- apply (J_err _ H).
          -- intros e0 [= <-]. eauto.
          -- apply (K_errstop _ H).
          -- intros r _. eapply K_errstop; [exact H | exact Hth | right; exact Hpc].
      + apply Nat.ltb_ge in Hlt. injection Hs as <-.
        assert (Hkk : k = length (s_thr s)) by lia.
        constructor; cbn.
        -- intros _. right. eauto.
        -- discriminate.
        -- intros rs [= <-]. split; [rewrite rev_length; lia|].
           intros j x Hx. assert (j < k) by (rewrite Hkk; apply nth_error_Some; congruence).
           destruct (Hj _ H0) as (y & c & Hy & Hp). rewrite Hx in Hy. injection Hy as <-. eauto.
        -- intros Hne. apply (J_claimed _ H). intros E. apply Hne. destruct E as [E|E]; [left|right]; exact E.
        -- intros t0 x Hx Hp. destruct (J_left _ H _ _ Hx Hp) as [E|E]; [left; exact E | right; destruct E as [E|E]; [left|right]; exact E].
        -- apply (J_fail _ H).
        -- apply (J_err _ H).
        -- discriminate.
        -- reflexivity.
        -- reflexivity.
  Qed.

  Lemma Inv12_exec : forall sched s, Inv1 s -> Inv2 s ->
    Inv1 (sl_exec fails s sched) /\ Inv2 (sl_exec fails s sched) /\ s_n (sl_exec fails s sched) = s_n s
    /\ length (s_thr (sl_exec fails s sched)) = length (s_thr s).
  Proof.
    induction sched as [|l r IH]; intros s H1 H2; cbn [sl_exec]; [auto|].
    destruct (sl_step fails s l) as [s'|] eqn:E; [|apply IH; assumption].
    destruct (Inv1_step _ _ _ _ H1 E) as [H1' Hn]. pose proof (Inv2_step _ _ _ H1 H2 E) as H2'.
    destruct (IH _ H1' H2') as (A & B & C & D). split; [exact A|]. split; [exact B|]. split; [congruence|].
    rewrite D. clear - E. destruct l as [t|b|]; cbn [sl_step] in E.
    - destruct (nth_error (s_thr s) t) as [th|]; [|discriminate]. unfold thr_step in E.
      destruct (t_pc th); repeat match type of E with context [if ?c then _ else _] => destruct c end;
        try discriminate; injection E as <-; cbn; apply upd_length.
    - unfold watch_step in E. destruct (s_w s); try discriminate; injection E as <-; reflexivity.
    - unfold main_step in E. destruct (s_m s) as [k acc|]; [|discriminate].
      destruct (k <? length (s_thr s)); [|injection E as <-; reflexivity].
      destruct (nth_error (s_thr s) k) as [th|]; [|discriminate].
      destruct (t_pc th) as [| | | | | |[c|e]]; try discriminate; injection E as <-; reflexivity.
  Qed.

  (* the call returned Ok and was not interrupted: every index was consumed exactly once *)
  Lemma L_all_consumed_on_success n threads sched rs :
    let s := sl_exec fails (sl_init n threads) sched in
    0 < threads -> s_m s = MDone (SOk rs) -> s_interrupted s = false ->
    Permutation (map snd (s_consumed s)) (seq 0 n) /\ length rs = threads /\
    (forall t i, In (t, i) (s_consumed s) -> fails i = false).
  Proof.
    intros s Hpos Hm Hint.
    destruct (Inv12_exec sched _ (Inv1_init n threads) (Inv2_init n threads)) as (H1 & H2 & Hn & Hlen).
    fold s in H1, H2, Hn, Hlen. change (s_n (sl_init n threads)) with n in Hn.
    cbn [sl_init s_thr] in Hlen. rewrite repeat_length in Hlen.
    destruct (J_ok _ H2 _ Hm) as [Hrs Hall].
    assert (Hnofail : forall t i, In (t, i) (s_consumed s) -> fails i = false).
    { intros t i Hin. destruct (fails i) eqn:Hf; [|reflexivity]. exfalso.
      destruct (J_fail _ H2 _ _ Hin Hf) as (x & Hx & Hp). destruct (Hall _ _ Hx) as (c & Hc).
      rewrite Hc in Hp. destruct Hp as [E|[E|E]]; discriminate. }
    assert (Hne : ~ excuse s).
    { intros [E|(t & i & Hin & Hf)]; [congruence | rewrite (Hnofail _ _ Hin) in Hf; discriminate]. }
    assert (Hidx : s_index s = n).
    { destruct (nth_error (s_thr s) 0) as [x|] eqn:Hx.
      - destruct (Hall _ _ Hx) as (c & Hc).
        destruct (J_left _ H2 _ _ Hx (ex_intro _ c (or_intror Hc))) as [E|E]; [congruence | contradiction].
      - apply nth_error_None in Hx. lia. }
    split; [|split; [congruence | exact Hnofail]].
    unfold Inv1 in H1. rewrite Hn in H1.
    apply NoDup_Permutation; [apply H1 | apply seq_NoDup|].
    intros i. split.
    - intros Hin. apply in_map_iff in Hin. destruct Hin as ([t i0] & E & Hin). cbn in E. subst i0.
      apply (I_cons _ _ _ _ _ H1) in Hin. pose proof (claims_lt _ _ _ _ _ _ _ H1 Hin). apply in_seq. lia.
    - intros Hin. apply in_seq in Hin.
      assert (Hc : In i (map snd (s_claims s))).
      { rewrite (I_claims _ _ _ _ _ H1). apply -> in_rev. apply in_seq. lia. }
      apply in_map_iff in Hc. destruct Hc as ([t i0] & E & Hc). cbn in E. subst i0.
      destruct (J_claimed _ H2 Hne _ _ Hc) as [A|(x & Hx & Hp)]; [exact A|].
      destruct (Hall _ _ Hx) as (c & Hcc). rewrite Hcc in Hp. destruct Hp; discriminate.
  Qed.

  (* an Err result is the error of an item that was consumed and failed; the joining thread only
     finishes after the stop flag is set, so the watcher then leaves within three of its steps *)
  Lemma L_result_sound n threads sched :
    let s := sl_exec fails (sl_init n threads) sched in
    (forall e, s_m s = MDone (SErr e) -> fails e = true /\ exists t, In (t, e) (s_consumed s)) /\
    (forall r, s_m s = MDone r -> s_stop s = true).
  Proof.
    intros s.
    destruct (Inv12_exec sched _ (Inv1_init n threads) (Inv2_init n threads)) as (H1 & H2 & Hn & Hlen).
    fold s in H2. split.
    - intros e Hm. destruct (J_merr _ H2 _ Hm) as (t & x & Hx & Hp).
      destruct (J_err _ H2 _ _ e Hx (or_intror (or_intror Hp))) as [A B]. eauto.
    - apply (K_mstop _ H2).
  Qed.

End Success.

Definition w_rank (w : wpc) : nat := match w with WPeriodic => 3 | WLoad => 2 | WStore => 1 | WDone => 0 end.
Lemma L_watcher_leaves fails s b s' : s_stop s = true -> sl_step fails s (LWatch b) = Some s' ->
  w_rank (s_w s') < w_rank (s_w s) /\ s_stop s' = true.
Proof.
  intros Hst Hs. cbn [sl_step] in Hs. unfold watch_step in Hs.
  destruct (s_w s) eqn:Hw; try discriminate; injection Hs as <-; cbn; rewrite ?Hst; cbn.
  - auto.
  - destruct b; cbn; auto.
  - auto.
Qed.
