(* C51 — proofs about the interleaving model of in_parallel / in_parallel_with_finalize / Stepwise
   (Model.v part 3).  Conservation is stated by counting occurrences, so that every case of the
   step function is a linear-arithmetic goal. *)
From Coq Require Import List Arith Bool NArith Lia Permutation.
Import ListNotations.
From GixV.Base Require Import Bytes Outcome.
From GixV.C51 Require Import Model ProofsSlice.

Definition cnt (x : nat) (l : list nat) : nat := count_occ Nat.eq_dec l x.

Arguments cnt : simpl never.

Lemma cnt_app x a b : cnt x (a ++ b) = cnt x a + cnt x b.
Proof. apply count_occ_app. Qed.
Lemma cnt_cons x y l : cnt x (y :: l) = (if Nat.eq_dec y x then 1 else 0) + cnt x l.
Proof. unfold cnt. cbn [count_occ]. destruct (Nat.eq_dec y x); reflexivity. Qed.
Lemma cnt_nil x : cnt x [] = 0.
Proof. reflexivity. Qed.

Definition held_item (k : kpc) : list nat := match k with KConsume x => [x] | _ => [] end.
Definition held_res (k : kpc) : list nat := match k with KSend (RItem x) => [x] | _ => [] end.
Definition fsend (f : fpc) : list nat := match f with FSend x => [x] | _ => [] end.
Definition res_items (l : list res) : list nat := flat_map (fun r => match r with RItem x => [x] | RFin _ => [] end) l.
Definition mfeed (m : ppc) : list nat :=
  match m with PFeed (RItem x) => [x] | PDrop (PErr (RItem x)) => [x] | _ => [] end.

Lemma res_items_app a b : res_items (a ++ b) = res_items a ++ res_items b.
Proof. apply flat_map_app. Qed.

Lemma cnt_flat_upd (f : kpc -> list nat) x k' : forall l t k, nth_error l t = Some k ->
  cnt x (flat_map f (upd t k' l)) + cnt x (f k) = cnt x (flat_map f l) + cnt x (f k').
Proof.
  induction l as [|y r IH]; intros [|t] k H; cbn in H; try discriminate.
  - injection H as ->. cbn [upd flat_map]. rewrite !cnt_app. lia.
  - cbn [upd flat_map]. rewrite !cnt_app. specialize (IH _ _ H). lia.
Qed.

(* ---- worker ranks and counts ------------------------------------------------------------ *)
Definition k_rank (k : kpc) : nat :=
  match k with KRecv => 6 | KConsume _ => 12 | KSend _ => 11 | KFin => 5 | KDone => 0 end.
Fixpoint ks_rank (l : list kpc) : nat := match l with [] => 0 | k :: r => k_rank k + ks_rank r end.
Definition f_rank (f : fpc) : nat := match f with FNext => 1 | FSend _ => 9 | FDone => 0 end.
Definition m_rank (m : ppc) : nat := match m with PRecv => 2 | PFeed _ => 3 | PDrop _ => 1 | PDone _ => 0 end.
Definition pl_measure (s : pl) : nat :=
  9 * length (p_input s) + f_rank (p_f s) + 7 * length (p_inq s) + ks_rank (p_k s)
  + 4 * length (p_outq s) + m_rank (p_m s).

Lemma ks_rank_upd k' : forall l t k, nth_error l t = Some k ->
  ks_rank (upd t k' l) + k_rank k = ks_rank l + k_rank k'.
Proof.
  induction l as [|y r IH]; intros [|t] k H; cbn in H; try discriminate.
  - injection H as ->. cbn. lia.
  - cbn [upd ks_rank]. specialize (IH _ _ H). lia.
Qed.

(* workers that can still start (or are just starting) an item without a free result slot *)
Definition is_recv (k : kpc) : nat := match k with KRecv | KConsume _ => 1 | _ => 0 end.
Fixpoint n_recv (l : list kpc) : nat := match l with [] => 0 | k :: r => is_recv k + n_recv r end.
Lemma n_recv_upd k' : forall l t k, nth_error l t = Some k ->
  n_recv (upd t k' l) + is_recv k = n_recv l + is_recv k'.
Proof.
  induction l as [|y r IH]; intros [|t] k H; cbn in H; try discriminate.
  - injection H as ->. cbn. lia.
  - cbn [upd n_recv]. specialize (IH _ _ H). lia.
Qed.
Lemma n_recv_le l : n_recv l <= length l.
Proof. induction l as [|k r IH]; cbn; [lia|]. destruct k; cbn; lia. Qed.

(* ---- one tactic to open a step ----------------------------------------------------------- *)
Ltac open_step Hs :=
  match type of Hs with
  | pl_step _ _ ?l = Some _ => destruct l as [|t| |]; cbn [pl_step] in Hs
  end.

Ltac split_ifs Hs :=
  repeat match type of Hs with
         | context [if ?c then _ else _] => destruct c eqn:?
         | context [match ?x with _ => _ end] => destruct x eqn:?
         end; try discriminate.

(* every step strictly decreases the measure: no schedule is infinite *)
Lemma L_pipe_measure rfails s l s' : pl_step rfails s l = Some s' -> pl_measure s' < pl_measure s.
Proof.
  intros Hs. open_step Hs.
  - unfold feeder_step in Hs. split_ifs Hs; injection Hs as <-; unfold pl_measure; cbn;
      rewrite ?app_length; cbn; try match goal with H : p_f s = _ |- _ => rewrite H end;
      try match goal with H : p_input s = _ |- _ => rewrite H end; cbn; lia.
  - destruct (nth_error (p_k s) t) as [k|] eqn:Hk; [|discriminate].
    unfold worker_step in Hs. split_ifs Hs; injection Hs as <-; unfold pl_measure, pl_set_k; cbn;
      match goal with |- context [upd t ?x _] => pose proof (ks_rank_upd x _ _ _ Hk) as HR end;
      cbn [k_rank] in HR; rewrite ?app_length; cbn;
      try match goal with H : p_inq s = _ |- _ => rewrite H end; cbn; lia.
  - unfold reducer_step in Hs. split_ifs Hs; injection Hs as <-; unfold pl_measure, pl_set_m; cbn;
      try match goal with H : p_m s = _ |- _ => rewrite H end;
      try match goal with H : p_outq s = _ |- _ => rewrite H end; cbn; lia.
  - unfold drop_step in Hs. split_ifs Hs; injection Hs as <-; unfold pl_measure, pl_set_m; cbn;
      try match goal with H : p_m s = _ |- _ => rewrite H end; cbn; lia.
Qed.

(* ---- conservation of items --------------------------------------------------------------- *)
Definition items_total (x : nat) (s : pl) : nat :=
  cnt x (p_started s) + cnt x (flat_map held_item (p_k s)) + cnt x (p_inq s) + cnt x (fsend (p_f s))
  + cnt x (p_input s).

(* an item is never duplicated; it can only be lost when a send fails (after the receiver is gone,
   or when the last worker has left) *)
Lemma items_step rfails s l s' x : pl_step rfails s l = Some s' -> items_total x s' <= items_total x s.
Proof.
  intros Hs. open_step Hs.
  - unfold feeder_step in Hs. split_ifs Hs; injection Hs as <-; unfold items_total; cbn;
      try match goal with H : p_f s = _ |- _ => rewrite H end;
      try match goal with H : p_input s = _ |- _ => rewrite H end;
      rewrite ?cnt_app, ?cnt_cons, ?cnt_nil; cbn [fsend]; rewrite ?cnt_cons, ?cnt_nil; lia.
  - destruct (nth_error (p_k s) t) as [k|] eqn:Hk; [|discriminate].
    unfold worker_step in Hs. split_ifs Hs; injection Hs as <-; unfold items_total, pl_set_k; cbn;
      match goal with |- context [upd t ?y _] => pose proof (cnt_flat_upd held_item x y _ _ _ Hk) as HR end;
      cbn [held_item] in HR;
      try match goal with H : p_inq s = _ |- _ => rewrite H end;
      rewrite ?cnt_app, ?cnt_cons, ?cnt_nil in *; lia.
  - unfold reducer_step in Hs. split_ifs Hs; injection Hs as <-; unfold items_total, pl_set_m; cbn; lia.
  - unfold drop_step in Hs. split_ifs Hs; injection Hs as <-; unfold items_total, pl_set_m; cbn; lia.
Qed.

Lemma L_pipe_at_most_once rfails with_fin threads input : forall sched x,
  cnt x (p_started (pl_exec rfails (pl_init with_fin threads input) sched)) <= cnt x input.
Proof.
  intros sched x.
  assert (H : forall sched s, items_total x (pl_exec rfails s sched) <= items_total x s).
  { induction sched0 as [|l r IH]; intros s; cbn [pl_exec]; [lia|].
    destruct (pl_step rfails s l) as [s1|] eqn:E; [|apply IH].
    pose proof (items_step _ _ _ _ x E). specialize (IH s1). lia. }
  specialize (H sched (pl_init with_fin threads input)).
  unfold items_total at 2 in H. cbn in H.
  assert (Hz : cnt x (flat_map held_item (repeat KRecv threads)) = 0).
  { clear. induction threads; cbn; auto. }
  rewrite Hz in H. unfold items_total in H. rewrite ?cnt_nil in H. lia.
Qed.

(* ---- stop early --------------------------------------------------------------------------- *)
Definition receiving (m : ppc) : bool := match m with PRecv | PFeed _ => true | _ => false end.
Definition stop_potential (s : pl) : nat := (p_cap s - length (p_outq s)) + n_recv (p_k s) + length (p_started s).

Lemma stop_step rfails s l s' : receiving (p_m s) = false -> pl_step rfails s l = Some s' ->
  receiving (p_m s') = false /\ stop_potential s' <= stop_potential s /\ p_cap s' = p_cap s
  /\ length (p_k s') = length (p_k s).
Proof.
  intros Hr Hs. open_step Hs.
  - unfold feeder_step in Hs. split_ifs Hs; injection Hs as <-; unfold stop_potential; cbn; auto.
  - destruct (nth_error (p_k s) t) as [k|] eqn:Hk; [|discriminate].
    unfold worker_step in Hs. split_ifs Hs; injection Hs as <-; unfold stop_potential, pl_set_k; cbn;
      (split; [exact Hr|]);
      match goal with |- context [upd t ?y _] => pose proof (n_recv_upd y _ _ _ Hk) as HR end;
      cbn [is_recv] in HR; rewrite ?app_length, ?upd_length; cbn;
      try match goal with H : (_ <? _) = true |- _ => apply Nat.ltb_lt in H end;
      (split; [lia | auto]).
  - unfold reducer_step in Hs. destruct (p_m s) eqn:Hm; try discriminate.
    + injection Hs as <-. cbn. unfold stop_potential. cbn. auto.
  - unfold drop_step in Hs. destruct (p_m s); discriminate.
Qed.

(* once the reducing side has stopped receiving, at most cap + #workers further items are started *)
Lemma L_pipe_stop_bound rfails : forall sched s, receiving (p_m s) = false ->
  length (p_started (pl_exec rfails s sched)) <= length (p_started s) + p_cap s + length (p_k s).
Proof.
  intros sched s Hr.
  assert (H : forall sched s, receiving (p_m s) = false -> stop_potential (pl_exec rfails s sched) <= stop_potential s).
  { induction sched0 as [|l r IH]; intros s0 Hr0; cbn [pl_exec]; [lia|].
    destruct (pl_step rfails s0 l) as [s1|] eqn:E; [|apply IH; exact Hr0].
    destruct (stop_step _ _ _ _ Hr0 E) as (A & B & _). specialize (IH _ A). lia. }
  specialize (H sched s Hr). unfold stop_potential in H.
  pose proof (n_recv_le (p_k s)). lia.
Qed.

(* ---- dropping terminates ------------------------------------------------------------------ *)
(* with the receiver gone nobody can block for ever: some thread can always move until all are done *)
Lemma L_pipe_progress_after_drop rfails s :
  p_rx s = false -> p_cap s = length (p_k s) ->
  (all_workers_done s && match p_f s with FDone => true | _ => false end) = false ->
  exists l s', (l = LFeed \/ exists t, l = LWork t) /\ pl_step rfails s l = Some s'.
Proof.
  intros Hrx Hcap Hnd.
  destruct (all_workers_done s) eqn:Hall.
  - (* only the feeder is left: its send fails or its input ends *)
    exists LFeed. cbn [pl_step]. unfold feeder_step. destruct (p_f s) eqn:Hf; cbn in Hnd; try discriminate.
    + destruct (p_input s); eauto.
    + rewrite Hall. eauto.
  - assert (exists t k, nth_error (p_k s) t = Some k /\ k_done k = false) as (t & k & Hk & Hd).
    { unfold all_workers_done in Hall. clear -Hall. induction (p_k s) as [|y r IH]; [discriminate|]. cbn in Hall.
      destruct (k_done y) eqn:Hy.
      - destruct (IH Hall) as (t & k & A & B). exists (S t), k. auto.
      - exists 0, y. auto. }
    destruct k; try discriminate.
    + (* waiting for input *)
      destruct (p_inq s) as [|x q] eqn:Hq.
      * destruct (p_f s) eqn:Hf.
        -- exists LFeed. cbn [pl_step]. unfold feeder_step. rewrite Hf. destruct (p_input s); eauto.
        -- exists LFeed. cbn [pl_step]. unfold feeder_step. rewrite Hf, Hall, Hq. cbn [length].
           assert (t < length (p_k s)) by (apply nth_error_Some; congruence).
           assert (0 < p_cap s) by lia.
           destruct (0 <? p_cap s) eqn:E; [eauto | apply Nat.ltb_ge in E; lia].
        -- exists (LWork t). cbn [pl_step]. rewrite Hk. unfold worker_step. rewrite Hq, Hf. eauto.
      * exists (LWork t). cbn [pl_step]. rewrite Hk. unfold worker_step. rewrite Hq. eauto.
    + exists (LWork t). cbn [pl_step]. rewrite Hk. unfold worker_step. eauto.
    + exists (LWork t). cbn [pl_step]. rewrite Hk. unfold worker_step. rewrite Hrx. cbn. eauto.
    + exists (LWork t). cbn [pl_step]. rewrite Hk. unfold worker_step. rewrite Hrx. cbn. eauto.
Qed.

Lemma pl_shape_step rfails s l s' : pl_step rfails s l = Some s' ->
  p_cap s' = p_cap s /\ length (p_k s') = length (p_k s) /\ (p_rx s = false -> p_rx s' = false).
Proof.
  intros Hs. open_step Hs.
  - unfold feeder_step in Hs. split_ifs Hs; injection Hs as <-; cbn; auto.
  - destruct (nth_error (p_k s) t) as [k|] eqn:Hk; [|discriminate].
    unfold worker_step in Hs. split_ifs Hs; injection Hs as <-; unfold pl_set_k; cbn; rewrite ?upd_length; auto.
  - unfold reducer_step in Hs. split_ifs Hs; injection Hs as <-; unfold pl_set_m; cbn; auto.
  - unfold drop_step in Hs. split_ifs Hs; injection Hs as <-; unfold pl_set_m; cbn; auto.
Qed.

Lemma L_pipe_shape_exec rfails : forall sched s,
  p_cap (pl_exec rfails s sched) = p_cap s /\ length (p_k (pl_exec rfails s sched)) = length (p_k s)
  /\ (p_rx s = false -> p_rx (pl_exec rfails s sched) = false).
Proof.
  induction sched as [|l r IH]; intros s; cbn [pl_exec]; [auto|].
  destruct (pl_step rfails s l) as [s1|] eqn:E; [|apply IH].
  destruct (pl_shape_step _ _ _ _ E) as (A & B & C). destruct (IH s1) as (A' & B' & C').
  split; [congruence|]. split; [congruence | auto].
Qed.
