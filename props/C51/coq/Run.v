(* C51 — transcript printer: the same observable line the Rust harness prints for a case.
   Cases:
     inorder   k1 v1 k2 v2 ...          arrivals; k = decimal sequence id, or "e" for Err(v)
     slice     n T fails sched          in_parallel_with_slice under a forced schedule (one label per
                                        byte of sched: b < T = worker b runs to its next consume
                                        call, 254 = periodic() returns Some, 255 = returns None)
     slicefree n T fails stop_after sched   the same helper under the OS schedule; only observables
                                        that do not depend on the schedule are printed; the model
                                        runs the fine-grained schedule given in sched
     pipe      variant n T rfail k sched    in_parallel (0) / in_parallel_with_finalize (1) /
                                        Stepwise + finalize (2) / Stepwise, k calls of next, drop (3)
     eager     n chunk_size in_flight take  EagerIter over 0..n *)
From Coq Require Import List Arith Bool NArith ZArith.
Import ListNotations.
From GixV.Base Require Import Bytes Outcome.
From GixV.C51 Require Import Model.

Definition dec (n : nat) : bytes := N_to_dec (N.of_nat n).
Definition fnat (i : nat) (fs : list bytes) : nat := N.to_nat (field_N i fs).

Fixpoint join_with (sep : bytes) (ls : list bytes) : bytes :=
  match ls with
  | [] => []
  | [x] => x
  | x :: r => x ++ sep ++ join_with sep r
  end.

(* ---- inorder ---------------------------------------------------------------------------- *)
Fixpoint parse_arrivals (fs : list bytes) : list arrival :=
  match fs with
  | k :: v :: r =>
      let vv := match dec_to_N v with Some x => x | None => 0%N end in
      (if bytes_eqb k (bs "e") then AErr vv
       else AOk (N.to_nat (match dec_to_N k with Some x => x | None => 0%N end)) vv) :: parse_arrivals r
  | _ => []
  end.

Definition show_yield (y : yield) : bytes :=
  match y with YOk _ v => N_to_dec v | YErr e => bs "e" ++ N_to_dec e end.

(* two more calls of next() after the first None *)
Fixpoint io_more (k : nat) (s : ios) (inner : list arrival) : list bytes :=
  match k with
  | O => []
  | S k' =>
      match io_next_call s inner with
      | NYield y s' r => show_yield y :: io_more k' s' r
      | NNone s' r => bs "." :: io_more k' s' r
      | NPanic => [bs "PANIC"]
      end
  end.

Definition run_inorder (fs : list bytes) : bytes :=
  let arr := parse_arrivals fs in
  let '(ys, e, s, rest) := io_run arr in
  join_with [sp] (map show_yield ys ++
    match e with
    | EEnd => bs "." :: io_more 2 s rest
    | EPanic => [bs "PANIC"]
    | EFuel => [bs "HANG"]
    end).

(* ---- slice, forced schedule ------------------------------------------------------------- *)
Definition in_list (l : list nat) (i : nat) : bool := existsb (Nat.eqb i) l.
Definition bytes_nats (b : bytes) : list nat := map (fun x => N.to_nat (b2N x)) b.

Definition at_gate_or_done (s : sl) (t : nat) : bool :=
  match nth_error (s_thr s) t with
  | Some th => match t_pc th with TConsume _ | TDone _ => true | _ => false end
  | None => true
  end.
Definition is_done_thr (s : sl) (t : nat) : bool :=
  match nth_error (s_thr s) t with Some th => thr_done th | None => true end.

(* worker t runs from the closure call it waits in to its next consume call (or to its end) *)
Fixpoint adv_thr (fails : nat -> bool) (fuel : nat) (s : sl) (t : nat) : sl :=
  match fuel with
  | O => s
  | S f =>
      match sl_step fails s (LThr t) with
      | None => s
      | Some s' => if at_gate_or_done s' t then s' else adv_thr fails f s' t
      end
  end.

Definition step_or_stay (fails : nat -> bool) (s : sl) (l : slabel) : sl :=
  match sl_step fails s l with Some s' => s' | None => s end.

Definition all_thr_done (s : sl) : bool := forallb thr_done (s_thr s).

Definition coarse_label (fails : nat -> bool) (s : sl) (b : nat) : sl :=
  if all_thr_done s then s
  else if b <? length (s_thr s) then
    (if is_done_thr s b then s else adv_thr fails 8 s b)
  else match s_w s with
       | WPeriodic =>
           if Nat.eqb b 254 then step_or_stay fails (step_or_stay fails s (LWatch true)) (LWatch true)
           else if Nat.eqb b 255 then
             match s_consumed s with
             | [] => step_or_stay fails (step_or_stay fails s (LWatch true)) (LWatch true)
             | _ :: _ => step_or_stay fails (step_or_stay fails s (LWatch false)) (LWatch false)
             end
           else s
       | _ => s
       end.

Fixpoint first_live (s : sl) (t : nat) (fuel : nat) : option nat :=
  match fuel with
  | O => None
  | S f => if is_done_thr s t then first_live s (S t) f else Some t
  end.

Fixpoint finish_thrs (fails : nat -> bool) (fuel : nat) (s : sl) : sl :=
  match fuel with
  | O => s
  | S f =>
      match first_live s 0 (length (s_thr s)) with
      | Some t => finish_thrs fails f (adv_thr fails 8 s t)
      | None => s
      end
  end.

Fixpoint repeat_label (fails : nat -> bool) (k : nat) (l : slabel) (s : sl) : sl :=
  match k with O => s | S k' => repeat_label fails k' l (step_or_stay fails s l) end.

Definition finish_all (fails : nat -> bool) (s : sl) : sl :=
  let threads := length (s_thr s) in
  let s1 := finish_thrs fails (3 * s_n s + 3 * threads + 10) s in
  let s2 := repeat_label fails (S (S threads)) LMain s1 in
  repeat_label fails 4 (LWatch true) s2.

Definition show_sres (r : mpc) : bytes :=
  match r with
  | MDone (SOk rs) => bs "ok " ++ join_with (bs ",") (map dec rs)
  | MDone (SErr e) => bs "err " ++ dec e
  | MJoin _ _ => bs "unfinished"
  end.

Definition show_log (l : list (nat * nat)) : bytes :=
  match l with
  | [] => bs "-"
  | _ => join_with (bs ",") (map (fun p => dec (fst p) ++ bs ":" ++ dec (snd p)) (rev l))
  end.

Definition run_slice (fs : list bytes) : bytes :=
  let n := fnat 1 fs in
  let threads := fnat 2 fs in
  let fl := bytes_nats (nth_field 3 fs) in
  let fails := in_list fl in
  let sched := bytes_nats (nth_field 4 fs) in
  let s0 := sl_init n threads in
  (* barrier: every worker has done its fetch_sub and waits in new_thread_state; the watcher waits in periodic *)
  let s1 := fold_left (fun s t => step_or_stay fails s (LThr t)) (seq 0 threads) s0 in
  let s2 := step_or_stay fails s1 (LWatch true) in
  let s3 := fold_left (coarse_label fails) sched s2 in
  let s4 := finish_all fails s3 in
  show_log (s_consumed s4) ++ bs " " ++ show_sres (s_m s4)
  ++ bs " term=" ++ bool_to_bytes (sl_terminated s4).

(* ---- slice, free schedule: schedule-independent observables ----------------------------- *)
Fixpoint count_occ_nat (l : list nat) (x : nat) : nat :=
  match l with [] => O | y :: r => (if Nat.eqb x y then 1 else 0) + count_occ_nat r x end.
Definition all_at_most_once (l : list nat) : bool := forallb (fun x => count_occ_nat l x <=? 1) l.
Definition all_exactly_once (n : nat) (l : list nat) : bool :=
  forallb (fun x => Nat.eqb (count_occ_nat l x) 1) (seq 0 n) && Nat.eqb (length l) n.

Definition fine_label (threads : nat) (interrupts : bool) (b : nat) : slabel :=
  if b <? 200 then LThr (b mod (Nat.max threads 1))
  else if b <? 240 then LMain
  else if b <? 255 then LWatch true
  else LWatch (negb interrupts).

Definition run_slicefree (fs : list bytes) : bytes :=
  let n := fnat 1 fs in
  let threads := fnat 2 fs in
  let fl := bytes_nats (nth_field 3 fs) in
  let fails := in_list fl in
  let stop_after := fnat 4 fs in
  let interrupts := negb (Nat.eqb stop_after 0) in
  let sched := map (fine_label threads interrupts) (bytes_nats (nth_field 5 fs)) in
  let s1 := sl_exec fails (sl_init n threads) sched in
  let s2 := finish_all fails s1 in
  let items := map snd (s_consumed s2) in
  let failing := existsb (fun i => i <? n) fl in
  bs "once=" ++ bool_to_bytes (all_at_most_once items)
  ++ bs " inrange=" ++ bool_to_bytes (forallb (fun i => i <? n) items)
  ++ bs " term=" ++ bool_to_bytes (sl_terminated s2)
  ++ (if interrupts then
        (if failing then bs " any"
         else match s_m s2 with MDone (SOk rs) => bs " ok " ++ dec (length rs) | _ => bs " err" end)
      else if failing then
        match s_m s2 with
        | MDone (SErr e) => bs " err infails=" ++ bool_to_bytes (fails e)
        | _ => bs " ok"
        end
      else
        match s_m s2 with
        | MDone (SOk rs) => bs " ok " ++ dec (length rs) ++ bs " sum=" ++ dec (fold_right Nat.add 0 rs)
                            ++ bs " all=" ++ bool_to_bytes (all_exactly_once n items)
        | _ => bs " err"
        end).

(* ---- pipe -------------------------------------------------------------------------------- *)
Definition pipe_label (threads : nat) (b : nat) : plabel :=
  if b <? 100 then LWork (b mod (Nat.max threads 1))
  else if b <? 150 then LFeed
  else LRed.

(* variant 3: the owner calls next() k times and then drops the iterator *)
Definition pipe_step (rfails : res -> bool) (variant k : nat) (s : pl) (l : plabel) : pl :=
  let l' := match l with
            | LRed =>
                match p_m s with
                | PRecv => if Nat.eqb variant 3 && (k <=? length (p_fed s)) then LDropNow else LRed
                | _ => LRed
                end
            | _ => l
            end in
  match pl_step rfails s l' with Some s' => s' | None => s end.

Fixpoint pipe_rounds (rfails : res -> bool) (variant k : nat) (fuel : nat) (s : pl) : pl :=
  match fuel with
  | O => s
  | S f =>
      if pl_terminated s then s
      else
        let labels := LRed :: LFeed :: map LWork (seq 0 (length (p_k s))) in
        pipe_rounds rfails variant k f (fold_left (pipe_step rfails variant k) labels s)
  end.

Definition res_item (r : res) : list nat := match r with RItem x => [x] | RFin _ => [] end.
Definition res_fin (r : res) : list nat := match r with RItem _ => [] | RFin t => [t] end.

Definition run_pipe (fs : list bytes) : bytes :=
  let variant := fnat 1 fs in
  let n := fnat 2 fs in
  let threads := fnat 3 fs in
  let rf := nth_field 4 fs in
  let rfails := fun r => match r, dec_to_N rf with
                         | RItem x, Some f => Nat.eqb x (N.to_nat f)
                         | _, _ => false
                         end in
  let k := fnat 5 fs in
  let sched := map (pipe_label threads) (bytes_nats (nth_field 6 fs)) in
  let s0 := pl_init (Nat.eqb variant 1) threads (seq 0 n) in
  let s1 := fold_left (pipe_step rfails variant k) sched s0 in
  let s2 := pipe_rounds rfails variant k (10 * n + 10 * threads + 40) s1 in
  let started := p_started s2 in
  let fed_items := flat_map res_item (p_fed s2) in
  let fed_fins := flat_map res_fin (p_fed s2) in
  bs "once=" ++ bool_to_bytes (all_at_most_once started)
  ++ bs " term=" ++ bool_to_bytes (pl_terminated s2)
  ++ match p_m s2 with
     | PDone POk => bs " ok items=" ++ dec (length fed_items) ++ bs " fins=" ++ dec (length fed_fins)
                    ++ bs " all=" ++ bool_to_bytes (all_exactly_once n fed_items && all_exactly_once n started)
     | PDone (PErr (RItem x)) => bs " err " ++ dec x
     | PDone (PErr (RFin _)) => bs " err fin"
     | PDone PDropped => bs " dropped fed=" ++ dec (length (p_fed s2))
     | _ => bs " unfinished"
     end.

(* ---- eager ------------------------------------------------------------------------------- *)
Definition run_eager (fs : list bytes) : bytes :=
  let n := fnat 1 fs in
  let cs := fnat 2 fs in
  let take := fnat 4 fs in
  if Nat.eqb cs 0 then bs "PANIC" else
  match firstn take (eager_items cs (seq 0 n)) with
  | [] => bs "-"
  | l => join_with (bs ",") (map dec l)
  end.

Definition run_model (fs : list bytes) : bytes :=
  let op := nth_field 0 fs in
  if bytes_eqb op (bs "inorder") then run_inorder (tl fs)
  else if bytes_eqb op (bs "slice") then run_slice fs
  else if bytes_eqb op (bs "slicefree") then run_slicefree fs
  else if bytes_eqb op (bs "pipe") then run_pipe fs
  else if bytes_eqb op (bs "eager") then run_eager fs
  (* slicerace n T rounds: a stress family judged by the harness' prop() only (see NOTES.md) *)
  else if bytes_eqb op (bs "slicerace") then bs "race"

  else bs "?".

Definition run (fs : list bytes) : bytes :=
  match fs with
  | _mode :: rest => run_model rest
  | [] => bs "?"
  end.
