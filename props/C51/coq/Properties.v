(* C51 — Parallel helpers process every item exactly once.
   Only statements here; every proof is [exact <lemma of Proofs*.v>].
   Models (Model.v): InOrderIter (sequential, exact); in_parallel_with_slice, in_parallel /
   in_parallel_with_finalize / Stepwise as interleaving semantics ([sl_step], [pl_step]: one
   transition per atomic action of one thread; a schedule is an arbitrary list of labels and
   [sl_exec]/[pl_exec] run it, skipping labels whose actor cannot move).  All theorems about the
   concurrent helpers quantify over EVERY schedule, every number of threads and every input size. *)
From Coq Require Import List Arith Bool NArith ZArith Permutation.
Import ListNotations.
From GixV.Base Require Import Bytes Outcome.
From GixV.C51 Require Import Model ProofsOrder ProofsSlice ProofsPipe ProofsPipeAll.

(* ============================ the order-restoring iterator ================================ *)

(* for EVERY arrival order of the sequence ids 0..n-1 the iterator yields the n values in sequence
   order, then None, with an empty buffer; it never panics and never needs more than the given fuel *)
Theorem in_order_yields_sequence : forall n (val : nat -> N) (arrivals : list nat),
  Permutation arrivals (seq 0 n) ->
  io_run (map (fun i => AOk i (val i)) arrivals)
  = (map (fun i => YOk i (val i)) (seq 0 n), EEnd, mk_ios [] n false, []).
Proof. exact L_in_order_yields_sequence. Qed.

(* ... and once it returned None it keeps returning None *)
Theorem in_order_end_is_final : forall n,
  io_next_call (mk_ios [] n false) [] = NNone (mk_ios [] n false) [].
Proof. exact L_in_order_end_is_final. Qed.

(* for ANY input whatsoever (duplicates, holes, errors): the k-th value that comes out arrived with
   sequence id k; an error is the last thing that comes out; the loop terminates *)
Theorem in_order_any_arrivals_safe : forall arrivals ys e s r k,
  io_run arrivals = (ys, e, s, r) ->
  (forall c v, nth_error ys k = Some (YOk c v) -> c = k /\ In (AOk k v) arrivals) /\
  (forall x, nth_error ys k = Some (YErr x) -> S k = length ys /\ In (AErr x) arrivals) /\
  e <> EFuel.
Proof. exact L_in_order_safe. Qed.

Example in_order_example :
  io_run [AOk 2 12; AOk 0 10; AOk 1 11] = ([YOk 0 10; YOk 1 11; YOk 2 12], EEnd, mk_ios [] 3 false, [])%N
  /\ Permutation [2; 0; 1] (seq 0 3).
Proof.
  split; [reflexivity|].
  apply perm_trans with [0; 2; 1]; [apply perm_swap | apply perm_skip, perm_swap].
Qed.

(* EagerIter: cutting into chunks and flattening again yields the input, in order; no chunk is
   empty or longer than chunk_size *)
Theorem eager_yields_input_in_order : forall chunk_size items, eager_items chunk_size items = items.
Proof. exact L_eager_items. Qed.
Theorem eager_chunk_sizes : forall chunk_size items, 0 < chunk_size ->
  Forall (fun c => 0 < length c <= chunk_size) (eager_chunks chunk_size [] items).
Proof. exact L_eager_chunk_sizes. Qed.

(* ============================ in_parallel_with_slice ====================================== *)

(* any threads, any schedule: the claimed indices are exactly 0..index-1, each claimed once, never
   beyond the slice; consume is called at most once per index and only on claimed indices *)
Theorem slice_each_index_claimed_once : forall fails n threads sched,
  let s := sl_exec fails (sl_init n threads) sched in
  NoDup (map snd (s_claims s)) /\ map snd (s_claims s) = rev (seq 0 (s_index s)) /\ s_index s <= n /\
  NoDup (map snd (s_consumed s)) /\
  forall t i, In (t, i) (s_consumed s) -> i < n /\ In (t, i) (s_claims s).
Proof. exact L_each_index_claimed_once. Qed.

(* if the call returned Ok and periodic() never asked to stop, every index 0..n-1 was consumed
   exactly once, no consumed item failed, and there is one result per thread *)
Theorem slice_all_consumed_on_success : forall fails n threads sched rs,
  let s := sl_exec fails (sl_init n threads) sched in
  0 < threads -> s_m s = MDone (SOk rs) -> s_interrupted s = false ->
  Permutation (map snd (s_consumed s)) (seq 0 n) /\ length rs = threads /\
  (forall t i, In (t, i) (s_consumed s) -> fails i = false).
Proof. exact L_all_consumed_on_success. Qed.

(* an Err result is the error of an item that was consumed and did fail; whenever the joining thread
   is done the stop flag is set (so the watcher can leave) *)
Theorem slice_result_sound : forall fails n threads sched,
  let s := sl_exec fails (sl_init n threads) sched in
  (forall e, s_m s = MDone (SErr e) -> fails e = true /\ exists t, In (t, e) (s_consumed s)) /\
  (forall r, s_m s = MDone r -> s_stop s = true).
Proof. exact L_result_sound. Qed.

(* stop early: from ANY state in which stop_everything is set, whatever happens next, the only items
   still consumed are those a worker had already passed its stop check for (at most one per worker) *)
Theorem slice_stop_no_new_items : forall fails sched s, s_stop s = true ->
  let s' := sl_exec fails s sched in
  s_stop s' = true /\
  forall t i, In (t, i) (s_consumed s') -> In (t, i) (s_consumed s) \/ holdsC (s_thr s) t i.
Proof. exact L_stop_no_new_items. Qed.

(* no deadlock: while anything is unfinished some thread can move ... *)
Theorem slice_no_deadlock : forall fails s, sl_terminated s = false -> exists l s', sl_step fails s l = Some s'.
Proof. exact L_progress. Qed.
(* ... every move of a worker or of the joining thread decreases a natural-number measure, the
   watcher's moves do not change it ... *)
Theorem slice_measure_decreases : forall fails s l s', sl_step fails s l = Some s' ->
  match l with
  | LWatch _ => sl_measure s' = sl_measure s
  | _ => sl_measure s' < sl_measure s
  end.
Proof. exact L_measure_step. Qed.
(* ... and once stop is set the watcher is gone after at most three of its own moves *)
Theorem slice_watcher_leaves : forall fails s b s', s_stop s = true -> sl_step fails s (LWatch b) = Some s' ->
  w_rank (s_w s') < w_rank (s_w s) /\ s_stop s' = true.
Proof. exact L_watcher_leaves. Qed.

Example slice_example :
  let s := sl_exec (fun _ => false) (sl_init 2 2)
             [LThr 0; LThr 1; LThr 1; LThr 0; LThr 1; LThr 0; LThr 1; LThr 0; LThr 1; LThr 0; LThr 1; LThr 0;
              LThr 0; LThr 1; LThr 0; LThr 1; LMain; LMain; LMain; LWatch true] in
  s_m s = MDone (SOk [1; 1]) /\ s_interrupted s = false /\ sl_terminated s = true /\
  map snd (s_consumed s) = [1; 0].
Proof. vm_compute. repeat split. Qed.

(* ============================ in_parallel / with_finalize / Stepwise ======================= *)

(* any threads, any schedule, with or without finalize, whether or not the reducer fails or the
   iterator is dropped: consume is never called more often on a value than it occurs in the input *)
Theorem pipe_item_at_most_once : forall rfails with_fin threads input sched x,
  cnt x (p_started (pl_exec rfails (pl_init with_fin threads input) sched)) <= cnt x input.
Proof. exact L_pipe_at_most_once. Qed.

(* stop early: from ANY state in which the reducing side no longer receives (its feed failed, or
   the Stepwise is being dropped), at most capacity + #workers (= 2 * num_threads) further items
   are ever started, under every schedule *)
Theorem pipe_stop_bound : forall rfails sched s, receiving (p_m s) = false ->
  length (p_started (pl_exec rfails s sched)) <= length (p_started s) + p_cap s + length (p_k s).
Proof. exact L_pipe_stop_bound. Qed.

(* dropping terminates: every step decreases a natural-number measure (no infinite schedule) ... *)
Theorem pipe_measure_decreases : forall rfails s l s', pl_step rfails s l = Some s' -> pl_measure s' < pl_measure s.
Proof. exact L_pipe_measure. Qed.
(* ... and with the receiver gone, some worker or the feeder can move until all of them are done
   (no thread stays blocked on a channel) *)
Theorem pipe_drop_terminates_progress : forall rfails s,
  p_rx s = false -> p_cap s = length (p_k s) ->
  (all_workers_done s && match p_f s with FDone => true | _ => false end) = false ->
  exists l s', (l = LFeed \/ exists t, l = LWork t) /\ pl_step rfails s l = Some s'.
Proof. exact L_pipe_progress_after_drop. Qed.
(* (capacity = number of workers and "receiver gone" are preserved by every schedule) *)
Theorem pipe_shape_preserved : forall rfails sched s,
  p_cap (pl_exec rfails s sched) = p_cap s /\ length (p_k (pl_exec rfails s sched)) = length (p_k s)
  /\ (p_rx s = false -> p_rx (pl_exec rfails s sched) = false).
Proof. exact L_pipe_shape_exec. Qed.

(* on success (the reducer got everything and finalize ran) every input item was consumed exactly
   once, the item results fed to the reducer are exactly the inputs, and every thread has finished;
   any number (>= 1) of threads, any schedule, with or without finalize *)
Theorem pipe_all_delivered_on_success : forall rfails with_fin threads input sched,
  0 < threads ->
  let s := pl_exec rfails (pl_init with_fin threads input) sched in
  p_m s = PDone POk ->
  Permutation (p_started s) input /\ Permutation (res_items (p_fed s)) input /\ pl_terminated s = true.
Proof. exact L_pipe_all_delivered. Qed.

Example pipe_example :
  let s := pl_exec (fun _ => false) (pl_init false 1 [7; 8])
             [LFeed; LFeed; LWork 0; LWork 0; LWork 0; LRed; LRed; LFeed; LFeed; LFeed; LWork 0; LWork 0; LWork 0;
              LWork 0; LRed; LRed; LRed; LRed] in
  p_m s = PDone POk /\ p_fed s = [RItem 8; RItem 7] /\ pl_terminated s = true.
Proof. vm_compute. repeat split. Qed.
