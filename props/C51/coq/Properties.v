From GixV.Base Require Import Bytes Outcome.
From GixV.C51 Require Import Model.
Example placeholder : True. Proof. exact I. Qed.
