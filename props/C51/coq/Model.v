(* C51 — executable models of gix-features/src/parallel.  NO proofs here.

   Part 1  InOrderIter            (in_order.rs)      — sequential, exact (panics included)
   Part 2  in_parallel_with_slice (in_parallel.rs)   — interleaving semantics, one transition per
                                                       atomic action of a thread
   Part 3  in_parallel / in_parallel_with_finalize / reduce::Stepwise
                                  (in_parallel.rs, reduce.rs) — interleaving semantics over two
                                                       bounded FIFO channels
   Part 4  EagerIter              (eager_iter.rs)    — the chunking producer and flattening consumer

   Concurrency is modelled as [step : state -> label -> option state]: a label names the actor that
   performs its next atomic action; [None] means that actor cannot move (finished, or blocked on a
   channel / join).  A schedule is a list of labels; [exec] skips labels that are not enabled.  The
   theorems quantify over all schedules. *)
From Coq Require Import List Arith Bool NArith ZArith.
Import ListNotations.
From GixV.Base Require Import Bytes Outcome.

(* ------------------------------------------------------------------------------------------ *)
(* shared list helpers                                                                         *)

Fixpoint upd {A} (i : nat) (x : A) (l : list A) : list A :=
  match l, i with
  | [], _ => []
  | _ :: r, O => x :: r
  | y :: r, S i' => y :: upd i' x r
  end.

(* ========================================================================================== *)
(* Part 1: InOrderIter                                                                         *)

(* what the inner iterator hands out: Ok((sequence_id, value)) or Err(e) *)
Inductive arrival := AOk (c : nat) (v : N) | AErr (e : N).
(* what InOrderIter::next returns in Some(..); the sequence id in [YOk] is a ghost (not printed) *)
Inductive yield := YOk (c : nat) (v : N) | YErr (e : N).

(* BTreeMap<SequenceId, T> as an association list with unique keys *)
Fixpoint st_remove (k : nat) (m : list (nat * N)) : option N * list (nat * N) :=
  match m with
  | [] => (None, [])
  | (k', v) :: r =>
      if Nat.eqb k k' then (Some v, r)
      else let '(o, r') := st_remove k r in (o, (k', v) :: r')
  end.
(* insert returns the previous value *)
Definition st_insert (k : nat) (v : N) (m : list (nat * N)) : option N * list (nat * N) :=
  let '(o, m') := st_remove k m in (o, (k, v) :: m').

Record ios := mk_ios { io_store : list (nat * N); io_next : nat; io_done : bool }.
Definition ios_init : ios := mk_ios [] 0 false.

Inductive nres :=
| NYield (y : yield) (s : ios) (rest : list arrival)     (* Some(..) *)
| NNone (s : ios) (rest : list arrival)                  (* None *)
| NPanic.                                                (* unreachable!/assert!/debug_assert! *)

(* the 'find_next_in_sequence loop; one inner.next() per iteration *)
Fixpoint next_loop (st : list (nat * N)) (nx : nat) (inner : list arrival) : nres :=
  match inner with
  | [] =>
      match st_remove nx st with
      | (Some v, st') => NYield (YOk nx v) (mk_ios st' (S nx) false) []
      | (None, _) =>
          match st with
          | [] => NNone (mk_ios st nx false) []
          | _ :: _ => NPanic                  (* debug_assert!(self.store.is_empty()) *)
          end
      end
  | AOk c v :: rest =>
      match Nat.compare c nx with
      | Eq => NYield (YOk nx v) (mk_ios st (S nx) false) rest
      | Lt => NPanic                          (* unreachable!("... never see keys again") *)
      | Gt =>
          match st_insert c v st with
          | (Some _, _) => NPanic             (* assert!(previous.is_none()) *)
          | (None, st1) =>
              match st_remove nx st1 with
              | (Some v', st2) => NYield (YOk nx v') (mk_ios st2 (S nx) false) rest
              | (None, _) => next_loop st1 nx rest
              end
          end
      end
  | AErr e :: rest => NYield (YErr e) (mk_ios [] nx true) rest
  end.

Definition io_next_call (s : ios) (inner : list arrival) : nres :=
  if io_done s then NNone s inner else next_loop (io_store s) (io_next s) inner.

Inductive ending := EEnd | EPanic | EFuel.

(* call next() until it returns None (or panics); yields in order *)
Fixpoint io_collect (fuel : nat) (s : ios) (inner : list arrival) : list yield * ending * ios * list arrival :=
  match fuel with
  | O => ([], EFuel, s, inner)
  | S f =>
      match io_next_call s inner with
      | NYield y s' rest =>
          let '(ys, e, s2, r2) := io_collect f s' rest in (y :: ys, e, s2, r2)
      | NNone s' rest => ([], EEnd, s', rest)
      | NPanic => ([], EPanic, s, inner)
      end
  end.

Definition io_fuel (inner : list arrival) : nat := S (S (2 * length inner)).
Definition io_run (inner : list arrival) := io_collect (io_fuel inner) ios_init inner.

(* ========================================================================================== *)
(* Part 2: in_parallel_with_slice                                                              *)

Inductive tres := ROk (cnt : nat) | RErr (item : nat).
Inductive tpc :=
| TStart                 (* before threads_left.fetch_sub(1) *)
| TClaim                 (* before index.fetch_update(|x| (x < len).then_some(x + 1)) *)
| TCheck (i : nat)       (* claimed i; before stop_everything.load() *)
| TConsume (i : nat)     (* before consume(&mut input[i], ..) *)
| TFail (i : nat)        (* consume returned Err; before stop_everything.store(true) *)
| TLeave (r : tres)      (* before threads_left.fetch_add(1) *)
| TDone (r : tres).
Record thr := mk_thr { t_pc : tpc; t_cnt : nat }.

Inductive wpc := WLoad | WPeriodic | WStore | WDone.        (* the watch-interrupts thread *)
Inductive sres := SOk (rs : list nat) | SErr (item : nat).
Inductive mpc := MJoin (k : nat) (acc : list nat) | MDone (r : sres).

Record sl := mk_sl {
  s_n : nat;                       (* input.len() *)
  s_index : nat;                   (* AtomicUsize index *)
  s_stop : bool;                   (* AtomicBool stop_everything *)
  s_left : Z;                      (* AtomicIsize threads_left *)
  s_thr : list thr;
  s_w : wpc;
  s_m : mpc;
  s_claims : list (nat * nat);     (* ghost: (thread, index) in claim order, newest first *)
  s_consumed : list (nat * nat);   (* ghost: (thread, index) for which consume was called, newest first *)
  s_interrupted : bool             (* ghost: periodic() returned None and the watcher stored stop *)
}.

Definition sl_init (n threads : nat) : sl :=
  mk_sl n 0 false (Z.of_nat threads) (repeat (mk_thr TStart 0) threads) WLoad (MJoin 0 []) [] [] false.

Inductive slabel := LThr (t : nat) | LWatch (some : bool) | LMain.

Definition sl_set_thr (s : sl) (t : nat) (th : thr) : sl :=
  mk_sl (s_n s) (s_index s) (s_stop s) (s_left s) (upd t th (s_thr s)) (s_w s) (s_m s)
        (s_claims s) (s_consumed s) (s_interrupted s).

Definition thr_step (fails : nat -> bool) (s : sl) (t : nat) (th : thr) : option sl :=
  match t_pc th with
  | TStart =>
      Some (mk_sl (s_n s) (s_index s) (s_stop s) (s_left s - 1) (upd t (mk_thr TClaim (t_cnt th)) (s_thr s))
                  (s_w s) (s_m s) (s_claims s) (s_consumed s) (s_interrupted s))
  | TClaim =>
      if s_index s <? s_n s then
        Some (mk_sl (s_n s) (S (s_index s)) (s_stop s) (s_left s)
                    (upd t (mk_thr (TCheck (s_index s)) (t_cnt th)) (s_thr s))
                    (s_w s) (s_m s) ((t, s_index s) :: s_claims s) (s_consumed s) (s_interrupted s))
      else Some (sl_set_thr s t (mk_thr (TLeave (ROk (t_cnt th))) (t_cnt th)))
  | TCheck i =>
      if s_stop s then Some (sl_set_thr s t (mk_thr (TLeave (ROk (t_cnt th))) (t_cnt th)))
      else Some (sl_set_thr s t (mk_thr (TConsume i) (t_cnt th)))
  | TConsume i =>
      let th' := if fails i then mk_thr (TFail i) (t_cnt th) else mk_thr TClaim (S (t_cnt th)) in
      Some (mk_sl (s_n s) (s_index s) (s_stop s) (s_left s) (upd t th' (s_thr s))
                  (s_w s) (s_m s) (s_claims s) ((t, i) :: s_consumed s) (s_interrupted s))
  | TFail i =>
      Some (mk_sl (s_n s) (s_index s) true (s_left s) (upd t (mk_thr (TLeave (RErr i)) (t_cnt th)) (s_thr s))
                  (s_w s) (s_m s) (s_claims s) (s_consumed s) (s_interrupted s))
  | TLeave r =>
      Some (mk_sl (s_n s) (s_index s) (s_stop s) (s_left s + 1) (upd t (mk_thr (TDone r) (t_cnt th)) (s_thr s))
                  (s_w s) (s_m s) (s_claims s) (s_consumed s) (s_interrupted s))
  | TDone _ => None
  end.

Definition sl_set_w (s : sl) (w : wpc) : sl :=
  mk_sl (s_n s) (s_index s) (s_stop s) (s_left s) (s_thr s) w (s_m s)
        (s_claims s) (s_consumed s) (s_interrupted s).

Definition watch_step (s : sl) (some : bool) : option sl :=
  match s_w s with
  | WLoad => Some (sl_set_w s (if s_stop s then WDone else WPeriodic))
  | WPeriodic => Some (sl_set_w s (if some then WLoad else WStore))   (* Some(d) => sleep(d) *)
  | WStore =>
      Some (mk_sl (s_n s) (s_index s) true (s_left s) (s_thr s) WDone (s_m s)
                  (s_claims s) (s_consumed s) true)
  | WDone => None
  end.

Definition sl_set_m (s : sl) (m : mpc) : sl :=
  mk_sl (s_n s) (s_index s) (s_stop s) (s_left s) (s_thr s) (s_w s) m
        (s_claims s) (s_consumed s) (s_interrupted s).

(* the spawning thread: joins the workers in order, `results.push(res?)`, then stores stop *)
Definition main_step (s : sl) : option sl :=
  match s_m s with
  | MJoin k acc =>
      if k <? length (s_thr s) then
        match nth_error (s_thr s) k with
        | Some th =>
            match t_pc th with
            | TDone (ROk c) => Some (sl_set_m s (MJoin (S k) (c :: acc)))
            | TDone (RErr e) => Some (sl_set_m s (MDone (SErr e)))
            | _ => None                                   (* join blocks *)
            end
        | None => None
        end
      else
        Some (mk_sl (s_n s) (s_index s) true (s_left s) (s_thr s) (s_w s) (MDone (SOk (rev acc)))
                    (s_claims s) (s_consumed s) (s_interrupted s))
  | MDone _ => None
  end.

Definition sl_step (fails : nat -> bool) (s : sl) (l : slabel) : option sl :=
  match l with
  | LThr t => match nth_error (s_thr s) t with Some th => thr_step fails s t th | None => None end
  | LWatch b => watch_step s b
  | LMain => main_step s
  end.

Fixpoint sl_exec (fails : nat -> bool) (s : sl) (sched : list slabel) : sl :=
  match sched with
  | [] => s
  | l :: r => match sl_step fails s l with Some s' => sl_exec fails s' r | None => sl_exec fails s r end
  end.

Definition thr_done (th : thr) : bool := match t_pc th with TDone _ => true | _ => false end.
Definition sl_terminated (s : sl) : bool :=
  forallb thr_done (s_thr s)
  && match s_w s with WDone => true | _ => false end
  && match s_m s with MDone _ => true | _ => false end.

(* ========================================================================================== *)
(* Part 3: in_parallel / in_parallel_with_finalize / Stepwise                                  *)

(* what travels on the result channel: consume's output for item x, or finalize(state) of worker t *)
Inductive res := RItem (x : nat) | RFin (t : nat).

Inductive fpc := FNext | FSend (x : nat) | FDone.                       (* the feeder thread *)
Inductive kpc := KRecv | KConsume (x : nat) | KSend (r : res) | KFin | KDone.   (* a worker *)
Inductive pres := POk | PErr (r : res) | PDropped.
Inductive ppc := PRecv | PFeed (r : res) | PDrop (o : pres) | PDone (o : pres).  (* the reducing thread *)

Record pl := mk_pl {
  p_cap : nat;                 (* both channels are bounded(num_threads) *)
  p_fin : bool;                (* in_parallel_with_finalize *)
  p_input : list nat;          (* what the input iterator has not produced yet *)
  p_inq : list nat;            (* input channel, head = oldest *)
  p_outq : list res;           (* result channel, head = oldest *)
  p_f : fpc;
  p_k : list kpc;
  p_m : ppc;
  p_rx : bool;                 (* receive_result still alive *)
  p_fed : list res;            (* ghost: what reducer.feed accepted, newest first *)
  p_started : list nat         (* ghost: items for which consume was called, newest first *)
}.

Definition pl_init (with_fin : bool) (threads : nat) (input : list nat) : pl :=
  mk_pl threads with_fin input [] [] FNext (repeat KRecv threads) PRecv true [] [].

Definition k_done (k : kpc) : bool := match k with KDone => true | _ => false end.
Definition all_workers_done (s : pl) : bool := forallb k_done (p_k s).

Inductive plabel := LFeed | LWork (t : nat) | LRed | LDropNow.

Definition feeder_step (s : pl) : option pl :=
  match p_f s with
  | FNext =>
      match p_input s with
      | [] => Some (mk_pl (p_cap s) (p_fin s) [] (p_inq s) (p_outq s) FDone (p_k s) (p_m s) (p_rx s) (p_fed s) (p_started s))
      | x :: rest => Some (mk_pl (p_cap s) (p_fin s) rest (p_inq s) (p_outq s) (FSend x) (p_k s) (p_m s) (p_rx s) (p_fed s) (p_started s))
      end
  | FSend x =>
      if all_workers_done s then       (* every receive_input clone dropped: send fails, break *)
        Some (mk_pl (p_cap s) (p_fin s) (p_input s) (p_inq s) (p_outq s) FDone (p_k s) (p_m s) (p_rx s) (p_fed s) (p_started s))
      else if length (p_inq s) <? p_cap s then
        Some (mk_pl (p_cap s) (p_fin s) (p_input s) (p_inq s ++ [x]) (p_outq s) FNext (p_k s) (p_m s) (p_rx s) (p_fed s) (p_started s))
      else None                          (* channel full: blocked *)
  | FDone => None
  end.

Definition pl_set_k (s : pl) (t : nat) (k : kpc) : pl :=
  mk_pl (p_cap s) (p_fin s) (p_input s) (p_inq s) (p_outq s) (p_f s) (upd t k (p_k s)) (p_m s) (p_rx s) (p_fed s) (p_started s).

Definition worker_step (s : pl) (t : nat) (k : kpc) : option pl :=
  match k with
  | KRecv =>
      match p_inq s with
      | x :: q => Some (mk_pl (p_cap s) (p_fin s) (p_input s) q (p_outq s) (p_f s) (upd t (KConsume x) (p_k s)) (p_m s) (p_rx s) (p_fed s) (p_started s))
      | [] =>
          match p_f s with
          | FDone => Some (pl_set_k s t (if p_fin s then KFin else KDone))     (* disconnected and empty *)
          | _ => None                                                        (* blocked *)
          end
      end
  | KConsume x =>
      Some (mk_pl (p_cap s) (p_fin s) (p_input s) (p_inq s) (p_outq s) (p_f s) (upd t (KSend (RItem x)) (p_k s)) (p_m s) (p_rx s) (p_fed s) (x :: p_started s))
  | KSend r =>
      if negb (p_rx s) then Some (pl_set_k s t KDone)                          (* send fails: break, no finalize *)
      else if length (p_outq s) <? p_cap s then
        Some (mk_pl (p_cap s) (p_fin s) (p_input s) (p_inq s) (p_outq s ++ [r]) (p_f s) (upd t KRecv (p_k s)) (p_m s) (p_rx s) (p_fed s) (p_started s))
      else None
  | KFin =>                                                                    (* send_result.send(finalize(state)).ok() *)
      if negb (p_rx s) then Some (pl_set_k s t KDone)
      else if length (p_outq s) <? p_cap s then
        Some (mk_pl (p_cap s) (p_fin s) (p_input s) (p_inq s) (p_outq s ++ [RFin t]) (p_f s) (upd t KDone (p_k s)) (p_m s) (p_rx s) (p_fed s) (p_started s))
      else None
  | KDone => None
  end.

Definition pl_set_m (s : pl) (m : ppc) : pl :=
  mk_pl (p_cap s) (p_fin s) (p_input s) (p_inq s) (p_outq s) (p_f s) (p_k s) m (p_rx s) (p_fed s) (p_started s).

(* [rfails r]: reducer.feed(r) returns Err *)
Definition reducer_step (rfails : res -> bool) (s : pl) : option pl :=
  match p_m s with
  | PRecv =>
      match p_outq s with
      | r :: q => Some (mk_pl (p_cap s) (p_fin s) (p_input s) (p_inq s) q (p_f s) (p_k s) (PFeed r) (p_rx s) (p_fed s) (p_started s))
      | [] => if all_workers_done s then Some (pl_set_m s (PDrop POk)) else None
      end
  | PFeed r =>
      if rfails r then Some (pl_set_m s (PDrop (PErr r)))
      else Some (mk_pl (p_cap s) (p_fin s) (p_input s) (p_inq s) (p_outq s) (p_f s) (p_k s) PRecv (p_rx s) (r :: p_fed s) (p_started s))
  | PDrop o =>                          (* the receiver goes out of scope *)
      Some (mk_pl (p_cap s) (p_fin s) (p_input s) (p_inq s) (p_outq s) (p_f s) (p_k s) (PDone o) false (p_fed s) (p_started s))
  | PDone _ => None
  end.

(* Stepwise only: the owner drops the iterator while it is not inside next() *)
Definition drop_step (s : pl) : option pl :=
  match p_m s with
  | PRecv => Some (pl_set_m s (PDrop PDropped))
  | _ => None
  end.

Definition pl_step (rfails : res -> bool) (s : pl) (l : plabel) : option pl :=
  match l with
  | LFeed => feeder_step s
  | LWork t => match nth_error (p_k s) t with Some k => worker_step s t k | None => None end
  | LRed => reducer_step rfails s
  | LDropNow => drop_step s
  end.

Fixpoint pl_exec (rfails : res -> bool) (s : pl) (sched : list plabel) : pl :=
  match sched with
  | [] => s
  | l :: r => match pl_step rfails s l with Some s' => pl_exec rfails s' r | None => pl_exec rfails s r end
  end.

Definition pl_terminated (s : pl) : bool :=
  all_workers_done s
  && match p_f s with FDone => true | _ => false end
  && match p_m s with PDone _ => true | _ => false end.

(* ========================================================================================== *)
(* Part 4: EagerIter                                                                           *)

(* the producer thread: push items, send a chunk whenever out.len() == chunk_size, send the rest
   if non-empty.  [cur] is `out` in reverse. *)
Fixpoint eager_chunks (chunk_size : nat) (cur : list nat) (items : list nat) : list (list nat) :=
  match items with
  | [] => match cur with [] => [] | _ => [rev cur] end
  | x :: r =>
      let cur' := x :: cur in
      if Nat.eqb (length cur') chunk_size then rev cur' :: eager_chunks chunk_size [] r
      else eager_chunks chunk_size cur' r
  end.
(* the consumer: next() walks the current chunk, then receives the next one *)
Definition eager_items (chunk_size : nat) (items : list nat) : list nat :=
  concat (eager_chunks chunk_size [] items).
