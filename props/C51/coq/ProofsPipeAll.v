(* C51 — the pipelines deliver everything on success (Model.v part 3). *)
From Coq Require Import List Arith Bool NArith Lia Permutation.
Import ListNotations.
From GixV.Base Require Import Bytes Outcome.
From GixV.C51 Require Import Model ProofsSlice ProofsPipe.

Arguments res_items : simpl never.
Lemma res_items_cons r q : res_items (r :: q) = match r with RItem x => [x] | RFin _ => [] end ++ res_items q.
Proof. reflexivity. Qed.
Lemma res_items_nil : res_items [] = [].
Proof. reflexivity. Qed.

Definition results_total (x : nat) (s : pl) : nat :=
  cnt x (res_items (p_fed s)) + cnt x (mfeed (p_m s)) + cnt x (res_items (p_outq s)) + cnt x (flat_map held_res (p_k s)).

Definition some_left (l : list kpc) : Prop := exists t, nth_error l t = Some KDone \/ nth_error l t = Some KFin.
Definition success_m (m : ppc) : bool := match m with PDrop POk | PDone POk => true | _ => false end.

Record PInv (input0 : list nat) (threads : nat) (s : pl) : Prop := {
  Q_len : length (p_k s) = threads;
  Q_rx : p_rx s = false -> exists o, p_m s = PDone o;
  Q_items : p_rx s = true -> forall x, items_total x s = cnt x input0;
  Q_res : p_rx s = true -> forall x, results_total x s = cnt x (p_started s);
  Q_left : p_rx s = true -> some_left (p_k s) -> p_f s = FDone /\ p_inq s = [];
  Q_fdone : p_rx s = true -> p_f s = FDone -> p_input s = [];
  Q_succ : success_m (p_m s) = true ->
           all_workers_done s = true /\ p_f s = FDone /\
           forall x, cnt x (res_items (p_fed s)) = cnt x input0 /\ cnt x (p_started s) = cnt x input0
}.

Lemma flat_repeat_nil {B} (f : kpc -> list B) k n : f k = [] -> flat_map f (repeat k n) = [].
Proof. intros H. induction n; cbn; [reflexivity | rewrite H, IHn; reflexivity]. Qed.

Lemma PInv_init with_fin threads input : PInv input threads (pl_init with_fin threads input).
Proof.
  constructor; unfold pl_init; cbn.
  - apply repeat_length.
  - discriminate.
  - intros _ x. unfold items_total. cbn. rewrite (flat_repeat_nil held_item) by reflexivity. rewrite !cnt_nil. lia.
  - intros _ x. unfold results_total. cbn. rewrite (flat_repeat_nil held_res) by reflexivity. reflexivity.
  - intros _ (t & [H|H]); apply nth_error_In, repeat_spec in H; discriminate.
  - discriminate.
  - discriminate.
Qed.

Lemma all_done_flat {B} (f : kpc -> list B) : f KDone = [] -> forall l, forallb k_done l = true -> flat_map f l = [].
Proof.
  intros Hf. induction l as [|k r IH]; cbn; [reflexivity|]. intros H. apply andb_prop in H. destruct H as [Hk Hr].
  destruct k; try discriminate. rewrite Hf, IH; auto.
Qed.

Lemma some_left_upd l t k' : some_left (upd t k' l) -> (k' = KDone \/ k' = KFin) \/ some_left l.
Proof.
  intros (j & H).
  destruct H as [H|H]; apply nth_error_upd_inv in H;
    destruct H as [(_ & E & _)|(_ & H)]; try (left; auto; fail); right; exists j; auto.
Qed.

Lemma all_done_some_left s : 0 < length (p_k s) -> all_workers_done s = true -> some_left (p_k s).
Proof.
  unfold all_workers_done. intros Hl H. destruct (p_k s) as [|k r]; [cbn in Hl; lia|].
  cbn in H. apply andb_prop in H. destruct H as [Hk _]. destruct k; try discriminate. exists 0. left. reflexivity.
Qed.

Lemma not_done_worker s t k : nth_error (p_k s) t = Some k -> k_done k = false -> all_workers_done s = false.
Proof.
  unfold all_workers_done. intros H Hk. destruct (forallb k_done (p_k s)) eqn:E; [|reflexivity].
  rewrite forallb_forall in E. rewrite (E _ (nth_error_In _ _ H)) in Hk. discriminate.
Qed.

Ltac same H := first [ apply H | (rewrite upd_length; apply H) | (intros; apply H; assumption) ].
Ltac nosucc Hsucc := let Hx := fresh in intros Hx; rewrite Hsucc in Hx; discriminate.
Ltac dead Hrx := let E := fresh in intros E; first [ discriminate | rewrite Hrx in E; discriminate ].
Ltac items_tac H Hk k' :=
  let Hr := fresh in let x := fresh "x" in let E := fresh in let HR := fresh in
  intros Hr x; match goal with Hq : p_rx _ = true |- _ => pose proof (Q_items _ _ _ H Hq x) as E end; unfold items_total in *; cbn;
  pose proof (cnt_flat_upd held_item x k' _ _ _ Hk) as HR; cbn [held_item] in HR.
Ltac res_tac H Hk k' :=
  let Hr := fresh in let x := fresh "x" in let E := fresh in let HR := fresh in
  intros Hr x; match goal with Hq : p_rx _ = true |- _ => pose proof (Q_res _ _ _ H Hq x) as E end; unfold results_total in *; cbn;
  pose proof (cnt_flat_upd held_res x k' _ _ _ Hk) as HR; cbn [held_res] in HR.
Ltac crunch := rewrite ?res_items_app, ?res_items_cons, ?res_items_nil in *;
               rewrite ?cnt_app, ?cnt_cons, ?cnt_nil in *; cbn [app] in *; rewrite ?cnt_app, ?cnt_cons, ?cnt_nil in *; try lia.

Lemma PInv_step rfails input0 threads s l s' : 0 < threads -> PInv input0 threads s -> pl_step rfails s l = Some s' ->
  PInv input0 threads s'.
Proof.
  intros Hpos H Hs.
  destruct (success_m (p_m s)) eqn:Hsucc.
  { destruct (Q_succ _ _ _ H Hsucc) as (Hall & Hf & Hcnt).
    open_step Hs.
    - unfold feeder_step in Hs. rewrite Hf in Hs. discriminate.
    - destruct (nth_error (p_k s) t) as [k|] eqn:Hk; [|discriminate].
      assert (k = KDone).
      { unfold all_workers_done in Hall. rewrite forallb_forall in Hall.
        pose proof (Hall _ (nth_error_In _ _ Hk)). destruct k; try discriminate. }
      subst k. discriminate.
    - unfold reducer_step in Hs. destruct (p_m s) as [| |o|o] eqn:Hm; try discriminate.
      destruct o; try discriminate. injection Hs as <-.
      constructor; cbn; try discriminate; eauto using Q_len.
    - unfold drop_step in Hs. destruct (p_m s); discriminate. }
  assert (Hrxm : (forall o, p_m s <> PDone o) -> p_rx s = true).
  { intros Hne. destruct (p_rx s) eqn:E; [reflexivity|]. destruct (Q_rx _ _ _ H E) as (o' & Ho).
    exfalso. exact (Hne _ Ho). }
  assert (Hlen := Q_len _ _ _ H).
  open_step Hs.
  - (* feeder *)
    unfold feeder_step in Hs. destruct (p_f s) eqn:Hf; try discriminate.
    + assert (Hnl : p_rx s = true -> some_left (p_k s) -> False).
      { intros Hr Hl. destruct (Q_left _ _ _ H Hr Hl) as [E _]. rewrite Hf in E. discriminate. }
      destruct (p_input s) as [|x0 rest] eqn:Hin; injection Hs as <-.
      * constructor; cbn;
          [ same H | same H
          | intros Hr x; pose proof (Q_items _ _ _ H Hr x) as E; unfold items_total in *; cbn; rewrite Hf, Hin in E; exact E
          | same H
          | intros Hr Hl; exfalso; eauto
          | auto
          | nosucc Hsucc ].
      * constructor; cbn;
          [ same H | same H
          | intros Hr x; pose proof (Q_items _ _ _ H Hr x) as E; unfold items_total in *; cbn; rewrite Hf, Hin in E;
            cbn [fsend] in *; crunch
          | same H
          | intros Hr Hl; exfalso; eauto
          | discriminate
          | nosucc Hsucc ].
    + destruct (all_workers_done s) eqn:Hall.
      * injection Hs as <-.
        assert (Hdead : p_rx s = false).
        { destruct (p_rx s) eqn:E; [|reflexivity]. exfalso.
          assert (Hl : some_left (p_k s)) by (apply all_done_some_left; [rewrite Hlen; exact Hpos | exact Hall]).
          destruct (Q_left _ _ _ H E Hl) as [E2 _]. rewrite Hf in E2. discriminate. }
        constructor; cbn; [ same H | same H | dead Hdead | dead Hdead | dead Hdead | dead Hdead | nosucc Hsucc ].
      * destruct (length (p_inq s) <? p_cap s); [|discriminate]. injection Hs as <-.
        constructor; cbn;
          [ same H | same H
          | intros Hr x1; pose proof (Q_items _ _ _ H Hr x1) as E; unfold items_total in *; cbn; rewrite Hf in E;
            cbn [fsend] in *; crunch
          | same H
          | intros Hr Hl; destruct (Q_left _ _ _ H Hr Hl) as [E _]; rewrite Hf in E; discriminate
          | discriminate
          | nosucc Hsucc ].
  - (* worker *)
    destruct (nth_error (p_k s) t) as [k|] eqn:Hk; [|discriminate].
    unfold worker_step in Hs. destruct k.
    + destruct (p_inq s) as [|x0 q] eqn:Hq.
      * destruct (p_f s) eqn:Hf; try discriminate. injection Hs as <-. unfold pl_set_k.
        constructor; cbn;
          [ same H | same H
          | items_tac H Hk (if p_fin s then KFin else KDone); destruct (p_fin s); crunch
          | res_tac H Hk (if p_fin s then KFin else KDone); destruct (p_fin s); crunch
          | auto
          | same H
          | nosucc Hsucc ].
      * injection Hs as <-.
        constructor; cbn;
          [ same H | same H
          | items_tac H Hk (KConsume x0); rewrite Hq in *; crunch
          | res_tac H Hk (KConsume x0); crunch
          | intros Hr Hl; apply some_left_upd in Hl; destruct Hl as [[E|E]|Hl]; try discriminate;
            destruct (Q_left _ _ _ H Hr Hl) as [_ E]; rewrite Hq in E; discriminate
          | same H
          | nosucc Hsucc ].
    + injection Hs as <-.
      constructor; cbn;
        [ same H | same H
        | items_tac H Hk (KSend (RItem x)); crunch
        | res_tac H Hk (KSend (RItem x)); crunch
        | intros Hr Hl; apply some_left_upd in Hl; destruct Hl as [[E|E]|Hl]; try discriminate; apply (Q_left _ _ _ H Hr Hl)
        | same H
        | nosucc Hsucc ].
    + destruct (p_rx s) eqn:Hrx; cbn [negb] in Hs.
      * destruct (length (p_outq s) <? p_cap s); [|discriminate]. injection Hs as <-.
        constructor; cbn;
          [ same H | dead Hrx
          | items_tac H Hk KRecv; crunch
          | res_tac H Hk KRecv; destruct r; cbn [held_res] in *; crunch
          | intros Hr Hl; apply some_left_upd in Hl; destruct Hl as [[E|E]|Hl]; try discriminate; apply (Q_left _ _ _ H Hrx Hl)
          | intros _; apply (Q_fdone _ _ _ H Hrx)
          | nosucc Hsucc ].
      * injection Hs as <-. unfold pl_set_k.
        constructor; cbn; [ same H | same H | dead Hrx | dead Hrx | dead Hrx | dead Hrx | nosucc Hsucc ].
    + destruct (p_rx s) eqn:Hrx; cbn [negb] in Hs.
      * destruct (length (p_outq s) <? p_cap s); [|discriminate]. injection Hs as <-.
        assert (Hl0 : some_left (p_k s)) by (exists t; right; exact Hk).
        constructor; cbn;
          [ same H | dead Hrx
          | items_tac H Hk KDone; crunch
          | res_tac H Hk KDone; crunch
          | intros _ _; apply (Q_left _ _ _ H Hrx Hl0)
          | intros _; apply (Q_fdone _ _ _ H Hrx)
          | nosucc Hsucc ].
      * injection Hs as <-. unfold pl_set_k.
        constructor; cbn; [ same H | same H | dead Hrx | dead Hrx | dead Hrx | dead Hrx | nosucc Hsucc ].
    + discriminate.
  - (* reducer *)
    unfold reducer_step in Hs. destruct (p_m s) as [|r|o|o] eqn:Hm; try discriminate.
    + assert (Hrx : p_rx s = true) by (apply Hrxm; intros o0; try rewrite Hm; discriminate).
      destruct (p_outq s) as [|r q] eqn:Hq.
      * destruct (all_workers_done s) eqn:Hall; [|discriminate]. injection Hs as <-. unfold pl_set_m.
        assert (Hl : some_left (p_k s)) by (apply all_done_some_left; [rewrite Hlen; exact Hpos | exact Hall]).
        destruct (Q_left _ _ _ H Hrx Hl) as [Hf Hiq]. pose proof (Q_fdone _ _ _ H Hrx Hf) as Hin.
        constructor; cbn;
          [ same H | dead Hrx | same H
          | intros _ x; pose proof (Q_res _ _ _ H Hrx x) as E; unfold results_total in *; cbn; try rewrite Hm in E; try rewrite Hq in *; cbn [mfeed] in *; crunch
          | same H | same H
          | intros _; split; [exact Hall|]; split; [exact Hf|]; intros x;
            pose proof (Q_res _ _ _ H Hrx x) as E; pose proof (Q_items _ _ _ H Hrx x) as E2;
            unfold results_total, items_total in *; try rewrite Hm in *; rewrite ?Hq, ?Hf, ?Hiq, ?Hin in *;
            unfold all_workers_done in Hall;
            rewrite (all_done_flat held_res eq_refl _ Hall) in E; rewrite (all_done_flat held_item eq_refl _ Hall) in E2;
            cbn [mfeed fsend] in *; crunch ].
      * injection Hs as <-.
        constructor; cbn;
          [ same H | dead Hrx | same H
          | intros _ x; pose proof (Q_res _ _ _ H Hrx x) as E; unfold results_total in *; cbn; try rewrite Hm in E; try rewrite Hq in *;
            destruct r; cbn [mfeed] in *; crunch
          | same H | same H | discriminate ].
    + assert (Hrx : p_rx s = true) by (apply Hrxm; intros o0; try rewrite Hm; discriminate).
      destruct (rfails r); injection Hs as <-; unfold pl_set_m.
      * constructor; cbn;
          [ same H | dead Hrx | same H
          | intros _ x; pose proof (Q_res _ _ _ H Hrx x) as E; unfold results_total in *; cbn; try rewrite Hm in E;
            destruct r; cbn [mfeed] in *; crunch
          | same H | same H | discriminate ].
      * constructor; cbn;
          [ same H | dead Hrx | same H
          | intros _ x; pose proof (Q_res _ _ _ H Hrx x) as E; unfold results_total in *; cbn; try rewrite Hm in E;
            destruct r; cbn [mfeed] in *; crunch
          | same H | same H | discriminate ].
    + injection Hs as <-.
      constructor; cbn;
        [ same H | eauto | discriminate | discriminate | discriminate | discriminate
        | intros Hx; destruct o; try discriminate; cbn in Hsucc; discriminate ].
  - unfold drop_step in Hs. destruct (p_m s) eqn:Hm; try discriminate. injection Hs as <-. unfold pl_set_m.
    assert (Hrx : p_rx s = true) by (apply Hrxm; intros o0; try rewrite Hm; discriminate).
    constructor; cbn;
      [ same H | dead Hrx | same H
      | intros _ x; pose proof (Q_res _ _ _ H Hrx x) as E; unfold results_total in *; cbn; try rewrite Hm in E; cbn [mfeed] in *; crunch
      | same H | same H | discriminate ].
Qed.

Lemma L_pipe_all_delivered rfails with_fin threads input sched :
  0 < threads ->
  let s := pl_exec rfails (pl_init with_fin threads input) sched in
  p_m s = PDone POk ->
  Permutation (p_started s) input /\ Permutation (res_items (p_fed s)) input /\ pl_terminated s = true.
Proof.
  intros Hpos s Hm.
  assert (H : forall sched s0, PInv input threads s0 -> PInv input threads (pl_exec rfails s0 sched)).
  { induction sched0 as [|l r IH]; intros s0 H0; cbn [pl_exec]; [exact H0|].
    destruct (pl_step rfails s0 l) as [s1|] eqn:E; [|apply IH; exact H0].
    apply IH. eapply PInv_step; eauto. }
  specialize (H sched _ (PInv_init with_fin threads input)). fold s in H.
  assert (Hs : success_m (p_m s) = true) by (rewrite Hm; reflexivity).
  destruct (Q_succ _ _ _ H Hs) as (Hall & Hf & Hcnt).
  split; [|split].
  - apply (Permutation_count_occ Nat.eq_dec). intros x. apply (Hcnt x).
  - apply (Permutation_count_occ Nat.eq_dec). intros x. apply (Hcnt x).
  - unfold pl_terminated. rewrite Hall, Hf, Hm. reflexivity.
Qed.
