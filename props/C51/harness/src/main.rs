//! C51 harness: gix_features::parallel — in_parallel_with_slice (forced and free schedules),
//! in_parallel / in_parallel_with_finalize / reduce::Stepwise, InOrderIter, EagerIter.
use gix_features::parallel::{self, reduce::Stepwise, EagerIter, InOrderIter, Reduce};
use gixv_common::*;
use std::collections::VecDeque;
use std::panic::{catch_unwind, AssertUnwindSafe};
use std::sync::atomic::{AtomicBool, AtomicIsize, AtomicU32, AtomicUsize, Ordering};
use std::sync::{Arc, Condvar, Mutex};
use std::time::Duration;

// ------------------------------------------------------------------------------------ inorder

type Arrival = Result<(usize, u64), u64>;

fn parse_arrivals(c: &Case) -> Vec<Arrival> {
    let mut out = Vec::new();
    let mut i = 1;
    while i + 1 < c.len() {
        let v = f_u64(c, i + 1);
        if f_str(c, i) == b"e" {
            out.push(Err(v));
        } else {
            out.push(Ok((f_u64(c, i) as usize, v)));
        }
        i += 2;
    }
    out
}

#[derive(Clone, Debug, PartialEq)]
enum Tok {
    V(u64),
    E(u64),
    None,
    Panic,
}

fn run_inorder(arr: Vec<Arrival>) -> Vec<Tok> {
    let mut it = InOrderIter::from(arr.into_iter());
    let mut toks = Vec::new();
    let mut after_none: Option<usize> = None;
    loop {
        let r = catch_unwind(AssertUnwindSafe(|| it.next()));
        match r {
            Err(_) => {
                toks.push(Tok::Panic);
                break;
            }
            Ok(Some(Ok(v))) => toks.push(Tok::V(v)),
            Ok(Some(Err(e))) => toks.push(Tok::E(e)),
            Ok(None) => toks.push(Tok::None),
        }
        if let Some(k) = after_none.as_mut() {
            *k += 1;
            if *k == 2 {
                break;
            }
        } else if toks.last() == Some(&Tok::None) {
            after_none = Some(0);
        }
    }
    toks
}

fn show_toks(t: &[Tok]) -> String {
    t.iter()
        .map(|t| match t {
            Tok::V(v) => v.to_string(),
            Tok::E(e) => format!("e{e}"),
            Tok::None => ".".into(),
            Tok::Panic => "PANIC".into(),
        })
        .collect::<Vec<_>>()
        .join(" ")
}

fn prop_inorder(c: &Case) -> Verdict {
    let arr = parse_arrivals(c);
    let toks = run_inorder(arr.clone());
    // the arrivals the iterator can have seen: up to and including the first Err
    let upto = arr.iter().position(|a| a.is_err()).map(|p| p + 1).unwrap_or(arr.len());
    let seen = &arr[..upto];
    let ids: Vec<usize> = seen.iter().filter_map(|a| a.as_ref().ok().map(|x| x.0)).collect();
    let mut sorted = ids.clone();
    sorted.sort_unstable();
    let dup = sorted.windows(2).any(|w| w[0] == w[1]);
    let mut mex = 0;
    while sorted.binary_search(&mex).is_ok() {
        mex += 1;
    }
    let value_of = |k: usize| seen.iter().filter_map(|a| a.as_ref().ok()).filter(|x| x.0 == k).map(|x| x.1).collect::<Vec<_>>();
    // safety for every input: the k-th Ok yield carries a value that arrived with id k; nothing but
    // None follows an Err
    let mut k = 0usize;
    let mut err_seen = false;
    for t in &toks {
        match t {
            Tok::V(v) => {
                if err_seen {
                    return Verdict::fail("inorder-yield-after-error", show_toks(&toks));
                }
                if !value_of(k).contains(v) {
                    return Verdict::fail("inorder-out-of-order", format!("yield #{k} = {v}: {}", show_toks(&toks)));
                }
                k += 1;
            }
            Tok::E(e) => {
                if err_seen || seen.last() != Some(&Err(*e)) {
                    return Verdict::fail("inorder-wrong-error", show_toks(&toks));
                }
                err_seen = true;
            }
            Tok::None | Tok::Panic => {}
        }
    }
    if dup {
        return Verdict::ok(false, "inorder-invalid-dup");
    }
    let has_err = seen.last().map(|a| a.is_err()).unwrap_or(false);
    let panicked = toks.contains(&Tok::Panic);
    if has_err {
        // some prefix 0..j, j <= mex, then the error, then None for ever, never a panic
        if panicked || !err_seen || k > mex {
            return Verdict::fail("inorder-error-run", show_toks(&toks));
        }
        if toks.iter().filter(|t| **t == Tok::None).count() != 3 {
            return Verdict::fail("inorder-not-fused-after-error", show_toks(&toks));
        }
        return Verdict::ok(true, "inorder-error");
    }
    let complete = mex == ids.len();
    if complete {
        let want: Vec<Tok> = (0..mex).map(|k| Tok::V(value_of(k)[0])).chain([Tok::None, Tok::None, Tok::None]).collect();
        if toks != want {
            return Verdict::fail("inorder-permutation", show_toks(&toks));
        }
        Verdict::ok(ids.len() >= 2, "inorder-permutation")
    } else {
        // a gap: ids 0..mex come out in order, then the debug assertion about left-over items fires
        if k != mex {
            return Verdict::fail("inorder-gap-prefix", show_toks(&toks));
        }
        Verdict::ok(false, "inorder-invalid-gap")
    }
}

// ------------------------------------------------------------------------------------ slice

struct Item {
    idx: usize,
    count: u32,
}
struct St {
    id: usize,
    cnt: usize,
}

#[derive(Clone, Copy, PartialEq, Debug)]
enum Actor {
    Thr(usize),
    Watch,
}

struct SchState {
    t: usize,
    sched: VecDeque<u8>,
    arrived_a: usize,
    w_arrived: bool,
    exited: Vec<bool>,
    leaving: Vec<bool>,
    erring: Vec<bool>,
    in_flight: Option<Actor>,
    w_exited: bool,
    w_stopping: bool,
    stop_ptr: usize,
    consume_granted: bool,
    interrupted: bool,
    log: Vec<(usize, usize)>,
    with_stop: Vec<u32>,
}
impl SchState {
    fn stop_now(&self) -> bool {
        // SAFETY: only called from threads running inside in_parallel_with_slice's scope, where
        // the AtomicBool the pointer was taken from is alive.
        self.stop_ptr != 0 && unsafe { (*(self.stop_ptr as *const AtomicBool)).load(Ordering::SeqCst) }
    }
    fn all_exited(&self) -> bool {
        self.exited.iter().all(|e| *e)
    }
    fn poll(&mut self) {
        match self.in_flight {
            Some(Actor::Thr(t)) => {
                if self.leaving[t] || (self.erring[t] && self.stop_now()) {
                    self.exited[t] = true;
                    self.in_flight = None;
                }
            }
            Some(Actor::Watch) => {
                if self.w_stopping && self.stop_now() {
                    self.w_exited = true;
                    self.in_flight = None;
                }
            }
            None => {}
        }
        if self.all_exited() {
            self.sched.clear();
        }
        while let Some(&b) = self.sched.front() {
            let stale = if (b as usize) < self.t {
                self.exited[b as usize]
            } else if b >= 254 {
                self.w_exited
            } else {
                true
            };
            if stale {
                self.sched.pop_front();
            } else {
                break;
            }
        }
    }
    /// only the two stores of `stop_everything` have to be polled for; everything else is signalled
    fn wait_for(&self) -> Duration {
        let polling = match self.in_flight {
            Some(Actor::Thr(t)) => self.erring[t],
            Some(Actor::Watch) => self.w_stopping,
            None => false,
        };
        if polling {
            POLL
        } else {
            Duration::from_millis(20)
        }
    }
    fn current(&self) -> Option<Actor> {
        // barrier: every worker waits in new_thread_state and the watcher in periodic() (a watcher
        // that starts late would otherwise see the stop flag and leave without ever calling it)
        if self.arrived_a < self.t || !self.w_arrived || self.in_flight.is_some() {
            return None;
        }
        match self.sched.front() {
            Some(&b) if (b as usize) < self.t => Some(Actor::Thr(b as usize)),
            Some(_) => Some(Actor::Watch),
            None => self.exited.iter().position(|e| !*e).map(Actor::Thr),
        }
    }
}
struct Sch {
    m: Mutex<SchState>,
    cv: Condvar,
}
const POLL: Duration = Duration::from_micros(200);
impl Sch {
    fn gate_thr(&self, t: usize, consume: Option<(usize, &AtomicBool)>) {
        let mut g = self.m.lock().unwrap();
        match consume {
            Some((_, stop)) => {
                if g.stop_ptr == 0 {
                    g.stop_ptr = stop as *const AtomicBool as usize;
                }
            }
            None => g.arrived_a += 1,
        }
        if g.in_flight == Some(Actor::Thr(t)) {
            g.in_flight = None;
        }
        self.cv.notify_all();
        loop {
            g.poll();
            if g.current() == Some(Actor::Thr(t)) {
                g.sched.pop_front();
                g.in_flight = Some(Actor::Thr(t));
                if let Some((item, stop)) = consume {
                    g.log.push((t, item));
                    g.consume_granted = true;
                    if stop.load(Ordering::SeqCst) {
                        g.with_stop[t] += 1;
                    }
                }
                self.cv.notify_all();
                return;
            }
            let d = g.wait_for();
            g = self.cv.wait_timeout(g, d).unwrap().0;
        }
    }
    fn periodic(&self) -> Option<Duration> {
        let mut g = self.m.lock().unwrap();
        g.w_arrived = true;
        if g.in_flight == Some(Actor::Watch) {
            g.in_flight = None;
        }
        self.cv.notify_all();
        loop {
            g.poll();
            if g.arrived_a >= g.t && g.in_flight.is_none() && g.sched.is_empty() {
                return Some(POLL); // schedule used up: the watcher only observes from here on
            }
            if g.current() == Some(Actor::Watch) {
                let b = g.sched.pop_front().unwrap();
                if b == 255 && g.consume_granted {
                    g.in_flight = Some(Actor::Watch);
                    g.w_stopping = true;
                    g.interrupted = true;
                    self.cv.notify_all();
                    return None;
                }
                if g.stop_now() {
                    g.w_exited = true; // it will load `true` and leave
                } else {
                    g.in_flight = Some(Actor::Watch);
                }
                self.cv.notify_all();
                return Some(Duration::ZERO);
            }
            let d = g.wait_for();
            g = self.cv.wait_timeout(g, d).unwrap().0;
        }
    }
    fn mark(&self, f: impl FnOnce(&mut SchState)) {
        let mut g = self.m.lock().unwrap();
        f(&mut g);
        self.cv.notify_all();
    }
}

struct SliceObs {
    result: Result<Vec<usize>, usize>,
    counts: Vec<u32>,
    pad_touched: bool,
    log: Vec<(usize, usize)>,
    with_stop: Vec<u32>,
    interrupted: bool,
    bad_left: bool,
}

const PAD: usize = 3;
fn make_items(n: usize) -> Vec<Item> {
    (0..n + PAD).map(|idx| Item { idx, count: 0 }).collect()
}

fn run_slice_sched(n: usize, t: usize, fails: &[u8], sched: &[u8]) -> SliceObs {
    let sch = Sch {
        m: Mutex::new(SchState {
            t,
            sched: sched.iter().copied().collect(),
            arrived_a: 0,
            w_arrived: false,
            exited: vec![false; t],
            leaving: vec![false; t],
            erring: vec![false; t],
            in_flight: None,
            w_exited: false,
            w_stopping: false,
            stop_ptr: 0,
            consume_granted: false,
            interrupted: false,
            log: Vec::new(),
            with_stop: vec![0; t],
        }),
        cv: Condvar::new(),
    };
    let sch = &sch;
    let mut items = make_items(n);
    let result = parallel::in_parallel_with_slice(
        &mut items[..n],
        Some(t),
        move |id| {
            sch.gate_thr(id, None);
            St { id, cnt: 0 }
        },
        move |item: &mut Item, st: &mut St, _left: &AtomicIsize, stop: &AtomicBool| {
            sch.gate_thr(st.id, Some((item.idx, stop)));
            item.count += 1;
            if fails.contains(&(item.idx as u8)) {
                let id = st.id;
                sch.mark(|g| g.erring[id] = true);
                Err(item.idx)
            } else {
                st.cnt += 1;
                Ok(())
            }
        },
        move || sch.periodic(),
        move |st: St| {
            sch.mark(|g| g.leaving[st.id] = true);
            st.cnt
        },
    );
    let g = sch.m.lock().unwrap();
    SliceObs {
        result,
        counts: items[..n].iter().map(|i| i.count).collect(),
        pad_touched: items[n..].iter().any(|i| i.count != 0),
        log: g.log.clone(),
        with_stop: g.with_stop.clone(),
        interrupted: g.interrupted,
        bad_left: false,
    }
}

fn jitter(x: usize) {
    let k = (x.wrapping_mul(0x9E37_79B9) >> 7) % 97;
    if k < 6 {
        std::thread::yield_now();
    } else {
        for _ in 0..k {
            std::hint::spin_loop();
        }
    }
}

fn run_slice_free(n: usize, t: usize, fails: &[u8], stop_after: usize, salt: usize) -> SliceObs {
    let mut items = make_items(n);
    let with_stop: Vec<AtomicU32> = (0..t).map(|_| AtomicU32::new(0)).collect();
    let with_stop = &with_stop;
    let bad_left = &AtomicBool::new(false);
    let seq = &AtomicUsize::new(0);
    let order: Vec<AtomicUsize> = (0..n + PAD).map(|_| AtomicUsize::new(usize::MAX)).collect();
    let order = &order;
    let owner: Vec<AtomicUsize> = (0..n + PAD).map(|_| AtomicUsize::new(usize::MAX)).collect();
    let owner = &owner;
    let interrupted = &AtomicBool::new(false);
    let mut calls = 0usize;
    let result = parallel::in_parallel_with_slice(
        &mut items[..n],
        Some(t),
        move |id| St { id, cnt: 0 },
        move |item: &mut Item, st: &mut St, left: &AtomicIsize, stop: &AtomicBool| {
            if stop.load(Ordering::SeqCst) {
                with_stop[st.id].fetch_add(1, Ordering::SeqCst);
            }
            let l = left.load(Ordering::SeqCst);
            if l < 0 || l >= t as isize {
                bad_left.store(true, Ordering::SeqCst);
            }
            order[item.idx].store(seq.fetch_add(1, Ordering::SeqCst), Ordering::SeqCst);
            owner[item.idx].store(st.id, Ordering::SeqCst);
            item.count += 1;
            jitter(item.idx ^ salt);
            if fails.contains(&(item.idx as u8)) {
                Err(item.idx)
            } else {
                st.cnt += 1;
                Ok(())
            }
        },
        move || {
            calls += 1;
            if stop_after > 0 && calls >= stop_after {
                interrupted.store(true, Ordering::SeqCst);
                None
            } else {
                Some(Duration::from_micros(30))
            }
        },
        move |st: St| st.cnt,
    );
    let mut log: Vec<(usize, usize, usize)> = (0..n)
        .filter(|i| order[*i].load(Ordering::SeqCst) != usize::MAX)
        .map(|i| (order[i].load(Ordering::SeqCst), owner[i].load(Ordering::SeqCst), i))
        .collect();
    log.sort_unstable();
    SliceObs {
        result,
        counts: items[..n].iter().map(|i| i.count).collect(),
        pad_touched: items[n..].iter().any(|i| i.count != 0),
        log: log.into_iter().map(|(_, t, i)| (t, i)).collect(),
        with_stop: with_stop.iter().map(|a| a.load(Ordering::SeqCst)).collect(),
        interrupted: interrupted.load(Ordering::SeqCst),
        bad_left: bad_left.load(Ordering::SeqCst),
    }
}

/// Stress aimed at the claim step: the workers rendezvous in `new_thread_state` and in `consume` so
/// that they come back to the claim loop together, in particular when exactly one item is left.
/// A claim that is not one atomic bounds-checked increment hands an index >= len to one of them.
/// Returns Err((round, what)) on the first round in which the property fails.
fn run_slice_race(n: usize, t: usize, rounds: usize) -> Result<(), (usize, String)> {
    const RPAD: usize = 8; // every worker can overshoot at most once: indices stay below n + t
    let spin = |cond: &dyn Fn() -> bool, micros: u64| {
        let t0 = std::time::Instant::now();
        let mut k = 0u32;
        while !cond() {
            k += 1;
            if k % 64 == 0 && t0.elapsed() > Duration::from_micros(micros) {
                break;
            }
            std::hint::spin_loop();
        }
    };
    // wall-clock budget: on a heavily loaded machine a round (T + 1 thread spawns) can take many
    // milliseconds; fewer rounds then, never a missed case deadline
    let t_begin = std::time::Instant::now();
    for round in 0..rounds {
        if round >= 50 && t_begin.elapsed() > Duration::from_secs(6) {
            break;
        }
        let mut items = (0..n + RPAD).map(|idx| Item { idx, count: 0 }).collect::<Vec<_>>();
        let started = &AtomicUsize::new(0);
        let arrived = &AtomicUsize::new(0);
        let calls = &AtomicUsize::new(0);
        let spin = &spin;
        let result = parallel::in_parallel_with_slice(
            &mut items[..n],
            Some(t),
            move |id| {
                started.fetch_add(1, Ordering::SeqCst);
                spin(&|| started.load(Ordering::SeqCst) >= t, 300);
                St { id, cnt: 0 }
            },
            move |item: &mut Item, st: &mut St, _left: &AtomicIsize, _stop: &AtomicBool| {
                item.count += 1;
                calls.fetch_add(1, Ordering::SeqCst);
                st.cnt += 1;
                let c = arrived.fetch_add(1, Ordering::SeqCst) + 1;
                let target = (((c + t - 1) / t) * t).min(n);
                spin(&|| arrived.load(Ordering::SeqCst) >= target, 100);
                Ok::<(), usize>(())
            },
            || Some(Duration::from_micros(10)),
            |st: St| st.cnt,
        );
        let calls = calls.load(Ordering::SeqCst);
        if let Some(i) = items[n..].iter().position(|i| i.count != 0) {
            return Err((round, format!("out-of-range index {} consumed (len {n}, {calls} consume calls)", n + i)));
        }
        if let Some(i) = items[..n].iter().position(|i| i.count != 1) {
            return Err((round, format!("item {i} consumed {} times", items[i].count)));
        }
        if calls != n {
            return Err((round, format!("{calls} consume calls for {n} items")));
        }
        match result {
            Ok(rs) if rs.len() == t && rs.iter().sum::<usize>() == n => {}
            other => return Err((round, format!("result {other:?}"))),
        }
    }
    Ok(())
}

fn prop_slicerace(c: &Case) -> Verdict {
    let (n, t, rounds) = (f_u64(c, 1) as usize, (f_u64(c, 2) as usize).max(1), f_u64(c, 3) as usize);
    match run_slice_race(n, t, rounds) {
        Ok(()) => Verdict::ok(true, "race-ok"),
        Err((round, what)) => Verdict::fail("slice-race", format!("round {round}: {what}")),
    }
}

fn slice_args(c: &Case) -> (usize, usize, Vec<u8>) {
    (f_u64(c, 1) as usize, (f_u64(c, 2) as usize).max(1), f_str(c, 3).to_vec())
}

fn b01(b: bool) -> u8 {
    b as u8
}

fn imp_slice(c: &Case) -> String {
    let (n, t, fails) = slice_args(c);
    let o = run_slice_sched(n, t, &fails, f_str(c, 4));
    let log = if o.log.is_empty() {
        "-".to_string()
    } else {
        o.log.iter().map(|(t, i)| format!("{t}:{i}")).collect::<Vec<_>>().join(",")
    };
    let res = match &o.result {
        Ok(rs) => format!("ok {}", rs.iter().map(|r| r.to_string()).collect::<Vec<_>>().join(",")),
        Err(e) => format!("err {e}"),
    };
    format!("{log} {res} term=1")
}

fn imp_slicefree(c: &Case) -> String {
    let (n, t, fails) = slice_args(c);
    let stop_after = f_u64(c, 4) as usize;
    let o = run_slice_free(n, t, &fails, stop_after, f_str(c, 5).len());
    let failing = fails.iter().any(|f| (*f as usize) < n);
    let once = o.counts.iter().all(|c| *c <= 1);
    let head = format!("once={} inrange={} term=1", b01(once), b01(!o.pad_touched));
    let tail = if stop_after > 0 {
        if failing {
            " any".to_string()
        } else {
            match &o.result {
                Ok(rs) => format!(" ok {}", rs.len()),
                Err(_) => " err".into(),
            }
        }
    } else if failing {
        match &o.result {
            Err(e) => format!(" err infails={}", b01(fails.contains(&(*e as u8)))),
            Ok(_) => " ok".into(),
        }
    } else {
        match &o.result {
            Ok(rs) => format!(
                " ok {} sum={} all={}",
                rs.len(),
                rs.iter().sum::<usize>(),
                b01(o.counts.iter().all(|c| *c == 1))
            ),
            Err(_) => " err".into(),
        }
    };
    head + &tail
}

/// the property itself on one observed run of in_parallel_with_slice
fn judge_slice(o: &SliceObs, n: usize, t: usize, fails: &[u8], class: &str) -> Verdict {
    if o.pad_touched {
        return Verdict::fail("slice-out-of-range", "an element beyond the slice was consumed");
    }
    if let Some(i) = o.counts.iter().position(|c| *c > 1) {
        return Verdict::fail("slice-item-twice", format!("item {i} consumed {} times", o.counts[i]));
    }
    if o.bad_left {
        return Verdict::fail("slice-threads-left", "threads_left outside 0..T-1 inside consume");
    }
    // stop early: a worker starts at most one more item once stop_everything is set
    if let Some(w) = o.with_stop.iter().position(|c| *c > 1) {
        return Verdict::fail("slice-continues-after-stop", format!("worker {w} started {} items with the stop flag set", o.with_stop[w]));
    }
    let consumed: Vec<usize> = (0..n).filter(|i| o.counts[*i] == 1).collect();
    let failed: Vec<usize> = consumed.iter().copied().filter(|i| fails.contains(&(*i as u8))).collect();
    match &o.result {
        Ok(rs) => {
            if !failed.is_empty() {
                return Verdict::fail("slice-error-lost", format!("item {} failed but the call returned Ok", failed[0]));
            }
            if rs.len() != t {
                return Verdict::fail("slice-result-count", format!("{} results for {t} threads", rs.len()));
            }
            if rs.iter().sum::<usize>() != consumed.len() {
                return Verdict::fail("slice-state-sum", "per-thread counts do not add up to the consumed items");
            }
            if !o.interrupted && consumed.len() != n {
                return Verdict::fail("slice-item-skipped", format!("{} of {n} items consumed without error or interrupt", consumed.len()));
            }
            Verdict::ok(n >= 2 && t >= 2, format!("{class}-{}", if o.interrupted { "interrupted" } else { "ok" }))
        }
        Err(e) => {
            if !failed.contains(e) {
                return Verdict::fail("slice-wrong-error", format!("Err({e}) but that item did not fail"));
            }
            // nothing new after the error: at most one item per other worker beyond the failed ones
            Verdict::ok(n >= 2 && t >= 2, format!("{class}-err"))
        }
    }
}

fn prop_slice(c: &Case) -> Verdict {
    let (n, t, fails) = slice_args(c);
    let o = run_slice_sched(n, t, &fails, f_str(c, 4));
    // the forced schedule is honoured: the log is what determines counts
    let mut counts = vec![0u32; n];
    for (_, i) in &o.log {
        if *i < n {
            counts[*i] += 1;
        }
    }
    if counts != o.counts {
        return Verdict::fail("slice-log-mismatch", "consume log and per-item counters differ");
    }
    judge_slice(&o, n, t, &fails, "sched")
}

fn prop_slicefree(c: &Case) -> Verdict {
    let (n, t, fails) = slice_args(c);
    let o = run_slice_free(n, t, &fails, f_u64(c, 4) as usize, f_str(c, 5).len());
    judge_slice(&o, n, t, &fails, "free")
}

// ------------------------------------------------------------------------------------ pipe

#[derive(Clone, Debug, PartialEq)]
enum Res {
    Item(usize),
    Fin(usize, usize),
}
#[derive(Clone, Debug, PartialEq)]
enum Ev {
    Next(usize),
    Start(usize, usize),
    Fed(Res),
    FeedErr(usize),
    Drop,
}
type Log = Arc<Mutex<Vec<Ev>>>;

struct Red {
    log: Log,
    rfail: Option<usize>,
}
impl Reduce for Red {
    type Input = Res;
    type FeedProduce = ();
    type Output = ();
    type Error = usize;
    fn feed(&mut self, item: Res) -> Result<(), usize> {
        if let Res::Item(x) = item {
            if Some(x) == self.rfail {
                self.log.lock().unwrap().push(Ev::FeedErr(x));
                return Err(x);
            }
        }
        self.log.lock().unwrap().push(Ev::Fed(item));
        Ok(())
    }
    fn finalize(self) -> Result<(), usize> {
        Ok(())
    }
}

#[derive(Debug, PartialEq)]
enum PipeOut {
    Ok,
    Err(usize),
    Dropped,
}
struct PipeObs {
    out: PipeOut,
    events: Vec<Ev>,
    threads_gone: bool,
}

fn run_pipe(variant: usize, n: usize, t: usize, rfail: Option<usize>, k: usize, salt: usize) -> PipeObs {
    let log: Log = Arc::new(Mutex::new(Vec::new()));
    let input = {
        let log = log.clone();
        (0..n).map(move |x| {
            log.lock().unwrap().push(Ev::Next(x));
            x
        })
    };
    let new_state = |id: usize| St { id, cnt: 0 };
    let consume = {
        let log = log.clone();
        move |x: usize, st: &mut St| {
            log.lock().unwrap().push(Ev::Start(x, st.id));
            st.cnt += 1;
            jitter(x ^ salt);
            Res::Item(x)
        }
    };
    let red = Red { log: log.clone(), rfail };
    let out = match variant {
        0 => match parallel::in_parallel(input, Some(t), new_state, consume, red) {
            Ok(()) => PipeOut::Ok,
            Err(e) => PipeOut::Err(e),
        },
        1 => match parallel::in_parallel_with_finalize(input, Some(t), new_state, consume, |st: St| Res::Fin(st.id, st.cnt), red) {
            Ok(()) => PipeOut::Ok,
            Err(e) => PipeOut::Err(e),
        },
        2 => match Stepwise::new(input, Some(t), new_state, consume, red).finalize() {
            Ok(()) => PipeOut::Ok,
            Err(e) => PipeOut::Err(e),
        },
        _ => {
            let mut sw = Stepwise::new(input, Some(t), new_state, consume, red);
            let mut out = PipeOut::Dropped;
            for _ in 0..k {
                match sw.next() {
                    None => {
                        out = PipeOut::Ok;
                        break;
                    }
                    Some(Ok(())) => {}
                    Some(Err(e)) => {
                        out = PipeOut::Err(e);
                        break;
                    }
                }
            }
            log.lock().unwrap().push(Ev::Drop);
            drop(sw);
            out
        }
    };
    // every closure (and with it every clone of `log`) is gone once all threads have been joined
    let threads_gone = Arc::strong_count(&log) == 1;
    let events = log.lock().unwrap().clone();
    PipeObs { out, events, threads_gone }
}

fn pipe_args(c: &Case) -> (usize, usize, usize, Option<usize>, usize, usize) {
    let rf = f_str(c, 4);
    (
        f_u64(c, 1) as usize,
        f_u64(c, 2) as usize,
        (f_u64(c, 3) as usize).max(1),
        if rf.is_empty() { None } else { Some(f_u64(c, 4) as usize) },
        f_u64(c, 5) as usize,
        f_str(c, 6).len(),
    )
}

fn starts(ev: &[Ev]) -> Vec<usize> {
    ev.iter().filter_map(|e| if let Ev::Start(x, _) = e { Some(*x) } else { None }).collect()
}
fn once(xs: &[usize]) -> bool {
    let mut s = xs.to_vec();
    s.sort_unstable();
    s.windows(2).all(|w| w[0] != w[1])
}
fn exactly(n: usize, xs: &[usize]) -> bool {
    let mut s = xs.to_vec();
    s.sort_unstable();
    s == (0..n).collect::<Vec<_>>()
}

fn imp_pipe(c: &Case) -> String {
    let (variant, n, t, rfail, k, salt) = pipe_args(c);
    let o = run_pipe(variant, n, t, rfail, k, salt);
    let st = starts(&o.events);
    let fed_items: Vec<usize> = o.events.iter().filter_map(|e| if let Ev::Fed(Res::Item(x)) = e { Some(*x) } else { None }).collect();
    let fins = o.events.iter().filter(|e| matches!(e, Ev::Fed(Res::Fin(..)))).count();
    let fed = o.events.iter().filter(|e| matches!(e, Ev::Fed(_))).count();
    let head = format!("once={} term={}", b01(once(&st)), b01(o.threads_gone));
    match o.out {
        PipeOut::Ok => format!("{head} ok items={} fins={} all={}", fed_items.len(), fins, b01(exactly(n, &fed_items) && exactly(n, &st))),
        PipeOut::Err(e) => format!("{head} err {e}"),
        PipeOut::Dropped => format!("{head} dropped fed={fed}"),
    }
}

fn prop_pipe(c: &Case) -> Verdict {
    let (variant, n, t, rfail, k, salt) = pipe_args(c);
    let o = run_pipe(variant, n, t, rfail, k, salt);
    let ev = &o.events;
    let st = starts(ev);
    if !once(&st) {
        return Verdict::fail("pipe-item-twice", format!("{st:?}"));
    }
    if st.iter().any(|x| *x >= n) {
        return Verdict::fail("pipe-unknown-item", format!("{st:?}"));
    }
    if !o.threads_gone {
        return Verdict::fail("pipe-threads-alive", "a worker or feeder thread outlived the call / the drop");
    }
    let fed_items: Vec<usize> = ev.iter().filter_map(|e| if let Ev::Fed(Res::Item(x)) = e { Some(*x) } else { None }).collect();
    if !once(&fed_items) || fed_items.iter().any(|x| !st.contains(x)) {
        return Verdict::fail("pipe-fed-unknown-result", format!("{fed_items:?}"));
    }
    // stop early: once the reducer failed / the iterator is about to be dropped, the reducing side
    // receives nothing more, so at most 2*T further items can be started
    let cut = ev.iter().position(|e| matches!(e, Ev::FeedErr(_) | Ev::Drop));
    if let Some(p) = cut {
        let later = ev[p..].iter().filter(|e| matches!(e, Ev::Start(..))).count();
        if later > 2 * t {
            return Verdict::fail("pipe-continues-after-stop", format!("{later} items started after the reducer stopped, T={t}"));
        }
        if ev[p + 1..].iter().any(|e| matches!(e, Ev::Fed(_) | Ev::FeedErr(_))) {
            return Verdict::fail("pipe-feed-after-stop", "reducer fed after it failed");
        }
    }
    let kind = ["inparallel", "withfinalize", "stepwise", "stepwisedrop"][variant.min(3)];
    match o.out {
        PipeOut::Ok => {
            if rfail.map(|r| r < n).unwrap_or(false) {
                return Verdict::fail("pipe-error-lost", "the failing item exists but the call returned Ok");
            }
            if !exactly(n, &st) {
                return Verdict::fail("pipe-item-skipped", format!("{} of {n} items consumed", st.len()));
            }
            if !exactly(n, &fed_items) {
                return Verdict::fail("pipe-result-lost", format!("{} of {n} results reached the reducer", fed_items.len()));
            }
            let fins: Vec<(usize, usize)> = ev.iter().filter_map(|e| if let Ev::Fed(Res::Fin(a, b)) = e { Some((*a, *b)) } else { None }).collect();
            if variant == 1 {
                let ids: Vec<usize> = fins.iter().map(|f| f.0).collect();
                if !exactly(t, &ids) || fins.iter().map(|f| f.1).sum::<usize>() != n {
                    return Verdict::fail("pipe-finalize", format!("{fins:?}"));
                }
                // every finalize result arrives after all of that worker's item results
                for (id, _) in &fins {
                    let pos = ev.iter().position(|e| matches!(e, Ev::Fed(Res::Fin(a, _)) if a == id)).unwrap();
                    for e in &ev[pos..] {
                        if let Ev::Fed(Res::Item(x)) = e {
                            if ev.iter().any(|s| *s == Ev::Start(*x, *id)) {
                                return Verdict::fail("pipe-finalize-order", format!("item {x} of worker {id} fed after its finalize"));
                            }
                        }
                    }
                }
            } else if !fins.is_empty() {
                return Verdict::fail("pipe-finalize", "unexpected finalize result");
            }
            Verdict::ok(n >= 2, format!("{kind}-ok"))
        }
        PipeOut::Err(e) => {
            if Some(e) != rfail || !ev.contains(&Ev::FeedErr(e)) {
                return Verdict::fail("pipe-wrong-error", format!("Err({e})"));
            }
            Verdict::ok(n >= 2, format!("{kind}-err"))
        }
        PipeOut::Dropped => {
            let fed = ev.iter().filter(|e| matches!(e, Ev::Fed(_))).count();
            if fed != k {
                return Verdict::fail("pipe-drop-count", format!("{fed} fed, {k} calls"));
            }
            Verdict::ok(n >= 2, format!("{kind}-dropped"))
        }
    }
}

// ------------------------------------------------------------------------------------ eager

fn run_eager(n: usize, cs: usize, inflight: usize, take: usize) -> (Vec<usize>, bool) {
    let alive = Arc::new(());
    let it = {
        let alive = alive.clone();
        (0..n).map(move |x| {
            let _ = &alive;
            x
        })
    };
    let got: Vec<usize> = EagerIter::new(it, cs, inflight).take(take).collect();
    // the producer thread is not joined by EagerIter: give it time to notice the closed channel
    let mut gone = false;
    for _ in 0..20000 {
        if Arc::strong_count(&alive) == 1 {
            gone = true;
            break;
        }
        std::thread::sleep(Duration::from_micros(200));
    }
    (got, gone)
}

fn imp_eager(c: &Case) -> String {
    let (got, _) = run_eager(f_u64(c, 1) as usize, f_u64(c, 2) as usize, f_u64(c, 3) as usize, f_u64(c, 4) as usize);
    if got.is_empty() {
        "-".into()
    } else {
        got.iter().map(|x| x.to_string()).collect::<Vec<_>>().join(",")
    }
}

fn prop_eager(c: &Case) -> Verdict {
    let (n, cs, inflight, take) = (f_u64(c, 1) as usize, f_u64(c, 2) as usize, f_u64(c, 3) as usize, f_u64(c, 4) as usize);
    if cs == 0 {
        return match catch_unwind(|| run_eager(n, cs, inflight, take)) {
            Err(_) => Verdict::ok(false, "eager-zero-chunk"),
            Ok(_) => Verdict::fail("eager-zero-chunk-accepted", ""),
        };
    }
    let (got, gone) = run_eager(n, cs, inflight, take);
    if got != (0..n.min(take)).collect::<Vec<_>>() {
        return Verdict::fail("eager-items", format!("{got:?}"));
    }
    if !gone {
        return Verdict::fail("eager-thread-alive", "producer thread still alive 4 s after the iterator was dropped");
    }
    Verdict::ok(n >= 2, if take < n { "eager-dropped-early" } else { "eager-all" })
}

// ------------------------------------------------------------------------------------ gen

fn permutations(n: usize) -> Vec<Vec<usize>> {
    if n == 0 {
        return vec![vec![]];
    }
    let mut out = Vec::new();
    for p in permutations(n - 1) {
        for pos in 0..=p.len() {
            let mut q = p.clone();
            q.insert(pos, n - 1);
            out.push(q);
        }
    }
    out
}

fn inorder_case(arr: &[Arrival]) -> Case {
    let mut c = vec![tag("inorder")];
    for a in arr {
        match a {
            Ok((k, v)) => {
                c.push(num(k));
                c.push(num(v));
            }
            Err(e) => {
                c.push(tag("e"));
                c.push(num(e));
            }
        }
    }
    c
}

fn shuffle<T>(rng: &mut Rng, v: &mut [T]) {
    for i in (1..v.len()).rev() {
        let j = rng.below(i as u64 + 1) as usize;
        v.swap(i, j);
    }
}

fn all_words(alphabet: usize, len: usize) -> Vec<Vec<u8>> {
    let mut out = vec![vec![]];
    for _ in 0..len {
        let mut next = Vec::new();
        for w in &out {
            for a in 0..alphabet {
                let mut w2 = w.clone();
                w2.push(a as u8);
                next.push(w2);
            }
        }
        out = next;
    }
    out
}

fn gen(rng: &mut Rng, n: usize) -> Vec<Case> {
    let mut out: Vec<Case> = Vec::new();
    let thorough = n >= 20000;
    // ---- boundary block
    // every arrival order of 0..k (k <= 4), values chosen so that value != id
    for k in 0..=4usize {
        for p in permutations(k) {
            let arr: Vec<Arrival> = p.iter().map(|i| Ok((*i, 100 + *i as u64))).collect();
            out.push(inorder_case(&arr));
            if k <= 3 {
                for pos in 0..=k {
                    let mut a2 = arr.clone();
                    a2.insert(pos, Err(7));
                    out.push(inorder_case(&a2));
                }
            }
        }
    }
    // invalid sequences: duplicate, key seen again, gaps
    for arr in [
        vec![Ok((0, 1)), Ok((0, 2))],
        vec![Ok((1, 1)), Ok((1, 2))],
        vec![Ok((2, 1)), Ok((1, 2)), Ok((2, 3)), Ok((0, 4))],
        vec![Ok((1, 1))],
        vec![Ok((0, 1)), Ok((2, 2))],
        vec![Ok((0, 1)), Ok((2, 2)), Ok((3, 2)), Err(9), Ok((1, 5))],
        vec![Ok((1, 5)), Ok((0, 4)), Err(9), Ok((2, 5)), Err(10)],
        vec![Err(1), Err(2)],
    ] {
        out.push(inorder_case(&arr));
    }
    // every forced schedule of small instances
    let small: &[(usize, usize)] = if thorough {
        &[(2, 0), (2, 1), (2, 2), (2, 3), (2, 4), (3, 0), (3, 1), (3, 2), (3, 3)]
    } else {
        &[(2, 0), (2, 1), (2, 2), (2, 3), (3, 1)]
    };
    for (t, items) in small {
        for w in all_words(*t, items + t) {
            out.push(vec![tag("slice"), num(items), num(t), vec![], w.clone()]);
            if *items >= 1 && (thorough || w.len() <= 4) {
                for f in 0..*items {
                    out.push(vec![tag("slice"), num(items), num(t), vec![f as u8], w.clone()]);
                }
            }
        }
    }
    for t in [1usize, 2, 3, 16] {
        for items in [0usize, 1, 2, 5] {
            out.push(vec![tag("slicefree"), num(items), num(t), vec![], num(0), rng.bytes(items * 3 + 4)]);
            for variant in 0..4 {
                out.push(vec![tag("pipe"), num(variant), num(items), num(t), vec![], num(items / 2), rng.bytes(12)]);
            }
        }
    }
    for (nn, cs, fl, take) in [(0, 1, 0, 5), (1, 1, 0, 5), (5, 2, 0, 5), (5, 5, 1, 9), (6, 3, 2, 2), (9, 4, 0, 0), (3, 0, 1, 1), (40, 7, 1, 3)] {
        out.push(vec![tag("eager"), num(nn), num(cs), num(fl), num(take)]);
    }
    out.push(vec![tag("slicerace"), num(1), num(2), num(1500)]);
    out.push(vec![tag("slicerace"), num(3), num(2), num(1500)]);
    // ---- random mixture
    let race_every = if thorough { 400 } else { 90 };
    while out.len() < n {
        if out.len() % race_every == race_every - 1 {
            // claim-window stress, spread over the run (each case costs about a second)
            let t = rng.range(2, 4) as usize;
            let items = match rng.below(4) {
                0 => 1,
                1 => t + 1, // one item left after a full rendezvous
                _ => rng.range(1, 4) as usize,
            };
            out.push(vec![tag("slicerace"), num(items), num(t), num(rng.range(1500, 3000))]);
            continue;
        }
        match rng.below(20) {
            0..=4 => {
                // inorder: a permutation of 0..k, locally or fully shuffled; sometimes an error, a
                // duplicate, a hole
                let k = if rng.chance(1, 6) { rng.range(0, 200) } else { rng.range(0, 12) } as usize;
                let mut ids: Vec<usize> = (0..k).collect();
                match rng.below(3) {
                    0 => shuffle(rng, &mut ids),
                    1 => {
                        // bounded displacement, like results of a thread pool
                        let w = rng.range(1, 8) as usize;
                        for chunk in ids.chunks_mut(w) {
                            shuffle(rng, chunk);
                        }
                    }
                    _ => ids.reverse(),
                }
                let mut arr: Vec<Arrival> = ids.iter().map(|i| Ok((*i, rng.below(1000)))).collect();
                if rng.chance(1, 3) {
                    let pos = rng.below(arr.len() as u64 + 1) as usize;
                    arr.insert(pos, Err(rng.below(50)));
                }
                if rng.chance(1, 10) && !arr.is_empty() {
                    let pos = rng.below(arr.len() as u64) as usize;
                    match rng.below(3) {
                        0 => {
                            let d = arr[rng.below(arr.len() as u64) as usize].clone();
                            arr.insert(pos, d);
                        }
                        1 => {
                            arr.remove(pos);
                        }
                        _ => {
                            if let Ok((id, _)) = &mut arr[pos] {
                                *id += rng.range(1, 3) as usize;
                            }
                        }
                    }
                }
                out.push(inorder_case(&arr));
            }
            5..=9 => {
                // forced schedule
                let t = if rng.chance(1, 5) { rng.range(1, 16) } else { rng.range(1, 5) } as usize;
                let items = if rng.chance(1, 8) { rng.range(0, 120) } else { rng.range(0, 24) } as usize;
                let mut fails = Vec::new();
                if rng.chance(1, 2) && items > 0 {
                    for _ in 0..rng.range(1, 3) {
                        fails.push(rng.below(items as u64) as u8);
                    }
                }
                let len = rng.range(0, (items + 2 * t + 2) as i64) as usize;
                let favourite = rng.below(t as u64) as u8;
                let mut sched: Vec<u8> = (0..len)
                    .map(|_| {
                        if rng.chance(1, 3) {
                            favourite
                        } else if rng.chance(1, 12) {
                            254
                        } else {
                            rng.below(t as u64 + 1) as u8 // t itself is an ignored label
                        }
                    })
                    .collect();
                if rng.chance(1, 4) && !sched.is_empty() {
                    let pos = rng.below(sched.len() as u64) as usize;
                    sched[pos] = 255;
                }
                out.push(vec![tag("slice"), num(items), num(t), fails, sched]);
            }
            10..=13 => {
                let t = rng.range(1, 16) as usize;
                let items = if rng.chance(1, 4) { rng.range(0, 8) } else { rng.range(0, 200) } as usize;
                let mut fails = Vec::new();
                if rng.chance(2, 5) && items > 0 {
                    for _ in 0..rng.range(1, 4) {
                        fails.push(rng.below(items as u64) as u8);
                    }
                }
                let stop_after = if rng.chance(1, 5) { rng.range(1, 4) } else { 0 };
                let sl = rng.range(0, (4 * items + 8 * t) as i64) as usize;
                let sched = rng.bytes(sl);
                out.push(vec![tag("slicefree"), num(items), num(t), fails, num(stop_after), sched]);
            }
            14..=18 => {
                let variant = rng.below(4) as usize;
                let t = if rng.chance(1, 2) { rng.range(1, 4) } else { rng.range(1, 16) } as usize;
                let items = if rng.chance(1, 4) { rng.range(0, 8) } else { rng.range(0, 200) } as usize;
                let rfail = if variant != 3 && rng.chance(2, 5) && items > 0 { num(rng.below(items as u64)) } else { vec![] };
                let k = if variant == 3 { rng.range(0, items as i64 + 2) as usize } else { 0 };
                let sl = rng.range(0, (6 * items + 4 * t) as i64) as usize;
                let sched = rng.bytes(sl);
                out.push(vec![tag("pipe"), num(variant), num(items), num(t), rfail, num(k), sched]);
            }
            _ => {
                let items = rng.range(0, 60) as usize;
                let cs = if rng.chance(1, 30) { 0 } else { rng.range(1, 9) as usize };
                out.push(vec![tag("eager"), num(items), num(cs), num(rng.range(0, 3)), num(rng.range(0, items as i64 + 3))]);
            }
        }
    }
    out.truncate(n.max(1));
    out
}

fn imp(c: &Case) -> String {
    match f_str(c, 0) {
        b"inorder" => show_toks(&run_inorder(parse_arrivals(c))),
        b"slice" => imp_slice(c),
        b"slicefree" => imp_slicefree(c),
        b"pipe" => imp_pipe(c),
        b"eager" => imp_eager(c),
        b"slicerace" => "race".into(), // judged by prop() only: nothing schedule-independent to compare
        _ => "?".into(),
    }
}

fn prop(c: &Case) -> Verdict {
    match f_str(c, 0) {
        b"inorder" => prop_inorder(c),
        b"slice" => prop_slice(c),
        b"slicefree" => prop_slicefree(c),
        b"pipe" => prop_pipe(c),
        b"eager" => prop_eager(c),
        b"slicerace" => prop_slicerace(c),
        _ => Verdict::ok(false, "?"),
    }
}

fn main() {
    main_with(Harness { gen, imp, prop, git: None, deadline: Duration::from_secs(60) });
}
