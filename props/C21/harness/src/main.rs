//! C21 harness: reflog line codec (LineRef::from_bytes, Line::write_to, the bytes a transaction appends)
//! and the forward / reverse reflog iterators of gix-ref.
use bstr::ByteSlice;
use gix_hash::ObjectId;
use gix_ref::file::log;
use gixv_common::*;
use std::time::Duration;


// ---------------------------------------------------------------------------------------------
// transcript helpers (must print exactly what coq/Run.v prints)
// ---------------------------------------------------------------------------------------------
fn show_sig_msg(sig_name: &[u8], email: &[u8], t: &gix_date::Time, msg: &[u8]) -> String {
    format!(
        "{},{},{},{},{},{}",
        hexs(sig_name),
        hexs(email),
        t.seconds,
        t.offset,
        match t.sign {
            gix_date::time::Sign::Plus => "+",
            gix_date::time::Sign::Minus => "-",
        },
        hexs(msg)
    )
}
fn show_ref(l: &log::LineRef<'_>) -> String {
    format!(
        "{},{},{}",
        l.previous_oid,
        l.new_oid,
        show_sig_msg(l.signature.name, l.signature.email, &l.signature.time, l.message)
    )
}
fn show_owned(l: &gix_ref::log::Line) -> String {
    format!(
        "{},{},{}",
        l.previous_oid.to_hex(),
        l.new_oid.to_hex(),
        show_sig_msg(&l.signature.name, &l.signature.email, &l.signature.time, &l.message)
    )
}
fn show_items(items: &[String]) -> String {
    let mut s = format!("n={}", items.len());
    for i in items {
        s.push(';');
        s.push_str(i);
    }
    s
}

fn forward_items(file: &[u8]) -> Vec<String> {
    log::iter::forward(file)
        .map(|r| match r {
            Ok(l) => show_ref(&l),
            Err(_) => "E".into(),
        })
        .collect()
}

/// Ok(items) or Err("err ZeroBuf")
fn reverse_items(file: &[u8], bufsize: usize, fill: u8) -> Result<Vec<String>, String> {
    let mut buf = vec![fill; bufsize];
    let mut it = match log::iter::reverse(std::io::Cursor::new(file), &mut buf) {
        Ok(it) => it,
        Err(_) => return Err("err ZeroBuf".into()),
    };
    let mut out = Vec::new();
    let limit = 4 * file.len() + 16;
    loop {
        match it.next() {
            None => break,
            Some(Ok(l)) => out.push(show_owned(&l)),
            Some(Err(log::iter::reverse::Error::Decode(_))) => out.push("E".into()),
            Some(Err(log::iter::reverse::Error::Io(e))) => {
                out.push(if e.kind() == std::io::ErrorKind::UnexpectedEof { "F".into() } else { "S".into() })
            }
        }
        if out.len() > limit {
            out.push("RUNAWAY".into());
            return Ok(out);
        }
    }
    // a finished iterator stays finished
    for _ in 0..2 {
        if it.next().is_some() {
            out.push("EXTRA".into());
        }
    }
    Ok(out)
}

fn case_line_value(c: &Case) -> Option<gix_ref::log::Line> {
    if f_str(c, 1).len() != 20 || f_str(c, 2).len() != 20 {
        return None;
    }
    Some(gix_ref::log::Line {
        previous_oid: ObjectId::from_bytes_or_panic(f_str(c, 1)),
        new_oid: ObjectId::from_bytes_or_panic(f_str(c, 2)),
        signature: gix_actor::Signature {
            name: f_str(c, 3).into(),
            email: f_str(c, 4).into(),
            time: gix_date::Time {
                seconds: f_i64(c, 5),
                offset: f_i64(c, 6) as i32,
                sign: if f_str(c, 7) == b"-" { gix_date::time::Sign::Minus } else { gix_date::time::Sign::Plus },
            },
        },
        message: f_str(c, 8).into(),
    })
}

static COUNTER: std::sync::atomic::AtomicU64 = std::sync::atomic::AtomicU64::new(0);

/// Append one entry through the public transaction API into a fresh store; the content of the reflog file.
fn append_via_transaction(l: &gix_ref::log::Line) -> Result<Vec<u8>, String> {
    use gix_ref::transaction::{Change, LogChange, PreviousValue, RefEdit, RefLog};
    use gix_ref::Target;
    let n = COUNTER.fetch_add(1, std::sync::atomic::Ordering::SeqCst);
    let dir = std::env::temp_dir().join(format!("gixv-c21-{}-{}", std::process::id(), n));
    let _ = std::fs::remove_dir_all(&dir);
    std::fs::create_dir_all(dir.join("refs/heads")).map_err(|e| e.to_string())?;
    std::fs::write(dir.join("HEAD"), b"ref: refs/heads/main\n").map_err(|e| e.to_string())?;
    let res = (|| -> Result<Vec<u8>, String> {
        let expected = if l.previous_oid.is_null() {
            PreviousValue::MustNotExist
        } else {
            std::fs::write(dir.join("refs/heads/x"), format!("{}\n", l.previous_oid.to_hex())).map_err(|e| e.to_string())?;
            PreviousValue::MustExistAndMatch(Target::Object(l.previous_oid))
        };
        let store = gix_ref::file::Store::at(dir.clone(), Default::default());
        let edit = RefEdit {
            change: Change::Update {
                log: LogChange { mode: RefLog::AndReference, force_create_reflog: true, message: l.message.clone() },
                expected,
                new: Target::Object(l.new_oid),
            },
            name: "refs/heads/x".try_into().expect("valid name"),
            deref: false,
        };
        let sig = l.signature.to_ref();
        store
            .transaction()
            .prepare(Some(edit), gix_lock::acquire::Fail::Immediately, gix_lock::acquire::Fail::Immediately)
            .map_err(|_| "prepare".to_string())?
            .commit(Some(sig))
            .map_err(|_| "commit".to_string())?;
        std::fs::read(dir.join("logs/refs/heads/x")).map_err(|_| "nolog".to_string())
    })();
    let _ = std::fs::remove_dir_all(&dir);
    res
}

fn imp(c: &Case) -> String {
    match f_str(c, 0) {
        b"parse" => match log::LineRef::from_bytes(f_str(c, 1)) {
            Ok(l) => format!("ok {} {}", show_ref(&l), show_owned(&l.to_owned())),
            Err(_) => "err".into(),
        },
        b"fwd" => show_items(&forward_items(f_str(c, 1))),
        b"rev" => {
            let fill = f_str(c, 3).first().copied().unwrap_or(0);
            match reverse_items(f_str(c, 1), f_u64(c, 2) as usize, fill) {
                Ok(items) => show_items(&items),
                Err(e) => e,
            }
        }
        b"write" => match case_line_value(c) {
            None => "?".into(),
            Some(l) => {
                let mut out = Vec::new();
                match l.write_to(&mut out) {
                    Ok(()) => format!("ok {}", hexs(&out)),
                    Err(_) => "err".into(),
                }
            }
        },
        b"append" => match case_line_value(c) {
            None => "?".into(),
            Some(l) => match append_via_transaction(&l) {
                Ok(b) => format!("ok {}", hexs(&b)),
                Err(_) => "err".into(),
            },
        },
        _ => "?".into(),
    }
}

// ---------------------------------------------------------------------------------------------
// the property, evaluated on the implementation with plain Rust oracles
// ---------------------------------------------------------------------------------------------

/// naive line splitting: at LF only; a final LF does not start another line
fn naive_lines(file: &[u8]) -> Vec<&[u8]> {
    if file.is_empty() {
        return vec![];
    }
    let body = if file[file.len() - 1] == b'\n' { &file[..file.len() - 1] } else { file };
    body.split(|b| *b == b'\n').collect()
}

fn is_ws(b: u8) -> bool {
    matches!(b, b' ' | b'\t' | b'\n' | 0x0c | b'\r')
}

/// the entries for which "parses back to the same entry" is claimed
fn wf_entry(l: &gix_ref::log::Line) -> bool {
    let s = &l.signature;
    let tok_ok = |t: &[u8]| !t.iter().any(|b| matches!(b, b'<' | b'>' | b'\n'));
    let email_trimmed = s.email.first().map_or(true, |b| !is_ws(*b)) && s.email.last().map_or(true, |b| !is_ws(*b));
    let off = s.time.offset as i64;
    let minus = s.time.sign == gix_date::time::Sign::Minus;
    let off_ok = off % 60 == 0 && off.abs() / 3600 <= 99 && if minus { off <= 0 } else { off >= 0 };
    tok_ok(&s.name) && tok_ok(&s.email) && email_trimmed && off_ok && !l.message.contains(&b'\n')
}

fn same_entry(r: &log::LineRef<'_>, l: &gix_ref::log::Line) -> bool {
    r.previous_oid() == l.previous_oid
        && r.new_oid() == l.new_oid
        && r.signature.name == l.signature.name.as_bstr()
        && r.signature.email == l.signature.email.as_bstr()
        && r.signature.time == l.signature.time
        && r.message == l.message.as_bstr()
}

fn check_reads_back(bytes: &[u8], l: &gix_ref::log::Line, what: &str) -> Result<(), String> {
    // as a one-entry log, in both directions
    let mut fwd = log::iter::forward(bytes);
    match fwd.next() {
        Some(Ok(r)) if same_entry(&r, l) => {}
        Some(Ok(r)) => return Err(format!("{what}: forward read back {}", show_ref(&r))),
        Some(Err(_)) => return Err(format!("{what}: forward does not parse {:?}", bytes.as_bstr())),
        None => return Err(format!("{what}: forward yields nothing")),
    }
    if fwd.next().is_some() {
        return Err(format!("{what}: more than one line written"));
    }
    let mut buf = vec![0u8; bytes.len()];
    let mut rev = log::iter::reverse(std::io::Cursor::new(bytes), &mut buf).map_err(|_| "zero".to_string())?;
    match rev.next() {
        Some(Ok(r)) if r == *l => {}
        Some(Ok(r)) => return Err(format!("{what}: reverse read back {}", show_owned(&r))),
        _ => return Err(format!("{what}: reverse does not parse {:?}", bytes.as_bstr())),
    }
    if rev.next().is_some() {
        return Err(format!("{what}: reverse yields more than one line"));
    }
    Ok(())
}

fn prop(c: &Case) -> Verdict {
    match f_str(c, 0) {
        b"parse" => {
            // a line that parses has 40-digit ids and a message without LF; what it parsed is a prefix-closed reading:
            // re-serialising a well-formed parse result and parsing again gives the same entry
            match log::LineRef::from_bytes(f_str(c, 1)) {
                Err(_) => Verdict::ok(false, "parse-err"),
                Ok(r) => {
                    if r.previous_oid.len() != 40 || r.new_oid.len() != 40 || r.message.contains(&b'\n') {
                        return Verdict::fail("parse-shape", format!("{}", show_ref(&r)));
                    }
                    let l = r.to_owned();
                    if wf_entry(&l) {
                        let mut out = Vec::new();
                        if l.write_to(&mut out).is_err() {
                            return Verdict::fail("reparse-write", "well-formed parsed entry is not writable");
                        }
                        match check_reads_back(&out, &l, "reparse") {
                            Ok(()) => Verdict::ok(true, "parse-ok-rt"),
                            Err(e) => Verdict::fail("reparse", e),
                        }
                    } else {
                        Verdict::ok(true, "parse-ok-nonwf")
                    }
                }
            }
        }
        b"fwd" => {
            let file = f_str(c, 1);
            let lines = naive_lines(file);
            let want: Vec<String> = lines
                .iter()
                .map(|l| match log::LineRef::from_bytes(l) {
                    Ok(r) => show_ref(&r),
                    Err(_) => "E".into(),
                })
                .collect();
            let got = forward_items(file);
            if got == want {
                Verdict::ok(!lines.is_empty(), if lines.is_empty() { "fwd-empty" } else { "fwd" })
            } else {
                Verdict::fail("fwd-split", format!("forward yields {} items, LF-split has {}", got.len(), want.len()))
            }
        }
        b"rev" => {
            let file = f_str(c, 1);
            let b = f_u64(c, 2) as usize;
            let fill = f_str(c, 3).first().copied().unwrap_or(0);
            let lines = naive_lines(file);
            // entries as the forward iterator reads them, printed the owned way
            let fwd: Vec<String> = log::iter::forward(file)
                .map(|r| match r {
                    Ok(l) => show_owned(&l.to_owned()),
                    Err(_) => "E".into(),
                })
                .collect();
            let got = match reverse_items(file, b, fill) {
                Ok(g) => g,
                Err(_) => {
                    return if b == 0 { Verdict::ok(false, "rev-zero") } else { Verdict::fail("rev-init", "reverse() failed") };
                }
            };
            if b == 0 {
                return Verdict::fail("rev-zero", "zero-sized buffer accepted");
            }
            // does every line fit: the first line needs its length, every other line its length plus the LF before it
            let last_too_long = lines.iter().enumerate().rposition(|(i, l)| if i == 0 { l.len() > b } else { l.len() + 1 > b });
            match last_too_long {
                None => {
                    let mut want = fwd.clone();
                    want.reverse();
                    if got == want {
                        let maxline = lines.iter().map(|l| l.len() + 1).max().unwrap_or(0);
                        let class = if lines.is_empty() {
                            "rev-empty"
                        } else if b <= maxline {
                            "rev-fit-tight"
                        } else if b < file.len() {
                            "rev-fit-window"
                        } else {
                            "rev-fit-whole"
                        };
                        Verdict::ok(!lines.is_empty(), class)
                    } else {
                        Verdict::fail(
                            "rev-differs",
                            format!("buffer {b} holds every line, reverse yields {} items, forward {}", got.len(), want.len()),
                        )
                    }
                }
                Some(k) => {
                    // everything after the last line that does not fit, newest first, then the error, then the end
                    let mut want: Vec<String> = fwd[k + 1..].to_vec();
                    want.reverse();
                    want.push("S".into());
                    if got == want {
                        Verdict::ok(true, "rev-too-small")
                    } else {
                        Verdict::fail("rev-too-small", format!("buffer {b} < line {k}: got {} items, want {}", got.len(), want.len()))
                    }
                }
            }
        }
        b"write" => match case_line_value(c) {
            None => Verdict::ok(false, "write-skip"),
            Some(l) => {
                let mut out = Vec::new();
                match l.write_to(&mut out) {
                    Err(_) => {
                        if wf_entry(&l) {
                            Verdict::fail("write-refused", "well-formed entry not written")
                        } else {
                            Verdict::ok(false, "write-err")
                        }
                    }
                    Ok(()) => {
                        if !wf_entry(&l) {
                            return Verdict::ok(true, "write-nonwf");
                        }
                        match check_reads_back(&out, &l, "write") {
                            Ok(()) => Verdict::ok(true, "write-rt"),
                            Err(e) => Verdict::fail("write-rt", e),
                        }
                    }
                }
            }
        },
        b"append" => match case_line_value(c) {
            None => Verdict::ok(false, "append-skip"),
            Some(l) => match append_via_transaction(&l) {
                Err(_) => {
                    if wf_entry(&l) {
                        Verdict::fail("append-refused", "well-formed entry not appended")
                    } else {
                        Verdict::ok(false, "append-err")
                    }
                }
                Ok(bytes) => {
                    if l.message.contains(&b'\n') {
                        // the documented precondition of LogChange::message; what is written is more than one line
                        let n = log::iter::forward(&bytes).count();
                        return if n > 1 {
                            Verdict::fail("append-message-with-newline", format!("{n} lines appended for one entry"))
                        } else {
                            Verdict::ok(true, "append-nonwf")
                        };
                    }
                    if !wf_entry(&l) {
                        return Verdict::ok(true, "append-nonwf");
                    }
                    match check_reads_back(&bytes, &l, "append") {
                        Ok(()) => Verdict::ok(true, "append-rt"),
                        Err(e) => Verdict::fail("append-rt", e),
                    }
                }
            },
        },
        _ => Verdict::ok(false, "unknown-op"),
    }
}

// ---------------------------------------------------------------------------------------------
// generator
// ---------------------------------------------------------------------------------------------

const NAME_ALPHA: &[u8] = b"abAB  .-\t";
const EMAIL_ALPHA: &[u8] = b"ab@.-x";
const MSG_ALPHA: &[u8] = b"ab c:>/<\t\r-";

fn gen_secs(rng: &mut Rng) -> i64 {
    match rng.below(12) {
        0 => 0,
        1 => -1,
        2 => i64::MAX,
        3 => i64::MIN,
        4 => -(rng.below(100000) as i64),
        5 => 9,
        6 => 10,
        _ => rng.range(0, 2_000_000_000),
    }
}
/// (offset, sign) mostly canonical
fn gen_tz(rng: &mut Rng) -> (i64, bool) {
    match rng.below(14) {
        0 => (0, false),
        1 => (0, true),
        2 => (99 * 3600 + 59 * 60, false),
        3 => (-(99 * 3600 + 59 * 60), true),
        4 => (100 * 3600, false),           // not representable: write fails
        5 => (3600, true),                  // sign disagrees with offset
        6 => (-3600, false),
        7 => (90, false),                   // not a whole minute... 90 s = 1 min 30
        8 => (i32::MIN as i64, true),
        _ => {
            let h = rng.range(0, 14);
            let m = *rng.pick(&[0i64, 0, 30, 45, 59, 5]);
            let minus = rng.chance(1, 2);
            let o = h * 3600 + m * 60;
            (if minus { -o } else { o }, minus)
        }
    }
}
fn gen_msg(rng: &mut Rng) -> Vec<u8> {
    match rng.below(10) {
        0 => vec![],
        1 => b"\r".to_vec(),
        2 => {
            let mut m = rng.word(MSG_ALPHA, 0, 12);
            m.push(b'\r');
            m
        }
        3 => b"merge a>b".to_vec(),
        4 => rng.word(MSG_ALPHA, 30, 90),
        _ => rng.word(MSG_ALPHA, 0, 20),
    }
}
fn gen_name(rng: &mut Rng) -> Vec<u8> {
    match rng.below(8) {
        0 => vec![],
        1 => b"n ".to_vec(),
        2 => b" n".to_vec(),
        _ => rng.word(NAME_ALPHA, 0, 8),
    }
}
fn gen_email(rng: &mut Rng) -> Vec<u8> {
    match rng.below(12) {
        0 => vec![],
        1 => b" e".to_vec(),
        2 => b"e ".to_vec(),
        3 => b" ".to_vec(),
        _ => rng.word(EMAIL_ALPHA, 0, 8),
    }
}
fn gen_oid(rng: &mut Rng) -> Vec<u8> {
    if rng.chance(1, 6) {
        vec![0u8; 20]
    } else {
        rng.bytes(20)
    }
}

struct Entry {
    prev: Vec<u8>,
    new: Vec<u8>,
    name: Vec<u8>,
    email: Vec<u8>,
    secs: i64,
    off: i64,
    minus: bool,
    msg: Vec<u8>,
}
fn gen_entry(rng: &mut Rng, wellformed: bool) -> Entry {
    let mut e = Entry {
        prev: gen_oid(rng),
        new: gen_oid(rng),
        name: gen_name(rng),
        email: gen_email(rng),
        secs: gen_secs(rng),
        off: 0,
        minus: false,
        msg: gen_msg(rng),
    };
    let (o, m) = gen_tz(rng);
    e.off = o;
    e.minus = m;
    if wellformed {
        while e.email.first().map_or(false, |b| is_ws(*b)) {
            e.email.remove(0);
        }
        while e.email.last().map_or(false, |b| is_ws(*b)) {
            e.email.pop();
        }
        if e.off % 60 != 0 || e.off.abs() / 3600 > 99 || (e.minus && e.off > 0) || (!e.minus && e.off < 0) {
            e.off = if e.minus { -19800 } else { 19800 };
        }
        if e.prev == e.new {
            e.new[0] ^= 1;
        }
    } else if rng.chance(1, 3) {
        let i = rng.below(e.msg.len() as u64 + 1) as usize;
        e.msg.insert(i, b'\n');
    } else if rng.chance(1, 3) {
        let bad = *rng.pick(b"<>\n");
        if rng.chance(1, 2) {
            e.name.push(bad)
        } else {
            e.email.insert(0, bad)
        }
    }
    e
}
fn entry_case(op: &str, e: &Entry) -> Case {
    vec![
        tag(op),
        e.prev.clone(),
        e.new.clone(),
        e.name.clone(),
        e.email.clone(),
        num(e.secs),
        num(e.off),
        tag(if e.minus { "-" } else { "+" }),
        e.msg.clone(),
    ]
}
/// the text of a line without its LF, written by hand (not by the code under test)
fn entry_text(e: &Entry, append_style: bool) -> Vec<u8> {
    let mut l = Vec::new();
    l.extend_from_slice(hexs(&e.prev).as_bytes());
    l.push(b' ');
    l.extend_from_slice(hexs(&e.new).as_bytes());
    l.push(b' ');
    l.extend_from_slice(&e.name);
    l.extend_from_slice(b" <");
    l.extend_from_slice(&e.email);
    l.extend_from_slice(b"> ");
    l.extend_from_slice(e.secs.to_string().as_bytes());
    let a = e.off.unsigned_abs();
    l.extend_from_slice(format!(" {}{:02}{:02}", if e.minus { '-' } else { '+' }, (a / 3600) % 100, (a % 3600) / 60).as_bytes());
    if !(append_style && e.msg.is_empty()) {
        l.push(b'\t');
        l.extend(e.msg.iter().filter(|b| **b != b'\n'));
    }
    l
}

fn mutate_line(rng: &mut Rng, mut l: Vec<u8>) -> Vec<u8> {
    match rng.below(9) {
        0 => {
            let n = rng.below(l.len() as u64 + 1) as usize;
            l.truncate(n);
        }
        1 | 2 => {
            if !l.is_empty() {
                let i = rng.below(l.len() as u64) as usize;
                l[i] = *rng.pick(b"<> \t\n\r+-09afgAF\x0c\x0b");
            }
        }
        3 | 4 => {
            let i = rng.below(l.len() as u64 + 1) as usize;
            l.insert(i, *rng.pick(b"<> \t\n\r+-09afg"));
        }
        5 => {
            if !l.is_empty() {
                let i = rng.below(l.len() as u64) as usize;
                l.remove(i);
            }
        }
        6 => {
            // around the 40-digit ids
            let i = rng.below(82) as usize;
            if i < l.len() {
                l[i] = *rng.pick(b"g A0 ");
            }
        }
        _ => {}
    }
    l
}

/// hand-written lines around every decision of the signature / time parser
fn parse_boundary() -> Vec<Vec<u8>> {
    let o = "0123456789abcdef0123456789abcdef01234567";
    let z = "0000000000000000000000000000000000000000";
    let mut v: Vec<Vec<u8>> = Vec::new();
    let sigs: &[&str] = &[
        "n <e> 12 +0100", "n <e> 12 -0100", "n <e> 12 +0000", "n <e> 12 -0000", "n <e> 12 +9959", "n <e> 12 +01001", "n <e> 12 +010",
        "n <e> 12 +01", "n <e> 12 +0", "n <e> 12 +", "n <e> 12 ++0100", "n <e> 12 --0100", "n <e> 12 +-0100", "n <e> 12 0100",
        "n <e> 12  +0100", "n <e>  12 +0100", "n <e>12 +0100", "n <e> 12", "n <e> ", "n <e>", "n <e> +12 +0100", "n <e> -12 +0100",
        "n <e> - +0100", "n <e> + +0100", "n <e>  +0100", "n <e> 1a +0100", "n <e> 9223372036854775807 +0100",
        "n <e> 9223372036854775808 +0100", "n <e> -9223372036854775808 +0100", "n <e> -9223372036854775809 +0100",
        "n <e> 99999999999999999999 +0100", "n <e> 012 +0100", "n <e> 12 +0160", "n <e> 12 +0199",
        "<e> 12 +0100", " <e> 12 +0100", "n  <e> 12 +0100", "n<e> 12 +0100", "n < e > 12 +0100", "n <<e>> 12 +0100", "n <> 12 +0100",
        "n < > 12 +0100", "n <  > 12 +0100", "n <e> x> 12 +0100", "n <e 12 +0100", "n e> 12 +0100", "n >e< 12 +0100", "n <e\t> 12 +0100",
        "n\t <e> 12 +0100", "n <e>\t", "n <e> 12 +0100 ", "n <e> 12 +0100x", "a\x0c <\x0ce\x0c> 12 +0100", "a\x0b <\x0be\x0b> 12 +0100",
        "n <a<b> 12 +0100", "n <e>> 12 +0100",
    ];
    let tails: &[&str] = &["", "\t", "\tmsg", "\tm>g", "\tm<s>g\r", "\n", "\tmsg\n", "\tmsg\nmore", "\nmore", " ", "\r", "\tx\ty", "\t\t"];
    for s in sigs {
        for t in tails {
            v.push(format!("{o} {z} {s}{t}").into_bytes());
        }
    }
    for (a, b) in [
        (&o[..39], z), (o, &z[..39]), ("0123456789abcdef0123456789abcdef012345678", z), (o, "00000000000000000000000000000000000000000"),
        ("0123456789ABCDEF0123456789abcdef01234567", z), ("", z), (o, ""),
    ] {
        v.push(format!("{a} {b} n <e> 12 +0100\tm").into_bytes());
    }
    v.push(format!("{o}  {z} n <e> 12 +0100\tm").into_bytes());
    v.push(format!("{o} {z}  n <e> 12 +0100\tm").into_bytes());
    v.push(format!("{o} {z}n <e> 12 +0100\tm").into_bytes());
    v.push(format!("{o}{z} n <e> 12 +0100\tm").into_bytes());
    v.push(format!("{o} {z} n\n <e> 12 +0100\tm").into_bytes());
    v.push(format!("{o} {z} n <e>\n 12 +0100\tm").into_bytes());
    v.push(format!("{o} {z} n <e> 12\n+0100\tm").into_bytes());
    v.push(format!("{o} {z} n <e> 12\t+0100\tm").into_bytes());
    v.push(b"".to_vec());
    v.push(b"\n".to_vec());
    v.push(b"\t".to_vec());
    v.push(b">".to_vec());
    v.push(b"<>".to_vec());
    v
}

fn gen_file(rng: &mut Rng, max_lines: usize, short: bool) -> Vec<u8> {
    let n = rng.range(0, max_lines as i64) as usize;
    let mut f = Vec::new();
    for i in 0..n {
        let l: Vec<u8> = if short {
            // tiny lines exercise the window arithmetic cheaply; they do not parse
            rng.word(b"ab\r\t>", 0, 6)
        } else {
            match rng.below(12) {
                0 => rng.word(b"ab\r", 0, 3),
                1 => {
                    let e = gen_entry(rng, true);
                    mutate_line(rng, entry_text(&e, false)).into_iter().filter(|b| *b != b'\n').collect()
                }
                2 => entry_text(&gen_entry(rng, true), true),
                _ => entry_text(&gen_entry(rng, true), false),
            }
        };
        f.extend_from_slice(&l);
        if i + 1 < n || !rng.chance(1, 6) {
            f.push(b'\n');
        }
        if rng.chance(1, 25) {
            f.push(b'\n');
        }
    }
    f
}

fn rev_case(file: &[u8], b: usize, fill: u8) -> Case {
    vec![tag("rev"), file.to_vec(), num(b), vec![fill]]
}

/// buffer sizes worth trying for a file: around every line length, around the file length, tiny
fn interesting_sizes(rng: &mut Rng, file: &[u8], budget: usize) -> Vec<usize> {
    let lines = naive_lines(file);
    let mut v: Vec<usize> = vec![0, 1, 2, file.len().saturating_sub(1), file.len(), file.len() + 1, file.len() + 2];
    let maxline = lines.iter().map(|l| l.len()).max().unwrap_or(0);
    for d in 0..=3 {
        v.push((maxline + d).saturating_sub(1));
    }
    for l in &lines {
        v.push(l.len());
        v.push(l.len() + 1);
    }
    // windows that end exactly at / next to a line start
    let mut pos = file.len();
    for l in lines.iter().rev().take(4) {
        pos = pos.saturating_sub(l.len() + 1);
        let w = file.len() - pos;
        v.push(w.saturating_sub(1));
        v.push(w);
        v.push(w + 1);
    }
    v.sort_unstable();
    v.dedup();
    // keep the sizes from just below the longest line upwards mostly
    let mut keep: Vec<usize> = v.into_iter().filter(|b| *b + 2 >= maxline || *b <= 2).collect();
    while keep.len() > budget {
        let i = rng.below(keep.len() as u64) as usize;
        keep.remove(i);
    }
    for _ in 0..budget / 3 + 1 {
        keep.push(rng.range(maxline.saturating_sub(1) as i64, file.len() as i64 + 2) as usize);
    }
    keep
}

fn gen(rng: &mut Rng, n: usize) -> Vec<Case> {
    let mut out: Vec<Case> = Vec::new();
    // ---- boundary block ----
    for l in parse_boundary() {
        out.push(vec![tag("parse"), l]);
    }
    // the witnesses of the two repaired defects and of the known finding
    let o = "0123456789abcdef0123456789abcdef01234567";
    let z = "0000000000000000000000000000000000000000";
    let cr = format!("{z} {o} n <e> 12 +0100\tmsg\r\n{o} {z} n <e> 13 +0100\tm2\n").into_bytes();
    out.push(vec![tag("fwd"), cr.clone()]);
    out.push(rev_case(&cr, 4096, 0));
    let two = format!("{z} {o} n <e> 12 +0100\tone\n{o} {z} nn <ee> 13 -0130\ttwo>\n").into_bytes();
    // every buffer size for a two-line log, from 0 to beyond the file
    for b in 0..=two.len() + 2 {
        if b >= 50 || b < 3 {
            out.push(rev_case(&two, b, if b % 2 == 0 { b'\n' } else { 0 }));
        }
    }
    // files of tiny lines: every buffer size, LF as initial buffer content
    for f in [&b""[..], b"\n", b"a", b"a\n", b"\n\n", b"a\n\n", b"\na", b"ab\ncd", b"ab\ncd\n", b"abc\n\nde\nf\n", b"a\nbcd\nef", b"abcd\ne\n", b"\r\n\r\n"] {
        out.push(vec![tag("fwd"), f.to_vec()]);
        for b in 0..=f.len() + 2 {
            out.push(rev_case(f, b, b'\n'));
            out.push(rev_case(f, b, b'x'));
        }
    }
    for wf in [true, false] {
        for _ in 0..40 {
            let e = gen_entry(rng, wf);
            out.push(entry_case("write", &e));
        }
    }
    for i in 0..12 {
        let e = gen_entry(rng, i % 4 != 3);
        out.push(entry_case("append", &e));
    }
    // ---- random mixture ----
    while out.len() < n {
        match rng.below(100) {
            0..=11 => {
                let e = gen_entry(rng, true);
                let l = entry_text(&e, rng.chance(1, 5));
                let l = if rng.chance(2, 3) { mutate_line(rng, l) } else { l };
                out.push(vec![tag("parse"), l]);
            }
            12..=19 => {
                let wf = rng.chance(3, 4);
                let e = gen_entry(rng, wf);
                out.push(entry_case("write", &e));
            }
            20..=21 => {
                let wf = rng.chance(5, 6);
                let e = gen_entry(rng, wf);
                out.push(entry_case("append", &e));
            }
            22..=27 => {
                let short = rng.chance(1, 3);
                let maxl = if rng.chance(1, 10) { 50 } else { 6 };
                let f = gen_file(rng, maxl, short);
                out.push(vec![tag("fwd"), f]);
            }
            28..=54 => {
                // tiny lines, all buffer sizes
                let f = gen_file(rng, 6, true);
                let fill = *rng.pick(b"\n\n\0a");
                for b in 0..=f.len() + 2 {
                    out.push(rev_case(&f, b, fill));
                }
            }
            _ => {
                let big = rng.chance(1, 12);
                let f = gen_file(rng, if big { 50 } else { 5 }, false);
                let fill = *rng.pick(b"\n\n\0a");
                let sizes = interesting_sizes(rng, &f, if big { 6 } else { 12 });
                for b in sizes {
                    out.push(rev_case(&f, b, fill));
                }
            }
        }
    }
    out.truncate(n.max(1));
    out
}

fn main() {
    main_with(Harness { gen, imp, prop, git: None, deadline: Duration::from_secs(20) });
}
