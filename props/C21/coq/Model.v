(* C21 — executable model of gitoxide's reflog line format and of the two reflog iterators.
   NO proofs here.

   Sources (pinned tree in /repo, after the two `fix:` commits recorded in findings.txt):
     gix-ref/src/store/file/log/iter.rs    forward()/Forward::next, reverse()/Reverse::next
     gix-ref/src/store/file/log/line.rs    LineRef::from_bytes (one, message), Line::write_to,
                                           From<LineRef> for Line (previous_oid()/new_oid())
     gix-ref/src/parse.rs                  hex_hash
     gix-ref/src/store/file/loose/reflog.rs  reflog_create_or_append (the bytes appended)
     gix-actor/src/signature/decode.rs     decode, identity
     gix-actor/src/signature/mod.rs        SignatureRef::write_to, validated_token
     gix-date/src/time/write.rs            Time::write_to
     gix-utils/src/btoi.rs                 to_signed / to_unsigned (i64, i32)

   Conventions.  The log file is a byte string; `Read + Seek` over it is [read_exact] (fails with
   UnexpectedEof outside the file).  `self.next()` tail calls of `Reverse::next` are one more turn
   of [step]; [collect] drives the iterator to its end on fuel.  Slicing / indexing / `expect`
   that would panic in Rust is [SPanic]/[Panic].  winnow combinators are transcribed by what they
   consume; every parse error collapses to one decode error (`from_bytes` drops the detail).
   bstr's `lines_with_terminator`, `find_byte`, `rfind_byte`, `find_byteset` get one definition each. *)
From GixV.Base Require Import Bytes Outcome.
Local Open Scope nat_scope.

Definition LF : byte := x0a.
Definition TAB : byte := x09.
Definition SP : byte := x20.
Definition GT : byte := ">"%byte.
Definition LT : byte := "<"%byte.

(* ---- bstr / slice helpers -------------------------------------------------------------- *)

(* find_byte *)
Fixpoint find_byte (c : byte) (l : bytes) : option nat :=
  match l with
  | [] => None
  | b :: r => if beqb b c then Some 0 else option_map S (find_byte c r)
  end.

(* rfind_byte *)
Fixpoint rfind_byte (c : byte) (l : bytes) : option nat :=
  match l with
  | [] => None
  | b :: r =>
      match rfind_byte c r with
      | Some i => Some (S i)
      | None => if beqb b c then Some 0 else None
      end
  end.

(* find_byteset / position of the first byte satisfying p *)
Fixpoint find_pred (p : byte -> bool) (l : bytes) : option nat :=
  match l with
  | [] => None
  | b :: r => if p b then Some 0 else option_map S (find_pred p r)
  end.

(* iter().take_while(p).count() *)
Fixpoint count_while (p : byte -> bool) (l : bytes) : nat :=
  match l with
  | [] => 0
  | b :: r => if p b then S (count_while p r) else 0
  end.

(* bstr lines_with_terminator(): every line keeps its `\n`; a last line without one is kept as is *)
Fixpoint lines_wt (l : bytes) : list bytes :=
  match l with
  | [] => []
  | b :: r =>
      if beqb b LF then [b] :: lines_wt r
      else match lines_wt r with
           | [] => [[b]]
           | x :: xs => (b :: x) :: xs
           end
  end.

(* line.strip_suffix(b"\n").unwrap_or(line) *)
Fixpoint strip_lf (l : bytes) : bytes :=
  match l with
  | [] => []
  | b :: r => match r with
              | [] => if beqb b LF then [] else [b]
              | _ => b :: strip_lf r
              end
  end.

(* u8::is_ascii_whitespace: SP, TAB, LF, FF, CR *)
Definition is_ascii_ws (b : byte) : bool :=
  beqb b x20 || beqb b x09 || beqb b x0a || beqb b x0c || beqb b x0d.

Definition is_lc_hex (b : byte) : bool :=
  let n := b2N b in
  (N.leb 48 n && N.leb n 57) || (N.leb 97 n && N.leb n 102).

(* ---- gix_utils::btoi --------------------------------------------------------------------- *)

Definition digit_val (b : byte) : option Z :=
  if is_digit b then Some (Z.of_N (b2N b) - 48)%Z else None.

(* to_unsigned_with_radix(bytes, 10) for a signed target with maximum [hi]: checked_mul, checked_add *)
Fixpoint to_unsigned_acc (hi : Z) (l : bytes) (acc : Z) : option Z :=
  match l with
  | [] => Some acc
  | b :: r =>
      match digit_val b with
      | None => None
      | Some x =>
          let m := (acc * 10)%Z in
          if Z.ltb hi m then None
          else let a := (m + x)%Z in
               if Z.ltb hi a then None else to_unsigned_acc hi r a
      end
  end.
Definition to_unsigned (hi : Z) (l : bytes) : option Z :=
  match l with [] => None | _ => to_unsigned_acc hi l 0%Z end.

(* the negative branch of to_signed_with_radix: checked_mul, checked_sub against the minimum [lo] *)
Fixpoint to_negative_acc (lo : Z) (l : bytes) (acc : Z) : option Z :=
  match l with
  | [] => Some acc
  | b :: r =>
      match digit_val b with
      | None => None
      | Some x =>
          let m := (acc * 10)%Z in
          if Z.ltb m lo then None
          else let a := (m - x)%Z in
               if Z.ltb a lo then None else to_negative_acc lo r a
      end
  end.

Definition to_signed (lo hi : Z) (l : bytes) : option Z :=
  match l with
  | [] => None
  | b :: r =>
      if beqb b "+"%byte then to_unsigned hi r
      else if beqb b "-"%byte then
        match r with [] => None | _ => to_negative_acc lo r 0%Z end
      else to_unsigned hi l
  end.

Definition I64_MIN : Z := (-9223372036854775808)%Z.
Definition I64_MAX : Z := 9223372036854775807%Z.
Definition I32_MIN : Z := (-2147483648)%Z.
Definition I32_MAX : Z := 2147483647%Z.
Definition to_signed_i64 := to_signed I64_MIN I64_MAX.
Definition to_signed_i32 := to_signed I32_MIN I32_MAX.

(* ---- data ---------------------------------------------------------------------------------- *)

Record time := mkTime { t_seconds : Z; t_offset : Z; t_minus : bool }.
Record sig := mkSig { s_name : bytes; s_email : bytes; s_time : time }.
(* LineRef: the ids are the hex text; Line: the ids are the 20 raw bytes *)
Record line := mkLine { l_prev : bytes; l_new : bytes; l_sig : sig; l_msg : bytes }.

Inductive perr := DecodeErr.

(* ---- gix_actor::signature::decode ----------------------------------------------------------- *)

Definition slice (l : bytes) (a b : nat) : bytes := firstn (b - a) (skipn a l).

(* identity(i): Ok ((name, email), rest) *)
Definition identity (i : bytes) : option (bytes * bytes * bytes) :=
  let eol_idx := match find_byte LF i with Some p => p | None => length i end in
  match rfind_byte GT (firstn eol_idx i) with
  | None => None
  | Some rgt =>
      let i_name_and_email := firstn rgt i in
      let skip_from_right :=
        count_while (fun b => is_ascii_ws b || beqb b GT) (rev i_name_and_email) in
      match find_byte LT i_name_and_email with
      | None => None
      | Some lft =>
          let skip_from_left := count_while (fun b => is_ascii_ws b || beqb b LT) (skipn lft i) in
          let name0 := firstn lft i in
          let name := match rev name0 with
                      | b :: r => if beqb b SP then rev r else name0
                      | [] => name0
                      end in
          let a := lft + skip_from_left in
          let b := rgt - skip_from_right in
          (* i.get(a..b): None when a > b or b > len *)
          if (b <? a) || (length i <? b) then None
          else Some (name, slice i a b, skipn (S rgt) i)
      end
  end.

Definition take_while_max (p : byte -> bool) (max : nat) (l : bytes) : nat :=
  Nat.min max (count_while p l).

(* the part of the time tuple after "<seconds> ": sign run, HH, MM, trailing digits -> (offset, minus, rest) *)
Definition tz_tail (i1 : bytes) : option (Z * bool * bytes) :=
  let nminus := count_while (fun b => beqb b "-"%byte) i1 in
  let nplus := count_while (fun b => beqb b "+"%byte) i1 in
  let sign_and_rest :=
    if 0 <? nminus then Some (true, skipn nminus i1)
    else if 0 <? nplus then Some (false, skipn nplus i1)
    else None in
  match sign_and_rest with
  | None => None
  | Some (minus, i2) =>
      if count_while is_digit i2 <? 2 then None                  (* take_while(2, digit) *)
      else
        match to_signed_i32 (firstn 2 i2) with
        | None => None
        | Some hours =>
            let i3 := skipn 2 i2 in
            let nm := take_while_max is_digit 2 i3 in             (* take_while(1..=2, digit) *)
            if nm <? 1 then None
            else
              match to_signed_i32 (firstn nm i3) with
              | None => None
              | Some minutes =>
                  let i4 := skipn nm i3 in
                  let ntrail := count_while is_digit i4 in
                  let offset :=
                    if ntrail =? 0
                    then ((hours * 3600 + minutes * 60) * (if minus then -1 else 1))%Z
                    else 0%Z in
                  Some (offset, minus, skipn ntrail i4)
              end
        end
  end.

(* the optional time tuple; None = the tuple did not match (input is then left untouched) *)
Definition time_tuple (i : bytes) : option (time * bytes) :=
  match find_byte SP i with                      (* take_until(0.., " ") then take(1) *)
  | None => None
  | Some p =>
      match to_signed_i64 (firstn p i) with
      | None => None
      | Some secs =>
          match tz_tail (skipn (S p) i) with
          | None => None
          | Some (offset, minus, r) => Some (mkTime secs offset minus, r)
          end
      end
  end.

(* decode: separated_pair(identity, opt(" "), opt(time tuple)) *)
Definition sig_decode (i : bytes) : option (sig * bytes) :=
  match identity i with
  | None => None
  | Some (name, email, r) =>
      let r1 := match r with b :: r' => if beqb b SP then r' else r | [] => r end in
      match time_tuple r1 with
      | Some (t, r2) => Some (mkSig name email t, r2)
      | None => Some (mkSig name email (mkTime 0 0 false), r1)      (* Time::new(0, 0) *)
      end
  end.

(* ---- gix_ref::parse::hex_hash: take_while(40..=40, lower-case hex) --------------------------- *)
Definition hex_hash (i : bytes) : option (bytes * bytes) :=
  let n := take_while_max is_lc_hex 40 i in
  if n <? 40 then None else Some (firstn n i, skipn n i).

Definition expect_byte (c : byte) (i : bytes) : option bytes :=
  match i with b :: r => if beqb b c then Some r else None | [] => None end.

(* message(i) *)
Definition message (i : bytes) : bytes :=
  firstn (count_while (fun b => negb (beqb b LF)) i) i.

(* LineRef::from_bytes -> one() *)
Definition header_len (i : bytes) : nat :=
  match find_byte GT i with
  | None => length i
  | Some email_end =>
      match find_pred (fun b => beqb b TAB || beqb b LF) (skipn email_end i) with
      | None => length i
      | Some pos => email_end + pos
      end
  end.

Definition from_bytes (i : bytes) : outcome line perr :=
  let hl := header_len i in
  let header := firstn hl i in
  match hex_hash header with
  | None => Err DecodeErr
  | Some (old, h1) =>
  match expect_byte SP h1 with
  | None => Err DecodeErr
  | Some h2 =>
  match hex_hash h2 with
  | None => Err DecodeErr
  | Some (new, h3) =>
  match expect_byte SP h3 with
  | None => Err DecodeErr
  | Some h4 =>
  match sig_decode h4 with
  | None => Err DecodeErr
  | Some (s, h5) =>
      let rest := skipn (hl - length h5) i in
      match rest with
      | [] => Ok (mkLine old new s [])                                     (* eof *)
      | b :: r =>
          if beqb b TAB then Ok (mkLine old new s (message r))
          else if beqb b LF then Ok (mkLine old new s [])
          else Err DecodeErr
      end
  end end end end end.

(* From<LineRef> for Line: ObjectId::from_hex(..).expect("parse validation") on both ids *)
Definition oid_from_hex_expect (h : bytes) : outcome bytes perr :=
  if Nat.eqb (length h) 40 then
    match hex_decode h with Some b => Ok b | None => Panic end
  else Panic.

Definition to_owned (l : line) : outcome line perr :=
  (p <- oid_from_hex_expect (l_prev l) ;;
   n <- oid_from_hex_expect (l_new l) ;;
   Ok (mkLine p n (l_sig l) (l_msg l)))%outcome.

(* ---- writers ----------------------------------------------------------------------------------- *)

Inductive werr := WIo.

Definition pad2 (n : N) : bytes := (if N.ltb n 10 then bs "0" else []) ++ N_to_dec n.

(* Time::write_to *)
Definition time_write (t : time) : outcome bytes werr :=
  let offset := Z.abs_N (t_offset t) in
  let hours := N.div offset 3600 in
  let minutes := N.div (N.sub offset (N.mul hours 3600)) 60 in
  if N.ltb 99 hours then Err WIo
  else Ok (Z_to_dec (t_seconds t) ++ bs " " ++ (if t_minus t then bs "-" else bs "+")
           ++ pad2 hours ++ pad2 minutes).

Definition illegal_in_token (b : byte) : bool := beqb b LT || beqb b GT || beqb b LF.

(* SignatureRef::write_to *)
Definition sig_write (s : sig) : outcome bytes werr :=
  if existsb illegal_in_token (s_name s) then Err WIo
  else if existsb illegal_in_token (s_email s) then Err WIo
  else (t <- time_write (s_time s) ;;
        Ok (s_name s ++ bs " <" ++ s_email s ++ bs "> " ++ t))%outcome.

(* Line::write_to; the ids of a Line are raw bytes, Display is lower-case hex *)
Definition line_write (l : line) : outcome bytes werr :=
  (s <- sig_write (l_sig l) ;;
   if existsb (fun b => beqb b LF) (l_msg l) then Err WIo
   else Ok (hex_encode (l_prev l) ++ bs " " ++ hex_encode (l_new l) ++ bs " " ++ s
            ++ [TAB] ++ l_msg l ++ [LF]))%outcome.

(* the bytes reflog_create_or_append appends: no tab for an empty message, no newline check *)
Definition append_write (l : line) : outcome bytes werr :=
  (s <- sig_write (l_sig l) ;;
   Ok (hex_encode (l_prev l) ++ bs " " ++ hex_encode (l_new l) ++ bs " " ++ s
       ++ (match l_msg l with [] => [] | _ => TAB :: l_msg l end) ++ [LF]))%outcome.

(* ---- forward() --------------------------------------------------------------------------------- *)

Definition forward (f : bytes) : list (outcome line perr) :=
  map (fun l => from_bytes (strip_lf l)) (lines_wt f).

(* ---- reverse() / Reverse::next ------------------------------------------------------------------ *)

Inductive ritem :=
| RLine (l : line)      (* Ok(Line) *)
| RDecode               (* Err(reverse::Error::Decode) *)
| RTooSmall             (* Err(Io("buffer too small for line size")) *)
| REof.                 (* Err(Io(UnexpectedEof)) from read_exact *)

Record rstate := mkR { r_buf : bytes; r_count : nat; r_pos : option nat; r_last_nl : option nat }.

(* seek(Start(pos)) + read_exact(n bytes) on a Cursor *)
Definition read_exact (f : bytes) (pos n : nat) : option bytes :=
  if length f <? pos + n then None else Some (firstn n (skipn pos f)).

(* LineRef::from_bytes(buf).map_err(Decode).map(Into::into) *)
Definition parse_owned (b : bytes) : outcome ritem perr :=
  match from_bytes b with
  | Ok l => omap RLine (to_owned l)
  | Err _ => Ok RDecode
  | Panic => Panic
  | OutOfFuel => OutOfFuel
  end.

Inductive step_res :=
| Yield (i : outcome ritem perr) (s : rstate)   (* return Some(item) *)
| Again (s : rstate)                            (* self.next() *)
| Done (s : rstate)                             (* return None *)
| SPanic.

Definition depleted (s : rstate) : rstate := mkR (r_buf s) (r_count s) None None.

Definition step (f : bytes) (s : rstate) : step_res :=
  let buf := r_buf s in
  let blen := length buf in
  match r_last_nl s, r_pos s with
  | None, Some pos =>
      let npos := pos - blen in                                  (* saturating_sub *)
      let n := pos - npos in
      if n =? 0 then Done (depleted s)
      else if blen <? n then SPanic                              (* &mut self.buf[..n] *)
      else
        match read_exact f npos n with
        | None => Yield (Ok REof) (depleted s)
        | Some data =>
            let buf' := data ++ skipn n buf in
            let last_byte := last data x00 in                    (* n > 0 *)
            let e := if beqb last_byte LF then n - 1 else n in
            Again (mkR buf' (r_count s) (Some npos) (Some e))
        end
  | Some e, Some pos =>
      if blen <? e then SPanic                                   (* self.buf[..end] *)
      else
        match rfind_byte LF (firstn e buf) with
        | Some start =>
            Yield (parse_owned (slice buf (S start) e))
                  (mkR buf (S (r_count s)) (Some pos) (Some start))
        | None =>
            if pos =? 0 then Yield (parse_owned (firstn e buf)) (depleted s)
            else
              let npos := pos - (blen - e) in
              if npos =? pos then Yield (Ok RTooSmall) (depleted s)
              else
                let n := pos - npos in
                if blen <? n + e then SPanic                     (* copy_within(0..end, n) *)
                else
                  let buf1 := firstn n buf ++ firstn e buf ++ skipn (n + e) buf in
                  match read_exact f npos n with
                  | None => Yield (Ok REof) (depleted s)
                  | Some data =>
                      Again (mkR (data ++ skipn n buf1) (r_count s) (Some npos) (Some (n + e)))
                  end
        end
  | None, None => Done s
  | Some _, None => SPanic                                       (* unreachable!() *)
  end.

(* drive the iterator to its end: the items in the order they are yielded *)
Fixpoint collect (fuel : nat) (f : bytes) (s : rstate) : outcome (list ritem) perr :=
  match fuel with
  | O => OutOfFuel
  | S fuel' =>
      match step f s with
      | Yield i s' => (x <- i ;; xs <- collect fuel' f s' ;; Ok (x :: xs))%outcome
      | Again s' => collect fuel' f s'
      | Done _ => Ok []
      | SPanic => Panic
      end
  end.

Inductive rerr := ZeroBuf.

(* reverse(log, buf): buf is the caller's buffer with whatever it contains *)
Definition init_state (f : bytes) (buf : bytes) : rstate := mkR buf 0 (Some (length f)) None.
Definition reverse_init (f : bytes) (buf : bytes) : outcome rstate rerr :=
  match buf with
  | [] => Err ZeroBuf
  | _ => Ok (init_state f buf)
  end.

(* enough for every file: each turn of [step] lowers 2*pos + end (see Proofs) *)
Definition reverse_fuel (f : bytes) : nat := 3 * length f + 4.
