(* C21 — round trip, part 2: btoi reads back what itoa wrote; the time zone tail; Time round trip. *)
From Coq Require Import List Arith ZArith NArith Lia ZifyBool ZifyNat ZifyN Bool.
From GixV.Base Require Import Bytes BytesFacts Outcome.
From GixV.C21 Require Import Model Spec ProofsDec ProofsRT1.
Import ListNotations.
Ltac Zify.zify_post_hook ::= Z.div_mod_to_equations.

Lemma dec_to_N_acc_ge l : forall a v, dec_to_N_acc l a = Some v -> (a <= v)%N.
Proof.
  induction l as [|b l IH]; intros a v H; cbn [dec_to_N_acc] in H.
  - injection H as <-. lia.
  - destruct (is_digit b); [|discriminate]. apply IH in H. lia.
Qed.

Lemma digit_val_spec b : is_digit b = true -> digit_val b = Some (Z.of_N (b2N b - 48)).
Proof. intros H. unfold digit_val. rewrite H. f_equal. unfold is_digit in H. lia. Qed.

Lemma to_unsigned_acc_dec hi l : forall a v, dec_to_N_acc l a = Some v -> (Z.of_N v <= hi)%Z ->
  to_unsigned_acc hi l (Z.of_N a) = Some (Z.of_N v).
Proof.
  induction l as [|b l IH]; intros a v H Hv; cbn [dec_to_N_acc to_unsigned_acc] in *.
  - injection H as <-. reflexivity.
  - destruct (is_digit b) eqn:Eb; [|discriminate]. rewrite (digit_val_spec b Eb).
    pose proof (dec_to_N_acc_ge _ _ _ H) as Hge.
    destruct (Z.ltb_spec hi (Z.of_N a * 10)) as [|_]; [lia|].
    destruct (Z.ltb_spec hi (Z.of_N a * 10 + Z.of_N (b2N b - 48))) as [|_]; [lia|].
    replace (Z.of_N a * 10 + Z.of_N (b2N b - 48))%Z with (Z.of_N (10 * a + (b2N b - 48))) by lia.
    apply IH; assumption.
Qed.

Lemma to_negative_acc_dec lo l : forall a v, dec_to_N_acc l a = Some v -> (lo <= - Z.of_N v)%Z ->
  to_negative_acc lo l (- Z.of_N a) = Some (- Z.of_N v)%Z.
Proof.
  induction l as [|b l IH]; intros a v H Hv; cbn [dec_to_N_acc to_negative_acc] in *.
  - injection H as <-. reflexivity.
  - destruct (is_digit b) eqn:Eb; [|discriminate]. rewrite (digit_val_spec b Eb).
    pose proof (dec_to_N_acc_ge _ _ _ H) as Hge.
    destruct (Z.ltb_spec (- Z.of_N a * 10) lo) as [|_]; [lia|].
    destruct (Z.ltb_spec (- Z.of_N a * 10 - Z.of_N (b2N b - 48)) lo) as [|_]; [lia|].
    replace (- Z.of_N a * 10 - Z.of_N (b2N b - 48))%Z with (- Z.of_N (10 * a + (b2N b - 48)))%Z by lia.
    apply IH; assumption.
Qed.

Lemma N_to_dec_head n : exists d ds, N_to_dec n = d :: ds /\ is_digit d = true.
Proof.
  pose proof (N_to_dec_all_digits n) as H. destruct (N_to_dec_value n) as [Hne _].
  destruct (N_to_dec n) as [|d ds]; [congruence|]. exists d, ds. cbn [forallb] in H.
  apply andb_true_iff in H. tauto.
Qed.

Lemma to_unsigned_N_to_dec hi n : (Z.of_N n <= hi)%Z -> to_unsigned hi (N_to_dec n) = Some (Z.of_N n).
Proof.
  intros H. destruct (N_to_dec_head n) as (d & ds & E & _). unfold to_unsigned.
  pose proof (dec_to_N_N_to_dec n) as R. unfold dec_to_N in R. rewrite E in *.
  exact (to_unsigned_acc_dec hi (d :: ds) 0%N n R H).
Qed.

Lemma to_signed_Z_to_dec lo hi z : (lo <= z <= hi)%Z -> to_signed lo hi (Z_to_dec z) = Some z.
Proof.
  intros Hz. destruct z as [|p|p]; unfold Z_to_dec.
  - vm_compute bs. unfold to_signed. change (beqb "0" "+") with false. change (beqb "0" "-") with false.
    cbv iota. unfold to_unsigned. cbn [to_unsigned_acc]. unfold digit_val. change (is_digit "0") with true.
    cbv iota. change (Z.of_N (b2N "0") - 48)%Z with 0%Z.
    destruct (Z.ltb_spec hi (0 * 10)) as [|_]; [lia|]. destruct (Z.ltb_spec hi (0 * 10 + 0)) as [|_]; [lia|]. reflexivity.
  - destruct (N_to_dec_head (Npos p)) as (d & ds & E & Hd). unfold to_signed. rewrite E.
    destruct (digit_class d Hd) as (H1 & H2 & _). rewrite H2, H1. rewrite <- E.
    rewrite to_unsigned_N_to_dec by lia. reflexivity.
  - unfold to_signed. change (beqb "-" "+") with false. change (beqb "-" "-") with true. cbv iota.
    destruct (N_to_dec_head (Npos p)) as (d & ds & E & Hd). rewrite E. rewrite <- E.
    pose proof (dec_to_N_N_to_dec (Npos p)) as R. unfold dec_to_N in R. rewrite E in R. rewrite <- E in R.
    change 0%Z with (- Z.of_N 0)%Z.
    rewrite (to_negative_acc_dec lo (N_to_dec (Npos p)) 0%N (Npos p) R) by lia. reflexivity.
Qed.

(* Z_to_dec writes digits and at most a leading '-' *)
Definition dchar (b : byte) : bool := is_digit b || beqb b "-"%byte.
Lemma Z_to_dec_dchar z : forallb dchar (Z_to_dec z) = true.
Proof.
  assert (G : forall n, forallb dchar (N_to_dec n) = true).
  { intros n. apply (forallb_impl is_digit); [|apply N_to_dec_all_digits]. intros b Hb. unfold dchar. now rewrite Hb. }
  destruct z; unfold Z_to_dec; [reflexivity|apply G|]. cbn [forallb]. rewrite G. reflexivity.
Qed.
Lemma dchar_class : forall b, dchar b = true -> beqb b SP = false /\ tchar b = true.
Proof.
  assert (H : forall b, (negb (dchar b) || (negb (beqb b SP) && tchar b)) = true) by (apply forall_bytes; vm_compute; reflexivity).
  intros b Hb. specialize (H b). rewrite Hb in H. cbn [negb orb] in H. apply andb_true_iff in H. destruct H as [H1 H2].
  split; [now apply negb_true_iff|assumption].
Qed.

(* ---- the time zone tail, by exhaustion over sign, hours 0..99, minutes 0..59 --------------------------- *)

Definition sign_byte (minus : bool) : byte := if minus then "-"%byte else "+"%byte.
Definition tz_text (minus : bool) (h m : N) : bytes := sign_byte minus :: pad2 h ++ pad2 m.

Definition tz_ok (minus : bool) (h m : N) : bool :=
  match tz_tail (tz_text minus h m) with
  | Some (o, mi, []) => Z.eqb o ((Z.of_N h * 3600 + Z.of_N m * 60) * (if minus then -1 else 1)) && Bool.eqb mi minus
  | _ => false
  end && forallb tchar (tz_text minus h m).

Definition upto (k : nat) : list N := map N.of_nat (seq 0 k).
Lemma in_upto k n : (n < N.of_nat k)%N -> In n (upto k).
Proof. intros H. unfold upto. apply in_map_iff. exists (N.to_nat n). split; [lia|]. apply in_seq. lia. Qed.

Lemma tz_all : forallb (fun mi => forallb (fun h => forallb (fun m => tz_ok mi h m) (upto 60)) (upto 100)) [true; false] = true.
Proof. vm_compute. reflexivity. Qed.

Lemma tz_tail_ok minus h m : (h < 100)%N -> (m < 60)%N -> tz_ok minus h m = true.
Proof.
  intros Hh Hm. pose proof tz_all as H. rewrite forallb_forall in H.
  specialize (H minus ltac:(destruct minus; cbn; auto)). rewrite forallb_forall in H.
  specialize (H h (in_upto 100 h Hh)). rewrite forallb_forall in H. exact (H m (in_upto 60 m Hm)).
Qed.

(* ---- Time ------------------------------------------------------------------------------------------------------ *)

Definition wf_time (t : time) : Prop :=
  (I64_MIN <= t_seconds t <= I64_MAX)%Z /\
  (Z.abs (t_offset t) mod 60 = 0)%Z /\ (Z.abs (t_offset t) < 100 * 3600)%Z /\
  (if t_minus t then t_offset t <= 0 else 0 <= t_offset t)%Z.

Lemma time_roundtrip t : wf_time t ->
  exists T, time_write t = Ok T /\ forallb tchar T = true /\ time_tuple T = Some (t, []).
Proof.
  destruct t as [secs off minus]. unfold wf_time. cbn [t_seconds t_offset t_minus]. intros (Hs & Hmod & Hlt & Hsign).
  unfold time_write. cbn [t_seconds t_offset t_minus].
  set (a := Z.abs_N off). set (h := (a / 3600)%N). set (m := ((a - h * 3600) / 60)%N).
  assert (Ha : Z.of_N a = Z.abs off) by (unfold a; lia).
  assert (Hh : (h < 100)%N) by (unfold h; lia).
  assert (Hm : (m < 60)%N) by (unfold m, h; lia).
  assert (Hoff : (Z.of_N h * 3600 + Z.of_N m * 60 = Z.abs off)%Z) by (unfold m, h; lia).
  destruct (N.ltb_spec 99 h) as [|_]; [lia|].
  eexists. split; [reflexivity|].
  pose proof (tz_tail_ok minus h m Hh Hm) as Hok. unfold tz_ok in Hok. apply andb_true_iff in Hok. destruct Hok as [Hok Htc].
  assert (Etext : (if minus then bs "-" else bs "+") ++ pad2 h ++ pad2 m = tz_text minus h m) by (destruct minus; reflexivity).
  rewrite Etext.
  pose proof (Z_to_dec_dchar secs) as Hd.
  split.
  - rewrite forallb_app. rewrite (forallb_impl dchar tchar _ (fun b Hb => proj2 (dchar_class b Hb)) Hd).
    change (bs " " ++ tz_text minus h m) with (SP :: tz_text minus h m). cbn [forallb andb]. rewrite Htc. reflexivity.
  - unfold time_tuple. change (bs " " ++ tz_text minus h m) with (SP :: tz_text minus h m).
    rewrite find_byte_hit.
    2:{ unfold none_of. rewrite forallb_forall in *. intros b Hb. apply negb_true_iff. apply (dchar_class b). auto. }
    rewrite firstn_app_exact. unfold to_signed_i64. rewrite (to_signed_Z_to_dec I64_MIN I64_MAX secs Hs).
    change (Z_to_dec secs ++ SP :: tz_text minus h m) with (Z_to_dec secs ++ [SP] ++ tz_text minus h m).
    rewrite app_assoc.
    replace (S (length (Z_to_dec secs))) with (length (Z_to_dec secs ++ [SP])) by (rewrite app_length; cbn [length]; lia).
    rewrite skipn_app_exact.
    destruct (tz_tail (tz_text minus h m)) as [[[o mi] r]|]; [|discriminate].
    destruct r; [|discriminate]. apply andb_true_iff in Hok. destruct Hok as [Ho Hmi].
    apply Z.eqb_eq in Ho. apply eqb_prop in Hmi. subst mi. f_equal. f_equal. f_equal.
    rewrite Ho, Hoff. destruct minus; lia.
Qed.
