(* C21 — independent specification of "the lines of a reflog": split at LF only, a final LF does not
   start another line (what git does), and of "every line fits the buffer". *)
From GixV.Base Require Import Bytes Outcome.
From GixV.C21 Require Import Model.
Local Open Scope nat_scope.

Definition nolf (l : bytes) : Prop := forallb (fun b => negb (beqb b LF)) l = true.

(* the segments between LFs; never empty: split_lf "" = [""] *)
Fixpoint split_lf (l : bytes) : list bytes :=
  match l with
  | [] => [[]]
  | b :: r =>
      if beqb b LF then [] :: split_lf r
      else match split_lf r with
           | x :: xs => (b :: x) :: xs
           | [] => [[b]]
           end
  end.

(* drop one final LF *)
Definition drop_final_lf (f : bytes) : bytes :=
  if beqb (last f x00) LF then removelast f else f.

(* the lines of a log file *)
Definition flines (f : bytes) : list bytes :=
  match f with
  | [] => []
  | _ => split_lf (drop_final_lf f)
  end.

(* the buffer holds the first line, and every other line together with the LF in front of it *)
Definition fits_others (B : nat) (segs : list bytes) : Prop := Forall (fun l => S (length l) <= B) segs.
Definition fits (B : nat) (segs : list bytes) : Prop :=
  match segs with
  | [] => True
  | first :: others => length first <= B /\ fits_others B others
  end.

(* the simple sufficient condition of the property text: the buffer is at least as long as the
   longest line counted with its newline *)
Definition maxline_nl (segs : list bytes) : nat := fold_right (fun l m => Nat.max (S (length l)) m) 0 segs.

(* run a list of computations in order, stop at the first that is not Ok *)
Fixpoint seqo {A E} (l : list (outcome A E)) : outcome (list A) E :=
  match l with
  | [] => Ok []
  | x :: r => (a <- x ;; r' <- seqo r ;; Ok (a :: r'))%outcome
  end.

(* what the reverse iterator makes of a forward item: Into<Line>, errors stay decode errors *)
Definition own (i : outcome line perr) : ritem :=
  match i with
  | Ok l => match hex_decode (l_prev l), hex_decode (l_new l) with
            | Some p, Some n => RLine (mkLine p n (l_sig l) (l_msg l))
            | _, _ => RDecode
            end
  | _ => RDecode
  end.

(* entries for which write -> parse is the identity *)
Definition ws_free_ends (e : bytes) : Prop :=
  match e with [] => True | b :: _ => is_ascii_ws b = false /\ is_ascii_ws (last e x00) = false end.
