From GixV.Base Require Import Bytes BytesFacts Outcome.
From GixV.C21 Require Import Model Proofs.
