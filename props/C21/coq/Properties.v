(* C21 — Reflogs read back forwards and backwards identically: the statements. *)
From Coq Require Import List Arith.
From GixV.Base Require Import Bytes BytesFacts Outcome.
From GixV.C21 Require Import Model Spec ProofsRev ProofsIter ProofsSmall ProofsRT1 ProofsRT2 ProofsRT3 ProofsRT4 ProofsRT5 ProofsRT6.
Import ListNotations.
Local Open Scope nat_scope.

(* forward() reads exactly the LF-separated lines of the file (a final LF does not start a line; CR is
   an ordinary byte), each through LineRef::from_bytes. *)
Theorem forward_is_lf_split : forall f, forward f = map from_bytes (flines f).
Proof. exact forward_flines. Qed.

(* Into<Line> on a parsed line never hits its `expect("parse validation")`: the reverse iterator's item
   is a total function of the forward iterator's item for the same line. *)
Theorem into_line_never_panics : forall b, parse_owned b = Ok (own (from_bytes b)).
Proof. exact parse_owned_own. Qed.

(* THE PROPERTY.  For every file (well-formed or not), every non-empty buffer with whatever initial
   content, if the buffer is at least as long as the longest line counted with its newline, then
   driving Reverse to its end terminates within [reverse_fuel], does not panic, yields no I/O error,
   and yields exactly the forward entries in reverse order. *)
Theorem reverse_is_rev_forward : forall f buf,
  buf <> [] -> maxline_nl (flines f) <= length buf ->
  reverse_init f buf = Ok (init_state f buf) /\
  collect (reverse_fuel f) f (init_state f buf) = Ok (rev (map own (forward f))).
Proof. exact reverse_is_rev_forward_maxline. Qed.

(* The sharp condition: the first line needs its own length, every other line its length plus the
   LF in front of it. *)
Theorem reverse_is_rev_forward_sharp : forall f buf,
  buf <> [] -> fits (length buf) (flines f) ->
  collect (reverse_fuel f) f (init_state f buf) = Ok (rev (map own (forward f))).
Proof. exact reverse_is_rev_forward_fits. Qed.

(* "at least as large as its longest line" read WITHOUT the newline is not enough: a two-line log and a
   buffer of exactly the longest line's length gives "buffer too small". *)
Theorem reverse_without_newline_room_refuted : exists f buf,
  buf <> [] /\ Forall (fun l => length l <= length buf) (flines f) /\
  collect (reverse_fuel f) f (init_state f buf) <> Ok (rev (map own (forward f))).
Proof. exact without_newline_room_refuted. Qed.

(* What "buffer too small" yields, exactly: if [k] is the LAST line that does not fit (it is the first line
   and longer than the buffer, or a later line at least as long as the buffer), the iterator yields the
   entries after [k], newest first, then one "buffer too small" error, and ends. *)
Theorem reverse_too_small : forall f buf pre k post,
  buf <> [] ->
  flines f = pre ++ k :: post -> toolong (length buf) pre k -> fits_others (length buf) post ->
  collect (reverse_fuel f) f (init_state f buf)
  = Ok (rev (map (fun b => own (from_bytes b)) post) ++ [RTooSmall]).
Proof. exact reverse_too_small_items. Qed.

(* The two theorems cover every case. *)
Theorem fits_or_too_small : forall B segs,
  fits B segs \/ exists pre k post, segs = pre ++ k :: post /\ toolong B pre k /\ fits_others B post.
Proof. exact fits_or_last_toolong. Qed.

(* Hence for EVERY file and EVERY non-empty buffer, driving Reverse to its end terminates within the fuel
   bound (3*len+4 turns of the state machine), never panics (slice bounds, copy_within, expect,
   unreachable!) and never reads outside the file. *)
Theorem reverse_total : forall f buf, buf <> [] ->
  exists items, collect (reverse_fuel f) f (init_state f buf) = Ok items /\ ~ In REof items.
Proof. exact reverse_total_items. Qed.

(* a zero-sized buffer is refused *)
Theorem reverse_zero_buffer : forall f, reverse_init f [] = Err ZeroBuf.
Proof. reflexivity. Qed.

(* ---- non-vacuity ------------------------------------------------------------------------------------- *)

Definition oid_a : bytes := bs "0123456789abcdef0123456789abcdef01234567".
Definition oid_0 : bytes := bs "0000000000000000000000000000000000000000".
Definition sample_log : bytes :=
  oid_0 ++ bs " " ++ oid_a ++ bs " n <e> 12 +0100" ++ [TAB] ++ bs "a>b" ++ [x0d; LF]
  ++ oid_a ++ bs " " ++ oid_0 ++ bs " nn <ee> 13 -0130" ++ [LF].

(* the hypotheses of the theorem hold for a two-entry log whose first message ends in CR and contains '>',
   with a buffer of exactly the longest line plus its LF, pre-filled with LF bytes *)
Example sample_fits : maxline_nl (flines sample_log) = 102 /\ length (repeat LF 102) = 102.
Proof. vm_compute. split; reflexivity. Qed.

Example sample_reads_two_entries :
  match collect (reverse_fuel sample_log) sample_log (init_state sample_log (repeat LF 102)) with
  | Ok [RLine l2; RLine l1] => l_msg l1 = bs "a>b" ++ [x0d] /\ l_msg l2 = [] /\ s_name (l_sig l2) = bs "nn"
  | _ => False
  end.
Proof. vm_compute. repeat split; reflexivity. Qed.

(* the hypotheses of reverse_too_small are satisfiable: "a\nbc\n" with a 2-byte buffer *)
Example too_small_sample :
  flines two_lines = [bs "a"] ++ bs "bc" :: [] /\ toolong 2 [bs "a"] (bs "bc") /\ fits_others 2 [] /\
  collect (reverse_fuel two_lines) two_lines (init_state two_lines [x00; x00]) = Ok [RTooSmall].
Proof. vm_compute. repeat split; try constructor. Qed.

(* ---- first sentence of the property: written entries parse back to the same entries ------------------- *)

(* For every well-formed entry (20-byte ids; name/email without '<', '>', LF; email without surrounding ASCII
   whitespace; seconds in i64, offset whole minutes below 100 h with a sign that agrees; message without LF):
   Line::write_to succeeds and writes one LF-terminated line without inner LF, LineRef::from_bytes of that line
   is the same entry (ids as hex text), and Into<Line> of it is the entry itself. *)
Theorem line_roundtrip_partial : forall l, wf_entry l ->
  exists body, line_write l = Ok (body ++ [LF]) /\ nolf body /\
    from_bytes body = Ok (as_ref l) /\ own (from_bytes body) = RLine l.
Proof. exact line_roundtrip. Qed.

(* Writing well-formed entries one after the other gives a log that reads forwards as exactly those entries and,
   with any buffer at least as long as its longest line incl. LF, backwards as exactly those entries reversed. *)
Theorem appended_entries_read_back : forall ls, Forall wf_entry ls ->
  exists f, write_all ls = Ok f /\
    forward f = map (fun l => Ok (as_ref l)) ls /\
    forall buf, buf <> [] -> maxline_nl (flines f) <= length buf ->
      collect (reverse_fuel f) f (init_state f buf) = Ok (rev (map RLine ls)).
Proof. exact log_roundtrip. Qed.

(* The same for the bytes a transaction appends (reflog_create_or_append: no TAB when the message is empty):
   every well-formed entry is appended as one line that parses back to the entry ... *)
Theorem appended_line_roundtrip : forall l, wf_entry l ->
  exists body, append_write l = Ok (body ++ [LF]) /\ nolf body /\
    from_bytes body = Ok (as_ref l) /\ own (from_bytes body) = RLine l.
Proof. exact append_roundtrip. Qed.

(* ... and a reflog grown by appending well-formed entries one by one reads forwards as exactly these entries and
   backwards (buffer >= longest line incl. LF) as exactly these entries reversed. *)
Theorem reflog_of_appended_entries_reads_back : forall ls, Forall wf_entry ls ->
  exists f, append_all ls = Ok f /\
    forward f = map (fun l => Ok (as_ref l)) ls /\
    forall buf, buf <> [] -> maxline_nl (flines f) <= length buf ->
      collect (reverse_fuel f) f (init_state f buf) = Ok (rev (map RLine ls)).
Proof. exact append_log_roundtrip. Qed.

(* known finding append-message-with-newline, on the model: outside the well-formed domain (LF in the message)
   the transaction's append writes two lines for one entry *)
Theorem append_message_with_newline_refuted :
  exists l, ~ wf_entry l /\ existsb (fun b => beqb b LF) (l_msg l) = true /\
    match append_write l with Ok f => length (forward f) = 2 | _ => False end.
Proof. exact append_newline_refuted. Qed.

(* Time::write_to / the time tuple of signature::decode alone *)
Theorem time_roundtrip_full : forall t, wf_time t ->
  exists T, time_write t = Ok T /\ forallb tchar T = true /\ time_tuple T = Some (t, []).
Proof. exact time_roundtrip. Qed.

(* the hypothesis is satisfiable by a non-trivial entry (CR, '>' and TAB in the message, negative seconds, -0530) *)
Example wf_entry_sample : wf_entry sample_entry.
Proof. exact sample_entry_wf. Qed.
