(* C21 — Reflogs read back forwards and backwards identically: the statements. *)
From Coq Require Import List Arith.
From GixV.Base Require Import Bytes BytesFacts Outcome.
From GixV.C21 Require Import Model Spec ProofsRev ProofsIter.
Import ListNotations.
Local Open Scope nat_scope.

(* forward() reads exactly the LF-separated lines of the file (a final LF does not start a line; CR is
   an ordinary byte), each through LineRef::from_bytes. *)
Theorem forward_is_lf_split : forall f, forward f = map from_bytes (flines f).
Proof. exact forward_flines. Qed.

(* Into<Line> on a parsed line never hits its `expect("parse validation")`: the reverse iterator's item
   is a total function of the forward iterator's item for the same line. *)
Theorem into_line_never_panics : forall b, parse_owned b = Ok (own (from_bytes b)).
Proof. exact parse_owned_own. Qed.

(* THE PROPERTY.  For every file (well-formed or not), every non-empty buffer with whatever initial
   content, if the buffer is at least as long as the longest line counted with its newline, then
   driving Reverse to its end terminates within [reverse_fuel], does not panic, yields no I/O error,
   and yields exactly the forward entries in reverse order. *)
Theorem reverse_is_rev_forward : forall f buf,
  buf <> [] -> maxline_nl (flines f) <= length buf ->
  reverse_init f buf = Ok (init_state f buf) /\
  collect (reverse_fuel f) f (init_state f buf) = Ok (rev (map own (forward f))).
Proof. exact reverse_is_rev_forward_maxline. Qed.

(* The sharp condition: the first line needs its own length, every other line its length plus the
   LF in front of it. *)
Theorem reverse_is_rev_forward_sharp : forall f buf,
  buf <> [] -> fits (length buf) (flines f) ->
  collect (reverse_fuel f) f (init_state f buf) = Ok (rev (map own (forward f))).
Proof. exact reverse_is_rev_forward_fits. Qed.

(* "at least as large as its longest line" read WITHOUT the newline is not enough: a two-line log and a
   buffer of exactly the longest line's length gives "buffer too small". *)
Theorem reverse_without_newline_room_refuted : exists f buf,
  buf <> [] /\ Forall (fun l => length l <= length buf) (flines f) /\
  collect (reverse_fuel f) f (init_state f buf) <> Ok (rev (map own (forward f))).
Proof. exact without_newline_room_refuted. Qed.

(* a zero-sized buffer is refused *)
Theorem reverse_zero_buffer : forall f, reverse_init f [] = Err ZeroBuf.
Proof. reflexivity. Qed.

(* ---- non-vacuity ------------------------------------------------------------------------------------- *)

Definition oid_a : bytes := bs "0123456789abcdef0123456789abcdef01234567".
Definition oid_0 : bytes := bs "0000000000000000000000000000000000000000".
Definition sample_log : bytes :=
  oid_0 ++ bs " " ++ oid_a ++ bs " n <e> 12 +0100" ++ [TAB] ++ bs "a>b" ++ [x0d; LF]
  ++ oid_a ++ bs " " ++ oid_0 ++ bs " nn <ee> 13 -0130" ++ [LF].

(* the hypotheses of the theorem hold for a two-entry log whose first message ends in CR and contains '>',
   with a buffer of exactly the longest line plus its LF, pre-filled with LF bytes *)
Example sample_fits : maxline_nl (flines sample_log) = 102 /\ length (repeat LF 102) = 102.
Proof. vm_compute. split; reflexivity. Qed.

Example sample_reads_two_entries :
  match collect (reverse_fuel sample_log) sample_log (init_state sample_log (repeat LF 102)) with
  | Ok [RLine l2; RLine l1] => l_msg l1 = bs "a>b" ++ [x0d] /\ l_msg l2 = [] /\ s_name (l_sig l2) = bs "nn"
  | _ => False
  end.
Proof. vm_compute. repeat split; reflexivity. Qed.
