(* C21 — from the window lemma to the iterators: the first block load, forward() = the LF-split lines,
   Into<Line> never panics on a parsed line. *)
From Coq Require Import List Arith Lia Bool.
From GixV.Base Require Import Bytes BytesFacts Outcome.
From GixV.C21 Require Import Model Spec ProofsRev.
Import ListNotations.
Local Open Scope nat_scope.

(* ---- forward(): lines_with_terminator + strip LF = split at LF ---------------------------------- *)

Definition sl (f : bytes) : list bytes := map strip_lf (lines_wt f).
Definition ends_lf (f : bytes) : bool := match f with [] => true | _ => beqb (last f x00) LF end.

Lemma lines_wt_nonempty_lines f : Forall (fun l => l <> []) (lines_wt f).
Proof.
  induction f as [|b r IH]; cbn [lines_wt]; [constructor|].
  destruct (beqb b LF); [constructor; [discriminate|exact IH]|].
  destruct (lines_wt r) as [|x xs]; [constructor; [discriminate|constructor]|].
  inversion IH; subst. constructor; [discriminate|assumption].
Qed.

Lemma lines_wt_nonempty b r : lines_wt (b :: r) <> [].
Proof.
  cbn [lines_wt]. destruct (beqb b LF); [discriminate|]. destruct (lines_wt r); discriminate.
Qed.

Lemma strip_lf_cons b x : x <> [] -> strip_lf (b :: x) = b :: strip_lf x.
Proof. destruct x; [congruence|reflexivity]. Qed.

Lemma split_lf_sl f : split_lf f = if ends_lf f then sl f ++ [[]] else sl f.
Proof.
  induction f as [|b r IH]; [reflexivity|].
  cbn [split_lf]. unfold sl in *. cbn [lines_wt].
  assert (Hends : r <> [] -> ends_lf (b :: r) = ends_lf r).
  { destruct r; [congruence|reflexivity]. }
  destruct (beqb b LF) eqn:Eb.
  - apply beqb_LF in Eb. subst b. cbn [map]. change (strip_lf [LF]) with (@nil byte).
    destruct r as [|y r'].
    + reflexivity.
    + rewrite Hends by discriminate. rewrite IH. destruct (ends_lf (y :: r')); reflexivity.
  - destruct r as [|y r'].
    + cbn [split_lf lines_wt map strip_lf ends_lf last]. rewrite Eb. reflexivity.
    + rewrite Hends by discriminate. rewrite IH.
      pose proof (lines_wt_nonempty_lines (y :: r')) as Hne.
      destruct (lines_wt (y :: r')) as [|x xs] eqn:E; [now apply lines_wt_nonempty in E|].
      inversion Hne; subst. cbn [map]. rewrite strip_lf_cons by assumption.
      destruct (ends_lf (y :: r')); reflexivity.
Qed.

Lemma flines_sl f : flines f = sl f.
Proof.
  destruct f as [|x f']; [reflexivity|]. set (F := x :: f'). unfold flines. fold F.
  unfold drop_final_lf. pose proof (split_lf_sl F) as C.
  assert (HF : F <> []) by discriminate.
  destruct (beqb (last F x00) LF) eqn:El.
  - assert (Hends : ends_lf F = true) by exact El. rewrite Hends in C.
    rewrite (app_removelast_last x00 HF) in C at 1.
    apply beqb_LF in El. rewrite El in C.
    rewrite split_lf_snoc in C by reflexivity.
    apply app_inv_tail in C. exact C.
  - assert (Hends : ends_lf F = false) by exact El. rewrite Hends in C. exact C.
Qed.

Lemma forward_flines f : forward f = map from_bytes (flines f).
Proof. rewrite flines_sl. unfold forward, sl. now rewrite map_map. Qed.

(* ---- the ids of a parsed line are 40 lower-case hex digits; Into<Line> cannot panic ---------------- *)

Lemma count_while_firstn p : forall k l, k <= count_while p l ->
  forallb p (firstn k l) = true /\ length (firstn k l) = k.
Proof.
  induction k as [|k IH]; intros l H; [split; reflexivity|].
  destruct l as [|b r]; cbn [count_while] in H; [lia|].
  destruct (p b) eqn:Eb; [|lia]. destruct (IH r ltac:(lia)) as [H1 H2].
  cbn [firstn forallb length]. rewrite Eb, H1, H2. split; reflexivity.
Qed.

Lemma hex_hash_spec i h r : hex_hash i = Some (h, r) ->
  length h = 40 /\ forallb is_lc_hex h = true.
Proof.
  unfold hex_hash, take_while_max. intros H.
  set (n := Nat.min 40 (count_while is_lc_hex i)) in *.
  destruct (Nat.ltb_spec n 40) as [|Hge]; [discriminate|].
  assert (Eh : firstn n i = h).
  { apply (f_equal (fun o => match o with Some (a, _) => a | None => @nil byte end)) in H. exact H. }
  assert (En : n = 40) by (unfold n in *; lia).
  rewrite <- Eh, En.
  destruct (count_while_firstn is_lc_hex 40 i ltac:(unfold n in *; lia)) as [H1 H2]. split; assumption.
Qed.

Lemma lc_hex_is_hex : forall b, is_lc_hex b = true -> is_hex b = true.
Proof.
  assert (H : forall b, (negb (is_lc_hex b) || is_hex b) = true).
  { apply forall_bytes. vm_compute. reflexivity. }
  intros b Hb. specialize (H b). rewrite Hb in H. exact H.
Qed.

Lemma hex40_decodes h : length h = 40 -> forallb is_lc_hex h = true -> exists p, hex_decode h = Some p.
Proof.
  intros L H. apply hex_decode_total.
  - rewrite L. reflexivity.
  - rewrite forallb_forall in *. intros b Hb. apply lc_hex_is_hex. auto.
Qed.

Definition good_id (h : bytes) : Prop := length h = 40 /\ forallb is_lc_hex h = true.

Lemma from_bytes_spec i :
  match from_bytes i with
  | Ok l => good_id (l_prev l) /\ good_id (l_new l)
  | Err _ => True
  | _ => False
  end.
Proof.
  unfold from_bytes.
  destruct (hex_hash (firstn (header_len i) i)) as [[old h1]|] eqn:E1; [|exact I].
  destruct (expect_byte SP h1) as [h2|]; [|exact I].
  destruct (hex_hash h2) as [[new h3]|] eqn:E2; [|exact I].
  destruct (expect_byte SP h3) as [h4|]; [|exact I].
  destruct (sig_decode h4) as [[s h5]|]; [|exact I].
  apply hex_hash_spec in E1. apply hex_hash_spec in E2.
  destruct (skipn (header_len i - length h5) i) as [|b r]; [split; assumption|].
  destruct (beqb b TAB); [split; assumption|].
  destruct (beqb b LF); [split; assumption|exact I].
Qed.

Lemma parse_owned_own b : parse_owned b = Ok (own (from_bytes b)).
Proof.
  unfold parse_owned, own. pose proof (from_bytes_spec b) as H.
  destruct (from_bytes b) as [l|e| |]; [|reflexivity|contradiction|contradiction].
  destruct H as [[L1 H1] [L2 H2]].
  destruct (hex40_decodes _ L1 H1) as [p Ep]. destruct (hex40_decodes _ L2 H2) as [n En].
  unfold to_owned, oid_from_hex_expect. rewrite L1, L2, Ep, En. reflexivity.
Qed.

Lemma seqo_map_ok {A B E} (g : A -> B) (l : list A) :
  @seqo B E (map (fun a => Ok (g a)) l) = Ok (map g l).
Proof. induction l as [|x l IH]; [reflexivity|]. cbn [map seqo obind]. rewrite IH. reflexivity. Qed.

Lemma seqo_parse_owned l : seqo (map parse_owned l) = Ok (map (fun b => own (from_bytes b)) l).
Proof.
  rewrite <- (seqo_map_ok (fun b => own (from_bytes b))). f_equal.
  apply map_ext. intros b. apply parse_owned_own.
Qed.

(* ---- the first block load ------------------------------------------------------------------------------ *)

Lemma last_skipn {A} (d : A) : forall n l, n < length l -> last (skipn n l) d = last l d.
Proof.
  induction n as [|n IH]; intros l H; [reflexivity|].
  destruct l as [|x l]; cbn [length] in H; [lia|]. cbn [skipn]. rewrite IH by lia.
  destruct l; [cbn [length] in H; lia|reflexivity].
Qed.

Lemma init_mode f buf : buf <> [] -> fits (length buf) (flines f) ->
  collect (reverse_fuel f) f (init_state f buf) = seqo (rev (map parse_owned (flines f))).
Proof.
  intros Hbuf Hfits.
  assert (HB : 1 <= length buf) by (destruct buf; [congruence|cbn [length]; lia]).
  destruct f as [|x f'].
  - unfold reverse_fuel, init_state. cbn [length Nat.mul Nat.add collect]. unfold step.
    cbn [r_last_nl r_pos r_buf Nat.sub Nat.eqb]. reflexivity.
  - set (F := x :: f') in *. assert (HL : 1 <= length F) by (unfold F; cbn [length]; lia).
    unfold reverse_fuel, init_state.
    replace (3 * length F + 4) with (S (3 * length F + 3)) by lia.
    cbn [collect]. unfold step. cbn [r_last_nl r_pos r_buf r_count].
    set (npos := length F - length buf).
    set (n := length F - npos).
    assert (Hn : 1 <= n /\ n <= length buf /\ npos + n = length F) by (unfold n, npos; lia).
    destruct Hn as (Hn1 & Hn2 & Hn3).
    destruct (Nat.eqb_spec n 0) as [|_]; [lia|].
    destruct (Nat.ltb_spec (length buf) n) as [|_]; [lia|].
    unfold read_exact. destruct (Nat.ltb_spec (length F) (npos + n)) as [|_]; [lia|].
    set (data := firstn n (skipn npos F)).
    assert (Ld : length data = n) by (unfold data; rewrite firstn_length, skipn_length; lia).
    assert (Hdata : data = skipn npos F).
    { unfold data. apply firstn_all2. rewrite skipn_length. lia. }
    assert (Hlast : last data x00 = last F x00) by (rewrite Hdata; apply last_skipn; lia).
    set (e := if beqb (last data x00) LF then n - 1 else n).
    assert (He : e <= n) by (unfold e; destruct (beqb (last data x00) LF); lia).
    assert (HR : firstn (npos + e) F = drop_final_lf F).
    { unfold drop_final_lf, e. rewrite Hlast. destruct (beqb (last F x00) LF).
      - rewrite removelast_firstn_len. f_equal. lia.
      - apply firstn_all2. lia. }
    assert (Lb : length (data ++ skipn n buf) = length buf).
    { rewrite app_length, Ld, skipn_length. lia. }
    assert (Hfl : flines F = split_lf (firstn (npos + e) F)) by (rewrite HR; reflexivity).
    rewrite (data_mode F (3 * length F + 3) (data ++ skipn n buf) 0 npos e).
    + rewrite Hfl. reflexivity.
    + lia.
    + split; [rewrite Lb; lia|]. split; [lia|].
      rewrite firstn_app, Ld. replace (e - n) with 0 by lia. cbn [firstn]. rewrite app_nil_r.
      unfold data. rewrite firstn_firstn. now rewrite Nat.min_l by lia.
    + rewrite Lb, <- Hfl. exact Hfits.
Qed.

(* ---- the statement of the property --------------------------------------------------------------------- *)

Lemma reverse_is_rev_forward_fits f buf : buf <> [] -> fits (length buf) (flines f) ->
  collect (reverse_fuel f) f (init_state f buf) = Ok (rev (map own (forward f))).
Proof.
  intros Hb Hf. rewrite (init_mode f buf Hb Hf), <- map_rev, seqo_parse_owned.
  rewrite forward_flines, map_map, map_rev. reflexivity.
Qed.

Lemma fits_of_maxline B segs : maxline_nl segs <= B -> fits B segs.
Proof.
  assert (G : forall l, maxline_nl l <= B -> fits_others B l).
  { induction l as [|y ys IH]; cbn [maxline_nl fold_right]; intros H; constructor.
    - lia.
    - apply IH. unfold maxline_nl. lia. }
  destruct segs as [|x xs]; [exact (fun _ => I)|].
  intros H. pose proof (G (x :: xs) H) as HG. inversion HG; subst. split; [lia|assumption].
Qed.

Lemma reverse_init_ok f buf : buf <> [] -> reverse_init f buf = Ok (init_state f buf).
Proof. destruct buf; [congruence|reflexivity]. Qed.

Lemma reverse_is_rev_forward_maxline f buf :
  buf <> [] -> maxline_nl (flines f) <= length buf ->
  reverse_init f buf = Ok (init_state f buf) /\
  collect (reverse_fuel f) f (init_state f buf) = Ok (rev (map own (forward f))).
Proof.
  intros Hb Hm. split; [exact (reverse_init_ok f buf Hb)|].
  exact (reverse_is_rev_forward_fits f buf Hb (fits_of_maxline _ _ Hm)).
Qed.

Definition two_lines : bytes := bs "a" ++ [LF] ++ bs "bc" ++ [LF].
Lemma without_newline_room_refuted : exists f buf,
  buf <> [] /\ Forall (fun l => length l <= length buf) (flines f) /\
  collect (reverse_fuel f) f (init_state f buf) <> Ok (rev (map own (forward f))).
Proof.
  exists two_lines, [x00; x00]. split; [discriminate|]. split.
  - vm_compute. repeat constructor.
  - vm_compute. discriminate.
Qed.
