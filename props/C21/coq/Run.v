(* C21 — transcript printer: the same observable string the Rust harness prints for a case. *)
From GixV.Base Require Import Bytes Outcome.
From GixV.C21 Require Import Model.

Definition show_sig_msg (l : line) : bytes :=
  hex_encode (s_name (l_sig l)) ++ bs "," ++ hex_encode (s_email (l_sig l)) ++ bs ","
  ++ Z_to_dec (t_seconds (s_time (l_sig l))) ++ bs "," ++ Z_to_dec (t_offset (s_time (l_sig l))) ++ bs ","
  ++ (if t_minus (s_time (l_sig l)) then bs "-" else bs "+") ++ bs "," ++ hex_encode (l_msg l).

(* LineRef: ids are hex text already *)
Definition show_ref (l : line) : bytes := l_prev l ++ bs "," ++ l_new l ++ bs "," ++ show_sig_msg l.
(* Line: ids are raw *)
Definition show_owned (l : line) : bytes :=
  hex_encode (l_prev l) ++ bs "," ++ hex_encode (l_new l) ++ bs "," ++ show_sig_msg l.

Definition show_fitem (i : outcome line perr) : bytes :=
  match i with
  | Ok l => show_ref l
  | Err _ => bs "E"
  | Panic => bs "PANIC"
  | OutOfFuel => bs "HANG"
  end.

Definition show_ritem (i : ritem) : bytes :=
  match i with
  | RLine l => show_owned l
  | RDecode => bs "E"
  | RTooSmall => bs "S"
  | REof => bs "F"
  end.

Fixpoint join_semi (ls : list bytes) : bytes :=
  match ls with
  | [] => []
  | x :: r => bs ";" ++ x ++ join_semi r
  end.

Definition show_items (ls : list bytes) : bytes :=
  bs "n=" ++ N_to_dec (N.of_nat (length ls)) ++ join_semi ls.

Definition any_panic (l : list (outcome line perr)) : bool :=
  existsb (fun i => match i with Panic => true | _ => false end) l.

Definition field_line (fs : list bytes) : line :=
  mkLine (nth_field 1 fs) (nth_field 2 fs)
         (mkSig (nth_field 3 fs) (nth_field 4 fs)
                (mkTime (field_Z 5 fs) (field_Z 6 fs) (bytes_eqb (nth_field 7 fs) (bs "-"))))
         (nth_field 8 fs).

Definition show_write (o : outcome bytes werr) : bytes :=
  match o with
  | Ok b => bs "ok " ++ hex_encode b
  | Err _ => bs "err"
  | Panic => bs "PANIC"
  | OutOfFuel => bs "HANG"
  end.

(* cases:  parse <line> | fwd <file> | rev <file> <bufsize> <fillbyte> |
           write <prev20> <new20> <name> <email> <secs> <offset> <+|-> <msg> | append <same> *)
Definition run_model (fs : list bytes) : bytes :=
  let op := nth_field 0 fs in
  if bytes_eqb op (bs "parse") then
    match from_bytes (nth_field 1 fs) with
    | Ok l => bs "ok " ++ show_ref l ++ bs " "
              ++ (match to_owned l with Ok o => show_owned o | Err _ => bs "E" | Panic => bs "PANIC" | OutOfFuel => bs "HANG" end)
    | Err _ => bs "err"
    | Panic => bs "PANIC"
    | OutOfFuel => bs "HANG"
    end
  else if bytes_eqb op (bs "fwd") then
    let items := forward (nth_field 1 fs) in
    if any_panic items then bs "PANIC" else show_items (map show_fitem items)
  else if bytes_eqb op (bs "rev") then
    let f := nth_field 1 fs in
    let fill := match nth_field 3 fs with b :: _ => b | [] => x00 end in
    match reverse_init f (repeat fill (N.to_nat (field_N 2 fs))) with
    | Err ZeroBuf => bs "err ZeroBuf"
    | Ok s =>
        match collect (reverse_fuel f) f s with
        | Ok items => show_items (map show_ritem items)
        | Err _ => bs "err"
        | Panic => bs "PANIC"
        | OutOfFuel => bs "HANG"
        end
    | Panic => bs "PANIC"
    | OutOfFuel => bs "HANG"
    end
  else if bytes_eqb op (bs "write") then show_write (line_write (field_line fs))
  else if bytes_eqb op (bs "append") then show_write (append_write (field_line fs))
  else bs "?".

Definition run (fs : list bytes) : bytes :=
  match fs with
  | _mode :: rest => run_model rest
  | [] => bs "?"
  end.
