(* C21 — what the reverse iterator does when some line does not fit the buffer; totality. *)
From Coq Require Import List Arith Lia Bool.
From GixV.Base Require Import Bytes BytesFacts Outcome.
From GixV.C21 Require Import Model Spec ProofsRev ProofsIter.
Import ListNotations.
Local Open Scope nat_scope.

(* line [k], preceded by the lines [pre], does not fit a buffer of [B] bytes *)
Definition toolong (B : nat) (pre : list bytes) (k : bytes) : Prop :=
  match pre with [] => B < length k | _ => B < S (length k) end.

Lemma snoc_cases {A} (l : list A) : l = [] \/ exists l' x, l = l' ++ [x].
Proof.
  destruct l as [|x l0]; [left; reflexivity|right].
  destruct (exists_last (l := x :: l0)) as (l' & a & E); [discriminate|]. eauto.
Qed.

(* the last segment of split_lf (P ++ w) ends with w *)
Lemma split_lf_last_long w : nolf w -> forall P,
  exists segs lastseg, split_lf (P ++ w) = segs ++ [lastseg] /\ length w <= length lastseg.
Proof.
  intros Hw P. induction P as [|x P IH]; cbn [app].
  - exists [], w. rewrite (split_lf_nolf w Hw). auto.
  - destruct IH as (segs & ls & E & Hl). cbn [split_lf]. rewrite E. destruct (beqb x LF).
    + exists ([] :: segs), ls. auto.
    + destruct segs as [|y ys]; cbn [app].
      * exists [], (x :: ls). cbn [length]. split; [reflexivity|lia].
      * exists ((x :: y) :: ys), ls. auto.
Qed.

Section Small.
Variable f : bytes.

Lemma data_mode_small : forall fuel buf cnt pos e pre k post,
  2 * pos + e + 2 <= fuel ->
  Inv f buf pos e ->
  split_lf (firstn (pos + e) f) = pre ++ k :: post ->
  toolong (length buf) pre k ->
  fits_others (length buf) post ->
  collect fuel f (mkR buf cnt (Some pos) (Some e))
  = seqo (rev (map parse_owned post) ++ [Ok RTooSmall]).
Proof.
  induction fuel as [|fuel IH]; intros buf cnt pos e pre k post Hfuel (Hle & Hpe & Hwin) Hsplit Hlong Hpost; [lia|].
  cbn [collect]. unfold step. cbn [r_buf r_last_nl r_pos r_count].
  destruct (Nat.ltb_spec (length buf) e) as [Hbad|_]; [lia|].
  assert (HR : firstn (pos + e) f = firstn pos f ++ firstn e buf).
  { rewrite firstn_plus, Hwin. reflexivity. }
  pose proof (rfind_LF_spec (firstn e buf)) as Hr.
  destruct (rfind_byte LF (firstn e buf)) as [start|].
  - destruct Hr as (a & b & Eab & La & Hb).
    assert (Le : length (firstn e buf) = e) by (rewrite firstn_length; lia).
    assert (Hse : start < e /\ S (length b) <= length buf).
    { rewrite Eab, app_length in Le. cbn [length] in Le. lia. }
    destruct Hse as [Hse Hbfit].
    assert (Hslice : slice buf (S start) e = b).
    { unfold slice. rewrite <- skipn_firstn_comm, Eab.
      rewrite skipn_app, La.
      replace (S start - start) with 1 by lia.
      rewrite skipn_all2 by lia. reflexivity. }
    assert (Ha : firstn start buf = a).
    { transitivity (firstn start (firstn e buf)).
      - rewrite firstn_firstn. now rewrite Nat.min_l by lia.
      - rewrite Eab, firstn_app, La, Nat.sub_diag. cbn [firstn]. rewrite app_nil_r.
        apply firstn_all2. lia. }
    assert (HX : firstn (pos + start) f = firstn pos f ++ a).
    { rewrite firstn_plus. f_equal. rewrite <- Ha. symmetry.
      apply (firstn_le_firstn start e); [lia|exact Hwin]. }
    assert (HRs : split_lf (firstn (pos + e) f) = split_lf (firstn (pos + start) f) ++ [b]).
    { rewrite HR, Eab, app_assoc, HX. apply split_lf_snoc. exact Hb. }
    rewrite HRs in Hsplit.
    destruct (snoc_cases post) as [->|(post' & p & ->)].
    + (* the line found would be the one that does not fit *)
      exfalso. change (pre ++ [k]) with (pre ++ [k]) in Hsplit.
      apply app_inj_tail in Hsplit. destruct Hsplit as [Hpre <-].
      unfold toolong in Hlong. destruct pre as [|? ?]; [|lia].
      now apply split_lf_nonempty in Hpre.
    + replace (pre ++ k :: post' ++ [p]) with ((pre ++ k :: post') ++ [p]) in Hsplit
        by (rewrite <- app_assoc; reflexivity).
      apply app_inj_tail in Hsplit. destruct Hsplit as [HsX <-].
      rewrite Hslice, map_app, rev_app_distr. cbn [map rev app].
      rewrite seqo_app_one.
      rewrite (IH buf (S cnt) pos start pre k post').
      * reflexivity.
      * lia.
      * split; [lia|]. split; [lia|]. apply (firstn_le_firstn start e); [lia|exact Hwin].
      * exact HsX.
      * exact Hlong.
      * unfold fits_others in *. apply Forall_app in Hpost. tauto.
  - destruct (Nat.eqb_spec pos 0) as [Hp0|Hp0].
    + (* the whole rest is one line that fits: contradiction *)
      exfalso. subst pos. cbn [Nat.add] in *. cbn [firstn app] in HR.
      rewrite HR, (split_lf_nolf _ Hr) in Hsplit.
      assert (Le : length (firstn e buf) = e) by (rewrite firstn_length; lia).
      destruct pre as [|p0 pre'].
      * cbn [app] in Hsplit. injection Hsplit as Hk _. unfold toolong in Hlong. rewrite <- Hk, Le in Hlong. lia.
      * cbn [app] in Hsplit. injection Hsplit as _ Hnil. destruct pre'; discriminate.
    + destruct (Nat.eqb_spec (pos - (length buf - e)) pos) as [Hfull|Hmove].
      * (* buffer too small: the error is the last item *)
        assert (e = length buf) by lia. subst e.
        assert (Hpostnil : post = []).
        { destruct (snoc_cases post) as [->|(post' & p & ->)]; [reflexivity|exfalso].
          destruct (split_lf_last_long _ Hr (firstn pos f)) as (segs & ls & E & Hl).
          rewrite HR, E in Hsplit.
          replace (pre ++ k :: post' ++ [p]) with ((pre ++ k :: post') ++ [p]) in Hsplit
            by (rewrite <- app_assoc; reflexivity).
          apply app_inj_tail in Hsplit. destruct Hsplit as [_ <-].
          unfold fits_others in Hpost. apply Forall_app in Hpost. destruct Hpost as [_ Hp].
          inversion Hp as [|? ? Hp1 _]; subst. rewrite firstn_length in Hl. lia. }
        subst post. cbn [map rev app seqo obind].
        destruct fuel as [|fuel]; [lia|].
        unfold depleted. cbn [r_buf r_count]. rewrite collect_depleted. reflexivity.
      * set (npos := pos - (length buf - e)) in *.
        set (n := pos - npos).
        assert (Hn : 1 <= n /\ n + e <= length buf /\ npos + n = pos) by (unfold n, npos in *; lia).
        destruct Hn as (Hn1 & Hn2 & Hn3).
        destruct (Nat.ltb_spec (length buf) (n + e)) as [Hbad|_]; [lia|].
        unfold read_exact.
        destruct (Nat.ltb_spec (length f) (npos + n)) as [Hbad|_]; [lia|].
        set (data := firstn n (skipn npos f)).
        assert (Ld : length data = n).
        { unfold data. rewrite firstn_length, skipn_length. lia. }
        set (buf1 := firstn n buf ++ firstn e buf ++ skipn (n + e) buf).
        assert (Hskip : skipn n buf1 = firstn e buf ++ skipn (n + e) buf).
        { unfold buf1. rewrite skipn_app.
          rewrite firstn_length, Nat.min_l by lia. rewrite Nat.sub_diag. cbn [skipn].
          rewrite skipn_all2; [reflexivity|]. rewrite firstn_length. lia. }
        assert (Lb : length (data ++ skipn n buf1) = length buf).
        { rewrite app_length, Ld, Hskip, app_length, firstn_length, skipn_length. lia. }
        replace (pos + e) with (npos + (n + e)) in * by lia.
        rewrite <- Lb in Hlong, Hpost.
        rewrite (IH (data ++ skipn n buf1) cnt npos (n + e) pre k post).
        -- reflexivity.
        -- lia.
        -- split; [rewrite Lb; lia|]. split; [lia|].
           rewrite firstn_app, Ld.
           replace (n + e - n) with e by lia.
           rewrite (firstn_all2 (n := n + e) data) by lia.
           rewrite Hskip, firstn_app, firstn_length, Nat.min_l by lia.
           rewrite Nat.sub_diag. cbn [firstn]. rewrite app_nil_r.
           rewrite firstn_firstn, Nat.min_id.
           rewrite firstn_plus. unfold data. f_equal.
           rewrite Hwin, skipn_plus, Hn3. reflexivity.
        -- exact Hsplit.
        -- exact Hlong.
        -- exact Hpost.
Qed.

End Small.

Lemma init_mode_small f buf pre k post : buf <> [] ->
  flines f = pre ++ k :: post -> toolong (length buf) pre k -> fits_others (length buf) post ->
  collect (reverse_fuel f) f (init_state f buf) = seqo (rev (map parse_owned post) ++ [Ok RTooSmall]).
Proof.
  intros Hbuf Hsplit Hlong Hpost.
  assert (HB : 1 <= length buf) by (destruct buf; [congruence|cbn [length]; lia]).
  destruct f as [|x f'].
  - cbn [flines] in Hsplit. destruct pre; discriminate.
  - set (F := x :: f') in *. assert (HL : 1 <= length F) by (unfold F; cbn [length]; lia).
    unfold reverse_fuel, init_state.
    replace (3 * length F + 4) with (S (3 * length F + 3)) by lia.
    cbn [collect]. unfold step. cbn [r_last_nl r_pos r_buf r_count].
    set (npos := length F - length buf).
    set (n := length F - npos).
    assert (Hn : 1 <= n /\ n <= length buf /\ npos + n = length F) by (unfold n, npos; lia).
    destruct Hn as (Hn1 & Hn2 & Hn3).
    destruct (Nat.eqb_spec n 0) as [|_]; [lia|].
    destruct (Nat.ltb_spec (length buf) n) as [|_]; [lia|].
    unfold read_exact. destruct (Nat.ltb_spec (length F) (npos + n)) as [|_]; [lia|].
    set (data := firstn n (skipn npos F)).
    assert (Ld : length data = n) by (unfold data; rewrite firstn_length, skipn_length; lia).
    assert (Hdata : data = skipn npos F).
    { unfold data. apply firstn_all2. rewrite skipn_length. lia. }
    assert (Hlast : last data x00 = last F x00) by (rewrite Hdata; apply last_skipn; lia).
    set (e := if beqb (last data x00) LF then n - 1 else n).
    assert (He : e <= n) by (unfold e; destruct (beqb (last data x00) LF); lia).
    assert (HR : firstn (npos + e) F = drop_final_lf F).
    { unfold drop_final_lf, e. rewrite Hlast. destruct (beqb (last F x00) LF).
      - rewrite removelast_firstn_len. f_equal. lia.
      - apply firstn_all2. lia. }
    assert (Lb : length (data ++ skipn n buf) = length buf).
    { rewrite app_length, Ld, skipn_length. lia. }
    assert (Hfl : flines F = split_lf (firstn (npos + e) F)) by (rewrite HR; reflexivity).
    rewrite (data_mode_small F (3 * length F + 3) (data ++ skipn n buf) 0 npos e pre k post).
    + reflexivity.
    + lia.
    + split; [rewrite Lb; lia|]. split; [lia|].
      rewrite firstn_app, Ld. replace (e - n) with 0 by lia. cbn [firstn]. rewrite app_nil_r.
      unfold data. rewrite firstn_firstn. now rewrite Nat.min_l by lia.
    + rewrite <- Hfl. exact Hsplit.
    + rewrite Lb. exact Hlong.
    + rewrite Lb. exact Hpost.
Qed.

Lemma seqo_snoc_ok {A E} (l : list (outcome A E)) (l' : list A) x :
  seqo l = Ok l' -> seqo (l ++ [Ok x]) = Ok (l' ++ [x]).
Proof.
  revert l'. induction l as [|y l IH]; intros l' H.
  - cbn [seqo] in H. apply Ok_inj in H. subst l'. reflexivity.
  - cbn [app seqo] in *. destruct y as [a|e| |]; cbn [obind] in *; try discriminate.
    destruct (seqo l) as [r|e| |] eqn:Es; cbn [obind] in *; try discriminate.
    apply Ok_inj in H. subst l'. rewrite (IH r eq_refl). reflexivity.
Qed.

Lemma reverse_too_small_items f buf pre k post : buf <> [] ->
  flines f = pre ++ k :: post -> toolong (length buf) pre k -> fits_others (length buf) post ->
  collect (reverse_fuel f) f (init_state f buf)
  = Ok (rev (map (fun b => own (from_bytes b)) post) ++ [RTooSmall]).
Proof.
  intros Hb Hs Hl Hp. rewrite (init_mode_small f buf pre k post Hb Hs Hl Hp).
  apply seqo_snoc_ok. rewrite <- map_rev, seqo_parse_owned, map_rev. reflexivity.
Qed.

(* every list of lines either fits, or has a last line that does not *)
Lemma fits_or_last_toolong B segs :
  fits B segs \/ exists pre k post, segs = pre ++ k :: post /\ toolong B pre k /\ fits_others B post.
Proof.
  assert (G : forall l, fits_others B l \/
            exists pre k post, l = pre ++ k :: post /\ B < S (length k) /\ fits_others B post).
  { induction l as [|x xs IH]; [left; constructor|].
    destruct IH as [IH|(pre & k & post & E & Hk & Hp)].
    - destruct (le_lt_dec (S (length x)) B) as [Hx|Hx].
      + left. constructor; assumption.
      + right. exists [], x, xs. auto.
    - right. exists (x :: pre), k, post. subst xs. auto. }
  destruct segs as [|first others]; [left; exact I|].
  destruct (G others) as [Ho|(pre & k & post & E & Hk & Hp)].
  - destruct (le_lt_dec (length first) B) as [Hf|Hf].
    + left. split; assumption.
    + right. exists [], first, others. auto.
  - right. exists (first :: pre), k, post. subst others. auto.
Qed.

(* never panics, never hangs, never reads outside the file: for every file and every non-empty buffer *)
Lemma reverse_total_items f buf : buf <> [] ->
  exists items, collect (reverse_fuel f) f (init_state f buf) = Ok items /\ ~ In REof items.
Proof.
  intros Hb. destruct (fits_or_last_toolong (length buf) (flines f)) as [Hf|(pre & k & post & E & Hk & Hp)].
  - eexists. split; [apply (reverse_is_rev_forward_fits f buf Hb Hf)|].
    rewrite <- in_rev, in_map_iff. intros (i & Hi & _). unfold own in Hi.
    destruct i as [l| | |]; try discriminate.
    destruct (hex_decode (l_prev l)); [|discriminate]. destruct (hex_decode (l_new l)); discriminate.
  - eexists. split; [apply (reverse_too_small_items f buf pre k post Hb E Hk Hp)|].
    rewrite in_app_iff, <- in_rev, in_map_iff. intros [(b & Hi & _)|[H|[]]]; [|discriminate].
    unfold own in Hi. destruct (from_bytes b) as [l| | |]; try discriminate.
    destruct (hex_decode (l_prev l)); [|discriminate]. destruct (hex_decode (l_new l)); discriminate.
Qed.
