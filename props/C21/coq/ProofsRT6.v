(* C21 — the bytes a transaction appends (reflog_create_or_append: no TAB for an empty message, no LF check)
   read back as the entry, for well-formed entries. *)
From Coq Require Import List Arith ZArith NArith Lia Bool.
From GixV.Base Require Import Bytes BytesFacts Outcome.
From GixV.C21 Require Import Model Spec ProofsRev ProofsIter ProofsDec ProofsRT1 ProofsRT2 ProofsRT3 ProofsRT4 ProofsRT5.
Import ListNotations.
Local Open Scope nat_scope.

Lemma append_is_write_nonempty l : wf_entry l -> l_msg l <> [] -> append_write l = line_write l.
Proof.
  intros (_ & _ & _ & _ & _ & _ & HM) Hne. unfold append_write, line_write.
  destruct (sig_write (l_sig l)) as [s|e| |]; cbn [obind]; try reflexivity.
  assert (HMe : existsb (fun b => beqb b LF) (l_msg l) = false).
  { destruct (existsb (fun b => beqb b LF) (l_msg l)) eqn:X; [|reflexivity].
    apply existsb_exists in X. destruct X as (b & Hb & Hbl). unfold nolf in HM. rewrite forallb_forall in HM.
    specialize (HM b Hb). rewrite Hbl in HM. discriminate. }
  rewrite HMe. destruct (l_msg l) as [|m0 M]; [congruence|]. reflexivity.
Qed.

Lemma append_roundtrip_empty l : wf_entry l -> l_msg l = [] ->
  exists body, append_write l = Ok (body ++ [LF]) /\ nolf body /\ from_bytes body = Ok (as_ref l).
Proof.
  destruct l as [prev new [N E t] M]. unfold wf_entry, as_ref. cbn [l_prev l_new l_sig l_msg s_name s_email s_time].
  intros (Lp & Ln & HN & HE & HEe & Ht & HM) ->.
  destruct (time_roundtrip t Ht) as (T & EW & HTc & HTT).
  destruct (token_none N HN) as (HN1 & HN2 & HN3). destruct (token_none E HE) as (HE1 & HE2 & HE3).
  destruct (tchar_none T HTc) as (HT1 & HT2 & HT3 & HT4).
  set (H1 := hex_encode prev). set (H2 := hex_encode new).
  assert (LH1 : length H1 = 40) by (unfold H1; rewrite hex_encode_length; lia).
  assert (LH2 : length H2 = 40) by (unfold H2; rewrite hex_encode_length; lia).
  pose proof (hex_encode_lc prev) as X1. pose proof (hex_encode_lc new) as X2. fold H1 in X1. fold H2 in X2.
  set (Sg := N ++ SP :: LT :: E ++ GT :: SP :: T).
  set (HDR := H1 ++ SP :: H2 ++ SP :: Sg).
  exists HDR.
  assert (W : append_write (mkLine prev new (mkSig N E t) []) = Ok (HDR ++ [LF])).
  { unfold append_write, sig_write. cbn [l_prev l_new l_sig l_msg s_name s_email s_time].
    unfold token_ok in HN, HE. rewrite HN, HE, EW. cbn [obind].
    f_equal. unfold HDR, Sg. fold H1 H2.
    change (bs " ") with [SP]. change (bs " <") with [SP; LT]. change (bs "> ") with [GT; SP].
    repeat (rewrite <- ?app_assoc; cbn [app]). reflexivity. }
  split; [exact W|].
  assert (HnlSg : none_of (isb LF) Sg).
  { unfold Sg. apply none_of_app. split; [exact HN3|]. apply none_of_cons. split; [reflexivity|].
    apply none_of_cons. split; [reflexivity|]. apply none_of_app. split; [exact HE3|].
    apply none_of_cons. split; [reflexivity|]. apply none_of_cons. split; [reflexivity|exact HT2]. }
  split.
  { unfold HDR. change (nolf ?x) with (none_of (isb LF) x).
    apply none_of_app. split; [apply lchex_none; [exact X1|left; reflexivity]|].
    apply none_of_cons. split; [reflexivity|]. apply none_of_app. split; [apply lchex_none; [exact X2|left; reflexivity]|].
    apply none_of_cons. split; [reflexivity|exact HnlSg]. }
  set (Apre := H1 ++ SP :: H2 ++ SP :: N ++ SP :: LT :: E).
  assert (EH : HDR = Apre ++ GT :: SP :: T).
  { unfold HDR, Sg, Apre. repeat (rewrite <- ?app_assoc; cbn [app]). reflexivity. }
  assert (HL : header_len HDR = length HDR).
  { unfold header_len. rewrite EH at 1. rewrite find_byte_hit.
    2:{ fold (isb GT). unfold Apre. apply none_of_app. split; [apply lchex_none; [exact X1|left; reflexivity]|].
        apply none_of_cons. split; [reflexivity|]. apply none_of_app. split; [apply lchex_none; [exact X2|left; reflexivity]|].
        apply none_of_cons. split; [reflexivity|]. apply none_of_app. split; [exact HN2|].
        apply none_of_cons. split; [reflexivity|]. apply none_of_cons. split; [reflexivity|exact HE2]. }
    rewrite EH at 1. rewrite skipn_app_exact.
    rewrite find_pred_none; [reflexivity|].
    apply none_of_cons. split; [reflexivity|]. apply none_of_cons. split; [reflexivity|].
    unfold none_of. rewrite forallb_forall. intros b Hb. apply negb_true_iff.
    pose proof (none_of_in _ _ _ HT3 Hb) as Q1. pose proof (none_of_in _ _ _ HT2 Hb) as Q2.
    unfold isb in Q1, Q2. now rewrite Q1, Q2. }
  unfold from_bytes. rewrite HL, firstn_all.
  unfold HDR at 1. rewrite (hex_hash_hit H1 _ LH1 X1). cbn [expect_byte]. change (beqb SP SP) with true. cbv iota.
  rewrite (hex_hash_hit H2 _ LH2 X2). cbn [expect_byte]. change (beqb SP SP) with true. cbv iota.
  assert (ESg : sig_decode Sg = Some (mkSig N E t, [])).
  { unfold sig_decode, Sg. rewrite (identity_wf N E (SP :: T)); try assumption.
    change (beqb SP SP) with true. cbv iota. rewrite HTT. reflexivity. }
  rewrite ESg. cbn [length]. rewrite Nat.sub_0_r, skipn_all. reflexivity.
Qed.

Lemma append_roundtrip l : wf_entry l ->
  exists body, append_write l = Ok (body ++ [LF]) /\ nolf body /\
    from_bytes body = Ok (as_ref l) /\ own (from_bytes body) = RLine l.
Proof.
  intros H. destruct (l_msg l) as [|m0 M] eqn:EM.
  - destruct (append_roundtrip_empty l H EM) as (body & E1 & E2 & E3).
    exists body. repeat split; try assumption. rewrite E3. apply own_as_ref.
  - destruct (line_roundtrip l H) as (body & E1 & E2 & E3 & E4).
    exists body. rewrite (append_is_write_nonempty l H) by (rewrite EM; discriminate). auto.
Qed.

(* the reflog file after a sequence of transactions, each appending one entry *)
Fixpoint append_all (ls : list line) : outcome bytes werr :=
  match ls with
  | [] => Ok []
  | l :: r => (b <- append_write l ;; rest <- append_all r ;; Ok (b ++ rest))%outcome
  end.

Lemma append_log_roundtrip ls : Forall wf_entry ls ->
  exists f, append_all ls = Ok f /\
    forward f = map (fun l => Ok (as_ref l)) ls /\
    forall buf, buf <> [] -> maxline_nl (flines f) <= length buf ->
      collect (reverse_fuel f) f (init_state f buf) = Ok (rev (map RLine ls)).
Proof.
  intros H.
  assert (G : exists f, append_all ls = Ok f /\ map from_bytes (flines f) = map (fun l => Ok (as_ref l)) ls).
  { induction ls as [|l ls IH].
    - exists []. split; reflexivity.
    - inversion H as [|? ? Hl Hls]; subst. destruct (IH Hls) as (f & Ef & Hf).
      destruct (append_roundtrip l Hl) as (body & Ew & Hb & Ep & _).
      exists ((body ++ [LF]) ++ f). cbn [append_all]. rewrite Ew, Ef. cbn [obind]. split; [reflexivity|].
      rewrite (flines_line body f Hb). cbn [map]. rewrite Ep, Hf. reflexivity. }
  destruct G as (f & Ef & Hf). exists f. split; [exact Ef|].
  assert (Hfw : forward f = map (fun l => Ok (as_ref l)) ls) by (rewrite forward_flines; exact Hf).
  split; [exact Hfw|]. intros buf Hb Hm.
  rewrite (reverse_is_rev_forward_fits f buf Hb (fits_of_maxline _ _ Hm)), Hfw, map_map.
  f_equal. f_equal. apply map_ext. intros l. apply own_as_ref.
Qed.

(* the known finding, on the model: an LF in the message makes one appended entry read back as two lines *)
Definition newline_entry : line :=
  mkLine (repeat x00 20) (repeat xab 20) (mkSig (bs "n") (bs "e") (mkTime 1 0 false)) (bs "a" ++ [LF] ++ bs "b").
Lemma append_newline_refuted :
  exists l, ~ wf_entry l /\ existsb (fun b => beqb b LF) (l_msg l) = true /\
    match append_write l with Ok f => length (forward f) = 2 | _ => False end.
Proof.
  exists newline_entry. split.
  - intros (_ & _ & _ & _ & _ & _ & HM). vm_compute in HM. discriminate.
  - split; vm_compute; reflexivity.
Qed.
