(* C21 — a log built by writing entries one after the other reads back, forwards and backwards, as those entries. *)
From Coq Require Import List Arith ZArith NArith Lia Bool.
From GixV.Base Require Import Bytes BytesFacts Outcome.
From GixV.C21 Require Import Model Spec ProofsRev ProofsIter ProofsDec ProofsRT1 ProofsRT2 ProofsRT3 ProofsRT4.
Import ListNotations.
Local Open Scope nat_scope.

(* the file after writing the entries in order (each Line::write_to appends its bytes) *)
Fixpoint write_all (ls : list line) : outcome bytes werr :=
  match ls with
  | [] => Ok []
  | l :: r => (b <- line_write l ;; rest <- write_all r ;; Ok (b ++ rest))%outcome
  end.

Lemma lines_wt_line body rest : nolf body -> lines_wt ((body ++ [LF]) ++ rest) = (body ++ [LF]) :: lines_wt rest.
Proof.
  induction body as [|b body IH]; intros H.
  - cbn [app lines_wt]. change (beqb LF LF) with true. reflexivity.
  - apply nolf_cons in H. destruct H as [Hb H]. cbn [app lines_wt]. rewrite Hb.
    rewrite (IH H). reflexivity.
Qed.

Lemma strip_lf_line body : strip_lf (body ++ [LF]) = body.
Proof.
  induction body as [|b body IH]; [reflexivity|].
  cbn [app]. rewrite strip_lf_cons by (destruct body; discriminate). now rewrite IH.
Qed.

Lemma flines_line body rest : nolf body -> flines ((body ++ [LF]) ++ rest) = body :: flines rest.
Proof.
  intros H. rewrite !flines_sl. unfold sl. rewrite (lines_wt_line body rest H). cbn [map]. now rewrite strip_lf_line.
Qed.

Lemma write_all_lines ls : Forall wf_entry ls ->
  exists f, write_all ls = Ok f /\ map from_bytes (flines f) = map (fun l => Ok (as_ref l)) ls.
Proof.
  induction ls as [|l ls IH]; intros H.
  - exists []. split; reflexivity.
  - inversion H as [|? ? Hl Hls]; subst. destruct (IH Hls) as (f & Ef & Hf).
    destruct (line_roundtrip_body l Hl) as (body & Ew & Hb & Ep).
    exists ((body ++ [LF]) ++ f). cbn [write_all]. rewrite Ew, Ef. cbn [obind]. split; [reflexivity|].
    rewrite (flines_line body f Hb). cbn [map]. rewrite Ep, Hf. reflexivity.
Qed.

Lemma log_roundtrip ls : Forall wf_entry ls ->
  exists f, write_all ls = Ok f /\
    forward f = map (fun l => Ok (as_ref l)) ls /\
    forall buf, buf <> [] -> maxline_nl (flines f) <= length buf ->
      collect (reverse_fuel f) f (init_state f buf) = Ok (rev (map RLine ls)).
Proof.
  intros H. destruct (write_all_lines ls H) as (f & Ef & Hf). exists f. split; [exact Ef|].
  assert (Hfw : forward f = map (fun l => Ok (as_ref l)) ls) by (rewrite forward_flines; exact Hf).
  split; [exact Hfw|]. intros buf Hb Hm.
  rewrite (reverse_is_rev_forward_fits f buf Hb (fits_of_maxline _ _ Hm)), Hfw, map_map.
  f_equal. f_equal. apply map_ext. intros l. apply own_as_ref.
Qed.

Lemma line_roundtrip l : wf_entry l ->
  exists body, line_write l = Ok (body ++ [LF]) /\ nolf body /\
    from_bytes body = Ok (as_ref l) /\ own (from_bytes body) = RLine l.
Proof.
  intros H. destruct (line_roundtrip_body l H) as (body & E1 & E2 & E3).
  exists body. repeat split; try assumption. rewrite E3. apply own_as_ref.
Qed.

(* non-vacuity: a well-formed entry with CR, '>' and TAB in the message, negative seconds, -0530 *)
Definition sample_entry : line :=
  mkLine (repeat x00 20) (repeat xab 20)
         (mkSig (bs "A B") (bs "a@b") (mkTime (-5) (-19800) true)) (bs "x>y" ++ [TAB; x0d]).
Lemma sample_entry_wf : wf_entry sample_entry.
Proof.
  unfold wf_entry, sample_entry. cbn [l_prev l_new l_sig l_msg s_name s_email s_time].
  repeat split; try reflexivity; vm_compute; try reflexivity; try discriminate; intros; discriminate.
Qed.
