(* C21 — the reverse iterator yields the lines of the file, newest first, whenever they fit the buffer. *)
From Coq Require Import List Arith Lia Bool.
From GixV.Base Require Import Bytes BytesFacts Outcome.
From GixV.C21 Require Import Model Spec.
Import ListNotations.
Local Open Scope nat_scope.

(* ---- list arithmetic ------------------------------------------------------------------------ *)

Lemma firstn_plus {A} n m (l : list A) : firstn (n + m) l = firstn n l ++ firstn m (skipn n l).
Proof.
  revert l. induction n as [|n IH]; intros l; [reflexivity|].
  destruct l as [|x l]; cbn [Nat.add firstn skipn app].
  - now rewrite firstn_nil.
  - now rewrite IH.
Qed.

Lemma skipn_plus {A} n m (l : list A) : skipn m (skipn n l) = skipn (n + m) l.
Proof.
  revert l. induction n as [|n IH]; intros l; [reflexivity|].
  destruct l as [|x l]; cbn [Nat.add skipn]; [now rewrite skipn_nil|apply IH].
Qed.

Lemma firstn_le_firstn {A} a e (l l' : list A) :
  a <= e -> firstn e l = firstn e l' -> firstn a l = firstn a l'.
Proof.
  intros Hle H.
  assert (G : forall (x : list A), firstn a x = firstn a (firstn e x)).
  { intros x. rewrite firstn_firstn. now rewrite Nat.min_l by exact Hle. }
  rewrite (G l), (G l'), H. reflexivity.
Qed.

(* ---- LF facts ---------------------------------------------------------------------------------- *)

Lemma beqb_LF b : beqb b LF = true -> b = LF.
Proof. apply beqb_eq. Qed.

Lemma nolf_cons b l : nolf (b :: l) <-> beqb b LF = false /\ nolf l.
Proof.
  unfold nolf. cbn [forallb]. rewrite andb_true_iff, negb_true_iff. tauto.
Qed.

Lemma split_lf_nonempty l : split_lf l <> [].
Proof.
  destruct l as [|b r]; cbn [split_lf]; [discriminate|].
  destruct (beqb b LF); [discriminate|]. destruct (split_lf r); discriminate.
Qed.

Lemma split_lf_nolf w : nolf w -> split_lf w = [w].
Proof.
  induction w as [|b r IH]; intros H; [reflexivity|].
  apply nolf_cons in H. destruct H as [Hb Hr]. cbn [split_lf]. rewrite Hb, (IH Hr). reflexivity.
Qed.

Lemma split_lf_snoc a : forall b, nolf b -> split_lf (a ++ LF :: b) = split_lf a ++ [b].
Proof.
  induction a as [|x a IH]; intros b Hb.
  - cbn [app split_lf]. change (beqb LF LF) with true. cbn iota. now rewrite (split_lf_nolf b Hb).
  - cbn [app split_lf]. rewrite (IH b Hb). destruct (beqb x LF); [reflexivity|].
    destruct (split_lf a) as [|y ys] eqn:E; [now apply split_lf_nonempty in E|]. reflexivity.
Qed.

Lemma rfind_LF_spec l :
  match rfind_byte LF l with
  | Some i => exists a b, l = a ++ LF :: b /\ length a = i /\ nolf b
  | None => nolf l
  end.
Proof.
  induction l as [|x r IH]; [reflexivity|].
  cbn [rfind_byte]. destruct (rfind_byte LF r) as [j|].
  - destruct IH as (a & b & E & La & Hb). exists (x :: a), b. subst r. cbn [app length]. auto.
  - destruct (beqb x LF) eqn:Ex.
    + apply beqb_LF in Ex. subst x. exists [], r. auto.
    + apply nolf_cons. auto.
Qed.

(* ---- fits ---------------------------------------------------------------------------------------- *)

Lemma fits_app_l B l l' : l <> [] -> fits B (l ++ l') -> fits B l.
Proof.
  destruct l as [|x xs]; [congruence|]. intros _. cbn [app fits]. intros [H1 H2]. split; [exact H1|].
  unfold fits_others in *. apply Forall_app in H2. tauto.
Qed.

(* a window full of one LF-free stretch of [B] bytes cannot be the tail of a line that fits *)
Lemma fits_others_long_tail B w : nolf w -> B <= length w ->
  forall P, fits_others B (split_lf (P ++ w)) -> False.
Proof.
  intros Hw Hlen P. induction P as [|x P IH]; cbn [app].
  - rewrite (split_lf_nolf w Hw). intros H. inversion H as [|? ? H1 _]; subst. lia.
  - cbn [split_lf]. destruct (beqb x LF).
    + intros H. inversion H; subst. auto.
    + destruct (split_lf (P ++ w)) as [|y ys] eqn:E; [now apply split_lf_nonempty in E|].
      intros H. inversion H as [|? ? H1 H2]; subst. apply IH. constructor; [|exact H2].
      cbn [length] in H1. lia.
Qed.

Lemma fits_window_full B w P : nolf w -> length w = B -> P <> [] -> fits B (split_lf (P ++ w)) -> False.
Proof.
  intros Hw Hlen HP. destruct P as [|x P]; [congruence|]. cbn [app split_lf].
  destruct (beqb x LF).
  - cbn [fits]. intros [_ H]. apply (fits_others_long_tail B w Hw) in H; [exact H|lia].
  - destruct (split_lf (P ++ w)) as [|y ys] eqn:E; [now apply split_lf_nonempty in E|].
    cbn [fits length]. intros [H1 H2].
    apply (fits_others_long_tail B w Hw ltac:(lia) P). rewrite E. constructor; [lia|exact H2].
Qed.

(* ---- the window invariant --------------------------------------------------------------------- *)

(* buf[..e] is file[pos .. pos+e] *)
Definition Inv (f buf : bytes) (pos e : nat) : Prop :=
  e <= length buf /\ pos + e <= length f /\ firstn e buf = firstn e (skipn pos f).

Lemma collect_depleted fuel f buf cnt : collect (S fuel) f (mkR buf cnt None None) = Ok [].
Proof. reflexivity. Qed.

Lemma seqo_app_one {A E} (l : list (outcome A E)) x :
  seqo (x :: l) = (a <- x ;; r <- seqo l ;; Ok (a :: r))%outcome.
Proof. reflexivity. Qed.

Section Window.
Variable f : bytes.

Lemma data_mode : forall fuel buf cnt pos e,
  2 * pos + e + 2 <= fuel ->
  Inv f buf pos e ->
  fits (length buf) (split_lf (firstn (pos + e) f)) ->
  collect fuel f (mkR buf cnt (Some pos) (Some e))
  = seqo (rev (map parse_owned (split_lf (firstn (pos + e) f)))).
Proof.
  induction fuel as [|fuel IH]; intros buf cnt pos e Hfuel (Hle & Hpe & Hwin) Hfits; [lia|].
  cbn [collect]. unfold step. cbn [r_buf r_last_nl r_pos r_count].
  destruct (Nat.ltb_spec (length buf) e) as [Hbad|_]; [lia|].
  assert (HR : firstn (pos + e) f = firstn pos f ++ firstn e buf).
  { rewrite firstn_plus, Hwin. reflexivity. }
  pose proof (rfind_LF_spec (firstn e buf)) as Hr.
  destruct (rfind_byte LF (firstn e buf)) as [start|].
  - (* a line ends inside the window *)
    destruct Hr as (a & b & Eab & La & Hb).
    assert (Hse : start < e).
    { assert (L : length (firstn e buf) = e) by (rewrite firstn_length; lia).
      rewrite Eab, app_length in L. cbn [length] in L. lia. }
    assert (Hslice : slice buf (S start) e = b).
    { unfold slice. rewrite <- skipn_firstn_comm, Eab.
      rewrite skipn_app, La.
      replace (S start - start) with 1 by lia.
      rewrite skipn_all2 by lia. reflexivity. }
    assert (Ha : firstn start buf = a).
    { transitivity (firstn start (firstn e buf)).
      - rewrite firstn_firstn. now rewrite Nat.min_l by lia.
      - rewrite Eab, firstn_app, La, Nat.sub_diag. cbn [firstn]. rewrite app_nil_r.
        apply firstn_all2. lia. }
    assert (HX : firstn (pos + start) f = firstn pos f ++ a).
    { rewrite firstn_plus. f_equal. rewrite <- Ha. symmetry.
      apply (firstn_le_firstn start e); [lia|exact Hwin]. }
    assert (HRs : split_lf (firstn (pos + e) f) = split_lf (firstn (pos + start) f) ++ [b]).
    { rewrite HR, Eab, app_assoc, HX. apply split_lf_snoc. exact Hb. }
    rewrite Hslice, HRs, map_app, rev_app_distr. cbn [map rev app].
    rewrite seqo_app_one.
    rewrite (IH buf (S cnt) pos start).
    + reflexivity.
    + lia.
    + split; [lia|]. split; [lia|].
      apply (firstn_le_firstn start e); [lia|exact Hwin].
    + rewrite HRs in Hfits. apply fits_app_l in Hfits; [exact Hfits|apply split_lf_nonempty].
  - (* no LF in the window *)
    destruct (Nat.eqb_spec pos 0) as [Hp0|Hp0].
    + subst pos. cbn [Nat.add] in *. cbn [firstn app] in HR.
      rewrite HR, (split_lf_nolf _ Hr). cbn [map rev app].
      destruct fuel as [|fuel]; [lia|].
      unfold depleted. cbn [r_buf r_count]. rewrite collect_depleted. reflexivity.
    + destruct (Nat.eqb_spec (pos - (length buf - e)) pos) as [Hfull|Hmove].
      * (* buffer too small: excluded by [fits] *)
        exfalso. assert (e = length buf) by lia. subst e.
        rewrite HR in Hfits.
        apply (fits_window_full (length buf) (firstn (length buf) buf) (firstn pos f)); auto.
        -- rewrite firstn_length. lia.
        -- intros E. apply (f_equal (@length byte)) in E. rewrite firstn_length in E.
           cbn [length] in E. lia.
      * set (npos := pos - (length buf - e)) in *.
        set (n := pos - npos).
        assert (Hn : 1 <= n /\ n + e <= length buf /\ npos + n = pos) by (unfold n, npos in *; lia).
        destruct Hn as (Hn1 & Hn2 & Hn3).
        destruct (Nat.ltb_spec (length buf) (n + e)) as [Hbad|_]; [lia|].
        unfold read_exact.
        destruct (Nat.ltb_spec (length f) (npos + n)) as [Hbad|_]; [lia|].
        set (data := firstn n (skipn npos f)).
        assert (Ld : length data = n).
        { unfold data. rewrite firstn_length, skipn_length. lia. }
        set (buf1 := firstn n buf ++ firstn e buf ++ skipn (n + e) buf).
        assert (Hskip : skipn n buf1 = firstn e buf ++ skipn (n + e) buf).
        { unfold buf1. rewrite skipn_app.
          rewrite firstn_length, Nat.min_l by lia. rewrite Nat.sub_diag. cbn [skipn].
          rewrite skipn_all2; [reflexivity|]. rewrite firstn_length. lia. }
        assert (Lb : length (data ++ skipn n buf1) = length buf).
        { rewrite app_length, Ld, Hskip, app_length, firstn_length, skipn_length. lia. }
        replace (pos + e) with (npos + (n + e)) in * by lia.
        rewrite <- Lb in Hfits.
        rewrite (IH (data ++ skipn n buf1) cnt npos (n + e)).
        -- reflexivity.
        -- lia.
        -- split; [rewrite Lb; lia|]. split; [lia|].
           rewrite firstn_app, Ld.
           replace (n + e - n) with e by lia.
           rewrite (firstn_all2 (n := n + e) data) by lia.
           rewrite Hskip, firstn_app, firstn_length, Nat.min_l by lia.
           rewrite Nat.sub_diag. cbn [firstn]. rewrite app_nil_r.
           rewrite firstn_firstn, Nat.min_id.
           rewrite firstn_plus. unfold data. f_equal.
           rewrite Hwin, skipn_plus, Hn3. reflexivity.
        -- exact Hfits.
Qed.

End Window.
