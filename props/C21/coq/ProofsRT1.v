(* C21 — round trip, part 1: search lemmas, byte classes, decimal parsing (btoi) of what itoa wrote, time zone tail. *)
From Coq Require Import List Arith ZArith NArith Lia ZifyBool ZifyNat ZifyN Bool.
From GixV.Base Require Import Bytes BytesFacts Outcome.
From GixV.C21 Require Import Model Spec ProofsDec.
Import ListNotations.

(* ---- searching in a ++ c :: r ------------------------------------------------------------------- *)

Definition none_of (p : byte -> bool) (l : bytes) : Prop := forallb (fun b => negb (p b)) l = true.

Lemma none_of_app p a b : none_of p (a ++ b) <-> none_of p a /\ none_of p b.
Proof. unfold none_of. rewrite forallb_app, andb_true_iff. tauto. Qed.
Lemma none_of_cons p x l : none_of p (x :: l) <-> p x = false /\ none_of p l.
Proof. unfold none_of. cbn [forallb]. rewrite andb_true_iff, negb_true_iff. tauto. Qed.
Lemma none_of_nil p : none_of p [].
Proof. reflexivity. Qed.

Lemma find_byte_pred c l : find_byte c l = find_pred (fun b => beqb b c) l.
Proof. induction l as [|x l IH]; [reflexivity|]. cbn [find_byte find_pred]. now rewrite IH. Qed.

Lemma find_pred_hit p a c r : none_of p a -> p c = true -> find_pred p (a ++ c :: r) = Some (length a).
Proof.
  intros Ha Hc. induction a as [|x a IH]; cbn [app find_pred length].
  - now rewrite Hc.
  - apply none_of_cons in Ha. destruct Ha as [Hx Ha]. rewrite Hx, (IH Ha). reflexivity.
Qed.
Lemma find_pred_none p l : none_of p l -> find_pred p l = None.
Proof.
  induction l as [|x l IH]; intros H; [reflexivity|]. apply none_of_cons in H. destruct H as [Hx H].
  cbn [find_pred]. now rewrite Hx, (IH H).
Qed.
Lemma find_byte_hit c a r : none_of (fun b => beqb b c) a -> find_byte c (a ++ c :: r) = Some (length a).
Proof. intros H. rewrite find_byte_pred. apply find_pred_hit; [exact H|]. apply beqb_eq. reflexivity. Qed.
Lemma find_byte_none c l : none_of (fun b => beqb b c) l -> find_byte c l = None.
Proof. intros H. rewrite find_byte_pred. now apply find_pred_none. Qed.

Lemma rfind_byte_none c l : none_of (fun b => beqb b c) l -> rfind_byte c l = None.
Proof.
  induction l as [|x l IH]; intros H; [reflexivity|]. apply none_of_cons in H. destruct H as [Hx H].
  cbn [rfind_byte]. now rewrite (IH H), Hx.
Qed.
Lemma rfind_byte_hit c a r : none_of (fun b => beqb b c) r -> rfind_byte c (a ++ c :: r) = Some (length a).
Proof.
  intros Hr. induction a as [|x a IH]; cbn [app rfind_byte length].
  - rewrite (rfind_byte_none c r Hr). assert (E : beqb c c = true) by (apply beqb_eq; reflexivity). now rewrite E.
  - now rewrite IH.
Qed.

Lemma count_while_stop p a c r : forallb p a = true -> p c = false -> count_while p (a ++ c :: r) = length a.
Proof.
  intros Ha Hc. induction a as [|x a IH]; cbn [app count_while length].
  - now rewrite Hc.
  - cbn [forallb] in Ha. apply andb_true_iff in Ha. destruct Ha as [Hx Ha]. now rewrite Hx, (IH Ha).
Qed.
Lemma count_while_all p a : forallb p a = true -> count_while p a = length a.
Proof.
  induction a as [|x a IH]; intros Ha; [reflexivity|].
  cbn [forallb] in Ha. apply andb_true_iff in Ha. destruct Ha as [Hx Ha]. cbn [count_while length]. now rewrite Hx, (IH Ha).
Qed.

Lemma firstn_app_exact {A} (a b : list A) : firstn (length a) (a ++ b) = a.
Proof. rewrite firstn_app, Nat.sub_diag, firstn_all. cbn [firstn]. apply app_nil_r. Qed.
Lemma skipn_app_exact {A} (a b : list A) : skipn (length a) (a ++ b) = b.
Proof. rewrite skipn_app, Nat.sub_diag, skipn_all. reflexivity. Qed.

Lemma forallb_impl (p q : byte -> bool) l : (forall b, p b = true -> q b = true) -> forallb p l = true -> forallb q l = true.
Proof. intros H. rewrite !forallb_forall. auto. Qed.

(* ---- byte classes ------------------------------------------------------------------------------------ *)

(* what Time::write_to emits *)
Definition tchar (b : byte) : bool := is_digit b || beqb b "-"%byte || beqb b "+"%byte || beqb b SP.
Definition special (b : byte) : bool := beqb b GT || beqb b LT || beqb b TAB || beqb b LF.

Lemma byte_fact (P : byte -> bool) : P x00 = true -> forallb P all_bytes = true -> forall b, P b = true.
Proof. intros _ H. apply forall_bytes. exact H. Qed.

Lemma tchar_not_special : forall b, tchar b = true -> special b = false.
Proof.
  assert (H : forall b, (negb (tchar b) || negb (special b)) = true) by (apply forall_bytes; vm_compute; reflexivity).
  intros b Hb. specialize (H b). rewrite Hb in H. cbn in H. now apply negb_true_iff in H.
Qed.
Lemma lchex_not_special_sp : forall b, is_lc_hex b = true -> special b = false /\ beqb b SP = false.
Proof.
  assert (H : forall b, (negb (is_lc_hex b) || (negb (special b) && negb (beqb b SP))) = true) by (apply forall_bytes; vm_compute; reflexivity).
  intros b Hb. specialize (H b). rewrite Hb in H. cbn in H. apply andb_true_iff in H. destruct H as [H1 H2].
  split; now apply negb_true_iff.
Qed.
Lemma digit_class : forall b, is_digit b = true ->
  beqb b "-"%byte = false /\ beqb b "+"%byte = false /\ beqb b SP = false /\ tchar b = true.
Proof.
  assert (H : forall b, (negb (is_digit b) || (negb (beqb b "-"%byte) && negb (beqb b "+"%byte) && negb (beqb b SP) && tchar b)) = true)
    by (apply forall_bytes; vm_compute; reflexivity).
  intros b Hb. specialize (H b). rewrite Hb in H. cbn [negb orb] in H.
  repeat (apply andb_true_iff in H; destruct H as [H ?]). repeat split; try now apply negb_true_iff. assumption.
Qed.

Lemma hex_encode_lc l : forallb is_lc_hex (hex_encode l) = true.
Proof.
  assert (H : forall b, forallb is_lc_hex (hex_encode [b]) = true) by (apply forall_bytes; vm_compute; reflexivity).
  induction l as [|b l IH]; [reflexivity|].
  change (b :: l) with ([b] ++ l). rewrite hex_encode_app, forallb_app, (H b), IH. reflexivity.
Qed.
