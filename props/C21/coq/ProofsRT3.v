(* C21 — round trip, part 3: identity / signature / whole line. *)
From Coq Require Import List Arith ZArith NArith Lia Bool.
From GixV.Base Require Import Bytes BytesFacts Outcome.
From GixV.C21 Require Import Model Spec ProofsDec ProofsRT1 ProofsRT2.
Import ListNotations.
Local Open Scope nat_scope.

Definition isb (c : byte) : byte -> bool := fun b => beqb b c.

(* name / email as validated_token accepts them, email additionally without surrounding whitespace *)
Definition token_ok (t : bytes) : Prop := existsb illegal_in_token t = false.
Definition email_ends_ok (e : bytes) : Prop :=
  match e with
  | [] => True
  | b :: _ => is_ascii_ws b = false /\ is_ascii_ws (last e x00) = false
  end.

Lemma token_none t : token_ok t -> none_of (isb LT) t /\ none_of (isb GT) t /\ none_of (isb LF) t.
Proof.
  unfold token_ok, none_of, isb. intros H.
  assert (G : forall b, In b t -> illegal_in_token b = false).
  { intros b Hb. destruct (illegal_in_token b) eqn:E; [|reflexivity].
    assert (existsb illegal_in_token t = true) by (apply existsb_exists; eauto). congruence. }
  repeat split; apply forallb_forall; intros b Hb; specialize (G b Hb); unfold illegal_in_token in G;
    apply orb_false_iff in G; destruct G as [G G3]; apply orb_false_iff in G; destruct G as [G1 G2];
    apply negb_true_iff; assumption.
Qed.

Lemma tchar_none T : forallb tchar T = true -> none_of (isb GT) T /\ none_of (isb LF) T /\ none_of (isb TAB) T /\ none_of (isb LT) T.
Proof.
  intros H. unfold none_of, isb.
  assert (G : forall b, In b T -> special b = false).
  { rewrite forallb_forall in H. intros b Hb. apply tchar_not_special. auto. }
  repeat split; apply forallb_forall; intros b Hb; specialize (G b Hb); unfold special in G;
    apply orb_false_iff in G; destruct G as [G G4]; apply orb_false_iff in G; destruct G as [G G3];
    apply orb_false_iff in G; destruct G as [G1 G2]; apply negb_true_iff; assumption.
Qed.

Definition qr (b : byte) : bool := is_ascii_ws b || beqb b GT.
Definition ql (b : byte) : bool := is_ascii_ws b || beqb b LT.

Lemma count_while_head_false p l :
  match l with [] => True | x :: _ => p x = false end -> count_while p l = 0.
Proof. destruct l as [|x l]; [reflexivity|]. intros H. cbn [count_while]. now rewrite H. Qed.

Lemma none_of_in p l b : none_of p l -> In b l -> p b = false.
Proof. unfold none_of. rewrite forallb_forall. intros H Hb. apply negb_true_iff. auto. Qed.

Lemma identity_wf N E R :
  none_of (isb LT) N -> none_of (isb LF) N ->
  none_of (isb LT) E -> none_of (isb GT) E -> none_of (isb LF) E -> email_ends_ok E ->
  none_of (isb GT) R -> none_of (isb LF) R ->
  identity (N ++ SP :: LT :: E ++ GT :: R) = Some (N, E, R).
Proof.
  intros HN1 HN2 HE1 HE2 HE3 HEe HR1 HR2.
  set (A := N ++ SP :: LT :: E).
  set (P := N ++ [SP]).
  assert (EI : N ++ SP :: LT :: E ++ GT :: R = A ++ GT :: R).
  { unfold A. rewrite <- app_assoc. reflexivity. }
  assert (EA : A = P ++ LT :: E) by (unfold A, P; rewrite <- app_assoc; reflexivity).
  assert (LA : length A = length P + 1 + length E) by (rewrite EA, app_length; cbn [length]; lia).
  assert (H1 : find_byte LF (A ++ GT :: R) = None).
  { apply find_byte_none. unfold A. fold (isb LF).
    apply none_of_app. split; [apply none_of_app; split; [exact HN2|]|].
    - apply none_of_cons. split; [reflexivity|]. apply none_of_cons. split; [reflexivity|exact HE3].
    - apply none_of_cons. split; [reflexivity|exact HR2]. }
  assert (H2 : rfind_byte GT (A ++ GT :: R) = Some (length A)) by (apply rfind_byte_hit; exact HR1).
  assert (H3 : count_while (fun b => is_ascii_ws b || beqb b GT) (rev A) = 0).
  { apply count_while_head_false. unfold A. rewrite rev_app_distr. cbn [rev].
    destruct E as [|b E0].
    - cbn [rev app]. reflexivity.
    - destruct (@exists_last _ (b :: E0)) as (E' & z & EE); [discriminate|].
      destruct HEe as [_ Hz]. rewrite EE in Hz. rewrite last_last in Hz.
      assert (Hg : isb GT z = false).
      { apply (none_of_in _ _ _ HE2). rewrite EE. apply in_or_app. right. left. reflexivity. }
      rewrite EE, rev_unit. cbn [app]. unfold isb in Hg. now rewrite Hz, Hg. }
  assert (H4 : find_byte LT A = Some (length P)).
  { rewrite EA. apply find_byte_hit. fold (isb LT). unfold P. apply none_of_app. split; [exact HN1|].
    apply none_of_cons. split; [reflexivity|apply none_of_nil]. }
  assert (EI2 : A ++ GT :: R = P ++ LT :: E ++ GT :: R) by (rewrite EA, <- app_assoc; reflexivity).
  assert (H6 : count_while (fun b => is_ascii_ws b || beqb b LT) (LT :: E ++ GT :: R) = 1).
  { cbn [count_while]. change (is_ascii_ws LT || beqb LT LT) with true. cbv iota. f_equal.
    apply count_while_head_false. destruct E as [|b E0]; cbn [app]; [reflexivity|].
    destruct HEe as [Hb _]. assert (Hl : isb LT b = false) by (apply (none_of_in _ _ _ HE1); left; reflexivity).
    unfold isb in Hl. now rewrite Hb, Hl. }
  unfold identity. cbv zeta. rewrite EI, H1. cbv beta iota.
  rewrite firstn_all, H2. cbv beta iota.
  rewrite firstn_app_exact, H3, H4. cbv beta iota.
  assert (S1 : skipn (length P) (A ++ GT :: R) = LT :: E ++ GT :: R) by (rewrite EI2; apply skipn_app_exact).
  assert (S2 : firstn (length P) (A ++ GT :: R) = P) by (rewrite EI2; apply firstn_app_exact).
  assert (RP : rev P = SP :: rev N) by (unfold P; apply rev_unit).
  rewrite S1, H6, S2, RP.
  change (beqb SP SP) with true. cbv iota. rewrite rev_involutive.
  rewrite Nat.sub_0_r.
  destruct (Nat.ltb_spec (length A) (length P + 1)) as [|_]; [lia|].
  destruct (Nat.ltb_spec (length (A ++ GT :: R)) (length A)) as [Hbad|_]; [rewrite app_length in Hbad; lia|].
  cbn [orb]. f_equal. f_equal; [f_equal|].
  - unfold slice. replace (length A - (length P + 1)) with (length E) by lia.
    replace (A ++ GT :: R) with ((P ++ [LT]) ++ E ++ GT :: R) by (rewrite EI2, <- app_assoc; reflexivity).
    replace (length P + 1) with (length (P ++ [LT])) by (rewrite app_length; cbn [length]; lia).
    rewrite skipn_app_exact, firstn_app_exact. reflexivity.
  - replace (A ++ GT :: R) with ((A ++ [GT]) ++ R) by (rewrite <- app_assoc; reflexivity).
    replace (S (length A)) with (length (A ++ [GT])) by (rewrite app_length; cbn [length]; lia).
    apply skipn_app_exact.
Qed.
