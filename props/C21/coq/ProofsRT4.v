(* C21 — round trip, part 4: Line::write_to then LineRef::from_bytes is the identity on well-formed entries;
   appending entries and reading the log. *)
From Coq Require Import List Arith ZArith NArith Lia Bool.
From GixV.Base Require Import Bytes BytesFacts Outcome.
From GixV.C21 Require Import Model Spec ProofsRev ProofsIter ProofsDec ProofsRT1 ProofsRT2 ProofsRT3.
Import ListNotations.
Local Open Scope nat_scope.

Definition wf_entry (l : line) : Prop :=
  length (l_prev l) = 20 /\ length (l_new l) = 20 /\
  token_ok (s_name (l_sig l)) /\ token_ok (s_email (l_sig l)) /\ email_ends_ok (s_email (l_sig l)) /\
  wf_time (s_time (l_sig l)) /\ nolf (l_msg l).

(* the LineRef a Line reads back as: ids as hex text *)
Definition as_ref (l : line) : line := mkLine (hex_encode (l_prev l)) (hex_encode (l_new l)) (l_sig l) (l_msg l).

Lemma hex_hash_hit h r : length h = 40 -> forallb is_lc_hex h = true -> hex_hash (h ++ SP :: r) = Some (h, SP :: r).
Proof.
  intros L H. unfold hex_hash, take_while_max.
  rewrite (count_while_stop is_lc_hex h SP r H eq_refl).
  replace (Nat.min 40 (length h)) with (length h) by lia.
  destruct (Nat.ltb_spec (length h) 40) as [|_]; [lia|].
  rewrite firstn_app_exact, skipn_app_exact. reflexivity.
Qed.

Lemma lchex_none c h : forallb is_lc_hex h = true -> special c = true \/ c = SP -> none_of (isb c) h.
Proof.
  intros H Hc. unfold none_of, isb. rewrite forallb_forall in *. intros b Hb. apply negb_true_iff.
  destruct (lchex_not_special_sp b (H b Hb)) as [Hs Hsp].
  destruct (beqb b c) eqn:E; [|reflexivity]. apply beqb_eq in E. subst c.
  destruct Hc as [Hc| ->]; [congruence|]. exact Hsp.
Qed.

Lemma nolf_none m : nolf m -> none_of (isb LF) m.
Proof. exact (fun H => H). Qed.

Lemma message_all m : nolf m -> message m = m.
Proof. intros H. unfold message. rewrite (count_while_all _ m H). apply firstn_all. Qed.

Lemma line_roundtrip_body l : wf_entry l ->
  exists body, line_write l = Ok (body ++ [LF]) /\ nolf body /\ from_bytes body = Ok (as_ref l).
Proof.
  destruct l as [prev new [N E t] M]. unfold wf_entry, as_ref. cbn [l_prev l_new l_sig l_msg s_name s_email s_time].
  intros (Lp & Ln & HN & HE & HEe & Ht & HM).
  destruct (time_roundtrip t Ht) as (T & EW & HTc & HTT).
  destruct (token_none N HN) as (HN1 & HN2 & HN3). destruct (token_none E HE) as (HE1 & HE2 & HE3).
  destruct (tchar_none T HTc) as (HT1 & HT2 & HT3 & HT4).
  set (H1 := hex_encode prev). set (H2 := hex_encode new).
  assert (LH1 : length H1 = 40) by (unfold H1; rewrite hex_encode_length; lia).
  assert (LH2 : length H2 = 40) by (unfold H2; rewrite hex_encode_length; lia).
  pose proof (hex_encode_lc prev) as X1. pose proof (hex_encode_lc new) as X2. fold H1 in X1. fold H2 in X2.
  set (Sg := N ++ SP :: LT :: E ++ GT :: SP :: T).
  set (HDR := H1 ++ SP :: H2 ++ SP :: Sg).
  exists (HDR ++ TAB :: M).
  (* the writer *)
  assert (W : line_write (mkLine prev new (mkSig N E t) M) = Ok ((HDR ++ TAB :: M) ++ [LF])).
  { unfold line_write, sig_write. cbn [l_prev l_new l_sig l_msg s_name s_email s_time].
    unfold token_ok in HN, HE. rewrite HN, HE, EW. cbn [obind].
    assert (HMe : existsb (fun b => beqb b LF) M = false).
    { destruct (existsb (fun b => beqb b LF) M) eqn:X; [|reflexivity].
      apply existsb_exists in X. destruct X as (b & Hb & Hbl). unfold nolf in HM. rewrite forallb_forall in HM.
      specialize (HM b Hb). rewrite Hbl in HM. discriminate. }
    rewrite HMe. f_equal. unfold HDR, Sg. fold H1 H2.
    change (bs " ") with [SP]. change (bs " <") with [SP; LT]. change (bs "> ") with [GT; SP].
    repeat (rewrite <- ?app_assoc; cbn [app]). reflexivity. }
  split; [exact W|].
  (* no LF in the body *)
  assert (HnlSg : none_of (isb LF) Sg).
  { unfold Sg. apply none_of_app. split; [exact HN3|]. apply none_of_cons. split; [reflexivity|].
    apply none_of_cons. split; [reflexivity|]. apply none_of_app. split; [exact HE3|].
    apply none_of_cons. split; [reflexivity|]. apply none_of_cons. split; [reflexivity|exact HT2]. }
  split.
  { unfold HDR. apply nolf_none. fold (none_of (isb LF)). change (nolf ?x) with (none_of (isb LF) x).
    apply none_of_app. split.
    - apply none_of_app. split; [apply lchex_none; [exact X1|left; reflexivity]|].
      apply none_of_cons. split; [reflexivity|]. apply none_of_app. split; [apply lchex_none; [exact X2|left; reflexivity]|].
      apply none_of_cons. split; [reflexivity|exact HnlSg].
    - apply none_of_cons. split; [reflexivity|exact HM]. }
  (* the parser: where the header ends *)
  set (Apre := H1 ++ SP :: H2 ++ SP :: N ++ SP :: LT :: E).
  assert (EB : HDR ++ TAB :: M = Apre ++ GT :: (SP :: T) ++ TAB :: M).
  { unfold HDR, Sg, Apre. repeat (rewrite <- ?app_assoc; cbn [app]). reflexivity. }
  assert (EH : HDR = Apre ++ GT :: SP :: T).
  { unfold HDR, Sg, Apre. repeat (rewrite <- ?app_assoc; cbn [app]). reflexivity. }
  assert (HL : header_len (HDR ++ TAB :: M) = length HDR).
  { unfold header_len. rewrite EB at 1. rewrite find_byte_hit.
    2:{ fold (isb GT). unfold Apre. apply none_of_app. split; [apply lchex_none; [exact X1|left; reflexivity]|].
        apply none_of_cons. split; [reflexivity|]. apply none_of_app. split; [apply lchex_none; [exact X2|left; reflexivity]|].
        apply none_of_cons. split; [reflexivity|]. apply none_of_app. split; [exact HN2|].
        apply none_of_cons. split; [reflexivity|]. apply none_of_cons. split; [reflexivity|exact HE2]. }
    rewrite EB. rewrite skipn_app_exact.
    change (GT :: (SP :: T) ++ TAB :: M) with ((GT :: SP :: T) ++ TAB :: M).
    rewrite find_pred_hit; [| |reflexivity].
    - rewrite EH, app_length. reflexivity.
    - apply none_of_cons. split; [reflexivity|]. apply none_of_cons. split; [reflexivity|].
      unfold none_of. rewrite forallb_forall. intros b Hb. apply negb_true_iff.
      pose proof (none_of_in _ _ _ HT3 Hb) as Q1. pose proof (none_of_in _ _ _ HT2 Hb) as Q2.
      unfold isb in Q1, Q2. now rewrite Q1, Q2. }
  unfold from_bytes. rewrite HL, firstn_app_exact.
  unfold HDR at 1. rewrite (hex_hash_hit H1 _ LH1 X1). cbn [expect_byte]. change (beqb SP SP) with true. cbv iota.
  rewrite (hex_hash_hit H2 _ LH2 X2). cbn [expect_byte]. change (beqb SP SP) with true. cbv iota.
  (* the signature *)
  assert (ESg : sig_decode Sg = Some (mkSig N E t, [])).
  { unfold sig_decode, Sg. rewrite (identity_wf N E (SP :: T)); try assumption.
    change (beqb SP SP) with true. cbv iota. rewrite HTT. reflexivity. }
  rewrite ESg. cbn [length]. rewrite Nat.sub_0_r, skipn_app_exact.
  change (beqb TAB TAB) with true. cbv iota. rewrite (message_all M HM). reflexivity.
Qed.

Lemma own_as_ref l : own (Ok (as_ref l)) = RLine l.
Proof.
  unfold own, as_ref. cbn [l_prev l_new l_sig l_msg]. rewrite !hex_decode_encode. destruct l; reflexivity.
Qed.
