//! C28 harness: edit sequences on a loaded gix_config::File.
//!
//! case:  edit <config bytes> (<op> <section> <sub> <key> <value>)*
//!   <sub>   : empty field = None, otherwise one marker byte followed by the subsection name
//!   <value> : empty field = None, otherwise one marker byte followed by the value
//!   ops: set (set_raw_value_by), push (section_mut + push), remove (section_mut + remove),
//!        setex (set_existing_raw_value_by), del (raw_value_mut_by + delete), newsec, rmsec,
//!        rename (key = new name, value = new subsection), get (raw_value_by), getall (raw_values_by)
//! transcript: `ok <hex of to_bstring>` then per op ` <result>:<hex of to_bstring>`.
use bstr::{BStr, BString, ByteSlice};
use gix_config::parse::{Event, Events};
use gixv_common::*;
use std::borrow::Cow;

fn meta() -> gix_config::file::Metadata {
    gix_config::file::Metadata::api()
}

#[derive(Clone, Debug)]
struct Op {
    tag: Vec<u8>,
    sec: Vec<u8>,
    sub: Option<Vec<u8>>,
    key: Vec<u8>,
    val: Option<Vec<u8>>,
}

fn opt_field(b: &[u8]) -> Option<Vec<u8>> {
    if b.is_empty() {
        None
    } else {
        Some(b[1..].to_vec())
    }
}

const TAGS: &[&[u8]] = &[
    b"set", b"push", b"remove", b"setex", b"del", b"newsec", b"rmsec", b"rename", b"get", b"getall",
];

fn parse_ops(c: &Case) -> Vec<Op> {
    let mut out = Vec::new();
    let mut i = 2;
    while i + 5 <= c.len() {
        let tag = c[i].clone();
        if TAGS.contains(&tag.as_slice()) {
            out.push(Op {
                tag,
                sec: c[i + 1].clone(),
                sub: opt_field(&c[i + 2]),
                key: c[i + 3].clone(),
                val: opt_field(&c[i + 4]),
            });
        }
        i += 5;
    }
    out
}

fn op_ascii(o: &Op) -> bool {
    let needs_key = !matches!(o.tag.as_slice(), b"newsec" | b"rmsec");
    o.sec.is_ascii() && (!needs_key || o.key.is_ascii())
}

fn s(b: &[u8]) -> &str {
    std::str::from_utf8(b).expect("ascii checked")
}

/// Apply one op to the file; the result string of the transcript.
fn apply(f: &mut gix_config::File<'_>, o: &Op) -> String {
    let sub: Option<&BStr> = o.sub.as_ref().map(|v| v.as_bstr());
    let val: &BStr = o.val.as_deref().unwrap_or(b"").as_bstr();
    match o.tag.as_slice() {
        b"set" => match f.set_raw_value_by(s(&o.sec), sub, s(&o.key).to_owned(), val) {
            Ok(Some(prev)) => format!("some={}", hex(&prev)),
            Ok(None) => "none".into(),
            Err(gix_config::file::set_raw_value::Error::Header(_)) => "eheader".into(),
            Err(gix_config::file::set_raw_value::Error::ValueName(_)) => "ename".into(),
        },
        b"push" => match f.section_mut(s(&o.sec), sub) {
            Err(_) => "elookup".into(),
            Ok(mut sm) => match gix_config::parse::section::ValueName::try_from(s(&o.key).to_owned()) {
                Err(_) => "ename".into(),
                Ok(k) => {
                    sm.push(k, o.val.as_ref().map(|v| v.as_bstr()));
                    "ok".into()
                }
            },
        },
        b"remove" => match f.section_mut(s(&o.sec), sub) {
            Err(_) => "elookup".into(),
            Ok(mut sm) => match sm.remove(s(&o.key)) {
                Some(prev) => format!("some={}", hex(&prev)),
                None => "none".into(),
            },
        },
        b"setex" => match f.set_existing_raw_value_by(s(&o.sec), sub, s(&o.key), val) {
            Ok(()) => "ok".into(),
            Err(_) => "elookup".into(),
        },
        b"del" => match f.raw_value_mut_by(s(&o.sec), sub, s(&o.key)) {
            Ok(mut v) => {
                v.delete();
                "ok".into()
            }
            Err(_) => "elookup".into(),
        },
        b"newsec" => match f.new_section(s(&o.sec).to_owned(), o.sub.clone().map(|v| Cow::Owned(BString::from(v)))) {
            Ok(_) => "ok".into(),
            Err(_) => "eheader".into(),
        },
        b"rmsec" => match f.remove_section(s(&o.sec), sub) {
            Some(_) => "ok".into(),
            None => "none".into(),
        },
        b"rename" => match f.rename_section(
            s(&o.sec),
            sub,
            s(&o.key).to_owned(),
            o.val.clone().map(|v| Cow::Owned(BString::from(v))),
        ) {
            Ok(()) => "ok".into(),
            Err(gix_config::file::rename_section::Error::Lookup(_)) => "elookup".into(),
            Err(gix_config::file::rename_section::Error::Section(_)) => "eheader".into(),
        },
        b"get" => match f.raw_value_by(s(&o.sec), sub, s(&o.key)) {
            Ok(v) => format!("val={}", hex(&v)),
            Err(_) => "elookup".into(),
        },
        b"getall" => match f.raw_values_by(s(&o.sec), sub, s(&o.key)) {
            Ok(vs) => format!("vals={}", vs.iter().map(|v| hex(v)).collect::<Vec<_>>().join(",")),
            Err(_) => "elookup".into(),
        },
        _ => "?".into(),
    }
}

fn imp(c: &Case) -> String {
    let ops = parse_ops(c);
    if !ops.iter().all(op_ascii) {
        return "skip".into();
    }
    let input = f_str(c, 1);
    // same parser entry point the model follows (no include resolution)
    let mut f = match gix_config::File::from_bytes_no_includes(input, meta(), Default::default()) {
        Ok(f) => f,
        Err(_) => return "err".into(),
    };
    let mut out = format!("ok {}", hex(&f.to_bstring()));
    for o in &ops {
        let r = match std::panic::catch_unwind(std::panic::AssertUnwindSafe(|| apply(&mut f, o))) {
            Ok(r) => r,
            Err(_) => {
                out.push_str(" PANIC");
                return out;
            }
        };
        out.push(' ');
        out.push_str(&r);
        out.push(':');
        out.push_str(&hex(&f.to_bstring()));
    }
    out
}

// ------------------------------------------------------------------------------------- oracle

#[derive(Clone, Debug, PartialEq, Eq)]
struct Entry {
    key: Vec<u8>,
    val: Option<Vec<u8>>, // None = implicit (no `=`)
}
#[derive(Clone, Debug, PartialEq, Eq)]
struct Sec {
    name: Vec<u8>,
    sub: Option<Vec<u8>>,
    entries: Vec<Entry>,
    comments: Vec<Vec<u8>>,
    raw: Vec<String>, // the exact events, for the frame comparison
    legacy: bool,     // `[a.b]` header: git lower-cases such a subsection, gix-config keeps it (documented in gix-config's lib.rs)
}
#[derive(Clone, Debug, PartialEq, Eq)]
struct Conf {
    front: Vec<String>,
    front_comments: Vec<Vec<u8>>,
    secs: Vec<Sec>,
}

fn trim_end(b: &[u8]) -> Vec<u8> {
    let mut e = b.len();
    while e > 0 && b[e - 1].is_ascii_whitespace() {
        e -= 1;
    }
    b[..e].to_vec()
}

fn comment_of(e: &Event<'_>) -> Option<Vec<u8>> {
    if let Event::Comment(c) = e {
        let mut t = vec![c.tag];
        t.extend_from_slice(&trim_end(c.text.as_ref()));
        Some(t)
    } else {
        None
    }
}

/// File::write_to ends the front matter and every section with the detected newline if they do not end
/// with it already; the detected newline is that of the FIRST newline of the file, so removing the
/// first section of a file with mixed line endings, or adding the first section, changes which
/// newline (if any) is appended to untouched parts. Trailing newline events are therefore not
/// part of the frame comparison (they hold no content).
fn strip_trailing_newlines(mut v: Vec<String>) -> Vec<String> {
    while v.last().map_or(false, |e| e.starts_with("Newline(")) {
        v.pop();
    }
    v
}

/// The exact event for the frame comparison; a comment without the white space at its end (a comment
/// runs up to the LF, so it holds the CR of a CRLF line end that was appended after it).
fn raw_event(e: &Event<'_>) -> String {
    match comment_of(e) {
        Some(c) => format!("Comment({})", hex(&c)),
        None => format!("{e:?}"),
    }
}

/// Read a config text with the public event parser into sections / entries / comments.
fn read(text: &[u8]) -> Option<Conf> {
    let evs = Events::from_bytes(text, None).ok()?;
    let mut conf = Conf {
        front: strip_trailing_newlines(evs.frontmatter.iter().map(raw_event).collect()),
        front_comments: evs.frontmatter.iter().filter_map(comment_of).collect(),
        secs: Vec::new(),
    };
    for sct in &evs.sections {
        let mut sec = Sec {
            name: sct.header.name().to_vec(),
            sub: sct.header.subsection_name().map(|x| x.to_vec()),
            entries: Vec::new(),
            comments: Vec::new(),
            raw: strip_trailing_newlines(sct.events.iter().map(raw_event).collect()),
            legacy: sct.header.is_legacy(),
        };
        let mut cur: Option<(Vec<u8>, bool, Vec<u8>)> = None; // key, saw separator, partial value
        for e in sct.events.iter() {
            match e {
                Event::SectionValueName(k) => {
                    cur = Some((k.as_ref().as_bytes().to_vec(), false, Vec::new()));
                }
                Event::KeyValueSeparator => {
                    if let Some(c) = cur.as_mut() {
                        c.1 = true;
                    }
                }
                Event::ValueNotDone(v) => {
                    if let Some(c) = cur.as_mut() {
                        c.2.extend_from_slice(v.as_ref());
                    }
                }
                Event::Value(v) | Event::ValueDone(v) => {
                    if let Some((k, sep, mut part)) = cur.take() {
                        part.extend_from_slice(v.as_ref());
                        let val = if sep {
                            Some(gix_config::value::normalize(Cow::Owned(BString::from(part))).into_owned().to_vec())
                        } else {
                            None
                        };
                        sec.entries.push(Entry { key: k, val });
                    }
                }
                Event::Comment(_) => sec.comments.push(comment_of(e).expect("comment")),
                _ => {}
            }
        }
        conf.secs.push(sec);
    }
    Some(conf)
}

fn eq_ci(a: &[u8], b: &[u8]) -> bool {
    a.eq_ignore_ascii_case(b)
}
fn matches(sec: &Sec, name: &[u8], sub: &Option<Vec<u8>>) -> bool {
    eq_ci(&sec.name, name) && sec.sub == *sub
}
fn last_match(c: &Conf, name: &[u8], sub: &Option<Vec<u8>>) -> Option<usize> {
    (0..c.secs.len()).rev().find(|&i| matches(&c.secs[i], name, sub))
}
fn last_entry(sec: &Sec, key: &[u8]) -> Option<usize> {
    (0..sec.entries.len()).rev().find(|&i| eq_ci(&sec.entries[i].key, key))
}
fn valid_name(n: &[u8]) -> bool {
    n.iter().all(|b| b.is_ascii_alphanumeric() || *b == b'-')
}
fn valid_sub(sub: &Option<Vec<u8>>) -> bool {
    sub.as_ref().map_or(true, |x| !x.contains(&b'\n') && !x.contains(&0))
}
fn valid_key(k: &[u8]) -> bool {
    !k.is_empty() && valid_name(k) && k[0].is_ascii_alphabetic()
}

/// What the edit should do, on sections / entries (independent of events). Returns the expected new
/// config, the index of the one section that may change (in the OLD numbering), and the expected result.
struct Expect {
    conf: Conf,
    target: Option<usize>, // old index of the edited / removed section
    removed: bool,         // the target section disappears
    appended: bool,        // a new section is appended
    result: String,        // expected result string ("*" = any previous value)
    known: Option<&'static str>,
}

fn expect(c: &Conf, o: &Op) -> Expect {
    let mut n = c.clone();
    let mut ex = |conf: Conf, target, removed, appended, result: &str, known| Expect {
        conf,
        target,
        removed,
        appended,
        result: result.to_string(),
        known,
    };
    let val = o.val.clone().unwrap_or_default();
    match o.tag.as_slice() {
        b"set" => {
            let mut appended = false;
            let idx = match last_match(c, &o.sec, &o.sub) {
                Some(i) => i,
                None => {
                    if !valid_name(&o.sec) || !valid_sub(&o.sub) {
                        return ex(n, None, false, false, "eheader", None);
                    }
                    n.secs.push(Sec { name: o.sec.clone(), sub: o.sub.clone(), entries: vec![], comments: vec![], raw: vec![], legacy: false });
                    appended = true;
                    n.secs.len() - 1
                }
            };
            let known_empty = if appended && o.sec.is_empty() { Some("empty-section-name") } else { None };
            if !valid_key(&o.key) {
                return ex(n, None, false, appended, "ename", known_empty);
            }
            let target = if appended { None } else { Some(idx) };
            match last_entry(&n.secs[idx], &o.key) {
                Some(e) => {
                    let known = if n.secs[idx].entries[e].val.is_none() { Some("set-implicit-key") } else { known_empty };
                    n.secs[idx].entries[e].val = Some(val);
                    ex(n, target, false, appended, "some", known)
                }
                None => {
                    n.secs[idx].entries.push(Entry { key: o.key.clone(), val: Some(val) });
                    ex(n, target, false, appended, "none", known_empty)
                }
            }
        }
        b"push" => match last_match(c, &o.sec, &o.sub) {
            None => ex(n, None, false, false, "elookup", None),
            Some(i) => {
                if !valid_key(&o.key) {
                    return ex(n, None, false, false, "ename", None);
                }
                n.secs[i].entries.push(Entry { key: o.key.clone(), val: o.val.clone() });
                ex(n, Some(i), false, false, "ok", None)
            }
        },
        b"remove" => match last_match(c, &o.sec, &o.sub) {
            None => ex(n, None, false, false, "elookup", None),
            Some(i) => match last_entry(&n.secs[i], &o.key) {
                None => ex(n, None, false, false, "none", None),
                Some(e) => {
                    n.secs[i].entries.remove(e);
                    ex(n, Some(i), false, false, "some", None)
                }
            },
        },
        b"setex" | b"del" => {
            let hit = (0..c.secs.len())
                .rev()
                .find(|&i| matches(&c.secs[i], &o.sec, &o.sub) && last_entry(&c.secs[i], &o.key).is_some());
            match hit {
                None => ex(n, None, false, false, "elookup", None),
                Some(i) => {
                    let e = last_entry(&n.secs[i], &o.key).expect("hit");
                    if o.tag.as_slice() == b"del" {
                        n.secs[i].entries.remove(e);
                    } else {
                        n.secs[i].entries[e] = Entry { key: o.key.clone(), val: Some(val) };
                    }
                    ex(n, Some(i), false, false, "ok", None)
                }
            }
        }
        b"newsec" => {
            if !valid_name(&o.sec) || !valid_sub(&o.sub) {
                return ex(n, None, false, false, "eheader", None);
            }
            n.secs.push(Sec { name: o.sec.clone(), sub: o.sub.clone(), entries: vec![], comments: vec![], raw: vec![], legacy: false });
            let known = if o.sec.is_empty() { Some("empty-section-name") } else { None };
            ex(n, None, false, true, "ok", known)
        }
        b"rmsec" => match last_match(c, &o.sec, &o.sub) {
            None => ex(n, None, false, false, "none", None),
            Some(i) => {
                n.secs.remove(i);
                ex(n, Some(i), true, false, "ok", None)
            }
        },
        b"rename" => match last_match(c, &o.sec, &o.sub) {
            None => ex(n, None, false, false, "elookup", None),
            Some(i) => {
                if !valid_name(&o.key) || !valid_sub(&o.val) {
                    return ex(n, None, false, false, "eheader", None);
                }
                n.secs[i].name = o.key.clone();
                n.secs[i].sub = o.val.clone();
                let known = if o.key.is_empty() { Some("empty-section-name") } else { None };
                ex(n, Some(i), false, false, "ok", known)
            }
        },
        b"get" => {
            // the last matching section whose LAST entry of that key has an explicit value
            let mut r = "elookup".to_string();
            for i in (0..c.secs.len()).rev() {
                if matches(&c.secs[i], &o.sec, &o.sub) {
                    if let Some(e) = last_entry(&c.secs[i], &o.key) {
                        if let Some(v) = &c.secs[i].entries[e].val {
                            r = format!("val={}", hex(v));
                            break;
                        }
                    }
                }
            }
            ex(n, None, false, false, &r, None)
        }
        b"getall" => {
            let mut vs = Vec::new();
            for sct in c.secs.iter().filter(|x| matches(x, &o.sec, &o.sub)) {
                for e in sct.entries.iter().filter(|e| eq_ci(&e.key, &o.key)) {
                    vs.push(hex(e.val.as_deref().unwrap_or(b"")));
                }
            }
            let r = if vs.is_empty() { "elookup".to_string() } else { format!("vals={}", vs.join(",")) };
            ex(n, None, false, false, &r, None)
        }
        _ => ex(n, None, false, false, "?", None),
    }
}

fn strip(c: &Conf) -> Vec<(Vec<u8>, Option<Vec<u8>>, Vec<Entry>)> {
    c.secs.iter().map(|x| (x.name.clone(), x.sub.clone(), x.entries.clone())).collect()
}

/// `git config -f <file> --list -z`: Some(list of (key, value-or-None)) or None when git rejects the file
fn git_list(dir: &std::path::Path, text: &[u8]) -> Option<Vec<(Vec<u8>, Option<Vec<u8>>)>> {
    let p = dir.join("c");
    std::fs::write(&p, text).ok()?;
    let out = std::process::Command::new("git")
        .arg("config")
        .arg("-f")
        .arg(&p)
        .arg("--list")
        .arg("-z")
        .env("GIT_CONFIG_NOSYSTEM", "1")
        .env("HOME", dir)
        .output()
        .ok()?;
    if !out.status.success() {
        return None;
    }
    let mut v = Vec::new();
    for rec in out.stdout.split(|b| *b == 0) {
        if rec.is_empty() {
            continue;
        }
        match rec.iter().position(|b| *b == b'\n') {
            Some(i) => v.push((rec[..i].to_vec(), Some(rec[i + 1..].to_vec()))),
            None => v.push((rec.to_vec(), None)),
        }
    }
    Some(v)
}

fn flat(c: &Conf) -> Vec<(Vec<u8>, Option<Vec<u8>>)> {
    let mut v = Vec::new();
    for sct in &c.secs {
        for e in &sct.entries {
            let mut k = sct.name.to_ascii_lowercase();
            if let Some(sub) = &sct.sub {
                k.push(b'.');
                if sct.legacy {
                    k.extend_from_slice(&sub.to_ascii_lowercase());
                } else {
                    k.extend_from_slice(sub);
                }
            }
            k.push(b'.');
            k.extend_from_slice(&e.key.to_ascii_lowercase());
            v.push((k, e.val.clone()));
        }
    }
    v
}

fn git_safe(b: &[u8]) -> bool {
    b.iter().all(|c| (0x20..0x7f).contains(c) || *c == b'\n' || *c == b'\t')
}

fn prop(c: &Case) -> Verdict {
    let ops = parse_ops(c);
    if !ops.iter().all(op_ascii) {
        return Verdict::ok(false, "skip");
    }
    let input = f_str(c, 1);
    let mut f = match gix_config::File::from_bytes_no_includes(input, meta(), Default::default()) {
        Ok(f) => f,
        Err(_) => return Verdict::ok(false, "parse-err"),
    };
    let first_text = f.to_bstring();
    let mut before_text = first_text.clone();
    let mut before = match read(&before_text) {
        Some(x) => x,
        None => return Verdict::ok(false, "initial-write-unreadable"),
    };
    let mut edits = 0;
    let mut classes: Vec<&'static str> = Vec::new();
    let mut git_ok = ops.iter().all(|o| {
        git_safe(&o.sec) && o.sub.as_deref().map_or(true, git_safe) && git_safe(&o.key) && o.val.as_deref().map_or(true, git_safe)
    }) && git_safe(input);
    for (n, o) in ops.iter().enumerate() {
        let want = expect(&before, o);
        let got_res = match std::panic::catch_unwind(std::panic::AssertUnwindSafe(|| apply(&mut f, o))) {
            Ok(r) => r,
            Err(_) => return Verdict::fail("edit-panics", format!("op {n} {}", String::from_utf8_lossy(&o.tag))),
        };
        let after_text = f.to_bstring();
        let fail = |what: &str, detail: String| -> Verdict {
            let cls = match want.known {
                Some(k) => k.to_string(),
                None => what.to_string(),
            };
            Verdict::fail(cls, format!("op {n} {}: {what}: {detail}", String::from_utf8_lossy(&o.tag)))
        };
        // (C) result
        let res_ok = match want.result.as_str() {
            "some" => got_res.starts_with("some="),
            r => got_res == r,
        };
        if !res_ok {
            return fail("edit-result", format!("got {got_res}, want {}", want.result));
        }
        let after = match read(&after_text) {
            Some(x) => x,
            None => return fail("edit-unreadable", format!("written text does not parse: {}", hex(&after_text))),
        };
        // (A) sections, keys and values are the intended ones
        if strip(&after) != strip(&want.conf) {
            return fail("edit-values", format!("written {}", hex(&after_text)));
        }
        // (B) frame: frontmatter and every other section are event-for-event identical; comments survive
        if after.front != before.front {
            return fail("edit-frame", "frontmatter changed".into());
        }
        let mut old_idx = 0usize;
        for (i, sct) in after.secs.iter().enumerate() {
            if want.appended && i + 1 == after.secs.len() {
                break;
            }
            if want.removed && Some(old_idx) == want.target {
                old_idx += 1;
            }
            let old = match before.secs.get(old_idx) {
                Some(x) => x,
                None => return fail("edit-frame", "section count".into()),
            };
            if Some(old_idx) == want.target {
                if sct.comments != old.comments {
                    return fail("edit-frame", format!("comments of the edited section changed: {}", hex(&after_text)));
                }
            } else if sct.raw != old.raw || sct.name != old.name || sct.sub != old.sub {
                return fail("edit-frame", format!("untouched section {i} changed: {}", hex(&after_text)));
            }
            old_idx += 1;
        }
        if after_text != before_text {
            edits += 1;
        }
        if let Some(k) = want.known {
            // the known shape did not fail this time: still remember it
            let _ = k;
        }
        classes.push(match o.tag.as_slice() {
            b"set" => "set",
            b"push" => "push",
            b"remove" => "remove",
            b"setex" => "setex",
            b"del" => "del",
            b"newsec" => "newsec",
            b"rmsec" => "rmsec",
            b"rename" => "rename",
            _ => "get",
        });
        if !git_safe(&after_text) {
            git_ok = false;
        }
        before = after;
        before_text = after_text;
    }
    // (D) git reads the same keys and values (sample: one case in eight, chosen by the case bytes)
    let sample = input.iter().fold(ops.len() as u32, |a, b| a.wrapping_mul(31).wrapping_add(*b as u32)) % 8 == 0;
    if git_ok && sample && edits > 0 {
        let dir = std::env::temp_dir().join(format!("gixv-c28-{}-{:?}", std::process::id(), std::thread::current().id()));
        let _ = std::fs::create_dir_all(&dir);
        let r = (|| {
            let first = read(&first_text)?;
            let g0 = git_list(&dir, &first_text)?;
            if g0 != flat(&first) {
                return None; // git and gix already read the unedited file differently (C27's subject)
            }
            Some(match git_list(&dir, &before_text) {
                Some(g1) => g1 == flat(&before),
                None => false,
            })
        })();
        let _ = std::fs::remove_dir_all(&dir);
        match r {
            Some(false) => return Verdict::fail("git-reads-differently", format!("final text {}", hex(&before_text))),
            Some(true) => return Verdict::ok(true, "edits-git"),
            None => {}
        }
    }
    if ops.is_empty() {
        return Verdict::ok(false, "no-ops");
    }
    Verdict::ok(edits > 0, if edits > 0 { "edits" } else { "no-change" })
}

// ------------------------------------------------------------------------------------- generator

struct Style {
    crlf: u64,
}
fn nl(rng: &mut Rng, st: &Style, out: &mut Vec<u8>) {
    if rng.below(8) < st.crlf {
        out.extend_from_slice(b"\r\n");
    } else {
        out.push(b'\n');
    }
}
fn ws(rng: &mut Rng, min: usize, max: usize, out: &mut Vec<u8>) {
    let w = rng.word(b"  \t", min, max);
    out.extend_from_slice(&w);
}
fn comment(rng: &mut Rng, out: &mut Vec<u8>) {
    out.push(*rng.pick(b";#"));
    let w = rng.word(b"ab c;#\"\\=[]\t", 0, 6);
    out.extend_from_slice(&w);
}
const SECS: &[&[u8]] = &[b"a", b"a", b"b", b"A", b"core", b"a-b", b"B"];
const SUBS: &[&[u8]] = &[b"x", b"x", b"y", b"X", b"", b"a b", b"o\"q", b"b\\s", b"x.y"];
const KEYS: &[&[u8]] = &[b"k", b"k", b"x", b"K", b"key", b"k2", b"a-b", b"X"];

fn pick_sub(rng: &mut Rng) -> Option<Vec<u8>> {
    if rng.chance(1, 2) {
        None
    } else {
        Some(rng.pick(SUBS).to_vec())
    }
}
fn header(rng: &mut Rng, out: &mut Vec<u8>) {
    out.push(b'[');
    out.extend_from_slice(*rng.pick(SECS));
    match rng.below(10) {
        0..=4 => {}
        5 => {
            out.push(b'.');
            out.extend_from_slice(*rng.pick::<&[u8]>(&[b"x", b"y", b"X", b""]));
        }
        _ => {
            ws(rng, 1, 2, out);
            out.push(b'"');
            for b in rng.pick(SUBS).iter() {
                if *b == b'"' || *b == b'\\' {
                    out.push(b'\\');
                }
                out.push(*b);
            }
            out.push(b'"');
        }
    }
    out.push(b']');
}
fn value(rng: &mut Rng, st: &Style, out: &mut Vec<u8>) {
    let pieces = rng.range(0, 4);
    for _ in 0..pieces {
        match rng.below(16) {
            0..=6 => out.extend_from_slice(&rng.word(b"abctrue10/.:-=[]", 1, 5)),
            7 => ws(rng, 1, 2, out),
            8..=9 => {
                out.push(b'"');
                out.extend_from_slice(&rng.word(b"ab ;#=\t[]", 0, 4));
                if rng.chance(1, 4) {
                    out.extend_from_slice(b"\\\"");
                }
                out.push(b'"');
            }
            10..=11 => {
                out.push(b'\\');
                out.push(*rng.pick(b"nt\\b\""));
            }
            12..=14 => {
                if rng.chance(1, 3) {
                    ws(rng, 1, 2, out);
                }
                out.push(b'\\');
                nl(rng, st, out);
                if rng.chance(1, 2) {
                    ws(rng, 1, 2, out);
                }
            }
            _ => out.extend_from_slice(b"\"\""),
        }
    }
}
fn body_line(rng: &mut Rng, st: &Style, out: &mut Vec<u8>) {
    match rng.below(12) {
        0 => {
            ws(rng, 0, 2, out);
            nl(rng, st, out);
        }
        1 => {
            ws(rng, 0, 2, out);
            comment(rng, out);
            nl(rng, st, out);
        }
        _ => {
            ws(rng, 0, 2, out);
            out.extend_from_slice(*rng.pick(KEYS));
            match rng.below(8) {
                0 => {}
                1 => ws(rng, 1, 2, out),
                2 => {
                    ws(rng, 0, 1, out);
                    out.push(b'=');
                    ws(rng, 0, 2, out);
                }
                _ => {
                    ws(rng, 0, 1, out);
                    out.push(b'=');
                    ws(rng, 0, 2, out);
                    value(rng, st, out);
                }
            }
            if rng.chance(1, 4) {
                ws(rng, 1, 2, out);
            }
            if rng.chance(1, 5) {
                comment(rng, out);
            }
            if !rng.chance(1, 12) {
                nl(rng, st, out);
                if rng.chance(1, 10) {
                    nl(rng, st, out);
                }
            }
        }
    }
}
fn config(rng: &mut Rng) -> Vec<u8> {
    let st = Style { crlf: *rng.pick(&[0u64, 0, 0, 0, 8, 3]) };
    let mut out = Vec::new();
    let fm = rng.range(0, 2);
    for _ in 0..fm {
        match rng.below(3) {
            0 => {
                ws(rng, 0, 2, &mut out);
                nl(rng, &st, &mut out);
            }
            1 => {
                ws(rng, 0, 2, &mut out);
                comment(rng, &mut out);
                nl(rng, &st, &mut out);
            }
            _ => nl(rng, &st, &mut out),
        }
    }
    let ns = rng.range(0, 4);
    for _ in 0..ns {
        if rng.chance(1, 4) {
            ws(rng, 1, 2, &mut out);
        }
        header(rng, &mut out);
        match rng.below(6) {
            0 => {}
            1 => ws(rng, 1, 2, &mut out),
            2 => {
                ws(rng, 0, 2, &mut out);
                comment(rng, &mut out);
                nl(rng, &st, &mut out);
            }
            _ => nl(rng, &st, &mut out),
        }
        let nb = rng.range(0, 4);
        for _ in 0..nb {
            body_line(rng, &st, &mut out);
        }
    }
    if rng.chance(1, 5) {
        while matches!(out.last(), Some(b'\n' | b'\r')) {
            out.pop();
        }
    }
    out
}

fn new_value(rng: &mut Rng) -> Vec<u8> {
    match rng.below(12) {
        0 => Vec::new(),
        1..=5 => rng.word(b"abv10/.:-", 1, 5),
        6 => {
            let mut v = rng.word(b" \t", 1, 2);
            v.extend_from_slice(&rng.word(b"ab", 0, 2));
            v
        }
        7 => {
            let mut v = rng.word(b"ab", 0, 2);
            v.extend_from_slice(&rng.word(b" \t\n\r", 1, 2));
            v
        }
        8 => rng.word(b"a;#b", 1, 4),
        9 => rng.word(b"a\"\\\n\tb= [", 1, 6),
        10 => rng.word(b"ab \t\n\"\\;#=[]\r", 0, 8),
        _ => rng.word(&[b'a', 0xc3, 0xa4, 0xff, 0x0c, 0x0b, 0x08, 0x7f], 1, 4),
    }
}

fn enc_opt(marker: u8, v: &Option<Vec<u8>>) -> Vec<u8> {
    match v {
        None => Vec::new(),
        Some(x) => {
            let mut o = vec![marker];
            o.extend_from_slice(x);
            o
        }
    }
}

fn push_op(c: &mut Case, tag_: &str, sec: &[u8], sub: &Option<Vec<u8>>, key: &[u8], val: &Option<Vec<u8>>) {
    c.push(tag(tag_));
    c.push(sec.to_vec());
    c.push(enc_opt(b's', sub));
    c.push(key.to_vec());
    c.push(enc_opt(b'v', val));
}

/// (name, subsection) of the sections of a generated text and the keys in them, to aim edits at
fn existing(text: &[u8]) -> (Vec<(Vec<u8>, Option<Vec<u8>>)>, Vec<Vec<u8>>) {
    let mut secs = Vec::new();
    let mut keys = Vec::new();
    if let Ok(evs) = Events::from_bytes(text, None) {
        for sct in &evs.sections {
            secs.push((sct.header.name().to_vec(), sct.header.subsection_name().map(|x| x.to_vec())));
            for e in sct.events.iter() {
                if let Event::SectionValueName(k) = e {
                    keys.push(k.as_ref().as_bytes().to_vec());
                }
            }
        }
    }
    (secs, keys)
}

fn gen_op(rng: &mut Rng, c: &mut Case, ex: &(Vec<(Vec<u8>, Option<Vec<u8>>)>, Vec<Vec<u8>>)) {
    let mut sec = rng.pick(SECS).to_vec();
    let mut sub = pick_sub(rng);
    let mut key = rng.pick(KEYS).to_vec();
    if !ex.0.is_empty() && rng.chance(3, 4) {
        let (n, s) = rng.pick(&ex.0).clone();
        if n.is_ascii() {
            sec = n;
            sub = s;
            if rng.chance(1, 6) {
                sec = sec.to_ascii_uppercase();
            }
        }
    }
    if !ex.1.is_empty() && rng.chance(2, 3) {
        let k = rng.pick(&ex.1).clone();
        if k.is_ascii() {
            key = k;
        }
    }
    // malformed names now and then
    if rng.chance(1, 40) {
        sec = rng.pick::<&[u8]>(&[b"", b"a_b", b"a.b", b"a b", b"\xc3\xa4"]).to_vec();
    }
    if rng.chance(1, 40) {
        key = rng.pick::<&[u8]>(&[b"", b"1k", b"-k", b"k_", b"k.x", b"k k"]).to_vec();
    }
    if rng.chance(1, 40) {
        sub = Some(rng.pick::<&[u8]>(&[b"a\nb", b"a\0b", b"a\rb", b"\xff", b"]", b"\""]).to_vec());
    }
    match rng.below(20) {
        0..=5 => push_op(c, "set", &sec, &sub, &key, &Some(new_value(rng))),
        6..=7 => {
            let v = if rng.chance(1, 4) { None } else { Some(new_value(rng)) };
            push_op(c, "push", &sec, &sub, &key, &v)
        }
        8..=9 => push_op(c, "remove", &sec, &sub, &key, &None),
        10..=11 => push_op(c, "setex", &sec, &sub, &key, &Some(new_value(rng))),
        12 => push_op(c, "del", &sec, &sub, &key, &None),
        13 => push_op(c, "newsec", &sec, &sub, b"", &None),
        14..=15 => push_op(c, "rmsec", &sec, &sub, b"", &None),
        16..=17 => {
            let mut n2 = rng.pick(SECS).to_vec();
            if rng.chance(1, 20) {
                n2 = rng.pick::<&[u8]>(&[b"", b"a_b", b"a.b"]).to_vec();
            }
            let s2 = pick_sub(rng);
            push_op(c, "rename", &sec, &sub, &n2, &s2)
        }
        18 => push_op(c, "get", &sec, &sub, &key, &None),
        _ => push_op(c, "getall", &sec, &sub, &key, &None),
    }
}

fn boundary() -> Vec<Case> {
    let mut out = Vec::new();
    let texts: &[&[u8]] = &[
        b"",
        b"[a]",
        b"[a]\n",
        b"[a]\nk=v\n",
        b"[a]\nk=v",
        b"[a]\n\tk = v\n",
        b"[a]\n  k = v # c\n  x = y\n",
        b"[a]\nk\n",
        b"[a]\nk \n",
        b"[a] k=v\n x=y\n",
        b"[a]\r\nk=v\r\n",
        b"[a]\nk=a\\\n b\n",
        b"[a]\nk=v\n[a]\nk=w\n",
        b"[a]\nk=v\n[a \"x\"]\nk=w\n[A]\nK=z\n",
        b"# c\n[a]\nk=v ; d\n#e\n[b]\nx=y\n",
        b"[a.x]\nk=v\n",
        b"[a]\nk=v\nk=w\nk\n",
    ];
    for t in texts {
        let none: Option<Vec<u8>> = None;
        let v = Some(b"n".to_vec());
        for (tg, val) in [("set", &v), ("push", &v), ("push", &none), ("remove", &none), ("setex", &v), ("del", &none), ("rmsec", &none), ("newsec", &none), ("get", &none), ("getall", &none)] {
            for sub in [None, Some(b"x".to_vec())] {
                let mut c = vec![tag("edit"), t.to_vec()];
                push_op(&mut c, tg, b"a", &sub, b"k", val);
                push_op(&mut c, "get", b"a", &sub, b"k", &None);
                out.push(c);
            }
        }
        let mut c = vec![tag("edit"), t.to_vec()];
        push_op(&mut c, "rename", b"a", &None, b"b", &Some(b"s".to_vec()));
        push_op(&mut c, "set", b"b", &Some(b"s".to_vec()), b"k", &Some(b"n".to_vec()));
        push_op(&mut c, "rmsec", b"a", &None, b"", &None);
        push_op(&mut c, "push", b"a", &None, b"k", &None);
        out.push(c);
        let mut c = vec![tag("edit"), t.to_vec()];
        push_op(&mut c, "rmsec", b"a", &None, b"", &None);
        push_op(&mut c, "push", b"a", &None, b"k", &None);
        push_op(&mut c, "rename", b"a", &None, b"b", &None);
        push_op(&mut c, "set", b"a", &None, b"k", &Some(b" v;".to_vec()));
        out.push(c);
    }
    out
}

fn gen(rng0: &mut Rng, n: usize) -> Vec<Case> {
    // restart from the first mixed output (see props/C27/NOTES.md: decorrelates neighbouring seeds)
    let mut rng = Rng(rng0.next());
    let rng = &mut rng;
    let mut out = boundary();
    while out.len() < n {
        let text = if rng.chance(1, 25) {
            // raw syntax soup: mostly parse errors, keeps the parser part of the model honest
            rng.word(b"[]a \"\\=;#\n\r k.\t", 0, 16)
        } else {
            config(rng)
        };
        let ex = existing(&text);
        let mut c = vec![tag("edit"), text];
        let k = if rng.chance(1, 40) { 0 } else { rng.range(1, 6) };
        for _ in 0..k {
            gen_op(rng, &mut c, &ex);
        }
        out.push(c);
    }
    out.truncate(n.max(1));
    out
}

fn main() {
    main_with(Harness {
        gen,
        imp,
        prop,
        git: None,
        deadline: std::time::Duration::from_secs(180),
    });
}
