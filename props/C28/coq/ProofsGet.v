(* C28 — the edited key reads back: after a pair was appended (push, or set of a key the section
   does not have yet) the lookup of that key in the section yields exactly the new value. *)
From Coq Require Import Lia.
From GixV.Base Require Import Bytes BytesFacts Outcome.
From GixV.C28 Require Import Tables Model ProofsNorm ProofsEscape ProofsFrame ProofsBody.

Definition enum_from (n : nat) (l : list event) : list (nat * event) := combine (seq n (length l)) l.

Lemma enum_from_app n a b : enum_from n (a ++ b) = enum_from n a ++ enum_from (n + length a) b.
Proof.
  unfold enum_from. revert n. induction a as [|x t IH]; intros n; cbn [length app].
  - cbn [seq combine app]. now rewrite Nat.add_0_r.
  - cbn [seq combine app]. f_equal. rewrite IH.
    replace (n + S (length t))%nat with (S n + length t)%nat by lia. reflexivity.
Qed.

Lemma enumerate_rev_app a b : enumerate_rev (a ++ b) = rev (enum_from (length a) b) ++ enumerate_rev a.
Proof. unfold enumerate_rev. change (combine (seq 0 (length (a ++ b))) (a ++ b)) with (enum_from 0 (a ++ b)).
  rewrite enum_from_app, rev_app_distr. reflexivity. Qed.

(* events that the reverse scan of key_and_value_range_by steps over *)
Definition filler (e : event) : bool :=
  match e with Whitespace _ | KeyValueSeparator | Newline _ | Comment _ _ => true | _ => false end.

Lemma kv_loop_filler key F : forall R st en,
  forallb (fun p => filler (snd p)) F = true ->
  kv_range_loop key (F ++ R) st en = kv_range_loop key R st en.
Proof.
  induction F as [|[i e] t IH]; intros R st en H; [reflexivity|].
  cbn [forallb snd] in H. apply Bool.andb_true_iff in H as [He Ht].
  cbn [app kv_range_loop]. destruct e; try discriminate; now apply IH.
Qed.

Lemma forallb_rev {A} (p : A -> bool) l : forallb p (rev l) = forallb p l.
Proof.
  induction l as [|a t IH]; [reflexivity|]. cbn [rev]. rewrite forallb_app, IH. cbn [forallb].
  rewrite Bool.andb_true_r. apply Bool.andb_comm.
Qed.
Lemma filler_enum n l : forallb filler l = true -> forallb (fun p => filler (snd p)) (enum_from n l) = true.
Proof.
  revert n. unfold enum_from. induction l as [|a t IH]; intros n H; [reflexivity|].
  cbn [forallb] in H. apply Bool.andb_true_iff in H as [Ha Ht].
  cbn [length seq combine forallb snd]. rewrite Ha. now apply IH.
Qed.

Lemma opt_ws_filler o : forallb filler (opt_ws o) = true.
Proof. destruct o; reflexivity. Qed.
Lemma kv_separators_filler w : forallb filler (kv_separators w) = true.
Proof. unfold kv_separators. rewrite forallb_app. cbn [forallb filler]. now rewrite !opt_ws_filler. Qed.
Lemma kv_separators_has_sep w : existsb is_separator (kv_separators w) = true.
Proof. unfold kv_separators. rewrite existsb_app. cbn [existsb is_separator]. now rewrite Bool.orb_true_r. Qed.

(* the appended pair in the shape  pre ++ Name :: seps ++ [Value; Newline] *)
Lemma kv_range_pushed body pre S key ev nl :
  forallb filler pre = true -> forallb filler S = true ->
  kv_range (body ++ pre ++ SectionValueName key :: S ++ [Value ev; Newline nl]) key =
  Some (length body + length pre, length body + length pre + 1 + length S, length body + length pre + 1 + length S)%nat.
Proof.
  intros Hpre HS. unfold kv_range. rewrite enumerate_rev_app.
  set (n := length body).
  rewrite enum_from_app. change (SectionValueName key :: S ++ [Value ev; Newline nl])
    with ([SectionValueName key] ++ S ++ [Value ev; Newline nl]).
  rewrite enum_from_app, enum_from_app. rewrite !rev_app_distr, <- !app_assoc.
  cbn [length]. unfold enum_from at 1. cbn [length seq combine rev app].
  cbn [kv_range_loop].
  rewrite kv_loop_filler by (rewrite forallb_rev; now apply filler_enum).
  unfold enum_from at 1. cbn [length seq combine rev app kv_range_loop].
  rewrite eq_ci_refl. reflexivity.
Qed.

Lemma skipn_app_exact {A} (a b : list A) : skipn (length a) (a ++ b) = b.
Proof. rewrite skipn_app, Nat.sub_diag, skipn_all. reflexivity. Qed.
Lemma skipn_add_app {A} (a b : list A) k : skipn (length a + k) (a ++ b) = skipn k b.
Proof.
  rewrite skipn_app. rewrite skipn_all2 by lia. cbn [app]. f_equal. lia.
Qed.

Lemma slice_range_app_shift {A} (front tl : list A) a b :
  slice_range (length front + a) (length front + b) (front ++ tl) = slice_range a b tl.
Proof.
  unfold slice_range. rewrite app_length.
  replace (Nat.leb (length front + a) (length front + b)) with (Nat.leb a b)
    by (destruct (Nat.leb_spec a b), (Nat.leb_spec (length front + a) (length front + b)); (reflexivity || lia)).
  replace (Nat.leb (length front + b) (length front + length tl)) with (Nat.leb b (length tl))
    by (destruct (Nat.leb_spec b (length tl)), (Nat.leb_spec (length front + b) (length front + length tl)); (reflexivity || lia)).
  rewrite skipn_add_app. replace (length front + b - (length front + a))%nat with (b - a)%nat by lia. reflexivity.
Qed.

Lemma slice_tail_key key (S : list event) (X : list event) :
  slice_range 0 (1 + length S) (SectionValueName key :: S ++ X) = Some (SectionValueName key :: S).
Proof.
  unfold slice_range. cbn [Nat.leb andb length Nat.add]. rewrite app_length.
  replace (Nat.leb (length S) (length S + length X)) with true by (symmetry; apply Nat.leb_le; lia).
  cbn [skipn Nat.sub firstn]. rewrite firstn_app, firstn_all, Nat.sub_diag. cbn [firstn]. now rewrite app_nil_r.
Qed.

Lemma slice_tail_value key (S : list event) e1 e2 :
  slice_range (1 + length S) (Datatypes.S (1 + length S)) (SectionValueName key :: S ++ [e1; e2]) = Some [e1].
Proof.
  unfold slice_range. cbn [length Nat.add]. rewrite app_length. cbn [length].
  replace (Nat.leb (Datatypes.S (length S)) (Datatypes.S (Datatypes.S (length S)))) with true
    by (symmetry; apply Nat.leb_le; lia).
  replace (Nat.leb (Datatypes.S (Datatypes.S (length S))) (Datatypes.S (length S + 2))) with true
    by (symmetry; apply Nat.leb_le; lia).
  cbn [andb skipn]. rewrite skipn_app_exact.
  replace (Datatypes.S (Datatypes.S (length S)) - Datatypes.S (length S))%nat with 1%nat by lia. reflexivity.
Qed.

Lemma L_push_then_get body w nl key v :
  value_implicit (sm_push body w nl key (Some v)) key = Ok (Some (Some v)).
Proof.
  unfold sm_push, push_events.
  set (pre := opt_ws (pre_key w)). set (S := kv_separators w). set (ev := escape_value v).
  replace (body ++ pre ++ SectionValueName key :: (S ++ [Value ev]) ++ [Newline nl])
    with (body ++ pre ++ SectionValueName key :: S ++ [Value ev; Newline nl])
    by (rewrite <- (app_assoc S); reflexivity).
  unfold value_implicit.
  rewrite kv_range_pushed by (apply opt_ws_filler || apply kv_separators_filler).
  rewrite app_assoc. set (front := body ++ pre).
  assert (Hfront : (length body + length pre)%nat = length front) by (unfold front; now rewrite app_length).
  rewrite Hfront. unfold has_separator.
  replace (length front) with (length front + 0)%nat at 1 by lia.
  replace (length front + 1 + length S)%nat with (length front + (1 + length S))%nat by lia.
  rewrite slice_range_app_shift, slice_tail_key.
  cbn [existsb is_separator]. unfold S at 1. rewrite kv_separators_has_sep.
  replace (Datatypes.S (length front + (1 + length S))) with (length front + Datatypes.S (1 + length S))%nat by lia.
  rewrite slice_range_app_shift, slice_tail_value.
  cbn [vi_loop]. unfold ev. now rewrite L_escape_roundtrip.
Qed.

(* set of a key the section does not have: the new value reads back *)
Lemma L_set_new_key_then_get body w nl key v :
  kv_range body key = None ->
  exists body', sm_set body w nl key v = Some (None, body') /\ value_implicit body' key = Ok (Some (Some v)).
Proof.
  intros H. unfold sm_set. rewrite H. eexists. split; [reflexivity|]. apply L_push_then_get.
Qed.

(* the known class: the key's last occurrence has no `=` -- the statement "set, then get gives the
   value" is false of the code *)
Definition set_then_get_statement : Prop :=
  forall body w nl key v body' prev,
    sm_set body w nl key v = Some (prev, body') -> value_implicit body' key = Ok (Some (Some v)).

Lemma L_set_then_get_refuted : ~ set_then_get_statement.
Proof.
  intros H.
  specialize (H [Newline [x0a]; SectionValueName (bs "k"); Value []; Newline [x0a]] ws_default [x0a] (bs "k") (bs "v")
                [Newline [x0a]; SectionValueName (bs "k"); Value (bs "v"); Newline [x0a]] (Some [])).
  vm_compute in H. specialize (H eq_refl). discriminate H.
Qed.

Lemma set_implicit_class_witness :
  set_implicit_class [Newline [x0a]; SectionValueName (bs "k"); Value []; Newline [x0a]] (bs "k") = true.
Proof. vm_compute. reflexivity. Qed.

(* ---- File level: push, then raw_value ---------------------------------------------------------- *)

Lemma filter_none {A} (p : A -> bool) l : forallb (fun y => negb (p y)) l = true -> filter p l = [].
Proof.
  induction l as [|a t IH]; cbn [forallb filter]; [reflexivity|]. intros H.
  apply Bool.andb_true_iff in H as [Ha Ht]. apply Bool.negb_true_iff in Ha. rewrite Ha. now apply IH.
Qed.

Lemma L_op_push_then_get f n s k v f' :
  op_push f n s k (Some v) = Ok (f', ROk) -> raw_value f' n s k = Ok (Some v).
Proof.
  unfold op_push.
  destruct (split_last (sec_matches n s) (esections f)) as [[[pre x] post]|] eqn:E; [|discriminate].
  apply split_last_spec in E as (El & Ep & Hpost).
  destruct (valid_value_name k); [|discriminate].
  intros H. injection H as <-. unfold raw_value. cbn [esections].
  rewrite filter_app. cbn [filter].
  replace (sec_matches n s (with_body x _)) with true by (symmetry; exact Ep).
  rewrite (filter_none _ post Hpost). rewrite rev_app_distr. cbn [rev app raw_value_loop].
  unfold with_body. cbn [sevents]. rewrite L_push_then_get. reflexivity.
Qed.
