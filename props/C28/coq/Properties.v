(* C28 — Config edits change only what was edited.  Theorems only; proofs are in Proofs*.v *)
From GixV.Base Require Import Bytes Outcome.
From GixV.C28 Require Import Tables Model ProofsNorm ProofsEscape ProofsFrame ProofsBody.

(* A value written by any edit (escape_value) reads back as exactly that value (value::normalize):
   holds for EVERY byte string, incl. leading/trailing white space, comment characters, quotes,
   backslashes, newlines, tabs, NUL and non-ASCII bytes. *)
Theorem escape_roundtrip : forall v, normalize (escape_value v) = v.
Proof. exact L_escape_roundtrip. Qed.

Theorem normalize_is_unescape : forall x, normalize x = unescape x [].
Proof. exact L_normalize_is_unescape. Qed.

(* One edit: the front matter and every section whose (name, subsection) is not addressed by the
   operation are unchanged — same events, same order. *)
Theorem op_frame : forall f o f' r,
  apply_op f o = Ok (f', r) -> frame (op_targets o) f f'.
Proof. exact L_op_frame. Qed.

(* A history of edits: whatever is addressed by none of its operations is unchanged. *)
Theorem ops_frame : forall os f f',
  apply_ops f os = Ok f' -> frame (flat_map op_targets os) f f'.
Proof. exact L_ops_frame. Qed.

(* ... and is therefore written byte-identically *)
Theorem ops_frame_bytes : forall os f f',
  apply_ops f os = Ok f' ->
  serialize (efrontmatter f') = serialize (efrontmatter f) /\
  map section_write (filter (untouched (flat_map op_targets os)) (esections f')) =
  map section_write (filter (untouched (flat_map op_targets os)) (esections f)).
Proof.
  intros os f f' H. destruct (L_ops_frame os f f' H) as [Hf Hs]. now rewrite Hf, Hs.
Qed.

(* Inside the edited section, `set` replaces the value events of the last pair with that key by one
   Value event holding the escaped value, or appends a new pair; every other event is kept. *)
Theorem sm_set_frame : forall body w nl key value prev body',
  sm_set body w nl key value = Some (prev, body') ->
  (kv_range body key = None /\ prev = None /\ body' = body ++ push_events w nl key (Some value)) \/
  (exists ks st en a,
     kv_range body key = Some (ks, st, en) /\ (a = st \/ a = en) /\ (a <= S en <= length body)%nat /\
     body' = firstn a body ++ Value (escape_value value) :: skipn (S en) body /\
     prev = Some (flat_map value_bytes (firstn (S en - a) (skipn a body)))).
Proof. exact L_sm_set_frame. Qed.

Theorem sm_push_frame : forall body w nl key value,
  firstn (length body) (sm_push body w nl key value) = body.
Proof. exact L_sm_push_frame. Qed.

(* ---- non-vacuity --------------------------------------------------------------------------- *)

Definition demo_text : bytes :=
  bs "# top" ++ [x0a] ++ bs "[a]" ++ [x0a] ++ [x09] ++ bs "k = v ; c" ++ [x0a] ++
  bs "[b ""x""]" ++ [x0a] ++ bs "  y=1" ++ [x0a].
Definition demo_ops : list op :=
  [OSet (bs "a") None (bs "k") (bs " new;"); OPush (bs "a") None (bs "z") None;
   ORenameSection (bs "a") None (bs "c") (Some (bs "s")); ORemove (bs "c") (Some (bs "s")) (bs "z")].

(* the history runs, changes section [a] and leaves `[b "x"]` and the comment alone *)
Example ops_frame_example :
  match events_from_bytes demo_text with
  | Ok f => match apply_ops f demo_ops with
            | Ok f' =>
                file_write f' =
                  bs "# top" ++ [x0a] ++ bs "[c ""s""]" ++ [x0a] ++ [x09] ++ bs "k = "" new;"" ; c" ++ [x0a] ++
                  bs "[b ""x""]" ++ [x0a] ++ bs "  y=1" ++ [x0a]
                /\ filter (untouched (flat_map op_targets demo_ops)) (esections f) <> []
            | _ => False
            end
  | _ => False
  end.
Proof. vm_compute. split; [reflexivity | discriminate]. Qed.

(* the replacing branch of sm_set_frame is taken *)
Example sm_set_example :
  sm_set [SectionValueName (bs "k"); KeyValueSeparator; Value (bs "v"); Newline [x0a]] ws_default [x0a] (bs "K") (bs "w")
  = Some (Some (bs "v"), [SectionValueName (bs "k"); KeyValueSeparator; Value (bs "w"); Newline [x0a]]).
Proof. vm_compute. reflexivity. Qed.
