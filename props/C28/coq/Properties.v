(* C28 — Config edits change only what was edited.  Theorems only; proofs are in Proofs*.v *)
From GixV.Base Require Import Bytes Outcome.
From GixV.C28 Require Import Tables Model ProofsNorm ProofsEscape ProofsFrame ProofsBody ProofsGet ProofsRemove.

(* A value written by any edit (escape_value) reads back as exactly that value (value::normalize):
   holds for EVERY byte string, incl. leading/trailing white space, comment characters, quotes,
   backslashes, newlines, tabs, NUL and non-ASCII bytes. *)
Theorem escape_roundtrip : forall v, normalize (escape_value v) = v.
Proof. exact L_escape_roundtrip. Qed.

Theorem normalize_is_unescape : forall x, normalize x = unescape x [].
Proof. exact L_normalize_is_unescape. Qed.

(* One edit: the front matter and every section whose (name, subsection) is not addressed by the
   operation are unchanged — same events, same order. *)
Theorem op_frame : forall f o f' r,
  apply_op f o = Ok (f', r) -> frame (op_targets o) f f'.
Proof. exact L_op_frame. Qed.

(* A history of edits: whatever is addressed by none of its operations is unchanged. *)
Theorem ops_frame : forall os f f',
  apply_ops f os = Ok f' -> frame (flat_map op_targets os) f f'.
Proof. exact L_ops_frame. Qed.

(* ... and is therefore written byte-identically *)
Theorem ops_frame_bytes : forall os f f',
  apply_ops f os = Ok f' ->
  serialize (efrontmatter f') = serialize (efrontmatter f) /\
  map section_write (filter (untouched (flat_map op_targets os)) (esections f')) =
  map section_write (filter (untouched (flat_map op_targets os)) (esections f)).
Proof.
  intros os f f' H. destruct (L_ops_frame os f f' H) as [Hf Hs]. now rewrite Hf, Hs.
Qed.

Definition demo_text_small : bytes := bs "[a]" ++ [x0a] ++ bs "k = v" ++ [x0a].

(* Inside the edited section, `set` replaces the value events of the last pair with that key by one
   Value event holding the escaped value, or appends a new pair; every other event is kept. *)
Theorem sm_set_frame : forall body w nl key value prev body',
  sm_set body w nl key value = Some (prev, body') ->
  (kv_range body key = None /\ prev = None /\ body' = body ++ push_events w nl key (Some value)) \/
  (exists ks st en a,
     kv_range body key = Some (ks, st, en) /\ (a = st \/ a = en) /\ (a <= S en <= length body)%nat /\
     body' = firstn a body ++ Value (escape_value value) :: skipn (S en) body /\
     prev = Some (flat_map value_bytes (firstn (S en - a) (skipn a body)))).
Proof. exact L_sm_set_frame. Qed.

(* `remove` deletes the events of the last pair with that key (key_start .. last value event), at most
   one Whitespace event right before it and at most one Newline event right after it — nothing else:
   comments, other pairs and their white space are kept in place. *)
Theorem sm_remove_frame : forall body key prev body',
  sm_remove body key = Some (prev, body') ->
  (kv_range body key = None /\ prev = None /\ body' = body) \/
  (exists ks st en a' b',
     kv_range body key = Some (ks, st, en) /\
     body' = firstn a' body ++ skipn b' body /\ (a' <= ks <= S en)%nat /\ (S en <= b' <= length body)%nat /\
     (a' = ks \/ (S a' = ks /\ exists w, nth_error body a' = Some (Whitespace w))) /\
     (b' = S en \/ (b' = S (S en) /\ exists n, nth_error body (S en) = Some (Newline n))) /\
     prev = Some (flat_map value_bytes (firstn (S en - ks) (skipn ks body)))).
Proof. exact L_sm_remove_frame. Qed.

Example sm_remove_example :
  sm_remove [Newline [x0a]; Whitespace [x20]; SectionValueName (bs "k"); KeyValueSeparator; Value (bs "v");
             Whitespace [x20]; Comment x23 (bs "c"); Newline [x0a]] (bs "K")
  = Some (Some (bs "v"), [Newline [x0a]; Whitespace [x20]; Comment x23 (bs "c"); Newline [x0a]]).
Proof. vm_compute. reflexivity. Qed.

Theorem sm_push_frame : forall body w nl key value,
  firstn (length body) (sm_push body w nl key value) = body.
Proof. exact L_sm_push_frame. Qed.

(* The edited key reads back.  After a pair was appended to a body (SectionMut::push with a value),
   Body::value_implicit of that key yields exactly the value that was given — for every body, every
   white-space convention, every key and every value. *)
Theorem push_then_get : forall body w nl key v,
  value_implicit (sm_push body w nl key (Some v)) key = Ok (Some (Some v)).
Proof. exact L_push_then_get. Qed.

(* `set` of a key the section does not have yet appends, and the value reads back *)
Theorem set_new_key_then_get_partial : forall body w nl key v,
  kv_range body key = None ->
  exists body', sm_set body w nl key v = Some (None, body') /\ value_implicit body' key = Ok (Some (Some v)).
Proof. exact L_set_new_key_then_get. Qed.

(* File level: section_mut(name, sub)?.push(key, Some(value)) and then raw_value(name, sub, key) *)
Theorem op_push_then_get : forall f n s k v f',
  op_push f n s k (Some v) = Ok (f', ROk) -> raw_value f' n s k = Ok (Some v).
Proof. exact L_op_push_then_get. Qed.

(* The full statement "set, then the key reads back as the value" is FALSE of the code (known class
   set-implicit-key: the key's last occurrence has no `=`; pinned by a test of gix-config). *)
Theorem set_then_get_refuted : ~ set_then_get_statement.
Proof. exact L_set_then_get_refuted. Qed.

Example set_implicit_class_example :
  set_implicit_class [Newline [x0a]; SectionValueName (bs "k"); Value []; Newline [x0a]] (bs "k") = true.
Proof. exact set_implicit_class_witness. Qed.

(* hypotheses of op_push_then_get are satisfiable *)
Example op_push_then_get_example :
  match events_from_bytes demo_text_small with
  | Ok f => exists f', op_push f (bs "A") None (bs "z") (Some (bs " v ")) = Ok (f', ROk)
  | _ => False
  end.
Proof. vm_compute. eexists. reflexivity. Qed.

(* ---- non-vacuity --------------------------------------------------------------------------- *)

Definition demo_text : bytes :=
  bs "# top" ++ [x0a] ++ bs "[a]" ++ [x0a] ++ [x09] ++ bs "k = v ; c" ++ [x0a] ++
  bs "[b ""x""]" ++ [x0a] ++ bs "  y=1" ++ [x0a].
Definition demo_ops : list op :=
  [OSet (bs "a") None (bs "k") (bs " new;"); OPush (bs "a") None (bs "z") None;
   ORenameSection (bs "a") None (bs "c") (Some (bs "s")); ORemove (bs "c") (Some (bs "s")) (bs "z")].

(* the history runs, changes section [a] and leaves `[b "x"]` and the comment alone *)
Example ops_frame_example :
  match events_from_bytes demo_text with
  | Ok f => match apply_ops f demo_ops with
            | Ok f' =>
                file_write f' =
                  bs "# top" ++ [x0a] ++ bs "[c ""s""]" ++ [x0a] ++ [x09] ++ bs "k = "" new;"" ; c" ++ [x0a] ++
                  bs "[b ""x""]" ++ [x0a] ++ bs "  y=1" ++ [x0a]
                /\ filter (untouched (flat_map op_targets demo_ops)) (esections f) <> []
            | _ => False
            end
  | _ => False
  end.
Proof. vm_compute. split; [reflexivity | discriminate]. Qed.

(* the replacing branch of sm_set_frame is taken *)
Example sm_set_example :
  sm_set [SectionValueName (bs "k"); KeyValueSeparator; Value (bs "v"); Newline [x0a]] ws_default [x0a] (bs "K") (bs "w")
  = Some (Some (bs "v"), [SectionValueName (bs "k"); KeyValueSeparator; Value (bs "w"); Newline [x0a]]).
Proof. vm_compute. reflexivity. Qed.
