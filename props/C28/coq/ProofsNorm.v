(* C28 — normalize: the quote-stripping fast path never changes the result of the unescape loop. *)
From Coq Require Import Lia.
From GixV.Base Require Import Bytes BytesFacts Outcome.
From GixV.C28 Require Import Model.

Lemma beqb_false_neq a b : beqb a b = false -> a <> b.
Proof. intros H E. subst. assert (beqb b b = true) by now apply beqb_eq. congruence. Qed.

(* without quote or backslash the loop copies *)
Lemma unescape_plain i : forall out, existsb is_quote_or_backslash i = false -> unescape i out = rev out ++ i.
Proof.
  induction i as [|c t IH]; intros out H; cbn [unescape].
  - now rewrite app_nil_r.
  - cbn [existsb] in H. apply Bool.orb_false_iff in H as [Hc Ht]. unfold is_quote_or_backslash in Hc.
    apply Bool.orb_false_iff in Hc as [Hq Hb]. rewrite Hb, Hq. rewrite IH by exact Ht.
    cbn [rev]. now rewrite <- app_assoc.
Qed.

(* a final quote that does not follow a backslash byte is dropped by the loop *)
Lemma unescape_final_quote n : forall m out, (length m <= n)%nat -> m <> [] -> last m x00 <> x5c ->
  unescape (m ++ [x22]) out = unescape m out.
Proof.
  induction n as [|n IH]; intros m out Hl Hne Hlast.
  - destruct m; [congruence | cbn [length] in Hl; lia].
  - destruct m as [|c m']; [congruence|]. cbn [app]. cbn [length] in Hl.
    destruct m' as [|d m''].
    + (* one byte, not a backslash *)
      cbn [last] in Hlast. cbn [app unescape].
      destruct (beqb c x5c) eqn:Ec; [apply beqb_eq in Ec; congruence|].
      destruct (beqb c x22); reflexivity.
    + assert (Hlast' : last (d :: m'') x00 <> x5c) by exact Hlast.
      cbn [unescape app]. destruct (beqb c x5c) eqn:Ec.
      * (* escape pair c d *)
        destruct m'' as [|e m3].
        { cbn [app]. destruct (beqb d x6e), (beqb d x74), (beqb d x62); reflexivity. }
        assert (Hl3 : (length (e :: m3) <= n)%nat) by (cbn [length] in *; lia).
        assert (Hne3 : e :: m3 <> []) by discriminate.
        assert (Hlast3 : last (e :: m3) x00 <> x5c) by exact Hlast'.
        change ((e :: m3) ++ [x22]) with (e :: m3 ++ [x22]).
        destruct (beqb d x6e); [exact (IH (e :: m3) _ Hl3 Hne3 Hlast3)|].
        destruct (beqb d x74); [exact (IH (e :: m3) _ Hl3 Hne3 Hlast3)|].
        destruct (beqb d x62); exact (IH (e :: m3) _ Hl3 Hne3 Hlast3).
      * assert (Hl2 : (length (d :: m'') <= n)%nat) by (cbn [length] in *; lia).
        assert (Hne2 : d :: m'' <> []) by discriminate.
        change (d :: m'' ++ [x22]) with ((d :: m'') ++ [x22]).
        destruct (beqb c x22); exact (IH (d :: m'') _ Hl2 Hne2 Hlast').
Qed.

Lemma nth_pred_last (m : bytes) : m <> [] -> nth (length m - 1) m x00 = last m x00.
Proof.
  induction m as [|c t IH]; [congruence|]. intros _. destruct t as [|d t'].
  - reflexivity.
  - change (last (c :: d :: t') x00) with (last (d :: t') x00).
    change (length (c :: d :: t')) with (S (length (d :: t'))).
    replace (S (length (d :: t')) - 1)%nat with (S (length (d :: t') - 1)) by (cbn [length]; lia).
    cbn [nth]. apply IH. discriminate.
Qed.

(* one round of the stripping loop *)
Lemma strip_step i :
  Nat.leb 3 (length i) && beqb (hd x00 i) x22 && beqb (last i x00) x22
    && negb (beqb (nth (length i - 2) i x00) x5c) = true ->
  unescape i [] = unescape (removelast (tl i)) [].
Proof.
  intros H. apply Bool.andb_true_iff in H as [H Hesc]. apply Bool.andb_true_iff in H as [H Hlastq].
  apply Bool.andb_true_iff in H as [Hlen Hhd]. apply Nat.leb_le in Hlen.
  destruct i as [|c t]; [cbn in Hlen; lia|]. cbn [hd] in Hhd. cbn [tl].
  assert (Ht : t <> []) by (destruct t; [cbn in Hlen; lia | discriminate]).
  pose proof (app_removelast_last x00 Ht) as Hsplit.
  set (m := removelast t) in *.
  assert (Hlast_t : last (c :: t) x00 = last t x00) by (destruct t; [congruence | reflexivity]).
  rewrite Hlast_t in Hlastq. apply beqb_eq in Hlastq. rewrite Hlastq in Hsplit.
  assert (Hm : m <> []).
  { intros E. rewrite E in Hsplit. rewrite Hsplit in Hlen. cbn in Hlen. lia. }
  assert (Hidx : nth (length (c :: t) - 2) (c :: t) x00 = last m x00).
  { rewrite Hsplit. cbn [length]. rewrite app_length. cbn [length].
    destruct (length m) as [|k] eqn:Ek; [destruct m; [congruence | discriminate]|].
    replace (S (S k + 1) - 2)%nat with (S k) by lia. cbn [nth].
    rewrite app_nth1 by lia. rewrite <- (nth_pred_last m Hm). f_equal. lia. }
  rewrite Hidx in Hesc. apply Bool.negb_true_iff in Hesc. apply beqb_false_neq in Hesc.
  apply beqb_eq in Hhd. subst c. rewrite Hsplit. cbn [unescape].
  change (beqb x22 x5c) with false. change (beqb x22 x22) with true. cbn iota.
  apply (unescape_final_quote (length m)); [lia | exact Hm | exact Hesc].
Qed.

Lemma unescape_two_quotes : unescape two_quotes [] = [].
Proof. reflexivity. Qed.

Lemma strip_quotes_sound fuel : forall i,
  match strip_quotes fuel i with
  | None => unescape i [] = []
  | Some j => unescape i [] = unescape j []
  end.
Proof.
  induction fuel as [|f IH]; intros i; cbn [strip_quotes]; [reflexivity|].
  destruct (Nat.leb 3 (length i) && beqb (hd x00 i) x22 && beqb (last i x00) x22
            && negb (beqb (nth (length i - 2) i x00) x5c)) eqn:C; [|reflexivity].
  rewrite (strip_step i C).
  destruct (bytes_eqb (removelast (tl i)) two_quotes) eqn:E.
  - apply bytes_eqb_eq in E. now rewrite E.
  - apply IH.
Qed.

Lemma L_normalize_is_unescape x : normalize x = unescape x [].
Proof.
  unfold normalize. destruct (bytes_eqb x two_quotes) eqn:E.
  - apply bytes_eqb_eq in E. now subst.
  - pose proof (strip_quotes_sound (length x) x) as H.
    destruct (strip_quotes (length x) x) as [j|]; [|now rewrite H].
    rewrite H. destruct (existsb is_quote_or_backslash j) eqn:Q; [reflexivity|].
    now rewrite (unescape_plain j [] Q).
Qed.
