(* C28 — a value written by escape_value reads back as itself: normalize (escape_value v) = v. *)
From Coq Require Import Lia.
From GixV.Base Require Import Bytes BytesFacts Outcome.
From GixV.C28 Require Import Tables Model ProofsNorm.

Lemma beqb_neq_false a b : a <> b -> beqb a b = false.
Proof. intros H. destruct (beqb a b) eqn:E; [apply beqb_eq in E; congruence | reflexivity]. Qed.

(* the escaped body, followed by anything, is consumed by the loop into exactly the original bytes *)
Lemma unescape_escape_body v : forall out rest,
  unescape (escape_body v ++ rest) out = unescape rest (rev v ++ out).
Proof.
  induction v as [|c t IH]; intros out rest; [reflexivity|].
  cbn [escape_body rev]. rewrite <- !app_assoc. cbn [app].
  destruct (beqb c x0a) eqn:E1.
  { apply beqb_eq in E1. subst c. cbn [app unescape]. change (beqb x5c x5c) with true. cbn iota.
    change (beqb x6e x6e) with true. cbn iota. rewrite IH. reflexivity. }
  destruct (beqb c x09) eqn:E2.
  { apply beqb_eq in E2. subst c. cbn [app unescape]. change (beqb x5c x5c) with true. cbn iota.
    change (beqb x74 x6e) with false. change (beqb x74 x74) with true. cbn iota. rewrite IH. reflexivity. }
  destruct (beqb c x22) eqn:E3.
  { apply beqb_eq in E3. subst c. cbn [app unescape]. change (beqb x5c x5c) with true. cbn iota.
    change (beqb x22 x6e) with false. change (beqb x22 x74) with false. change (beqb x22 x62) with false.
    cbn iota. rewrite IH. reflexivity. }
  destruct (beqb c x5c) eqn:E4.
  { apply beqb_eq in E4. subst c. cbn [app unescape]. change (beqb x5c x5c) with true. cbn iota.
    change (beqb x5c x6e) with false. change (beqb x5c x74) with false. change (beqb x5c x62) with false.
    cbn iota. rewrite IH. reflexivity. }
  cbn [app unescape]. rewrite E4, E3. rewrite IH. reflexivity.
Qed.

Lemma unescape_escape_value v : unescape (escape_value v) [] = v.
Proof.
  unfold escape_value.
  destruct ((match v with c :: _ => is_ascii_ws c | [] => false end)
            || (match v with [] => false | _ => is_ascii_ws (last v x00) end)
            || existsb is_comment_tag v).
  - cbn [unescape]. change (beqb x22 x5c) with false. change (beqb x22 x22) with true. cbn iota.
    rewrite unescape_escape_body. cbn [unescape]. change (beqb x22 x5c) with false.
    change (beqb x22 x22) with true. cbn iota. cbn [unescape]. rewrite app_nil_r. apply rev_involutive.
  - rewrite <- (app_nil_r (escape_body v)). rewrite unescape_escape_body. cbn [unescape].
    rewrite app_nil_r. apply rev_involutive.
Qed.

Lemma L_escape_roundtrip v : normalize (escape_value v) = v.
Proof. rewrite L_normalize_is_unescape. apply unescape_escape_value. Qed.
