(* C28 — frame property inside the edited section: SectionMut::set / push change the value events of
   the addressed key only; every other event of the body is kept, byte for byte and in order. *)
From Coq Require Import Lia.
From GixV.Base Require Import Bytes BytesFacts Outcome.
From GixV.C28 Require Import Tables Model ProofsNorm ProofsEscape.

Lemma firstn_glue {A} a (l Y : list A) : (a <= length l)%nat -> firstn a (firstn a l ++ Y) = firstn a l.
Proof.
  intros H. rewrite firstn_app, firstn_firstn, Nat.min_id, firstn_length_le by exact H.
  rewrite Nat.sub_diag. cbn [firstn]. apply app_nil_r.
Qed.
Lemma skipn_glue {A} a (l Y : list A) : (a <= length l)%nat -> skipn a (firstn a l ++ Y) = Y.
Proof.
  intros H. rewrite skipn_app, firstn_length_le by exact H. rewrite Nat.sub_diag. cbn [skipn].
  rewrite skipn_all2; [reflexivity|]. rewrite firstn_length_le by exact H. lia.
Qed.

Lemma remove_internal_nofix body a b v body1 :
  remove_internal body a b false = Some (v, body1) ->
  (a <= b <= length body)%nat /\ body1 = firstn a body ++ skipn b body /\
  v = flat_map value_bytes (firstn (b - a) (skipn a body)).
Proof.
  unfold remove_internal. cbn [andb]. unfold vec_drain.
  destruct (Nat.leb a b && Nat.leb b (length body)) eqn:C; [|discriminate].
  apply Bool.andb_true_iff in C as [C1 C2]. apply Nat.leb_le in C1. apply Nat.leb_le in C2.
  cbn [andb]. intros H. injection H as <- <-. repeat split; auto.
Qed.

(* SectionMut::set: either the key was not there and the pair is appended, or exactly the events
   [a, S en) — the value events of the last pair with that key — are replaced by one Value event *)
Lemma L_sm_set_frame body w nl key value prev body' :
  sm_set body w nl key value = Some (prev, body') ->
  (kv_range body key = None /\ prev = None /\ body' = body ++ push_events w nl key (Some value)) \/
  (exists ks st en a,
     kv_range body key = Some (ks, st, en) /\ (a = st \/ a = en) /\ (a <= S en <= length body)%nat /\
     body' = firstn a body ++ Value (escape_value value) :: skipn (S en) body /\
     prev = Some (flat_map value_bytes (firstn (S en - a) (skipn a body)))).
Proof.
  unfold sm_set. destruct (kv_range body key) as [[[ks st] en]|] eqn:E.
  - intros H. right.
    set (a := if has_separator body ks st then st else en).
    assert (Ha : a = st \/ a = en) by (unfold a; destruct (has_separator body ks st); auto).
    assert (Hab : (if has_separator body ks st then (st, S en) else (en, S en)) = (a, S en))
      by (unfold a; destruct (has_separator body ks st); reflexivity).
    rewrite Hab in H.
    destruct (remove_internal body a (S en) false) as [[ret body1]|] eqn:R; [|discriminate].
    apply remove_internal_nofix in R as (Hle & -> & ->).
    unfold vec_insert in H.
    destruct (Nat.leb a (length (firstn a body ++ skipn (S en) body))) eqn:L; [|discriminate].
    cbn [option_map] in H. injection H as <- <-.
    exists ks, st, en, a. repeat split; auto; try lia.
    rewrite firstn_glue, skipn_glue by lia. reflexivity.
  - intros H. injection H as <- <-. left. repeat split; reflexivity.
Qed.

(* push keeps the whole body as a prefix *)
Lemma L_sm_push_frame body w nl key value :
  firstn (length body) (sm_push body w nl key value) = body.
Proof. unfold sm_push. rewrite firstn_app, Nat.sub_diag, firstn_all. cbn [firstn]. apply app_nil_r. Qed.

(* the known class: `set` on a key whose last occurrence has no `=` *)
Definition set_implicit_class (body : list event) (key : bytes) : bool :=
  match kv_range body key with
  | Some (ks, st, _) => negb (has_separator body ks st)
  | None => false
  end.
