(* C28 — transcript printer: the same observable string the Rust harness prints for a case.
   case:  edit <config bytes> (<op> <section> <sub> <key> <value>)*
     <sub>   : empty field = None, otherwise one marker byte followed by the subsection name
     <value> : empty field = None, otherwise one marker byte followed by the value
     ops: set push remove setex del newsec rmsec rename (key = new name, value = new sub) get getall *)
From GixV.Base Require Import Bytes Outcome.
From GixV.C28 Require Import Tables Model.

Definition hex_field (b : bytes) : bytes := if is_nil b then bs "-" else hex_encode b.

Definition opt_field (b : bytes) : option bytes := match b with [] => None | _ :: t => Some t end.
Definition some_or_empty (o : option bytes) : bytes := match o with Some v => v | None => [] end.

Definition parse_op (o n s k v : bytes) : option op :=
  let sub := opt_field s in
  if bytes_eqb o (bs "set") then Some (OSet n sub k (some_or_empty (opt_field v)))
  else if bytes_eqb o (bs "push") then Some (OPush n sub k (opt_field v))
  else if bytes_eqb o (bs "remove") then Some (ORemove n sub k)
  else if bytes_eqb o (bs "setex") then Some (OSetExisting n sub k (some_or_empty (opt_field v)))
  else if bytes_eqb o (bs "del") then Some (ODelete n sub k)
  else if bytes_eqb o (bs "newsec") then Some (ONewSection n sub)
  else if bytes_eqb o (bs "rmsec") then Some (ORemoveSection n sub)
  else if bytes_eqb o (bs "rename") then Some (ORenameSection n sub k (opt_field v))
  else if bytes_eqb o (bs "get") then Some (OGet n sub k)
  else if bytes_eqb o (bs "getall") then Some (OGetAll n sub k)
  else None.

Fixpoint parse_ops (fs : list bytes) : list op :=
  match fs with
  | o :: n :: s :: k :: v :: r =>
      match parse_op o n s k v with
      | Some x => x :: parse_ops r
      | None => parse_ops r
      end
  | _ => []
  end.

Definition is_ascii (b : bytes) : bool := forallb (fun c => N.ltb (b2N c) 128) b.
(* names travel as &str in the API: the harness only handles ASCII names *)
Definition op_ascii (o : op) : bool :=
  match o with
  | OSet n _ k _ | OPush n _ k _ | ORemove n _ k | OSetExisting n _ k _ | ODelete n _ k
  | OGet n _ k | OGetAll n _ k | ORenameSection n _ k _ => is_ascii n && is_ascii k
  | ONewSection n _ | ORemoveSection n _ => is_ascii n
  end.

Fixpoint join_hex (vs : list bytes) : bytes :=
  match vs with
  | [] => []
  | [v] => hex_field v
  | v :: r => hex_field v ++ bs "," ++ join_hex r
  end.

Definition show_res (r : res) : bytes :=
  match r with
  | RNone => bs "none"
  | RSome v => bs "some=" ++ hex_field v
  | ROk => bs "ok"
  | RErrLookup => bs "elookup"
  | RErrHeader => bs "eheader"
  | RErrName => bs "ename"
  | RVal v => bs "val=" ++ hex_field v
  | RVals vs => bs "vals=" ++ join_hex vs
  end.

Fixpoint run_ops (f : events) (os : list op) : bytes :=
  match os with
  | [] => []
  | o :: r =>
      match apply_op f o with
      | Ok (f', res) => bs " " ++ show_res res ++ bs ":" ++ hex_field (file_write f') ++ run_ops f' r
      | Err _ => bs " err"
      | Panic => bs " PANIC"
      | OutOfFuel => bs " HANG"
      end
  end.

Definition run_model (fs : list bytes) : bytes :=
  let input := nth_field 1 fs in
  let os := parse_ops (skipn 2 fs) in
  if negb (forallb op_ascii os) then bs "skip" else
  match events_from_bytes input with
  | Ok f => bs "ok " ++ hex_field (file_write f) ++ run_ops f os
  | Err _ => bs "err"
  | Panic => bs "PANIC"
  | OutOfFuel => bs "HANG"
  end.

Definition run (fs : list bytes) : bytes :=
  match fs with
  | _mode :: rest => run_model rest
  | [] => bs "?"
  end.
