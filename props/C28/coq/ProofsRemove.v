(* C28 — frame inside the edited section for SectionMut::remove: exactly the events of the pair, at most
   one Whitespace event right before it and at most one Newline event right after it disappear. *)
From Coq Require Import Lia.
From GixV.Base Require Import Bytes BytesFacts Outcome.
From GixV.C28 Require Import Tables Model ProofsBody.

Lemma nth_error_firstn_lt {A} (l : list A) n i : (i < n)%nat -> nth_error (firstn n l) i = nth_error l i.
Proof.
  revert l i. induction n as [|n IH]; intros l i H; [lia|].
  destruct l as [|a t]; [now destruct i|]. destruct i as [|i]; [reflexivity|]. cbn [firstn nth_error].
  apply IH. lia.
Qed.

Lemma L_remove_internal_frame body a b v body3 :
  remove_internal body a b true = Some (v, body3) ->
  exists a' b',
    body3 = firstn a' body ++ skipn b' body /\ (a' <= a <= b)%nat /\ (b <= b' <= length body)%nat /\
    (a' = a \/ (S a' = a /\ exists w, nth_error body a' = Some (Whitespace w))) /\
    (b' = b \/ (b' = S b /\ exists n, nth_error body b = Some (Newline n))) /\
    v = flat_map value_bytes (firstn (b - a) (skipn a body)).
Proof.
  unfold remove_internal. cbn [andb].
  (* step 1: the newline after the range *)
  set (isnl := match nth_error body b with Some e => is_newline_ev e | None => false end).
  assert (Hstep1 : exists body1 b',
    (if isnl then vec_remove b body else Some body) = Some body1 /\
    (b <= b' <= length body)%nat /\ (b <= length body)%nat -> True) by (exists body, b; trivial).
  clear Hstep1.
  destruct isnl eqn:Enl.
  - (* a newline is removed *)
    unfold isnl in Enl. destruct (nth_error body b) as [e|] eqn:Eb; [|discriminate].
    destruct e; try discriminate.
    assert (Hb : (b < length body)%nat) by (apply nth_error_Some; congruence).
    unfold vec_remove. replace (Nat.ltb b (length body)) with true by (symmetry; apply Nat.ltb_lt; lia).
    set (body1 := firstn b body ++ skipn (S b) body).
    unfold vec_drain.
    destruct (Nat.leb a b && Nat.leb b (length body1)) eqn:C; [|discriminate].
    apply Bool.andb_true_iff in C as [C1 C2]. apply Nat.leb_le in C1. apply Nat.leb_le in C2.
    assert (F1 : firstn a body1 = firstn a body).
    { unfold body1. rewrite firstn_app, firstn_firstn. rewrite firstn_length_le by lia.
      replace (a - b)%nat with 0%nat by lia. cbn [firstn]. rewrite app_nil_r. f_equal. lia. }
    assert (S1 : skipn b body1 = skipn (S b) body) by (unfold body1; apply skipn_glue; lia).
    assert (D1 : firstn (b - a) (skipn a body1) = firstn (b - a) (skipn a body)).
    { unfold body1. rewrite skipn_app. rewrite firstn_length_le by lia.
      replace (a - b)%nat with 0%nat by lia. cbn [skipn]. rewrite firstn_app.
      rewrite skipn_length, firstn_length_le by lia. rewrite Nat.sub_diag. cbn [firstn]. rewrite app_nil_r.
      rewrite skipn_firstn_comm. rewrite firstn_firstn. f_equal. lia. }
    rewrite F1, S1, D1.
    set (body2 := firstn a body ++ skipn (S b) body).
    destruct a as [|a0].
    + cbn [andb]. intros H. injection H as <- <-. exists 0%nat, (S b). repeat split; auto; try lia.
      right. split; [reflexivity|]. eexists; reflexivity.
    + destruct (match nth_error body2 a0 with Some e => is_whitespace_ev e | None => false end) eqn:W.
      * destruct (nth_error body2 a0) as [e|] eqn:E2; [|discriminate].
        destruct e as [? ?|?|?|?|?|?|?|wsb|]; try discriminate.
        assert (E2' : nth_error body a0 = Some (Whitespace wsb)).
        { unfold body2 in E2. rewrite nth_error_app1 in E2 by (rewrite firstn_length_le; lia).
          rewrite nth_error_firstn_lt in E2 by lia. exact E2. }
        unfold vec_remove. replace (S a0 - 1)%nat with a0 by lia.
        assert (L2 : (a0 < length body2)%nat) by (apply nth_error_Some; congruence).
        replace (Nat.ltb a0 (length body2)) with true by (symmetry; apply Nat.ltb_lt; lia).
        cbn [option_map]. intros H. injection H as <- <-.
        exists a0, (S b). repeat split; auto; try lia.
        -- unfold body2. rewrite firstn_app, firstn_firstn. rewrite firstn_length_le by lia.
           replace (a0 - S a0)%nat with 0%nat by lia. rewrite firstn_O, app_nil_r.
           change (match firstn (S a0) body ++ skipn (S b) body with [] => [] | _ :: l => skipn a0 l end)
             with (skipn (S a0) (firstn (S a0) body ++ skipn (S b) body)).
           rewrite skipn_glue by lia. f_equal. f_equal. lia.
        -- right. split; [reflexivity|]. eexists; exact E2'.
        -- right. split; [reflexivity|]. eexists; reflexivity.
      * intros H. injection H as <- <-. exists (S a0), (S b). repeat split; auto; try lia.
        right. split; [reflexivity|]. eexists; reflexivity.
  - (* no newline removed *)
    unfold vec_drain.
    destruct (Nat.leb a b && Nat.leb b (length body)) eqn:C; [|discriminate].
    apply Bool.andb_true_iff in C as [C1 C2]. apply Nat.leb_le in C1. apply Nat.leb_le in C2.
    set (body2 := firstn a body ++ skipn b body).
    destruct a as [|a0].
    + cbn [andb]. intros H. injection H as <- <-. exists 0%nat, b. repeat split; auto; lia.
    + destruct (match nth_error body2 a0 with Some e => is_whitespace_ev e | None => false end) eqn:W.
      * destruct (nth_error body2 a0) as [e|] eqn:E2; [|discriminate].
        destruct e as [? ?|?|?|?|?|?|?|wsb|]; try discriminate.
        assert (E2' : nth_error body a0 = Some (Whitespace wsb)).
        { unfold body2 in E2. rewrite nth_error_app1 in E2 by (rewrite firstn_length_le; lia).
          rewrite nth_error_firstn_lt in E2 by lia. exact E2. }
        unfold vec_remove. replace (S a0 - 1)%nat with a0 by lia.
        assert (L2 : (a0 < length body2)%nat) by (apply nth_error_Some; congruence).
        replace (Nat.ltb a0 (length body2)) with true by (symmetry; apply Nat.ltb_lt; lia).
        cbn [option_map]. intros H. injection H as <- <-.
        exists a0, b. repeat split; auto; try lia.
        -- unfold body2. rewrite firstn_app, firstn_firstn. rewrite firstn_length_le by lia.
           replace (a0 - S a0)%nat with 0%nat by lia. rewrite firstn_O, app_nil_r.
           change (match firstn (S a0) body ++ skipn b body with [] => [] | _ :: l => skipn a0 l end)
             with (skipn (S a0) (firstn (S a0) body ++ skipn b body)).
           rewrite skipn_glue by lia. f_equal. f_equal. lia.
        -- right. split; [reflexivity|]. eexists; exact E2'.
      * intros H. injection H as <- <-. exists (S a0), b. repeat split; auto; lia.
Qed.

(* SectionMut::remove *)
Lemma L_sm_remove_frame body key prev body' :
  sm_remove body key = Some (prev, body') ->
  (kv_range body key = None /\ prev = None /\ body' = body) \/
  (exists ks st en a' b',
     kv_range body key = Some (ks, st, en) /\
     body' = firstn a' body ++ skipn b' body /\ (a' <= ks <= S en)%nat /\ (S en <= b' <= length body)%nat /\
     (a' = ks \/ (S a' = ks /\ exists w, nth_error body a' = Some (Whitespace w))) /\
     (b' = S en \/ (b' = S (S en) /\ exists n, nth_error body (S en) = Some (Newline n))) /\
     prev = Some (flat_map value_bytes (firstn (S en - ks) (skipn ks body)))).
Proof.
  unfold sm_remove. destruct (kv_range body key) as [[[ks st] en]|] eqn:E.
  - destruct (remove_internal body ks (S en) true) as [[v b3]|] eqn:R; [|discriminate].
    cbn [option_map]. intros H. injection H as <- <-. right.
    apply L_remove_internal_frame in R as (a' & b' & H1 & H2 & H3 & H4 & H5 & H6).
    exists ks, st, en, a', b'. repeat split; auto; try lia. now rewrite H6.
  - intros H. injection H as <- <-. left. repeat split; reflexivity.
Qed.
