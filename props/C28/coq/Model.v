(* C28 — executable model of gix-config's config editing.
   Parts 1 and 2 (parser, event grouping, serialisation, File::write_to) are the model of props/C26
   (snapshot), re-validated by this property's own correspondence run; part 3 (value lookup) is taken
   from props/C27; part 4 (editing) is new.  Parts 1-2 follow, function by function:
     gix-config/src/parse/nom/mod.rs   from_bytes, comment, section, section_header, sub_section,
                                       subsection_subset, key_value_pair, config_name, config_value,
                                       value_impl, take_spaces1, take_newlines1
     gix-config/src/parse/events.rs    from_bytes (grouping into frontmatter + sections), into_iter/into_vec
     gix-config/src/parse/event.rs     Event::write_to
     gix-config/src/parse/comment.rs   Comment::write_to
     gix-config/src/parse/section/header.rs  Header::write_to, escape_subsection
     unicode-bom 2.0.3 src/lib.rs      Bom::from(&[u8]), Bom::len   (external crate, transcribed)
   A winnow parser `fn p(i: &mut &[u8]) -> PResult<O>` is a function from the remaining input to
   [Ok (o, rest)] or [Err Backtrack]; `i.checkpoint()` / `i.reset(..)` is keeping the old list;
   `i.offset_from(&cp)` is the number of bytes consumed since.  No proofs in this file. *)
From GixV.Base Require Import Bytes Outcome.
From GixV.C28 Require Import Tables.

Inductive perr := Backtrack.

(* parse::section::Header { name, separator, subsection_name } *)
Record header := Header { hname : bytes; hsep : option bytes; hsub : option bytes }.

(* parse::Event *)
Inductive event :=
| Comment (tag : byte) (text : bytes)
| SectionHeader (h : header)
| SectionValueName (k : bytes)
| Value (v : bytes)
| Newline (v : bytes)
| ValueNotDone (v : bytes)
| ValueDone (v : bytes)
| Whitespace (v : bytes)
| KeyValueSeparator.

(* ---- byte classes ---------------------------------------------------------------------- *)

Definition in_range (lo hi : N) (c : byte) : bool := N.leb lo (b2N c) && N.leb (b2N c) hi.
Definition is_alpha (c : byte) : bool := in_range 65 90 c || in_range 97 122 c.     (* u8::is_ascii_alphabetic *)
Definition is_alnum (c : byte) : bool := is_alpha c || in_range 48 57 c.            (* u8::is_ascii_alphanumeric *)
(* u8::is_ascii_whitespace: space, \t, \n, \x0c, \r *)
Definition is_ascii_ws (c : byte) : bool :=
  match c with x20 | x09 | x0a | x0c | x0d => true | _ => false end.
(* winnow AsChar::is_space for u8 *)
Definition is_space (c : byte) : bool := match c with x20 | x09 => true | _ => false end.
Definition is_section_char (c : byte) : bool :=
  is_alnum c || match c with x2d | x2e => true | _ => false end.
Definition is_name_char (c : byte) : bool := is_alnum c || match c with x2d => true | _ => false end.
Definition is_subsection_unescaped_char (c : byte) : bool :=
  match c with x22 | x5c | x0a | x00 => false | _ => true end.
Definition is_subsection_escapable_char (c : byte) : bool :=
  match c with x0a => false | _ => true end.
Definition is_comment_tag (c : byte) : bool := match c with x3b | x23 => true | _ => false end.
Definition not_lf (c : byte) : bool := match c with x0a => false | _ => true end.

(* ---- slices ---------------------------------------------------------------------------- *)

(* winnow `take_while(0.., p)`: longest prefix satisfying p, and the rest *)
Fixpoint span (p : byte -> bool) (l : bytes) : bytes * bytes :=
  match l with
  | c :: t => if p c then let (a, r) := span p t in (c :: a, r) else ([], l)
  | [] => ([], [])
  end.

Definition is_nil {A} (l : list A) : bool := match l with [] => true | _ => false end.

(* `i.next_slice(n)` / `i[..n]` : panics when n > len *)
Definition take_n (n : nat) (l : bytes) : option (bytes * bytes) :=
  if Nat.leb n (length l) then Some (firstn n l, skipn n l) else None.

(* slice.get(a..b) *)
Definition get_range (a b : nat) (l : bytes) : option bytes :=
  if Nat.leb a b && Nat.leb b (length l) then Some (firstn (b - a) (skipn a l)) else None.

(* memchr::memrchr *)
Fixpoint memrchr (c : byte) (l : bytes) : option nat :=
  match l with
  | [] => None
  | x :: t => match memrchr c t with
              | Some k => Some (S k)
              | None => if beqb x c then Some 0%nat else None
              end
  end.

(* ---- unicode_bom::Bom::from(&[u8]).len() ------------------------------------------------- *)

(* compare_tail!(slice, len, bytes, from): slice.len() >= len && slice[from..from+bytes.len()] == bytes *)
Definition compare_tail (s : bytes) (len : nat) (bytes_ : bytes) (from : nat) : bool :=
  Nat.leb len (length s) && bytes_eqb (firstn (length bytes_) (skipn from s)) bytes_.
Definition tail1 (s : bytes) (b : bytes) : bool := compare_tail s (length b + 1) b 1.

Definition bom_len (s : bytes) : nat :=
  match s with
  | c0 :: c1 :: _ =>
      match c0 with
      | x00 => if tail1 s [x00; xfe; xff] then 4 else 0
      | x0e => if tail1 s [xfe; xff] then 3 else 0
      | x2b => if compare_tail s 4 [x2f; x76] 1 &&
                  match nth 3 s x00 with x38 | x39 | x2b | x2f => true | _ => false end
               then 4 else 0
      | x84 => if tail1 s [x31; x95; x33] then 4 else 0
      | xdd => if tail1 s [x73; x66; x73] then 4 else 0
      | xef => if tail1 s [xbb; xbf] then 3 else 0
      | xf7 => if tail1 s [x64; x4c] then 3 else 0
      | xfb => if tail1 s [xee; x28] then 3 else 0
      | xfe => if beqb c1 xff then 2 else 0
      | xff => if beqb c1 xfe then (if compare_tail s 4 [x00; x00] 2 then 4 else 2) else 0
      | _ => 0
      end
  | _ => 0
  end%nat.

(* ---- leaf parsers ---------------------------------------------------------------------- *)

(* comment: one_of([';', '#']) then take_till(0.., '\n') *)
Definition comment (i : bytes) : option (event * bytes) :=
  match i with
  | c :: t => if is_comment_tag c then let (text, r) := span not_lf t in Some (Comment c text, r) else None
  | [] => None
  end.

(* take_spaces1: take_while(1.., is_space) *)
Definition take_spaces1 (i : bytes) : option (bytes * bytes) :=
  let (a, r) := span is_space i in if is_nil a then None else Some (a, r).

(* take_newlines1: repeat(1..NEWLINE_REPEAT_END, alt(("\r\n", "\n"))).take()
   (a winnow Range from `1..N` allows at most N-1 repetitions) *)
Fixpoint newlines (n : nat) (i : bytes) : bytes * bytes :=
  match n with
  | O => ([], i)
  | S n' =>
      match i with
      | x0d :: x0a :: t => let (a, r) := newlines n' t in (x0d :: x0a :: a, r)
      | x0a :: t => let (a, r) := newlines n' t in (x0a :: a, r)
      | _ => ([], i)
      end
  end.
Definition take_newlines1 (i : bytes) : option (bytes * bytes) :=
  let (a, r) := newlines (newline_repeat_end - 1) i in if is_nil a then None else Some (a, r).

(* config_name: (one_of(alphabetic), take_while(0.., alnum | '-')).take() *)
Definition config_name (i : bytes) : option (bytes * bytes) :=
  match i with
  | c :: t => if is_alpha c then let (a, r) := span is_name_char t in Some (c :: a, r) else None
  | [] => None
  end.

(* ---- section header -------------------------------------------------------------------- *)

(* subsection_subset = alt((subsection_unescaped, subsection_escaped_char)):
   a run of plain characters, or a backslash followed by one escapable byte of which only the
   escaped byte itself is returned (`one_of(..).take()`) *)
Definition subsection_subset (i : bytes) : option (bytes * bytes) :=
  let (a, r) := span is_subsection_unescaped_char i in
  if negb (is_nil a) then Some (a, r)
  else match i with
       | x5c :: c :: t => if is_subsection_escapable_char c then Some ([c], t) else None
       | _ => None
       end.

(* sub_section: concatenation of the pieces until none matches.  Every piece consumes at least
   one byte, so the input length bounds the number of rounds. *)
Fixpoint sub_section_loop (fuel : nat) (i : bytes) (out : bytes) : outcome (bytes * bytes) perr :=
  match fuel with
  | O => OutOfFuel
  | S f => match subsection_subset i with
           | Some (piece, r) => sub_section_loop f r (out ++ piece)
           | None => Ok (out, i)
           end
  end.
Definition sub_section (i : bytes) : outcome (bytes * bytes) perr :=
  sub_section_loop (S (length i)) i [].

(* `[section]` or the deprecated `[section.subsection]`: the text after the closing bracket is [t2] *)
Definition legacy_header (name t2 : bytes) : outcome (header * bytes) perr :=
  let h := match memrchr x2e name with
           | Some index =>
               Header (firstn index name) (get_range index (S index) name)
                      (get_range (S index) (length name) name)
           | None => Header name None None
           end in
  if is_nil (hname h) then Err Backtrack else Ok (h, t2).

(* `[section "subsection"]`: (take_spaces1, delimited('"', opt(sub_section), "\"]")) on [t1] *)
Definition modern_header (name t1 : bytes) : outcome (header * bytes) perr :=
  match take_spaces1 t1 with
  | None => Err Backtrack
  | Some (ws, t3) =>
      match t3 with
      | q :: t4 =>
          if beqb q x22 then
            match sub_section t4 with
            | Ok (sub, t5) =>
                match t5 with
                | q2 :: b2 :: t6 =>
                    if beqb q2 x22 && beqb b2 x5d then Ok (Header name (Some ws) (Some sub), t6)
                    else Err Backtrack
                | _ => Err Backtrack
                end
            | Err e => Err e | Panic => Panic | OutOfFuel => OutOfFuel
            end
          else Err Backtrack
      | [] => Err Backtrack
      end
  end.

Definition section_header (i : bytes) : outcome (header * bytes) perr :=
  match i with
  | c :: t =>
      if beqb c x5b then
        let (name, t1) := span is_section_char t in
        if is_nil name then Err Backtrack else
        match t1 with
        | c1 :: t2 => if beqb c1 x5d then legacy_header name t2 else modern_header name t1
        | [] => modern_header name t1
        end
      else Err Backtrack
  | [] => Err Backtrack
  end.

(* ---- values ---------------------------------------------------------------------------- *)

(* `i[..value_end].iter().enumerate().rev().find_map(|(idx, b)| (!b.is_ascii_whitespace()).then_some(idx + 1)).unwrap_or(0)` *)
Fixpoint trimmed_len (l : bytes) : nat :=
  match l with
  | [] => 0
  | c :: t => match trimmed_len t with
              | O => if is_ascii_ws c then 0 else 1
              | S k => S (S k)
              end
  end%nat.

Definition is_value_escape (c : byte) : bool := existsb (beqb c) value_escapes.

(* the tail of value_impl after the loop.  [vstart] is the input at value_start_checkpoint, [cur] the
   input where the loop stopped, [off] = i.offset_from(&value_start_checkpoint) at that point. *)
Definition value_finish (vstart cur : bytes) (value_end : option nat) (off : nat)
           (inq partial : bool) (acc : list event) : outcome (list event * bytes) perr :=
  if inq then Err Backtrack else
  let trim (ve : nat) :=
    ('(pre, _) <- unwrap (take_n ve vstart) ;;                     (* i.reset(..); i[..value_end] *)
     let n := trimmed_len pre in
     '(remainder, rest) <- unwrap (take_n n vstart) ;;             (* i.next_slice(n) *)
     Ok ((if partial then ValueDone remainder else Value remainder) :: acc, rest))%outcome in
  match value_end with
  | None => if Nat.eqb off 0
            then Ok ((if partial then ValueDone [] else Value []) :: acc, cur)
            else trim off
  | Some idx => trim idx
  end.

(* the `b'\n'` arm after a backslash: emit ValueNotDone(value before the backslash), skip the
   backslash, emit Newline(the `consumed` bytes after it) *)
Definition continuation (vstart : bytes) (escape_index consumed : nat)
  : outcome (event * event * bytes) perr :=
  ('(value, r) <- unwrap (take_n escape_index vstart) ;;
   let r1 := tl r in
   '(nlb, r2) <- unwrap (take_n consumed r1) ;;
   Ok (ValueNotDone value, Newline nlb, r2))%outcome.

(* the loop of value_impl; one round per byte (the leading take_while of non-special bytes is the
   default arm).  [acc] holds the dispatched events, newest first. *)
Fixpoint value_loop (fuel : nat) (vstart cur : bytes) (off : nat) (inq partial : bool)
         (acc : list event) : outcome (list event * bytes) perr :=
  match fuel with
  | O => OutOfFuel
  | S f =>
    match cur with
    | [] => value_finish vstart cur None off inq partial acc
    | c :: t =>
      let off1 := S off in
      if beqb c x0a then value_finish vstart t (Some (off1 - 1)%nat) off1 inq partial acc
      else if is_comment_tag c && negb inq then value_finish vstart t (Some (off1 - 1)%nat) off1 inq partial acc
      else if beqb c x5c then
          let escape_index := (off1 - 1)%nat in
          match t with
          | [] => Err Backtrack
          | c1 :: t1 =>
              let after :=
                if beqb c1 x0d then
                  match t1 with
                  | [] => Err Backtrack
                  | c2 :: t2 => if beqb c2 x0a then Ok (c2, t2, 2%nat) else Err Backtrack
                  end
                else Ok (c1, t1, 1%nat) in
              match after with
              | Ok (cc, tl1, consumed) =>
                  if beqb cc x0a then
                    match continuation vstart escape_index consumed with
                    | Ok (e1, e2, r2) => value_loop f r2 r2 0 inq true (e2 :: e1 :: acc)
                    | Err e => Err e | Panic => Panic | OutOfFuel => OutOfFuel
                    end
                  else if is_value_escape cc
                       then value_loop f vstart tl1 (off1 + consumed)%nat inq partial acc
                       else Err Backtrack
              | Err e => Err e | Panic => Panic | OutOfFuel => OutOfFuel
              end
          end
      else if beqb c x22 then value_loop f vstart t off1 (negb inq) partial acc
      else value_loop f vstart t off1 inq partial acc
    end
  end.

(* value_impl: events in dispatch order, and the remaining input *)
Definition value_impl (i : bytes) : outcome (list event * bytes) perr :=
  match value_loop (S (length i)) i i 0 false false [] with
  | Ok (acc, r) => Ok (rev acc, r)
  | Err e => Err e | Panic => Panic | OutOfFuel => OutOfFuel
  end.

Definition ws_event (ws : bytes) : list event := if is_nil ws then [] else [Whitespace ws].

(* config_value *)
Definition config_value (i : bytes) : outcome (list event * bytes) perr :=
  match i with
  | x3d :: r =>
      let (ws, r1) := span is_space r in
      match value_impl r1 with
      | Ok (evs, r2) => Ok (KeyValueSeparator :: ws_event ws ++ evs, r2)
      | Err e => Err e | Panic => Panic | OutOfFuel => OutOfFuel
      end
  | _ => Ok ([Value []], i)
  end.

(* key_value_pair *)
Definition key_value_pair (i : bytes) : outcome (list event * bytes) perr :=
  match config_name i with
  | Some (name, r) =>
      let (ws, r1) := span is_space r in
      match config_value r1 with
      | Ok (evs, r2) => Ok (SectionValueName name :: ws_event ws ++ evs, r2)
      | Err e => Err e | Panic => Panic | OutOfFuel => OutOfFuel
      end
  | None => Ok ([], i)
  end.

(* ---- sections -------------------------------------------------------------------------- *)

(* the `loop` of `section`: optional spaces, optional newlines, optional key-value pair, optional
   comment; stops when a round consumed nothing.  [acc]: dispatched events, newest first. *)
Fixpoint section_loop (fuel : nat) (i : bytes) (acc : list event) : outcome (list event * bytes) perr :=
  match fuel with
  | O => OutOfFuel
  | S f =>
      let (ws, i1) := span is_space i in
      let acc1 := rev_append (ws_event ws) acc in
      let '(acc2, i2) := match take_newlines1 i1 with
                         | Some (v, r) => (Newline v :: acc1, r)
                         | None => (acc1, i1)
                         end in
      match key_value_pair i2 with
      | Ok (evs, i3) =>
          let acc3 := rev_append evs acc2 in
          let '(acc4, i4) := match comment i3 with
                             | Some (c, r) => (c :: acc3, r)
                             | None => (acc3, i3)
                             end in
          if Nat.eqb (length i4) (length i) then Ok (acc4, i4) else section_loop f i4 acc4
      | Err e => Err e | Panic => Panic | OutOfFuel => OutOfFuel
      end
  end.

Definition section (fuel : nat) (i : bytes) (acc : list event) : outcome (list event * bytes) perr :=
  match section_header i with
  | Ok (h, r) => section_loop fuel r (SectionHeader h :: acc)
  | Err e => Err e | Panic => Panic | OutOfFuel => OutOfFuel
  end.

(* the loop of winnow's repeat1_ after the first success: a backtracking failure resets the input
   and ends the repetition; a success that consumed nothing is winnow's "parsers must always
   consume" assertion (a panic in debug builds).
   Events dispatched by a section that fails later are dropped here: the reset input is then
   non-empty, so from_bytes returns Err and Events::from_bytes discards everything. *)
Fixpoint sections_more (fuel : nat) (i : bytes) (acc : list event) : outcome (list event * bytes) perr :=
  match fuel with
  | O => OutOfFuel
  | S f =>
      match section (S (length i)) i acc with
      | Ok (acc', r) => if Nat.eqb (length r) (length i) then Panic else sections_more f r acc'
      | Err _ => Ok (acc, i)
      | Panic => Panic
      | OutOfFuel => OutOfFuel
      end
  end.

(* frontmatter: repeat(0.., alt((comment, take_spaces1 -> Whitespace, take_newlines1 -> Newline))).fold(..)
   followed by `.expect(..)`: the "must always consume" assertion would be a panic *)
Definition frontmatter_item (i : bytes) : option (event * bytes) :=
  match comment i with
  | Some r => Some r
  | None => match take_spaces1 i with
            | Some (v, r) => Some (Whitespace v, r)
            | None => match take_newlines1 i with
                      | Some (v, r) => Some (Newline v, r)
                      | None => None
                      end
            end
  end.

Fixpoint frontmatter (fuel : nat) (i : bytes) (acc : list event) : outcome (list event * bytes) perr :=
  match fuel with
  | O => OutOfFuel
  | S f => match frontmatter_item i with
           | Some (e, r) => if Nat.eqb (length r) (length i) then Panic else frontmatter f r (e :: acc)
           | None => Ok (acc, i)
           end
  end.

(* parse::from_bytes: the events in dispatch order *)
Definition from_bytes (input : bytes) : outcome (list event) perr :=
  match take_n (bom_len input) input with                   (* input.next_slice(bom.len()) *)
  | None => Panic
  | Some (_, i0) =>
    match frontmatter (S (length i0)) i0 [] with
    | Ok (acc, i1) =>
        if is_nil i1 then Ok (rev acc) else
        match section (S (length i1)) i1 acc with
        | Ok (acc1, i2) =>
            match sections_more (S (length i2)) i2 acc1 with
            | Ok (acc2, i3) => if is_nil i3 then Ok (rev acc2) else Err Backtrack
            | Err e => Err e | Panic => Panic | OutOfFuel => OutOfFuel
            end
        | Err e => Err e | Panic => Panic | OutOfFuel => OutOfFuel
        end
    | Err e => Err e | Panic => Panic | OutOfFuel => OutOfFuel
    end
  end.

(* ---- parse::Events ------------------------------------------------------------------------ *)

Record psection := PSection { sheader : header; sevents : list event }.
Record events := Events { efrontmatter : list event; esections : list psection }.

(* events.rs from_bytes: the dispatch closure; [cur] = (header, events of the section being filled,
   newest first) *)
Fixpoint group (evs : list event) (front : list event) (cur : option (header * list event))
         (done : list psection) : events :=
  match evs with
  | [] => match cur with
          | None => Events (rev front) (rev done)
          | Some (h, es) => Events (rev front) (rev (PSection h (rev es) :: done))
          end
  | SectionHeader h :: r =>
      match cur with
      | None => group r front (Some (h, [])) done
      | Some (h0, es) => group r front (Some (h, [])) (PSection h0 (rev es) :: done)
      end
  | e :: r =>
      match cur with
      | None => group r (e :: front) None done
      | Some (h0, es) => group r front (Some (h0, e :: es)) done
      end
  end.

Definition events_from_bytes (input : bytes) : outcome events perr :=
  match from_bytes input with
  | Ok evs => Ok (group evs [] None [])
  | Err e => Err e | Panic => Panic | OutOfFuel => OutOfFuel
  end.

(* Events::into_vec *)
Definition into_vec (e : events) : list event :=
  efrontmatter e ++ flat_map (fun s => SectionHeader (sheader s) :: sevents s) (esections e).

(* ---- serialisation ------------------------------------------------------------------------ *)

(* header.rs escape_subsection *)
Fixpoint escape_subsection (l : bytes) : bytes :=
  match l with
  | [] => []
  | x5c :: t => x5c :: x5c :: escape_subsection t
  | x22 :: t => x5c :: x22 :: escape_subsection t
  | c :: t => c :: escape_subsection t
  end.

(* Header::write_to *)
Definition header_write (h : header) : bytes :=
  x5b :: hname h ++
  match hsep h, hsub h with
  | Some sep, Some sub =>
      sep ++ (if bytes_eqb sep [x2e] then sub else x22 :: escape_subsection sub ++ [x22])
  | _, _ => []
  end ++ [x5d].

(* Event::write_to *)
Definition event_write (e : event) : bytes :=
  match e with
  | ValueNotDone v => v ++ [x5c]
  | Whitespace v | Newline v | Value v | ValueDone v => v
  | KeyValueSeparator => [x3d]
  | SectionValueName k => k
  | SectionHeader h => header_write h
  | Comment tag text => tag :: text
  end.

Definition serialize (evs : list event) : bytes := flat_map event_write evs.

(* ---- File::write_to (gix-config/src/file/write.rs, file/section/mod.rs, file/access/read_only.rs) ----
   for a File made by File::from_bytes_no_includes: frontmatter events, the sections in parse order,
   no post-section matter, filter = all sections. *)

Fixpoint is_prefix (p l : bytes) : bool :=
  match p, l with
  | [], _ => true
  | a :: p', b :: l' => beqb a b && is_prefix p' l'
  | _ :: _, [] => false
  end.
(* bstr contains_str *)
Fixpoint contains (l p : bytes) : bool :=
  is_prefix p l || match l with [] => false | _ :: t => contains t p end.

(* Event::to_bstr_lossy *)
Definition to_bstr_lossy (e : event) : bytes :=
  match e with
  | ValueNotDone v | Whitespace v | Newline v | Value v | ValueDone v => v
  | KeyValueSeparator => [x3d]
  | SectionValueName k => k
  | SectionHeader h => hname h
  | Comment _ text => text
  end.

(* write.rs ends_with_newline *)
Fixpoint ends_with_newline_rev (rev_events : list event) (nl : bytes) : bool :=
  match rev_events with
  | [] => false
  | e :: r => if (match e with Whitespace _ | Newline _ => true | _ => false end)
                 && forallb is_ascii_ws (to_bstr_lossy e)
              then (if contains (to_bstr_lossy e) nl then true else ends_with_newline_rev r nl)
              else false
  end.
Definition ends_with_newline (evs : list event) (nl : bytes) (default : bool) : bool :=
  if is_nil evs then default else ends_with_newline_rev (rev evs) nl.

(* write.rs extract_newline *)
Definition extract_newline (e : event) : option bytes :=
  match e with
  | Newline b => Some (if existsb (beqb x0d) b then [x0d; x0a] else [x0a])
  | _ => None
  end.
Fixpoint find_map {A B} (f : A -> option B) (l : list A) : option B :=
  match l with [] => None | x :: t => match f x with Some b => Some b | None => find_map f t end end.

Definition platform_newline : bytes := [x0a].     (* cfg!(windows) is false on the checked platform *)

(* File::detect_newline_style *)
Definition detect_newline_style (e : events) : bytes :=
  match find_map extract_newline (efrontmatter e) with
  | Some nl => nl
  | None => match find_map (fun s => find_map extract_newline (sevents s)) (esections e) with
            | Some nl => nl
            | None => platform_newline
            end
  end.

Fixpoint take_while {A} (p : A -> bool) (l : list A) : list A :=
  match l with [] => [] | x :: t => if p x then x :: take_while p t else [] end.
Definition is_value_name (e : event) : bool := match e with SectionValueName _ => true | _ => false end.

(* the event loop of file::Section::write_to; output accumulated in reverse chunks *)
Fixpoint section_body_write (evs : list event) (nl : bytes) (saw_newline_after_value in_key_value_pair : bool)
  : bytes :=
  match evs with
  | [] => []
  | e :: r =>
      let pre := match e with
                 | SectionValueName _ => if saw_newline_after_value then [] else nl
                 | _ => [] end in
      let saw := match e with
                 | SectionValueName _ => false
                 | Newline _ => if in_key_value_pair then saw_newline_after_value else true
                 | Comment _ _ => false
                 | _ => saw_newline_after_value end in
      let inkv := match e with
                  | SectionValueName _ => true
                  | Value _ | ValueDone _ => false
                  | _ => in_key_value_pair end in
      let post := match e with
                  | ValueNotDone _ => match r with Newline _ :: _ => [] | _ => nl end
                  | _ => [] end in
      pre ++ event_write e ++ post ++ section_body_write r nl saw inkv
  end.

(* file::Section::write_to *)
Definition section_write (s : psection) : bytes :=
  header_write (sheader s) ++
  if is_nil (sevents s) then [] else
  let nl := match find_map extract_newline (sevents s) with Some nl => nl | None => platform_newline end in
  (if existsb (fun e => contains (to_bstr_lossy e) nl) (take_while (fun e => negb (is_value_name e)) (sevents s))
   then [] else nl) ++
  section_body_write (sevents s) nl true false.

Fixpoint sections_write (ss : list psection) (nl : bytes) (prev_ended_with_newline : bool) : bytes :=
  match ss with
  | [] => if prev_ended_with_newline then [] else nl
  | s :: r =>
      (if prev_ended_with_newline then [] else nl) ++ section_write s ++
      sections_write r nl (ends_with_newline (sevents s) nl false)
  end.

(* File::write_to / to_bstring *)
Definition file_write (e : events) : bytes :=
  let nl := detect_newline_style e in
  serialize (efrontmatter e) ++
  (if negb (ends_with_newline (efrontmatter e) nl true) && negb (is_nil (esections e)) then nl else []) ++
  sections_write (esections e) nl true.


(* ======================================================================================== *)
(* Part 3: value lookup (from props/C27)                                                     *)
(*   gix-config/src/value/normalize.rs, file/section/body.rs, file/access/raw.rs, file/util.rs *)
(* ======================================================================================== *)

(* the `while let Some(c) = bytes.next()` loop of normalize; [out_rev] is `out`, newest first.
   `\b` pops the last byte of `out` (no-op when empty); a trailing lone backslash ends the loop. *)
Fixpoint unescape (i : bytes) (out_rev : bytes) : bytes :=
  match i with
  | [] => rev out_rev
  | c :: t =>
      if beqb c x5c then
        match t with
        | [] => rev out_rev
        | d :: t' =>
            if beqb d x6e then unescape t' (x0a :: out_rev)
            else if beqb d x74 then unescape t' (x09 :: out_rev)
            else if beqb d x62 then unescape t' (tl out_rev)
            else unescape t' (d :: out_rev)
        end
      else if beqb c x22 then unescape t out_rev
      else unescape t (c :: out_rev)
  end.

Definition two_quotes : bytes := [x22; x22].

(* the quote-stripping `while` loop; None = the early `return ""` *)
Fixpoint strip_quotes (fuel : nat) (i : bytes) : option bytes :=
  match fuel with
  | O => Some i
  | S f =>
      if Nat.leb 3 (length i) && beqb (hd x00 i) x22 && beqb (last i x00) x22
         && negb (beqb (nth (length i - 2) i x00) x5c)
      then let i' := removelast (tl i) in
           if bytes_eqb i' two_quotes then None else strip_quotes f i'
      else Some i
  end.

Definition is_quote_or_backslash (c : byte) : bool := beqb c x22 || beqb c x5c.

Definition normalize (input : bytes) : bytes :=
  if bytes_eqb input two_quotes then [] else
  match strip_quotes (length input) input with
  | None => []
  | Some i => if existsb is_quote_or_backslash i then unescape i [] else i
  end.

(* u8::to_ascii_lowercase / eq_ignore_ascii_case: PartialEq of section::Name and ValueName *)
Definition lower (c : byte) : byte := if in_range 65 90 c then N2b (b2N c + 32) else c.
Fixpoint eq_ci (a b : bytes) : bool :=
  match a, b with
  | [], [] => true
  | x :: a', y :: b' => beqb (lower x) (lower y) && eq_ci a' b'
  | _, _ => false
  end.

(* File::section_ids_by_name_and_subname.  The lookup tree maps a case-insensitively hashed and
   compared section Name to at most one Terminal node (ids of sections without subsection) and one
   NonTerminal node (exact subsection bytes -> ids); with the tree kept in sync by every edit (see
   NOTES.md: three fixes) its observable content is this filter over the sections in file order;
   every lookup error and the empty id list show the same way (nothing found). *)
Definition sub_matches (hs qs : option bytes) : bool :=
  match hs, qs with
  | None, None => true
  | Some a, Some b => bytes_eqb a b
  | _, _ => false
  end.
Definition sec_matches (name : bytes) (sub : option bytes) (s : psection) : bool :=
  eq_ci (hname (sheader s)) name && sub_matches (hsub (sheader s)) sub.

(* Body::values *)
Fixpoint values_loop (key : bytes) (evs : list event) (expect : bool) (concat : bytes)
         (acc : list bytes) : list bytes :=
  match evs with
  | [] => rev acc
  | e :: r =>
      match e with
      | SectionValueName k =>
          if eq_ci k key then values_loop key r true concat acc else values_loop key r expect concat acc
      | Value v =>
          if expect then values_loop key r false concat (normalize v :: acc)
          else values_loop key r expect concat acc
      | ValueNotDone v =>
          if expect then values_loop key r expect (concat ++ v) acc
          else values_loop key r expect concat acc
      | ValueDone v =>
          if expect then values_loop key r false [] (normalize (concat ++ v) :: acc)
          else values_loop key r expect concat acc
      | _ => values_loop key r expect concat acc
      end
  end.
Definition body_values (evs : list event) (key : bytes) : list bytes := values_loop key evs false [] [].

(* Body::key_and_value_range_by: the reverse scan over `enumerate().rev()`;
   result (key_start, value_range.start, value_range.end) with the range still inclusive *)
Fixpoint kv_range_loop (key : bytes) (ievs : list (nat * event)) (st en : nat) : option (nat * nat * nat) :=
  match ievs with
  | [] => None
  | (i, e) :: r =>
      match e with
      | SectionValueName k => if eq_ci k key then Some (i, st, en) else kv_range_loop key r 0%nat 0%nat
      | Value _ => kv_range_loop key r i i
      | ValueNotDone _ | ValueDone _ =>
          if Nat.eqb en 0 then kv_range_loop key r st i else kv_range_loop key r i en
      | _ => kv_range_loop key r st en
      end
  end.
Definition enumerate_rev (evs : list event) : list (nat * event) := rev (combine (seq 0 (length evs)) evs).
Definition kv_range (evs : list event) (key : bytes) : option (nat * nat * nat) :=
  kv_range_loop key (enumerate_rev evs) 0%nat 0%nat.

(* `&self.0[a..b]` / `self.0.get(a..b)` *)
Definition slice_range {A} (a b : nat) (l : list A) : option (list A) :=
  if Nat.leb a b && Nat.leb b (length l) then Some (firstn (b - a) (skipn a l)) else None.

Definition is_separator (e : event) : bool := match e with KeyValueSeparator => true | _ => false end.
(* has_separator of key_and_value_range_by *)
Definition has_separator (evs : list event) (key_start st : nat) : bool :=
  match slice_range key_start st evs with
  | Some sl => existsb is_separator sl
  | None => false
  end.

Fixpoint vi_loop (evs : list event) (concat : bytes) : option (option bytes) :=
  match evs with
  | [] => None
  | Value v :: _ => Some (Some (normalize v))
  | ValueNotDone v :: r => vi_loop r (concat ++ v)
  | ValueDone v :: _ => Some (Some (normalize (concat ++ v)))
  | _ :: r => vi_loop r concat
  end.

(* Body::value_implicit: None = no such key, Some None = key without `=`, Some (Some v) = value *)
Definition value_implicit (evs : list event) (key : bytes) : outcome (option (option bytes)) perr :=
  match kv_range evs key with
  | None => Ok None
  | Some (key_start, st, en) =>
      if has_separator evs key_start st
      then match slice_range st (S en) evs with
           | None => Panic
           | Some sl => Ok (vi_loop sl [])
           end
      else Ok (Some None)
  end.

Definition flatten2 {A} (o : option (option A)) : option A := match o with Some (Some a) => Some a | _ => None end.

(* raw_value_filter_inner: `for section_id in section_ids.rev()`, Body::value = value_implicit.flatten() *)
Fixpoint raw_value_loop (secs_rev : list psection) (key : bytes) : outcome (option bytes) perr :=
  match secs_rev with
  | [] => Ok None
  | s :: r =>
      match value_implicit (sevents s) key with
      | Ok o => match flatten2 o with Some v => Ok (Some v) | None => raw_value_loop r key end
      | Err e => Err e | Panic => Panic | OutOfFuel => OutOfFuel
      end
  end.

(* File::raw_value_by / raw_values_by *)
Definition raw_value (f : events) (name : bytes) (sub : option bytes) (key : bytes) : outcome (option bytes) perr :=
  raw_value_loop (rev (filter (sec_matches name sub) (esections f))) key.
Definition raw_values (f : events) (name : bytes) (sub : option bytes) (key : bytes) : list bytes :=
  flat_map (fun s => body_values (sevents s) key) (filter (sec_matches name sub) (esections f)).

(* ======================================================================================== *)
(* Part 4: editing                                                                            *)
(*   gix-config/src/file/mutable/{mod,section,value,multi_value}.rs, file/access/{mutate,raw}.rs, *)
(*   parse/section/{header.rs (Header::new), mod.rs (Name / ValueName validation)}              *)
(* ======================================================================================== *)

(* ---- Vec operations with their panics (None = panic) ------------------------------------- *)
Definition vec_insert {A} (i : nat) (x : A) (l : list A) : option (list A) :=
  if Nat.leb i (length l) then Some (firstn i l ++ x :: skipn i l) else None.
Definition vec_remove {A} (i : nat) (l : list A) : option (list A) :=
  if Nat.ltb i (length l) then Some (firstn i l ++ skipn (S i) l) else None.
(* Vec::drain(a..b): (drained, rest) *)
Definition vec_drain {A} (a b : nat) (l : list A) : option (list A * list A) :=
  if Nat.leb a b && Nat.leb b (length l)
  then Some (firstn (b - a) (skipn a l), firstn a l ++ skipn b l) else None.
(* Vec::splice(i..i, xs) *)
Definition vec_insert_many {A} (i : nat) (xs : list A) (l : list A) : option (list A) :=
  if Nat.leb i (length l) then Some (firstn i l ++ xs ++ skipn i l) else None.

(* ---- mutable/mod.rs ------------------------------------------------------------------------ *)

Fixpoint escape_body (v : bytes) : bytes :=
  match v with
  | [] => []
  | c :: t =>
      (if beqb c x0a then [x5c; x6e]
       else if beqb c x09 then [x5c; x74]
       else if beqb c x22 then [x5c; x22]
       else if beqb c x5c then [x5c; x5c]
       else [c]) ++ escape_body t
  end.
(* escape_value *)
Definition escape_value (v : bytes) : bytes :=
  let starts := match v with c :: _ => is_ascii_ws c | [] => false end in
  let ends := match v with [] => false | _ => is_ascii_ws (last v x00) end in
  let quote := starts || ends || existsb is_comment_tag v in
  if quote then x22 :: escape_body v ++ [x22] else escape_body v.

Record whitespace := WS { pre_key : option bytes; pre_sep : option bytes; post_sep : option bytes }.
Definition ws_default : whitespace := WS (Some [x09]) (Some [x20]) (Some [x20]).

Definition ws_of (e : option event) : option bytes :=
  match e with Some (Whitespace w) => Some w | _ => None end.
Fixpoint position_ev (p : event -> bool) (l : list event) : option nat :=
  match l with
  | [] => None
  | e :: t => if p e then Some 0%nat else option_map S (position_ev p t)
  end.
(* Whitespace::from_body *)
Definition ws_from_body (body : list event) : whitespace :=
  match position_ev is_value_name body with
  | None => ws_default
  | Some key_pos =>
      let pk := match key_pos with O => None | S k => ws_of (nth_error body k) end in
      let from_key := skipn key_pos body in
      match position_ev is_separator from_key with
      | None => WS pk None None
      | Some sep_pos =>
          (* `sep_pos - 1`: from_key[0] is the key, so sep_pos >= 1 *)
          WS pk (ws_of (nth_error from_key (sep_pos - 1))) (ws_of (nth_error from_key (S sep_pos)))
      end
  end.
Definition opt_ws (o : option bytes) : list event := match o with Some w => [Whitespace w] | None => [] end.
(* Whitespace::key_value_separators *)
Definition kv_separators (w : whitespace) : list event :=
  opt_ws (pre_sep w) ++ KeyValueSeparator :: opt_ws (post_sep w).

(* ---- mutable/section.rs: SectionMut (implicit_newline = true, whitespace from the body at creation) ---- *)

(* push_with_comment_inner without comment *)
Definition push_events (w : whitespace) (nl : bytes) (key : bytes) (value : option bytes) : list event :=
  opt_ws (pre_key w) ++ SectionValueName key ::
  match value with
  | Some v => kv_separators w ++ [Value (escape_value v)]
  | None => [Value []]
  end ++ [Newline nl].
Definition sm_push (body : list event) (w : whitespace) (nl key : bytes) (value : option bytes) : list event :=
  body ++ push_events w nl key value.

Definition is_newline_ev (e : event) : bool := match e with Newline _ => true | _ => false end.
Definition is_whitespace_ev (e : event) : bool := match e with Whitespace _ => true | _ => false end.
Definition value_bytes (e : event) : bytes :=
  match e with Value v | ValueNotDone v | ValueDone v => v | _ => [] end.

(* remove_internal(range, fix_whitespace): (returned value, new body) *)
Definition remove_internal (body : list event) (a b : nat) (fix_ws : bool) : option (bytes * list event) :=
  let body1 := if fix_ws && match nth_error body b with Some e => is_newline_ev e | None => false end
               then vec_remove b body else Some body in
  match body1 with
  | None => None
  | Some body1 =>
      match vec_drain a b body1 with
      | None => None
      | Some (drained, body2) =>
          let v := flat_map value_bytes drained in
          if fix_ws && match a with O => false | S a' =>
                         match nth_error body2 a' with Some e => is_whitespace_ev e | None => false end end
          then option_map (fun b3 => (v, b3)) (vec_remove (a - 1) body2)
          else Some (v, body2)
      end
  end.

(* SectionMut::set: (previous value, new body) *)
Definition sm_set (body : list event) (w : whitespace) (nl key value : bytes) : option (option bytes * list event) :=
  match kv_range body key with
  | None => Some (None, sm_push body w nl key (Some value))
  | Some (key_start, st, en) =>
      let '(a, b) := if has_separator body key_start st then (st, S en) else (en, S en) in
      match remove_internal body a b false with
      | None => None
      | Some (ret, body1) =>
          option_map (fun b2 => (Some ret, b2)) (vec_insert a (Value (escape_value value)) body1)
      end
  end.

(* SectionMut::remove *)
Definition sm_remove (body : list event) (key : bytes) : option (option bytes * list event) :=
  match kv_range body key with
  | None => Some (None, body)
  | Some (key_start, st, en) =>
      option_map (fun '(v, b) => (Some v, b)) (remove_internal body key_start (S en) true)
  end.

(* ---- names ------------------------------------------------------------------------------------ *)
(* header.rs validated_name (may be empty), is_valid_subsection; section/mod.rs is_valid_value_name *)
Definition valid_section_name (n : bytes) : bool := forallb is_name_char n.
Definition valid_subsection (s : bytes) : bool := negb (existsb (fun c => beqb c x0a || beqb c x00) s).
Definition valid_value_name (n : bytes) : bool :=
  match n with c :: _ => is_alpha c && forallb is_name_char n | [] => false end.
(* Header::new *)
Definition header_new (name : bytes) (sub : option bytes) : option header :=
  if valid_section_name name then
    match sub with
    | Some s => if valid_subsection s then Some (Header name (Some [x20]) (Some s)) else None
    | None => Some (Header name None None)
    end
  else None.

(* ---- File ------------------------------------------------------------------------------------- *)

(* [l = pre ++ x :: post], [x] the LAST element satisfying [p] (`section_ids.next_back()`) *)
Fixpoint split_last {A} (p : A -> bool) (l : list A) : option (list A * A * list A) :=
  match l with
  | [] => None
  | x :: t =>
      match split_last p t with
      | Some (pre, y, post) => Some (x :: pre, y, post)
      | None => if p x then Some ([], x, t) else None
      end
  end.

Inductive res :=
| RNone                      (* Ok(None) / nothing found *)
| RSome (v : bytes)          (* Ok(Some(previous value)) *)
| ROk                        (* Ok(()) *)
| RErrLookup                 (* lookup::existing::Error::*  *)
| RErrHeader                 (* section::header::Error::*   *)
| RErrName                   (* section::value_name::Error  *)
| RVal (v : bytes)           (* a looked-up value *)
| RVals (vs : list bytes).

Definition with_body (s : psection) (b : list event) : psection := PSection (sheader s) b.

(* new_section_inner: push_section_internal + push_newline *)
Definition new_section (f : events) (name : bytes) (sub : option bytes) : option events :=
  match header_new name sub with
  | None => None
  | Some h => Some (Events (efrontmatter f) (esections f ++ [PSection h [Newline (detect_newline_style f)]]))
  end.

(* set_raw_value_by = section_mut_or_create_new + ValueName::try_from + SectionMut::set *)
Definition op_set (f : events) (name : bytes) (sub : option bytes) (key value : bytes) : outcome (events * res) perr :=
  let nl := detect_newline_style f in
  let found := match split_last (sec_matches name sub) (esections f) with
               | Some x => Some (f, x)
               | None => match new_section f name sub with
                         | Some f' => option_map (fun x => (f', x)) (split_last (fun _ => true) (esections f'))
                         | None => None
                         end
               end in
  match found with
  | None => Ok (f, RErrHeader)
  | Some (f1, (pre, s, post)) =>
      if valid_value_name key then
        match sm_set (sevents s) (ws_from_body (sevents s)) nl key value with
        | None => Panic
        | Some (prev, b) =>
            Ok (Events (efrontmatter f1) (pre ++ with_body s b :: post),
                match prev with Some v => RSome v | None => RNone end)
        end
      else Ok (f1, RErrName)
  end.

(* section_mut(name, sub)?.push(key, value) *)
Definition op_push (f : events) (name : bytes) (sub : option bytes) (key : bytes) (value : option bytes)
  : outcome (events * res) perr :=
  match split_last (sec_matches name sub) (esections f) with
  | None => Ok (f, RErrLookup)
  | Some (pre, s, post) =>
      if valid_value_name key then
        Ok (Events (efrontmatter f)
                   (pre ++ with_body s (sm_push (sevents s) (ws_from_body (sevents s)) (detect_newline_style f) key value) :: post),
            ROk)
      else Ok (f, RErrName)
  end.

(* section_mut(name, sub)?.remove(key) *)
Definition op_remove (f : events) (name : bytes) (sub : option bytes) (key : bytes) : outcome (events * res) perr :=
  match split_last (sec_matches name sub) (esections f) with
  | None => Ok (f, RErrLookup)
  | Some (pre, s, post) =>
      match sm_remove (sevents s) key with
      | None => Panic
      | Some (prev, b) =>
          Ok (Events (efrontmatter f) (pre ++ with_body s b :: post),
              match prev with Some v => RSome v | None => RNone end)
      end
  end.

(* raw_value_mut_filter_inner: the scan of one section: (index, size) *)
Fixpoint vm_scan (key : bytes) (ievs : list (nat * event)) (index size : nat) (found : bool) : nat * nat :=
  match ievs with
  | [] => (index, size)
  | (i, e) :: r =>
      match e with
      | SectionValueName k =>
          if eq_ci k key then vm_scan key r i 1 true else vm_scan key r index size found
      | Newline _ | Whitespace _ | ValueNotDone _ | KeyValueSeparator =>
          if found then vm_scan key r index (S size) found else vm_scan key r index size found
      | ValueDone _ | Value _ =>
          if found then vm_scan key r index (S size) false else vm_scan key r index size found
      | _ => vm_scan key r index size found
      end
  end.
Definition vm_locate (body : list event) (key : bytes) : nat * nat :=
  vm_scan key (combine (seq 0 (length body)) body) 0 0 false.

(* the section loop of raw_value_mut_filter_inner over the matching sections, last first:
   [l = pre ++ s :: post], s the last section that satisfies p and has the key *)
Definition has_key (key : bytes) (s : psection) : bool := negb (Nat.eqb (snd (vm_locate (sevents s) key)) 0).

(* ValueMut::set = delete(index, index+size) + set_internal(index, key, value) *)
Definition vm_set (body : list event) (key value : bytes) : option (list event) :=
  let '(index, size) := vm_locate body key in
  let w := ws_from_body body in
  match vec_drain index (index + size) body with
  | None => None
  | Some (_, b1) =>
      (* set_internal inserts the value, then splices `sep_events.into_iter().rev()` in front of it, then the
         key: the separator events end up in REVERSED order (post_sep, `=`, pre_sep) *)
      vec_insert_many index (SectionValueName key :: rev (kv_separators w) ++ [Value (escape_value value)]) b1
  end.
(* ValueMut::delete *)
Definition vm_delete (body : list event) (key : bytes) : option (list event) :=
  let '(index, size) := vm_locate body key in
  option_map snd (vec_drain index (index + size) body).

(* set_existing_raw_value_by / raw_value_mut_by(..)?.delete() *)
Definition op_value_mut (f : events) (name : bytes) (sub : option bytes) (key : bytes)
           (edit : list event -> option (list event)) : outcome (events * res) perr :=
  match split_last (fun s => sec_matches name sub s && has_key key s) (esections f) with
  | None => Ok (f, RErrLookup)
  | Some (pre, s, post) =>
      match edit (sevents s) with
      | None => Panic
      | Some b => Ok (Events (efrontmatter f) (pre ++ with_body s b :: post), ROk)
      end
  end.

(* new_section *)
Definition op_new_section (f : events) (name : bytes) (sub : option bytes) : outcome (events * res) perr :=
  match new_section f name sub with
  | None => Ok (f, RErrHeader)
  | Some f' => Ok (f', ROk)
  end.

(* remove_section: Some(section) shows as ROk, None as RNone *)
Definition op_remove_section (f : events) (name : bytes) (sub : option bytes) : outcome (events * res) perr :=
  match split_last (sec_matches name sub) (esections f) with
  | None => Ok (f, RNone)
  | Some (pre, s, post) => Ok (Events (efrontmatter f) (pre ++ post), ROk)
  end.

(* rename_section: lookup first, then Header::new, then the header is replaced *)
Definition op_rename_section (f : events) (name : bytes) (sub : option bytes) (new_name : bytes) (new_sub : option bytes)
  : outcome (events * res) perr :=
  match split_last (sec_matches name sub) (esections f) with
  | None => Ok (f, RErrLookup)
  | Some (pre, s, post) =>
      match header_new new_name new_sub with
      | None => Ok (f, RErrHeader)
      | Some h => Ok (Events (efrontmatter f) (pre ++ PSection h (sevents s) :: post), ROk)
      end
  end.

Inductive op :=
| OSet (name : bytes) (sub : option bytes) (key value : bytes)
| OPush (name : bytes) (sub : option bytes) (key : bytes) (value : option bytes)
| ORemove (name : bytes) (sub : option bytes) (key : bytes)
| OSetExisting (name : bytes) (sub : option bytes) (key value : bytes)
| ODelete (name : bytes) (sub : option bytes) (key : bytes)
| ONewSection (name : bytes) (sub : option bytes)
| ORemoveSection (name : bytes) (sub : option bytes)
| ORenameSection (name : bytes) (sub : option bytes) (new_name : bytes) (new_sub : option bytes)
| OGet (name : bytes) (sub : option bytes) (key : bytes)
| OGetAll (name : bytes) (sub : option bytes) (key : bytes).

Definition apply_op (f : events) (o : op) : outcome (events * res) perr :=
  match o with
  | OSet n s k v => op_set f n s k v
  | OPush n s k v => op_push f n s k v
  | ORemove n s k => op_remove f n s k
  | OSetExisting n s k v => op_value_mut f n s k (fun b => vm_set b k v)
  | ODelete n s k => op_value_mut f n s k (fun b => vm_delete b k)
  | ONewSection n s => op_new_section f n s
  | ORemoveSection n s => op_remove_section f n s
  | ORenameSection n s n2 s2 => op_rename_section f n s n2 s2
  | OGet n s k =>
      match raw_value f n s k with
      | Ok (Some v) => Ok (f, RVal v)
      | Ok None => Ok (f, RErrLookup)
      | Err e => Err e | Panic => Panic | OutOfFuel => OutOfFuel
      end
  | OGetAll n s k =>
      match raw_values f n s k with
      | [] => Ok (f, RErrLookup)
      | vs => Ok (f, RVals vs)
      end
  end.

(* a history of edits *)
Fixpoint apply_ops (f : events) (os : list op) : outcome events perr :=
  match os with
  | [] => Ok f
  | o :: r =>
      match apply_op f o with
      | Ok (f', _) => apply_ops f' r
      | Err e => Err e | Panic => Panic | OutOfFuel => OutOfFuel
      end
  end.
