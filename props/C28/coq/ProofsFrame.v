(* C28 — frame property at the level of sections: an edit (and a history of edits) leaves the front
   matter and every section that is not addressed by the edit exactly as it was, in the same order. *)
From Coq Require Import Lia.
From GixV.Base Require Import Bytes BytesFacts Outcome.
From GixV.C28 Require Import Tables Model.

Definition target := (bytes * option bytes)%type.
Definition hits (t : target) (s : psection) : bool := sec_matches (fst t) (snd t) s.
Definition untouched (ts : list target) (s : psection) : bool := negb (existsb (fun t => hits t s) ts).

(* the (section name, subsection) pairs an operation addresses *)
Definition op_targets (o : op) : list target :=
  match o with
  | OSet n s _ _ | OPush n s _ _ | ORemove n s _ | OSetExisting n s _ _ | ODelete n s _
  | ONewSection n s | ORemoveSection n s | OGet n s _ | OGetAll n s _ => [(n, s)]
  | ORenameSection n s n2 s2 => [(n, s); (n2, s2)]
  end.

Lemma split_last_none {A} (p : A -> bool) l :
  split_last p l = None -> forallb (fun y => negb (p y)) l = true.
Proof.
  induction l as [|a t IH]; cbn [split_last forallb]; [reflexivity|].
  destruct (split_last p t) as [[[pre y] post]|]; [discriminate|].
  destruct (p a); [discriminate|]. intros _. now rewrite IH.
Qed.

Lemma split_last_spec {A} (p : A -> bool) l : forall pre x post,
  split_last p l = Some (pre, x, post) ->
  l = pre ++ x :: post /\ p x = true /\ forallb (fun y => negb (p y)) post = true.
Proof.
  induction l as [|a t IH]; intros pre x post H; cbn [split_last] in H; [discriminate|].
  destruct (split_last p t) as [[[pre' y] post']|] eqn:E.
  - injection H as <- <- <-. destruct (IH _ _ _ eq_refl) as (-> & Hp & Hpost). repeat split; auto.
  - destruct (p a) eqn:Pa; [|discriminate]. injection H as <- <- <-. repeat split; auto.
    now apply split_last_none.
Qed.

Lemma split_last_true_snoc {A} (l : list A) x : split_last (fun _ => true) (l ++ [x]) = Some (l, x, []).
Proof. induction l as [|a t IH]; cbn [app split_last]; [reflexivity|]. now rewrite IH. Qed.

Lemma lower_idem_eq c : beqb (lower c) (lower c) = true.
Proof. apply beqb_eq. reflexivity. Qed.
Lemma eq_ci_refl a : eq_ci a a = true.
Proof. induction a as [|c t IH]; cbn [eq_ci]; [reflexivity|]. now rewrite lower_idem_eq, IH. Qed.
Lemma bytes_eqb_refl a : bytes_eqb a a = true.
Proof. now apply bytes_eqb_eq. Qed.
Lemma sub_matches_refl s : sub_matches s s = true.
Proof. destruct s; cbn [sub_matches]; [apply bytes_eqb_refl | reflexivity]. Qed.

Lemma header_new_spec n s h : header_new n s = Some h -> hname h = n /\ hsub h = s.
Proof.
  unfold header_new. destruct (valid_section_name n); [|discriminate].
  destruct s as [s|].
  - destruct (valid_subsection s); [|discriminate]. intros H. injection H as <-. split; reflexivity.
  - intros H. injection H as <-. split; reflexivity.
Qed.

Lemma hits_new n s h b : header_new n s = Some h -> hits (n, s) (PSection h b) = true.
Proof.
  intros H. apply header_new_spec in H as [Hn Hs]. unfold hits, sec_matches. cbn [fst snd sheader].
  rewrite Hn, Hs, eq_ci_refl, sub_matches_refl. reflexivity.
Qed.

Lemma untouched_hit ts t s : In t ts -> hits t s = true -> untouched ts s = false.
Proof.
  intros Hin Hh. unfold untouched. apply Bool.negb_false_iff. apply existsb_exists. now exists t.
Qed.

Lemma hits_with_body t s b : hits t (with_body s b) = hits t s.
Proof. reflexivity. Qed.

Lemma filter_replace (p : psection -> bool) pre x x' post :
  p x = false -> p x' = false -> filter p (pre ++ x' :: post) = filter p (pre ++ x :: post).
Proof. intros H H'. rewrite !filter_app. cbn [filter]. now rewrite H, H'. Qed.

Lemma filter_drop (p : psection -> bool) pre x post :
  p x = false -> filter p (pre ++ post) = filter p (pre ++ x :: post).
Proof. intros H. rewrite !filter_app. cbn [filter]. now rewrite H. Qed.

Lemma filter_snoc_drop (p : psection -> bool) l x : p x = false -> filter p (l ++ [x]) = filter p l.
Proof. intros H. rewrite filter_app. cbn [filter]. rewrite H. apply app_nil_r. Qed.

Definition frame (ts : list target) (f f' : events) : Prop :=
  efrontmatter f' = efrontmatter f /\
  filter (untouched ts) (esections f') = filter (untouched ts) (esections f).

Lemma frame_refl ts f : frame ts f f.
Proof. split; reflexivity. Qed.

Ltac inv_ok H := first [injection H as <- <- | discriminate H].

Lemma new_section_shape f n s f' :
  new_section f n s = Some f' ->
  exists h, header_new n s = Some h /\ efrontmatter f' = efrontmatter f /\
            esections f' = esections f ++ [PSection h [Newline (detect_newline_style f)]].
Proof.
  unfold new_section. destruct (header_new n s) as [h|] eqn:E; [|discriminate].
  intros H. injection H as <-. exists h. repeat split; reflexivity.
Qed.

Lemma L_op_set_frame f n s k v f' r : op_set f n s k v = Ok (f', r) -> frame [(n, s)] f f'.
Proof.
  unfold op_set.
  destruct (split_last (sec_matches n s) (esections f)) as [[[pre x] post]|] eqn:E.
  - apply split_last_spec in E as (El & Ep & _).
    assert (Hx : untouched [(n, s)] x = false) by (apply (untouched_hit _ (n, s)); [now left | exact Ep]).
    destruct (valid_value_name k); [|intros H; inv_ok H; apply frame_refl].
    destruct (sm_set _ _ _ _ _) as [[prev b]|]; [|discriminate].
    intros H. inv_ok H. split; [reflexivity|]. cbn [esections]. rewrite El.
    apply filter_replace; [exact Hx|]. unfold untouched in *. cbn [existsb] in *. now rewrite hits_with_body.
  - destruct (new_section f n s) as [f1|] eqn:N; cbn [option_map].
    + destruct (new_section_shape _ _ _ _ N) as (h & Hh & Hf & Hs).
      rewrite Hs, split_last_true_snoc. cbn [option_map].
      assert (Hx : forall b, untouched [(n, s)] (PSection h b) = false).
      { intros b. apply (untouched_hit _ (n, s)); [now left | now apply hits_new]. }
      destruct (valid_value_name k).
      * destruct (sm_set _ _ _ _ _) as [[prev b]|]; [|discriminate].
        intros H. inv_ok H. split; [exact Hf|]. cbn [esections]. unfold with_body. cbn [sheader].
        now rewrite filter_snoc_drop by apply Hx.
      * intros H. inv_ok H. split; [exact Hf|]. rewrite Hs. now rewrite filter_snoc_drop by apply Hx.
    + intros H. inv_ok H. apply frame_refl.
Qed.

Lemma L_op_push_frame f n s k v f' r : op_push f n s k v = Ok (f', r) -> frame [(n, s)] f f'.
Proof.
  unfold op_push.
  destruct (split_last (sec_matches n s) (esections f)) as [[[pre x] post]|] eqn:E;
    [|intros H; inv_ok H; apply frame_refl].
  apply split_last_spec in E as (El & Ep & _).
  assert (Hx : untouched [(n, s)] x = false) by (apply (untouched_hit _ (n, s)); [now left | exact Ep]).
  destruct (valid_value_name k); [|intros H; inv_ok H; apply frame_refl].
  intros H. inv_ok H. split; [reflexivity|]. cbn [esections]. rewrite El.
  apply filter_replace; [exact Hx|]. unfold untouched in *. cbn [existsb] in *. now rewrite hits_with_body.
Qed.

Lemma L_op_remove_frame f n s k f' r : op_remove f n s k = Ok (f', r) -> frame [(n, s)] f f'.
Proof.
  unfold op_remove.
  destruct (split_last (sec_matches n s) (esections f)) as [[[pre x] post]|] eqn:E;
    [|intros H; inv_ok H; apply frame_refl].
  apply split_last_spec in E as (El & Ep & _).
  assert (Hx : untouched [(n, s)] x = false) by (apply (untouched_hit _ (n, s)); [now left | exact Ep]).
  destruct (sm_remove _ _) as [[prev b]|]; [|discriminate].
  intros H. inv_ok H. split; [reflexivity|]. cbn [esections]. rewrite El.
  apply filter_replace; [exact Hx|]. unfold untouched in *. cbn [existsb] in *. now rewrite hits_with_body.
Qed.

Lemma L_op_value_mut_frame f n s k edit f' r : op_value_mut f n s k edit = Ok (f', r) -> frame [(n, s)] f f'.
Proof.
  unfold op_value_mut.
  destruct (split_last _ (esections f)) as [[[pre x] post]|] eqn:E;
    [|intros H; inv_ok H; apply frame_refl].
  apply split_last_spec in E as (El & Ep & _). apply Bool.andb_true_iff in Ep as [Ep _].
  assert (Hx : untouched [(n, s)] x = false) by (apply (untouched_hit _ (n, s)); [now left | exact Ep]).
  destruct (edit _) as [b|]; [|discriminate].
  intros H. inv_ok H. split; [reflexivity|]. cbn [esections]. rewrite El.
  apply filter_replace; [exact Hx|]. unfold untouched in *. cbn [existsb] in *. now rewrite hits_with_body.
Qed.

Lemma L_op_new_section_frame f n s f' r : op_new_section f n s = Ok (f', r) -> frame [(n, s)] f f'.
Proof.
  unfold op_new_section. destruct (new_section f n s) as [f1|] eqn:N; [|intros H; inv_ok H; apply frame_refl].
  destruct (new_section_shape _ _ _ _ N) as (h & Hh & Hf & Hs).
  intros H. inv_ok H. split; [exact Hf|]. rewrite Hs. apply filter_snoc_drop.
  apply (untouched_hit _ (n, s)); [now left | now apply hits_new].
Qed.

Lemma L_op_remove_section_frame f n s f' r : op_remove_section f n s = Ok (f', r) -> frame [(n, s)] f f'.
Proof.
  unfold op_remove_section.
  destruct (split_last (sec_matches n s) (esections f)) as [[[pre x] post]|] eqn:E;
    [|intros H; inv_ok H; apply frame_refl].
  apply split_last_spec in E as (El & Ep & _).
  intros H. inv_ok H. split; [reflexivity|]. cbn [esections]. rewrite El. apply filter_drop.
  apply (untouched_hit _ (n, s)); [now left | exact Ep].
Qed.

Lemma L_op_rename_section_frame f n s n2 s2 f' r :
  op_rename_section f n s n2 s2 = Ok (f', r) -> frame [(n, s); (n2, s2)] f f'.
Proof.
  unfold op_rename_section.
  destruct (split_last (sec_matches n s) (esections f)) as [[[pre x] post]|] eqn:E;
    [|intros H; inv_ok H; apply frame_refl].
  apply split_last_spec in E as (El & Ep & _).
  destruct (header_new n2 s2) as [h|] eqn:Hh; [|intros H; inv_ok H; apply frame_refl].
  intros H. inv_ok H. split; [reflexivity|]. cbn [esections]. rewrite El. apply filter_replace.
  - apply (untouched_hit _ (n, s)); [now left | exact Ep].
  - apply (untouched_hit _ (n2, s2)); [right; now left | now apply hits_new].
Qed.

Lemma L_op_frame f o f' r : apply_op f o = Ok (f', r) -> frame (op_targets o) f f'.
Proof.
  destruct o; cbn [apply_op op_targets]; intros H.
  - eapply L_op_set_frame; eauto.
  - eapply L_op_push_frame; eauto.
  - eapply L_op_remove_frame; eauto.
  - eapply L_op_value_mut_frame; eauto.
  - eapply L_op_value_mut_frame; eauto.
  - eapply L_op_new_section_frame; eauto.
  - eapply L_op_remove_section_frame; eauto.
  - eapply L_op_rename_section_frame; eauto.
  - destruct (raw_value f name sub key) as [[v|]| | |]; try discriminate; inv_ok H; apply frame_refl.
  - destruct (raw_values f name sub key); inv_ok H; apply frame_refl.
Qed.

(* ---- histories ---------------------------------------------------------------------------- *)

Lemma untouched_app ts1 ts2 s : untouched (ts1 ++ ts2) s = untouched ts1 s && untouched ts2 s.
Proof. unfold untouched. rewrite existsb_app. apply Bool.negb_orb. Qed.

Lemma filter_andb {A} (p q : A -> bool) l : filter (fun x => p x && q x) l = filter p (filter q l).
Proof.
  induction l as [|a t IH]; cbn [filter]; [reflexivity|].
  destruct (q a) eqn:Q; cbn [filter]; destruct (p a) eqn:P; cbn [andb]; now rewrite IH.
Qed.
Lemma filter_comm {A} (p q : A -> bool) l : filter p (filter q l) = filter q (filter p l).
Proof.
  rewrite <- !filter_andb. apply filter_ext. intros a. apply Bool.andb_comm.
Qed.
Lemma filter_untouched_app ts1 ts2 l :
  filter (untouched (ts1 ++ ts2)) l = filter (untouched ts1) (filter (untouched ts2) l).
Proof. rewrite <- filter_andb. apply filter_ext. intros a. apply untouched_app. Qed.

Lemma L_ops_frame os : forall f f', apply_ops f os = Ok f' -> frame (flat_map op_targets os) f f'.
Proof.
  induction os as [|o r IH]; intros f f' H; cbn [apply_ops] in H.
  - injection H as <-. apply frame_refl.
  - destruct (apply_op f o) as [[f1 res]| | |] eqn:E; try discriminate.
    apply L_op_frame in E as [Ef Es]. apply IH in H as [Hf Hs].
    split; [now rewrite Hf|]. cbn [flat_map].
    rewrite !filter_untouched_app. rewrite Hs.
    rewrite (filter_comm _ _ (esections f1)), Es. apply filter_comm.
Qed.
