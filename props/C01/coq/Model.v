(* C01 — executable model of gitoxide's object serialisation and of the separately written size
   computations.  NO proofs here.

   Sources (pinned tree in /repo):
     gix-date/src/time/write.rs            Time::write_to, Time::size   (ladder/constants: Tables.v)
     gix-actor/src/signature/mod.rs        SignatureRef::{write_to,size}, validated_token
     gix-object/src/encode.rs              loose_header, header_field, header_field_multi_line,
                                           trusted_header_{field,signature,id}
     gix-object/src/tree/mod.rs            EntryMode::{as_bytes,is_tree}, Ord for Entry/EntryRef
     gix-object/src/tree/write.rs          Tree/TreeRef::{write_to,size}  (incl. the debug assertion)
     gix-object/src/commit/write.rs        Commit/CommitRef::{write_to,size}
     gix-object/src/tag/write.rs           Tag/TagRef::{write_to,size}, validated_name
     gix-validate/src/tag.rs               name_inner in Mode::Validate
     gix-object/src/blob.rs                Blob::{write_to,size}
     gix-object/src/lib.rs                 compute_hash (formula; the digest is a parameter)
     gix-object/src/traits.rs              WriteTo::loose_header
     gix-odb/src/store_impls/loose/write.rs  Store::write: header ++ body through the hasher

   Conventions: `out: &mut dyn io::Write` is a Vec, so the only `Err`s are the explicit ones; every
   error collapses to [EIo] (they all travel as io::Error).  Output written before an `Err` is not
   observable (the caller discards the buffer), so writers return the whole byte string or fail.
   itoa of i64/u64/u32 is [Z_to_dec]/[N_to_dec].  usize/u64 sums of lengths cannot overflow for
   in-memory values and are plain [N].  bstr's [find_byteset]/[find_byte]/[find] are [existsb];
   [lines_with_terminator] is [lines_wt]. *)
From GixV.Base Require Import Bytes Outcome.
From GixV.C01 Require Import Tables.
Local Open Scope N_scope.

Inductive err := EIo.

Definition len (b : bytes) : N := N.of_nat (length b).

(* ---- gix_date::Time ------------------------------------------------------------------- *)

Record time := mkTime { t_seconds : Z; t_offset : Z; t_minus : bool }.

Definition op_holds (o : cmp_op) (s thr : Z) : bool :=
  match o with
  | OpGe => Z.geb s thr | OpGt => Z.gtb s thr
  | OpLe => Z.leb s thr | OpLt => Z.ltb s thr | OpEq => Z.eqb s thr
  end.

Fixpoint ladder_eval (s : Z) (l : list (cmp_op * Z * N)) (dflt : N) : N :=
  match l with
  | [] => dflt
  | (o, thr, v) :: r => if op_holds o s thr then v else ladder_eval s r dflt
  end.

(* Time::size() *)
Definition time_size (t : time) : N :=
  ladder_eval (t_seconds t) time_ladder time_ladder_else + time_size_tail.

Definition pad_below (limit n : N) : bytes :=
  (if n <? limit then bs "0" else []) ++ N_to_dec n.

(* Time::write_to(): offset.unsigned_abs() of an i32 is its absolute value as u32 *)
Definition time_write (t : time) : outcome bytes err :=
  let offset := Z.abs_N (t_offset t) in
  let hours := offset / seconds_per_hour in
  let minutes := (offset - hours * seconds_per_hour) / minutes_divisor in
  if (if hours_reject_strict then hours_limit <? hours else hours_limit <=? hours) then Err EIo
  else Ok (Z_to_dec (t_seconds t) ++ bs " " ++ (if t_minus t then bs "-" else bs "+")
           ++ pad_below hours_pad_below hours ++ pad_below minutes_pad_below minutes).

(* ---- gix_actor::SignatureRef ---------------------------------------------------------- *)

Record sig := mkSig { s_name : bytes; s_email : bytes; s_time : time }.

Definition illegal_in_token (b : byte) : bool :=
  beqb b "<"%byte || beqb b ">"%byte || beqb b x0a.

Definition validated_token (n : bytes) : outcome bytes err :=
  if existsb illegal_in_token n then Err EIo else Ok n.

Definition sig_write (s : sig) : outcome bytes err :=
  (n <- validated_token (s_name s) ;;
   e <- validated_token (s_email s) ;;
   t <- time_write (s_time s) ;;
   Ok (n ++ bs " " ++ bs "<" ++ e ++ bs "> " ++ t))%outcome.

Definition sig_size (s : sig) : N :=
  len (s_name s) + 2 + len (s_email s) + 2 + time_size (s_time s).

(* ---- gix_object::encode --------------------------------------------------------------- *)

Inductive kind := KTree | KBlob | KCommit | KTag.
Definition kind_bytes (k : kind) : bytes :=
  match k with
  | KTree => bs "tree" | KBlob => bs "blob" | KCommit => bs "commit" | KTag => bs "tag"
  end.

Definition NL : bytes := [x0a].
Definition SPACE : bytes := [x20].

Definition loose_header (k : kind) (size : N) : bytes :=
  kind_bytes k ++ SPACE ++ N_to_dec size ++ [x00].

Definition trusted_header_field (name value : bytes) : bytes :=
  name ++ SPACE ++ value ++ NL.

(* ObjectId::write_hex_to *)
Definition trusted_header_id (name id : bytes) : bytes :=
  name ++ SPACE ++ hex_encode id ++ NL.

Definition trusted_header_signature (name : bytes) (s : sig) : outcome bytes err :=
  (w <- sig_write s ;; Ok (name ++ SPACE ++ w ++ NL))%outcome.

Definition is_nl (b : byte) : bool := beqb b x0a.

Definition header_field (name value : bytes) : outcome bytes err :=
  match value with
  | [] => Err EIo
  | _ => if existsb is_nl value then Err EIo else Ok (trusted_header_field name value)
  end.

(* bstr lines_with_terminator: cut after every \n; a trailing piece without \n is a line when
   non-empty.  [cur] is the current line, reversed. *)
Fixpoint lines_wt_aux (cur : bytes) (v : bytes) : list bytes :=
  match v with
  | [] => match cur with [] => [] | _ => [rev cur] end
  | b :: r => if is_nl b then rev (b :: cur) :: lines_wt_aux [] r else lines_wt_aux (b :: cur) r
  end.
Definition lines_wt (v : bytes) : list bytes := lines_wt_aux [] v.

Definition ends_with_nl (v : bytes) : bool :=
  match rev v with b :: _ => is_nl b | [] => false end.

Definition header_field_multi_line (name value : bytes) : outcome bytes err :=
  match lines_wt value with
  | [] => Err EIo
  | first :: rest =>
      Ok (name ++ SPACE ++ first ++ concat (map (fun l => SPACE ++ l) rest)
          ++ (if ends_with_nl value then [] else NL))
  end.

(* the size formula used by Commit::size for one extra header *)
Definition extra_header_size (name value : bytes) : N :=
  len name + fold_right (fun l acc => len l + 1 + acc) 0 (lines_wt value)
  + (if ends_with_nl value then 0 else 1).

(* ---- ObjectId::from_hex (gix-hash; modelled in C05) ------------------------------------ *)

Definition oid_from_hex (buf : bytes) : option bytes :=
  if Nat.eqb (length buf) 40 then hex_decode buf else None.

(* ---- tree ------------------------------------------------------------------------------ *)

Record entry := mkEntry { e_mode : N; e_name : bytes; e_oid : bytes }.

(* EntryMode::as_bytes: octal digits of a u16, "0" for 0; the backing buffer has 6 bytes which is
   what a u16 needs, the loop is modelled with that fuel *)
Fixpoint oct_digits (fuel : nat) (n : N) (acc : bytes) : bytes :=
  match fuel with
  | O => acc
  | S f => if n =? 0 then acc else oct_digits f (n / 8) (N2b (48 + n mod 8) :: acc)
  end.
Definition mode_bytes (m : N) : bytes :=
  if m =? 0 then bs "0" else oct_digits 6 m [].

Definition is_tree_mode (m : N) : bool := N.land m 61440 =? 16384.   (* & 0o170000 == 0o040000 *)

Definition cmp_then (c1 c2 : comparison) : comparison :=
  match c1 with Eq => c2 | _ => c1 end.

(* Option<&u8>::cmp *)
Definition opt_byte_cmp (a b : option byte) : comparison :=
  match a, b with
  | None, None => Eq
  | None, Some _ => Lt
  | Some _, None => Gt
  | Some x, Some y => N.compare (b2N x) (b2N y)
  end.

Definition byte_after (e : entry) (common : nat) : option byte :=
  match nth_error (e_name e) common with
  | Some b => Some b
  | None => if is_tree_mode (e_mode e) then Some "/"%byte else None
  end.

(* impl Ord for Entry / EntryRef *)
Definition entry_cmp (a b : entry) : comparison :=
  let common := Nat.min (length (e_name a)) (length (e_name b)) in
  cmp_then (bytes_cmp (firstn common (e_name a)) (firstn common (e_name b)))
           (opt_byte_cmp (byte_after a common) (byte_after b common)).

(* `entries == { sorted clone }` with a stable sort: holds iff no adjacent pair is out of order
   (exact when [entry_cmp] is a total preorder on the entries, i.e. names without '/') *)
Fixpoint sorted_adjacent (l : list entry) : bool :=
  match l with
  | a :: (b :: _) as r =>
      match entry_cmp a b with Gt => false | _ => sorted_adjacent r end
  | _ => true
  end.

Definition is_nul (b : byte) : bool := beqb b x00.

Fixpoint tree_body (l : list entry) : outcome bytes err :=
  match l with
  | [] => Ok []
  | e :: r =>
      if existsb is_nul (e_name e) then Err EIo
      else (rest <- tree_body r ;;
            Ok (mode_bytes (e_mode e) ++ SPACE ++ e_name e ++ [x00] ++ e_oid e ++ rest))%outcome
  end.

(* Tree::write_to / TreeRef::write_to; [debug] = debug assertions compiled in *)
Definition tree_write (debug : bool) (l : list entry) : outcome bytes err :=
  if debug && negb (sorted_adjacent l) then Panic else tree_body l.

Definition tree_size (l : list entry) : N :=
  fold_right (fun e acc => len (mode_bytes (e_mode e)) + 1 + len (e_name e) + 1 + len (e_oid e) + acc) 0 l.

(* ---- commit ---------------------------------------------------------------------------- *)

Record commit := mkCommit {
  c_tree : bytes;                 (* Commit: 20 raw bytes; CommitRef: the hex text *)
  c_parents : list bytes;
  c_author : sig;
  c_committer : sig;
  c_encoding : option bytes;
  c_extra : list (bytes * bytes);
  c_message : bytes }.

Fixpoint extra_headers_write (l : list (bytes * bytes)) : outcome bytes err :=
  match l with
  | [] => Ok []
  | (n, v) :: r =>
      (h <- header_field_multi_line n v ;; rest <- extra_headers_write r ;; Ok (h ++ rest))%outcome
  end.

Definition commit_tail_write (c : commit) : outcome bytes err :=
  (a <- trusted_header_signature (bs "author") (c_author c) ;;
   cm <- trusted_header_signature (bs "committer") (c_committer c) ;;
   en <- match c_encoding c with
         | Some e => header_field (bs "encoding") e
         | None => Ok []
         end ;;
   ex <- extra_headers_write (c_extra c) ;;
   Ok (a ++ cm ++ en ++ ex ++ NL ++ c_message c))%outcome.

(* impl WriteTo for Commit *)
Definition commit_write (c : commit) : outcome bytes err :=
  (t <- commit_tail_write c ;;
   Ok (trusted_header_id (bs "tree") (c_tree c)
       ++ concat (map (trusted_header_id (bs "parent")) (c_parents c)) ++ t))%outcome.

Definition commit_size_with (hash_in_hex : N) (c : commit) : N :=
  4 + 1 + hash_in_hex + 1
  + N.of_nat (length (c_parents c)) * (6 + 1 + hash_in_hex + 1)
  + 6 + 1 + sig_size (c_author c) + 1
  + 9 + 1 + sig_size (c_committer c) + 1
  + match c_encoding c with Some e => 8 + 1 + len e + 1 | None => 0 end
  + fold_right (fun nv acc => extra_header_size (fst nv) (snd nv) + acc) 0 (c_extra c)
  + 1
  + len (c_message c).

(* Commit::size: tree.kind().len_in_hex() is 40 (Sha1 is the only kind) *)
Definition commit_size (c : commit) : N := commit_size_with 40 c.

(* impl WriteTo for CommitRef: tree()/parents() re-parse the hex text and `expect` *)
Fixpoint parse_all (l : list bytes) : option (list bytes) :=
  match l with
  | [] => Some []
  | h :: r => match oid_from_hex h, parse_all r with
              | Some id, Some ids => Some (id :: ids)
              | _, _ => None
              end
  end.

Definition commitref_write (c : commit) : outcome bytes err :=
  match oid_from_hex (c_tree c) with
  | None => Panic
  | Some t =>
      match parse_all (c_parents c) with
      | None => Panic
      | Some ps =>
          (tl <- commit_tail_write c ;;
           Ok (trusted_header_id (bs "tree") t
               ++ concat (map (trusted_header_id (bs "parent")) ps) ++ tl))%outcome
      end
  end.

Definition commitref_size (c : commit) : outcome N err :=
  match oid_from_hex (c_tree c) with
  | None => Panic
  | Some _ => Ok (commit_size_with 40 c)
  end.

(* ---- tag ------------------------------------------------------------------------------- *)

Record tag := mkTag {
  g_target : bytes;               (* Tag: 20 raw bytes; TagRef: the hex text *)
  g_kind : kind;
  g_name : bytes;
  g_tagger : option sig;
  g_message : bytes;
  g_pgp : option bytes }.

(* gix_validate::tag::name_inner(input, Mode::Validate); every error is the same [false] *)
Definition invalid_ref_byte (b : byte) : bool :=
  let n := b2N b in
  (n <=? 31) || (n =? 127)
  || beqb b "\"%byte || beqb b "^"%byte || beqb b ":"%byte || beqb b "["%byte
  || beqb b "?"%byte || beqb b " "%byte || beqb b "~"%byte.

Definition ends_with (s suffix : bytes) : bool :=
  Nat.leb (length suffix) (length s)
  && bytes_eqb (skipn (length s - length suffix) s) suffix.

Definition slice (s : bytes) (from to : nat) : bytes := firstn (to - from) (skipn from s).

Definition dot_lock : bytes := bs ".lock".

(* the `for (byte_pos, byte) in input.iter().enumerate()` loop; true = no error *)
Fixpoint name_loop (input : bytes) (last : nat) (rest : bytes)
         (byte_pos : nat) (previous : byte) (component_end : nat) : bool :=
  match rest with
  | [] => true
  | b :: r =>
      if invalid_ref_byte b then false
      else if beqb b "*"%byte then false
      else if beqb b "."%byte && beqb previous "."%byte then false
      else if beqb b "."%byte && beqb previous "/"%byte then false
      else if beqb b "{"%byte && beqb previous "@"%byte then false
      else if beqb b "/"%byte && beqb previous "/"%byte then false
      else
        let component_start := component_end in
        let component_end' := if beqb b "/"%byte then byte_pos else component_end in
        if beqb b "/"%byte && ends_with (slice input component_start component_end') dot_lock then false
        else if Nat.eqb byte_pos last && ends_with (skipn (component_end' + 1) input) dot_lock then false
        else name_loop input last r (S byte_pos) b component_end'
  end.

Definition tag_name_valid (input : bytes) : bool :=
  match input with
  | [] => false
  | first :: _ =>
      let lastb := last input x00 in
      if beqb lastb "/"%byte then false
      else if beqb first "/"%byte then false
      else if negb (name_loop input (length input - 1) input 0 x00 0) then false
      else if beqb first "."%byte then false
      else if beqb lastb "."%byte then false
      else true
  end.

(* tag::write::validated_name *)
Definition validated_name (name : bytes) : outcome bytes err :=
  if tag_name_valid name then
    match name with
    | b :: _ => if beqb b "-"%byte then Err EIo else Ok name
    | [] => Panic                      (* name[0] on an empty name; unreachable after validation *)
    end
  else Err EIo.

Definition tag_tail_write (g : tag) : outcome bytes err :=
  (n <- validated_name (g_name g) ;;
   hf <- header_field (bs "tag") n ;;
   tg <- match g_tagger g with
         | Some s => trusted_header_signature (bs "tagger") s
         | None => Ok []
         end ;;
   Ok (trusted_header_field (bs "type") (kind_bytes (g_kind g)) ++ hf ++ tg ++ NL
       ++ g_message g
       ++ match g_pgp g with Some m => NL ++ m | None => [] end))%outcome.

(* impl WriteTo for Tag *)
Definition tag_write (g : tag) : outcome bytes err :=
  (t <- tag_tail_write g ;; Ok (trusted_header_id (bs "object") (g_target g) ++ t))%outcome.

Definition tag_size_with (hash_in_hex : N) (g : tag) : N :=
  6 + 1 + hash_in_hex + 1
  + 4 + 1 + len (kind_bytes (g_kind g)) + 1
  + 3 + 1 + len (g_name g) + 1
  + match g_tagger g with Some s => 6 + 1 + sig_size s + 1 | None => 0 end
  + 1 + len (g_message g)
  + match g_pgp g with Some m => 1 + len m | None => 0 end.

Definition tag_size (g : tag) : N := tag_size_with 40 g.

(* impl WriteTo for TagRef: `object` is written verbatim, size() re-parses it *)
Definition tagref_write (g : tag) : outcome bytes err :=
  (t <- tag_tail_write g ;; Ok (trusted_header_field (bs "object") (g_target g) ++ t))%outcome.

Definition tagref_size (g : tag) : outcome N err :=
  match oid_from_hex (g_target g) with
  | None => Panic
  | Some _ => Ok (tag_size_with 40 g)
  end.

(* ---- blob ------------------------------------------------------------------------------ *)

Definition blob_write (d : bytes) : outcome bytes err := Ok d.
Definition blob_size (d : bytes) : N := len d.

(* ---- impl WriteTo for Object (gix-object/src/object/mod.rs): dispatch ------------------------- *)

Inductive object := OTree (l : list entry) | OBlob (d : bytes) | OCommit (c : commit) | OTag (g : tag).

Definition obj_kind (o : object) : kind :=
  match o with OTree _ => KTree | OBlob _ => KBlob | OCommit _ => KCommit | OTag _ => KTag end.
Definition obj_write (debug : bool) (o : object) : outcome bytes err :=
  match o with
  | OTree l => tree_write debug l | OBlob d => blob_write d
  | OCommit c => commit_write c | OTag g => tag_write g
  end.
Definition obj_size (o : object) : N :=
  match o with
  | OTree l => tree_size l | OBlob d => blob_size d
  | OCommit c => commit_size c | OTag g => tag_size g
  end.
(* WriteTo::loose_header *)
Definition obj_loose_header (o : object) : bytes := loose_header (obj_kind o) (obj_size o).

(* ---- tree decoding (gix-object/src/tree/ref_iter.rs: mode_from_decimal, fast_entry, tree) ----- *)

(* mode_from_decimal: octal digits up to the first space; `(mode << 3) + digit` on a u32 silently
   drops the bits shifted out (the addition cannot overflow: the low three bits are free) *)
Fixpoint mode_from_decimal (i : bytes) (mode : N) : option (N * bytes) :=
  match i with
  | [] => None                                   (* i.len() < spacer_pos *)
  | b :: r =>
      if beqb b x20 then Some (mode, r)
      else if (b2N b <? 48) || (55 <? b2N b) then None
      else mode_from_decimal r ((mode * 8) mod 4294967296 + (b2N b - 48))
  end.

(* TryFrom<u32> for EntryMode *)
Definition mode_try_from (m : N) : option N :=
  if (m =? 16384) || (m =? 40960) || (m =? 57344) then Some (m mod 65536)
  else if N.land m 32768 =? 32768 then Some (m mod 65536)
  else None.

Fixpoint split_nul (i : bytes) : option (bytes * bytes) :=
  match i with
  | [] => None
  | b :: r => if is_nul b then Some ([], r)
              else match split_nul r with Some (a, t) => Some (b :: a, t) | None => None end
  end.

Definition fast_entry (i : bytes) : option (bytes * entry) :=
  match mode_from_decimal i 0 with
  | None => None
  | Some (m, i1) =>
      match mode_try_from m with
      | None => None
      | Some mode =>
          match split_nul i1 with
          | None => None
          | Some (filename, i2) =>
              if Nat.ltb (length i2) 20 then None
              else Some (skipn 20 i2, mkEntry mode filename (firstn 20 i2))
          end
      end
  end.

(* decode::tree: `while !i.is_empty()`; every entry consumes at least 22 bytes, fuel = length *)
Fixpoint tree_decode_fuel (fuel : nat) (i : bytes) : outcome (list entry) err :=
  match i with
  | [] => Ok []
  | _ =>
      match fuel with
      | O => OutOfFuel
      | S f =>
          match fast_entry i with
          | None => Err EIo
          | Some (rest, e) => (es <- tree_decode_fuel f rest ;; Ok (e :: es))%outcome
          end
      end
  end.
Definition tree_decode (i : bytes) : outcome (list entry) err := tree_decode_fuel (length i) i.

(* ---- object ids ------------------------------------------------------------------------ *)

Section Hash.
  Variable H : bytes -> bytes.           (* SHA-1 of a byte string: not modelled *)
  (* gix_object::compute_hash(kind, data) *)
  Definition compute_hash (k : kind) (data : bytes) : bytes :=
    H (loose_header k (len data) ++ data).
  (* loose::Store::write(object): hasher fed with object.loose_header() then object.write_to() *)
  Definition loose_store_id (k : kind) (declared_size : N) (written : bytes) : bytes :=
    H (loose_header k declared_size ++ written).
End Hash.
