(* C01 — transcript printer: the same observable line the Rust harness prints for a case.
   Cases (fields are byte strings; numbers are decimal ASCII):
     time S O G | sig NAME EMAIL S O G | blob DATA
     tree N (MODE NAME OID)*                                      (Tree and TreeRef: same code)
     treedec BYTES                                                TreeRef::from_bytes
     commit|commitref TREE NP P* A(5) C(5) HASENC ENC NX (K V)* MSG
     tag|tagref TARGET KIND NAME HAST T(5) MSG HASPGP PGP
   Object transcript:  size=<n|PANIC> hdr=<hex|PANIC> <ok HEX|err|PANIC> *)
From GixV.Base Require Import Bytes Outcome.
From GixV.C01 Require Import Tables Model.
Local Open Scope N_scope.

Definition show_w (o : outcome bytes err) : bytes :=
  match o with
  | Ok b => bs "ok " ++ hex_encode b
  | Err _ => bs "err"
  | Panic => bs "PANIC"
  | OutOfFuel => bs "HANG"
  end.

Definition show_obj (k : kind) (size : outcome N err) (w : outcome bytes err) : bytes :=
  match size with
  | Ok n => bs "size=" ++ N_to_dec n ++ bs " hdr=" ++ hex_encode (loose_header k n)
  | _ => bs "size=PANIC hdr=PANIC"
  end ++ bs " " ++ show_w w.

Definition fld (fs : list bytes) : bytes := match fs with f :: _ => f | [] => [] end.
Definition fldN (fs : list bytes) : N := field_N 0 fs.
Definition fldZ (fs : list bytes) : Z := field_Z 0 fs.

Definition take_time (fs : list bytes) : time * list bytes :=
  (mkTime (field_Z 0 fs) (field_Z 1 fs) (bytes_eqb (nth_field 2 fs) (bs "-")), skipn 3 fs).

Definition take_sig (fs : list bytes) : sig * list bytes :=
  let '(t, r) := take_time (skipn 2 fs) in
  (mkSig (nth_field 0 fs) (nth_field 1 fs) t, r).

Fixpoint take_list (n : nat) (fs : list bytes) : list bytes * list bytes :=
  match n with
  | O => ([], fs)
  | S n' => let '(l, r) := take_list n' (tl fs) in (fld fs :: l, r)
  end.

Fixpoint take_pairs (n : nat) (fs : list bytes) : list (bytes * bytes) * list bytes :=
  match n with
  | O => ([], fs)
  | S n' => let '(l, r) := take_pairs n' (skipn 2 fs) in ((nth_field 0 fs, nth_field 1 fs) :: l, r)
  end.

Fixpoint take_entries (n : nat) (fs : list bytes) : list entry :=
  match n with
  | O => []
  | S n' => mkEntry (field_N 0 fs) (nth_field 1 fs) (nth_field 2 fs) :: take_entries n' (skipn 3 fs)
  end.

Definition parse_commit (fs : list bytes) : commit :=
  let tree := nth_field 0 fs in
  let np := N.to_nat (field_N 1 fs) in
  let '(parents, r) := take_list np (skipn 2 fs) in
  let '(author, r) := take_sig r in
  let '(committer, r) := take_sig r in
  let enc := if bytes_eqb (nth_field 0 r) (bs "1") then Some (nth_field 1 r) else None in
  let nx := N.to_nat (field_N 2 r) in
  let '(extra, r) := take_pairs nx (skipn 3 r) in
  mkCommit tree parents author committer enc extra (nth_field 0 r).

Definition parse_kind (b : bytes) : option kind :=
  if bytes_eqb b (bs "tree") then Some KTree
  else if bytes_eqb b (bs "blob") then Some KBlob
  else if bytes_eqb b (bs "commit") then Some KCommit
  else if bytes_eqb b (bs "tag") then Some KTag
  else None.

Definition parse_tag (fs : list bytes) : option tag :=
  match parse_kind (nth_field 1 fs) with
  | None => None
  | Some k =>
      let '(tagger, r) := take_sig (skipn 4 fs) in
      let tg := if bytes_eqb (nth_field 3 fs) (bs "1") then Some tagger else None in
      let pgp := if bytes_eqb (nth_field 1 r) (bs "1") then Some (nth_field 2 r) else None in
      Some (mkTag (nth_field 0 fs) k (nth_field 2 fs) tg (nth_field 0 r) pgp)
  end.

Definition all_len20 (l : list bytes) : bool := forallb (fun b => Nat.eqb (length b) 20) l.

Definition run_model (fs : list bytes) : bytes :=
  let op := nth_field 0 fs in
  let a := tl fs in
  if bytes_eqb op (bs "time") then
    let '(t, _) := take_time a in
    bs "size=" ++ N_to_dec (time_size t) ++ bs " " ++ show_w (time_write t)
  else if bytes_eqb op (bs "sig") then
    let '(s, _) := take_sig a in
    bs "size=" ++ N_to_dec (sig_size s) ++ bs " " ++ show_w (sig_write s)
  else if bytes_eqb op (bs "blob") then
    show_obj KBlob (Ok (blob_size (fld a))) (blob_write (fld a))
  else if bytes_eqb op (bs "tree") then
    let es := take_entries (N.to_nat (fldN a)) (tl a) in
    if all_len20 (map e_oid es) then
      bs "T " ++ show_obj KTree (Ok (tree_size es)) (tree_write true es)
      ++ bs " R " ++ show_obj KTree (Ok (tree_size es)) (tree_write true es)
    else bs "?"
  else if bytes_eqb op (bs "treedec") then
    match tree_decode (fld a) with
    | Ok es => bs "ok" ++ concat (map (fun e => bs " " ++ N_to_dec (e_mode e) ++ bs ":" ++ hex_encode (e_name e)
                                                 ++ bs ":" ++ hex_encode (e_oid e)) es)
    | Err _ => bs "err"
    | Panic => bs "PANIC"
    | OutOfFuel => bs "HANG"
    end
  else if bytes_eqb op (bs "commit") then
    let c := parse_commit a in
    if all_len20 (c_tree c :: c_parents c) then
      show_obj KCommit (Ok (commit_size c)) (commit_write c)
    else bs "?"
  else if bytes_eqb op (bs "commitref") then
    let c := parse_commit a in
    show_obj KCommit (commitref_size c) (commitref_write c)
  else if bytes_eqb op (bs "tag") then
    match parse_tag a with
    | Some g => if all_len20 [g_target g] then show_obj KTag (Ok (tag_size g)) (tag_write g) else bs "?"
    | None => bs "?"
    end
  else if bytes_eqb op (bs "tagref") then
    match parse_tag a with
    | Some g => show_obj KTag (tagref_size g) (tagref_write g)
    | None => bs "?"
    end
  else bs "?".

Definition run (fs : list bytes) : bytes :=
  match fs with
  | _mode :: rest => run_model rest
  | [] => bs "?"
  end.
