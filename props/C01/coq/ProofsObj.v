(* C01 — size() = bytes written, for trees, commits, tags, blobs (owned and Ref variants) *)
From Coq Require Import ZArith NArith Lia ZifyBool ZifyNat ZifyN List.
From GixV.Base Require Import Bytes BytesFacts Outcome.
From GixV.C01 Require Import Tables Model ProofsDec ProofsLadder ProofsTime.
Ltac Zify.zify_post_hook ::= Z.div_mod_to_equations.
Local Open Scope N_scope.

Definition len20 (b : bytes) : Prop := length b = 20%nat.
Definition sig_i64 (s : sig) : Prop := i64 (t_seconds (s_time s)).

Lemma len_hex b : len (hex_encode b) = 2 * len b.
Proof. unfold len. rewrite hex_encode_length. lia. Qed.

(* ---- tree --------------------------------------------------------------------------------- *)

Lemma tree_body_size l : forall out, tree_body l = Ok out -> tree_size l = len out.
Proof.
  induction l as [|e r IH]; intros out H; cbn [tree_body tree_size fold_right] in *.
  - apply Ok_inj in H. subst out. reflexivity.
  - destruct (existsb is_nul (e_name e)); [discriminate|].
    destruct (tree_body r) as [rest| | |] eqn:Er; try discriminate.
    cbn [obind] in H. apply Ok_inj in H. subst out.
    fold (tree_size r). rewrite (IH rest eq_refl).
    rewrite !len_app. change (len SPACE) with 1. change (len [x00]) with 1. lia.
Qed.

Lemma L_tree_size_exact dbg l out : tree_write dbg l = Ok out -> tree_size l = len out.
Proof.
  unfold tree_write. destruct (dbg && negb (sorted_adjacent l)); [discriminate|]. apply tree_body_size.
Qed.

Lemma tree_body_domain l :
  (exists out, tree_body l = Ok out) <-> forallb (fun e => negb (existsb is_nul (e_name e))) l = true.
Proof.
  induction l as [|e r IH]; cbn [tree_body forallb].
  - split; [reflexivity|eauto].
  - destruct (existsb is_nul (e_name e)); cbn [negb andb].
    + split; [intros [o H]; discriminate|discriminate].
    + rewrite <- IH. split.
      * intros [o H]. destruct (tree_body r) as [x| | |]; try discriminate. eauto.
      * intros [x ->]. cbn [obind]. eauto.
Qed.

(* ---- header fields ------------------------------------------------------------------------ *)

Lemma header_field_len name v h : header_field name v = Ok h -> len h = len name + 1 + len v + 1.
Proof.
  unfold header_field. destruct v as [|b v]; [discriminate|].
  destruct (existsb is_nl (b :: v)); [discriminate|]. intros H. apply Ok_inj in H. subst h.
  unfold trusted_header_field. rewrite !len_app. change (len SPACE) with 1. change (len NL) with 1. lia.
Qed.

Lemma header_id_len name id : len20 id -> len (trusted_header_id name id) = len name + 1 + 40 + 1.
Proof.
  intros H. unfold trusted_header_id. rewrite !len_app, len_hex.
  change (len SPACE) with 1. change (len NL) with 1. unfold len20 in H.
  replace (len id) with 20 by (unfold len; rewrite H; reflexivity). lia.
Qed.

Lemma header_ids_len name ids : Forall len20 ids ->
  len (concat (map (trusted_header_id name) ids)) = N.of_nat (length ids) * (len name + 1 + 40 + 1).
Proof.
  induction 1 as [|id r Hid Hr IH]; cbn [map concat length]; [reflexivity|].
  rewrite len_app, IH, (header_id_len name id Hid). lia.
Qed.

Lemma header_sig_len name s h : sig_i64 s -> trusted_header_signature name s = Ok h ->
  len h = len name + 1 + sig_size s + 1.
Proof.
  intros Hs. unfold trusted_header_signature.
  destruct (sig_write s) as [w| | |] eqn:Ew; try discriminate. cbn [obind]. intros H.
  apply Ok_inj in H. subst h. rewrite (L_sig_size_exact s w Hs Ew).
  rewrite !len_app. change (len SPACE) with 1. change (len NL) with 1. lia.
Qed.

Lemma concat_space_len rest :
  len (concat (map (fun l => SPACE ++ l) rest)) = fold_right (fun l acc => len l + 1 + acc) 0 rest.
Proof.
  induction rest as [|l r IH]; cbn [map concat fold_right]; [reflexivity|].
  rewrite !len_app, IH. change (len SPACE) with 1. lia.
Qed.

Lemma multi_line_len name v h : header_field_multi_line name v = Ok h -> extra_header_size name v = len h.
Proof.
  unfold header_field_multi_line, extra_header_size.
  destruct (lines_wt v) as [|first rest]; [discriminate|]. intros H. apply Ok_inj in H. subst h.
  cbn [fold_right]. rewrite !len_app, concat_space_len. change (len SPACE) with 1.
  destruct (ends_with_nl v); [rewrite len_nil|change (len NL) with 1]; lia.
Qed.

Lemma extra_headers_len l : forall out, extra_headers_write l = Ok out ->
  fold_right (fun nv acc => extra_header_size (fst nv) (snd nv) + acc) 0 l = len out.
Proof.
  induction l as [|[n v] r IH]; intros out H; cbn [extra_headers_write fold_right fst snd] in *.
  - apply Ok_inj in H. subst out. reflexivity.
  - destruct (header_field_multi_line n v) as [h| | |] eqn:Eh; try discriminate.
    destruct (extra_headers_write r) as [rest| | |] eqn:Er; try discriminate.
    cbn [obind] in H. apply Ok_inj in H. subst out.
    rewrite (IH rest eq_refl), (multi_line_len n v h Eh), len_app. reflexivity.
Qed.

(* ---- commit ------------------------------------------------------------------------------- *)

Lemma commit_tail_len c t : sig_i64 (c_author c) -> sig_i64 (c_committer c) ->
  commit_tail_write c = Ok t ->
  len t = 6 + 1 + sig_size (c_author c) + 1 + 9 + 1 + sig_size (c_committer c) + 1
          + match c_encoding c with Some e => 8 + 1 + len e + 1 | None => 0 end
          + fold_right (fun nv acc => extra_header_size (fst nv) (snd nv) + acc) 0 (c_extra c)
          + 1 + len (c_message c).
Proof.
  intros Ha Hc. unfold commit_tail_write.
  destruct (trusted_header_signature (bs "author") (c_author c)) as [a| | |] eqn:Ea; try discriminate.
  destruct (trusted_header_signature (bs "committer") (c_committer c)) as [cm| | |] eqn:Ec; try discriminate.
  cbn [obind].
  destruct (match c_encoding c with Some e => header_field (bs "encoding") e | None => Ok [] end)
    as [en| | |] eqn:Een; try discriminate.
  destruct (extra_headers_write (c_extra c)) as [ex| | |] eqn:Eex; try discriminate.
  cbn [obind]. intros H. apply Ok_inj in H. subst t.
  rewrite !len_app. rewrite (header_sig_len _ _ _ Ha Ea), (header_sig_len _ _ _ Hc Ec).
  rewrite (extra_headers_len _ _ Eex). change (len NL) with 1.
  change (len (bs "author")) with 6. change (len (bs "committer")) with 9.
  assert (len en = match c_encoding c with Some e => 8 + 1 + len e + 1 | None => 0 end) as ->.
  { destruct (c_encoding c) as [e|].
    - rewrite (header_field_len _ _ _ Een). reflexivity.
    - apply Ok_inj in Een. subst en. reflexivity. }
  lia.
Qed.

Definition commit_wf (c : commit) : Prop :=
  len20 (c_tree c) /\ Forall len20 (c_parents c) /\ sig_i64 (c_author c) /\ sig_i64 (c_committer c).

Lemma L_commit_size_exact c out : commit_wf c -> commit_write c = Ok out -> commit_size c = len out.
Proof.
  intros (Ht & Hp & Ha & Hc). unfold commit_write.
  destruct (commit_tail_write c) as [t| | |] eqn:Et; try discriminate. cbn [obind]. intros H.
  apply Ok_inj in H. subst out.
  rewrite !len_app, (header_id_len _ _ Ht), (header_ids_len _ _ Hp), (commit_tail_len c t Ha Hc Et).
  unfold commit_size, commit_size_with.
  change (len (bs "tree")) with 4. change (len (bs "parent")) with 6. lia.
Qed.

Lemma oid_from_hex_len h id : oid_from_hex h = Some id -> len20 id.
Proof.
  unfold oid_from_hex. destruct (Nat.eqb_spec (length h) 40) as [E|E]; [|discriminate].
  intros H. apply hex_encode_decode in H. destruct H as (_ & _ & Hl). unfold len20. lia.
Qed.

Lemma parse_all_len l : forall ids, parse_all l = Some ids -> Forall len20 ids /\ length ids = length l.
Proof.
  induction l as [|h r IH]; intros ids H; cbn [parse_all] in H.
  - injection H as <-. split; [constructor|reflexivity].
  - destruct (oid_from_hex h) as [id|] eqn:Eh; [|discriminate].
    destruct (parse_all r) as [ids'|] eqn:Er; [|discriminate].
    injection H as <-. destruct (IH ids' eq_refl) as [F L]. split.
    + constructor; [exact (oid_from_hex_len _ _ Eh)|exact F].
    + cbn [length]. lia.
Qed.

(* CommitRef: when write_to succeeds, size() does not panic and is exact *)
Lemma L_commitref_size_exact c out : sig_i64 (c_author c) -> sig_i64 (c_committer c) ->
  commitref_write c = Ok out -> commitref_size c = Ok (len out).
Proof.
  intros Ha Hc. unfold commitref_write, commitref_size.
  destruct (oid_from_hex (c_tree c)) as [t|] eqn:Et; [|discriminate].
  destruct (parse_all (c_parents c)) as [ps|] eqn:Ep; [|discriminate].
  destruct (commit_tail_write c) as [tl| | |] eqn:Etl; try discriminate. cbn [obind]. intros H.
  apply Ok_inj in H. subst out. f_equal.
  destruct (parse_all_len _ _ Ep) as [F L].
  rewrite !len_app, (header_id_len _ _ (oid_from_hex_len _ _ Et)), (header_ids_len _ _ F),
    (commit_tail_len c tl Ha Hc Etl), L.
  unfold commit_size_with.
  change (len (bs "tree")) with 4. change (len (bs "parent")) with 6. lia.
Qed.

(* ---- tag ---------------------------------------------------------------------------------- *)

Lemma validated_name_ok n r : validated_name n = Ok r -> r = n.
Proof.
  unfold validated_name. destruct (tag_name_valid n); [|discriminate].
  destruct n as [|b n]; [discriminate|]. destruct (beqb b "-"%byte); [discriminate|].
  intros H. apply Ok_inj in H. symmetry. exact H.
Qed.

Definition tag_wf (g : tag) : Prop :=
  match g_tagger g with Some s => sig_i64 s | None => True end.

Lemma tag_tail_len g t : tag_wf g -> tag_tail_write g = Ok t ->
  len t = 4 + 1 + len (kind_bytes (g_kind g)) + 1 + 3 + 1 + len (g_name g) + 1
          + match g_tagger g with Some s => 6 + 1 + sig_size s + 1 | None => 0 end
          + 1 + len (g_message g)
          + match g_pgp g with Some m => 1 + len m | None => 0 end.
Proof.
  intros Hwf. unfold tag_tail_write.
  destruct (validated_name (g_name g)) as [n| | |] eqn:En; try discriminate. cbn [obind].
  apply validated_name_ok in En. subst n.
  destruct (header_field (bs "tag") (g_name g)) as [hf| | |] eqn:Ehf; try discriminate. cbn [obind].
  destruct (match g_tagger g with Some s => trusted_header_signature (bs "tagger") s | None => Ok [] end)
    as [tg| | |] eqn:Etg; try discriminate.
  cbn [obind]. intros H. apply Ok_inj in H. subst t.
  rewrite !len_app. rewrite (header_field_len _ _ _ Ehf).
  unfold trusted_header_field. rewrite !len_app.
  change (len NL) with 1. change (len SPACE) with 1. change (len (bs "type")) with 4.
  change (len (bs "tag")) with 3.
  assert (len tg = match g_tagger g with Some s => 6 + 1 + sig_size s + 1 | None => 0 end) as ->.
  { unfold tag_wf in Hwf. destruct (g_tagger g) as [s|].
    - rewrite (header_sig_len _ _ _ Hwf Etg). reflexivity.
    - apply Ok_inj in Etg. subst tg. reflexivity. }
  destruct (g_pgp g); [rewrite len_app; change (len NL) with 1|rewrite len_nil]; lia.
Qed.

Lemma L_tag_size_exact g out : len20 (g_target g) -> tag_wf g -> tag_write g = Ok out ->
  tag_size g = len out.
Proof.
  intros Ht Hwf. unfold tag_write.
  destruct (tag_tail_write g) as [t| | |] eqn:Et; try discriminate. cbn [obind]. intros H.
  apply Ok_inj in H. subst out.
  rewrite len_app, (header_id_len _ _ Ht), (tag_tail_len g t Hwf Et).
  unfold tag_size, tag_size_with. change (len (bs "object")) with 6. lia.
Qed.

(* TagRef writes `object` verbatim and size() re-parses it: whenever size() returns, it is exact;
   and it returns exactly when the target is 40 hex digits *)
Lemma L_tagref_size_exact g out n : tag_wf g -> tagref_write g = Ok out -> tagref_size g = Ok n ->
  n = len out.
Proof.
  intros Hwf. unfold tagref_write, tagref_size.
  destruct (tag_tail_write g) as [t| | |] eqn:Et; try discriminate. cbn [obind]. intros H.
  apply Ok_inj in H. subst out.
  unfold oid_from_hex. destruct (Nat.eqb_spec (length (g_target g)) 40) as [E|E]; [|discriminate].
  destruct (hex_decode (g_target g)); [|discriminate]. intros H. apply Ok_inj in H. subst n.
  unfold trusted_header_field. rewrite !len_app, (tag_tail_len g t Hwf Et).
  unfold tag_size_with. change (len (bs "object")) with 6. change (len SPACE) with 1. change (len NL) with 1.
  replace (len (g_target g)) with 40 by (unfold len; rewrite E; reflexivity). lia.
Qed.

Lemma L_tagref_size_defined g :
  (exists n, tagref_size g = Ok n) <-> (length (g_target g) = 40%nat /\ forallb is_hex (g_target g) = true).
Proof.
  unfold tagref_size, oid_from_hex. destruct (Nat.eqb_spec (length (g_target g)) 40) as [E|E].
  - destruct (hex_decode (g_target g)) as [id|] eqn:Eh.
    + split; [|eauto]. intros _. split; [exact E|]. apply hex_encode_decode in Eh. apply Eh.
    + split; [intros [n H]; discriminate|]. intros [_ Hh].
      destruct (hex_decode_total (g_target g)) as [l Hl]; [rewrite E; reflexivity|exact Hh|congruence].
  - split; [intros [n H]; discriminate|]. intros [H _]. contradiction.
Qed.

(* ---- blob, Object ------------------------------------------------------------------------- *)

Lemma L_blob_size_exact d out : blob_write d = Ok out -> blob_size d = len out /\ out = d.
Proof. unfold blob_write. intros H. apply Ok_inj in H. subst out. split; reflexivity. Qed.

Definition obj_wf (o : object) : Prop :=
  match o with
  | OTree _ | OBlob _ => True
  | OCommit c => commit_wf c
  | OTag g => len20 (g_target g) /\ tag_wf g
  end.

Lemma L_obj_size_exact dbg o out : obj_wf o -> obj_write dbg o = Ok out -> obj_size o = len out.
Proof.
  destruct o as [l|d|c|g]; cbn [obj_wf obj_write obj_size].
  - intros _. apply L_tree_size_exact.
  - intros _ H. apply (L_blob_size_exact d out H).
  - apply L_commit_size_exact.
  - intros [A B]. apply L_tag_size_exact; assumption.
Qed.
