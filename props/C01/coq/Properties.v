(* C01 — Object encoding declares its exact size (and round-trips: trees, see below).
   Only statements here; every proof is [exact <lemma>].
   Model: Model.v (+ Tables.v regenerated from gix-date/src/time/write.rs on every run).
   [len b] is the number of bytes of [b] as N.  [i64 z] : -2^63 <= z < 2^63.
   [sig_i64 s]: the signature's seconds are an i64.  [len20 b]: b has 20 bytes (an ObjectId).
   [commit_wf c]: tree and parents are ObjectIds, both timestamps are i64 (type invariants of
   gix_object::Commit, nothing else).  [tag_wf g]: the tagger's timestamp, if any, is an i64.
   [obj_wf o]: the same invariants for an Object. *)
From Coq Require Import ZArith NArith List.
From GixV.Base Require Import Bytes BytesFacts Outcome.
From GixV.C01 Require Import Tables Model Spec ProofsDec ProofsLadder ProofsTime ProofsObj ProofsHeader ProofsTree.
Local Open Scope N_scope.

(* ---- Time ---------------------------------------------------------------------------------- *)

(* the ladder of Time::size() equals the number of characters itoa writes, for EVERY i64 *)
Theorem time_ladder_counts_digits : forall s, i64 s ->
  ladder_eval s time_ladder time_ladder_else = len (Z_to_dec s).
Proof. exact ladder_exact. Qed.

(* Time::size() is the number of bytes Time::write_to() writes: all i64 seconds, all offsets, both signs *)
Theorem time_size_exact : forall t out, i64 (t_seconds t) -> time_write t = Ok out -> time_size t = len out.
Proof. exact L_time_size_exact. Qed.

(* write_to accepts exactly the offsets below 100 hours (whole minutes or not), never panics *)
Theorem time_write_domain : forall t,
  ((exists out, time_write t = Ok out) <-> (Z.abs (t_offset t) < 360000)%Z) /\
  time_write t <> Panic /\ time_write t <> OutOfFuel.
Proof. intros t. split; [exact (L_time_write_domain t)|exact (L_time_write_total t)]. Qed.

(* what is written is "<seconds> <sign>HHMM", HH = |offset| / 3600, MM = |offset| mod 3600 / 60
   (seconds of the offset are dropped), the sign character comes from the `sign` field alone *)
Theorem time_write_format : forall t out, time_write t = Ok out ->
  let a := Z.abs_N (t_offset t) in
  out = Z_to_dec (t_seconds t) ++ bs " " ++ (if t_minus t then bs "-" else bs "+")
        ++ two_digits (a / 3600) ++ two_digits (a mod 3600 / 60).
Proof. exact L_time_write_format. Qed.

(* ---- Signature ----------------------------------------------------------------------------- *)

Theorem sig_size_exact : forall s out, sig_i64 s -> sig_write s = Ok out -> sig_size s = len out.
Proof. exact L_sig_size_exact. Qed.

Theorem sig_write_domain : forall s,
  (exists out, sig_write s = Ok out) <->
  (existsb illegal_in_token (s_name s) = false /\ existsb illegal_in_token (s_email s) = false /\
   (Z.abs (t_offset (s_time s)) < 360000)%Z).
Proof. exact L_sig_write_domain. Qed.

(* ---- Tree / TreeRef ------------------------------------------------------------------------ *)

(* with or without the debug assertion *)
Theorem tree_size_exact : forall dbg l out, tree_write dbg l = Ok out -> tree_size l = len out.
Proof. exact L_tree_size_exact. Qed.

(* decode (write l) = l for every tree with NUL-free names, valid modes and 20-byte ids; the
   decoder terminates within its fuel and never panics on those bytes *)
Theorem tree_roundtrip : forall dbg l out, tree_rt_wf l -> tree_write dbg l = Ok out -> tree_decode out = Ok l.
Proof. exact L_tree_roundtrip. Qed.

(* ... and such trees are accepted for writing when canonically sorted (release: always) *)
Theorem tree_write_accepts : forall dbg l, tree_rt_wf l -> (dbg = false \/ sorted_adjacent l = true) ->
  exists out, tree_write dbg l = Ok out.
Proof. exact L_tree_write_accepts. Qed.

(* the tree decoder never panics and never runs out of fuel, on ANY input *)
Theorem tree_decode_total : forall i, tree_decode i <> Panic /\ tree_decode i <> OutOfFuel.
Proof. exact L_tree_decode_total. Qed.

(* ---- Commit / CommitRef -------------------------------------------------------------------- *)

Theorem commit_size_exact : forall c out, commit_wf c -> commit_write c = Ok out -> commit_size c = len out.
Proof. exact L_commit_size_exact. Qed.

(* CommitRef: whenever write_to succeeds, size() does not panic and is exact *)
Theorem commitref_size_exact : forall c out, sig_i64 (c_author c) -> sig_i64 (c_committer c) ->
  commitref_write c = Ok out -> commitref_size c = Ok (len out).
Proof. exact L_commitref_size_exact. Qed.

(* ---- Tag / TagRef -------------------------------------------------------------------------- *)

Theorem tag_size_exact : forall g out, len20 (g_target g) -> tag_wf g -> tag_write g = Ok out ->
  tag_size g = len out.
Proof. exact L_tag_size_exact. Qed.

(* TagRef writes its target verbatim while size() re-parses it: size() returns exactly for 40 hex
   digits, and whenever it returns it is exact *)
Theorem tagref_size_exact : forall g out n, tag_wf g -> tagref_write g = Ok out -> tagref_size g = Ok n ->
  n = len out.
Proof. exact L_tagref_size_exact. Qed.

Theorem tagref_size_defined : forall g,
  (exists n, tagref_size g = Ok n) <-> (length (g_target g) = 40%nat /\ forallb is_hex (g_target g) = true).
Proof. exact L_tagref_size_defined. Qed.

(* ---- Blob, Object, loose header, ids -------------------------------------------------------- *)

Theorem blob_size_exact : forall d out, blob_write d = Ok out -> blob_size d = len out /\ out = d.
Proof. exact L_blob_size_exact. Qed.

Theorem object_size_exact : forall dbg o out, obj_wf o -> obj_write dbg o = Ok out -> obj_size o = len out.
Proof. exact L_obj_size_exact. Qed.

(* git's reader of "<kind> <size>\0<body>" gets back kind, size and body from loose_header *)
Theorem loose_header_parses : forall k n body,
  parse_loose_header (loose_header k n ++ body) = Some (kind_bytes k, n, body).
Proof. exact L_loose_header_parses. Qed.

(* what the loose store streams for an object (WriteTo::loose_header() then write_to()) declares
   exactly the number of body bytes, so git accepts it *)
Theorem loose_object_declares_body : forall dbg o out, obj_wf o -> obj_write dbg o = Ok out ->
  parse_loose_header (obj_loose_header o ++ out) = Some (kind_bytes (obj_kind o), len out, out) /\
  git_accepts_loose (obj_loose_header o ++ out) = true.
Proof. exact L_loose_object_declares_body. Qed.

(* compute_hash is git's id formula, for any digest function H (SHA-1 is a parameter) *)
Theorem compute_hash_is_git_formula : forall (H : bytes -> bytes) k data,
  compute_hash H k data = git_object_id H (kind_bytes k) data.
Proof. exact L_compute_hash_is_git. Qed.

(* the id computed while writing an object to the loose store is git's id of the written bytes *)
Theorem loose_store_id_is_git : forall (H : bytes -> bytes) dbg o out, obj_wf o -> obj_write dbg o = Ok out ->
  loose_store_id H (obj_kind o) (obj_size o) out = git_object_id H (kind_bytes (obj_kind o)) out /\
  loose_store_id H (obj_kind o) (obj_size o) out = compute_hash H (obj_kind o) out.
Proof. exact L_loose_store_id_is_git. Qed.

(* ---- non-vacuity ---------------------------------------------------------------------------- *)

Definition ex_sig (s : Z) : sig := mkSig (bs "A U Thor") (bs "a@example.com") (mkTime s (-19800) true).
Definition ex_commit : commit :=
  mkCommit (repeat x11 20) [repeat x22 20; repeat x33 20] (ex_sig (-10)) (ex_sig (-9223372036854775808))
           (Some (bs "ISO-8859-1")) [(bs "gpgsig", bs "a" ++ [x0a] ++ bs "b" ++ [x0a])] (bs "msg").
Definition ex_tag : tag :=
  mkTag (repeat x44 20) KCommit (bs "v1.0") (Some (ex_sig (-1000000000000000000))) (bs "m") None.
Definition ex_tree : list entry :=
  [mkEntry 33188 (bs "a-b") (repeat x55 20); mkEntry 16384 (bs "a") (repeat x66 20)].

(* the former defect's witness: seconds = -10 *)
Example time_example : exists out, time_write (mkTime (-10) 0 false) = Ok out /\ out = bs "-10 +0000" /\
  time_size (mkTime (-10) 0 false) = 9 /\ i64 (-10).
Proof. eexists. split; [reflexivity|]. split; [reflexivity|]. split; [reflexivity|]. apply i64_dec. reflexivity. Qed.

Example commit_example : exists out, commit_write ex_commit = Ok out /\ commit_wf ex_commit /\
  commit_size ex_commit = len out /\ obj_wf (OCommit ex_commit).
Proof.
  assert (W : commit_wf ex_commit).
  { unfold commit_wf, ex_commit, len20, sig_i64. cbn [c_tree c_parents c_author c_committer ex_sig s_time t_seconds].
    split; [reflexivity|]. split; [repeat constructor|]. split; apply i64_dec; reflexivity. }
  eexists. split; [vm_compute; reflexivity|]. split; [exact W|]. split; [vm_compute; reflexivity|exact W].
Qed.

Example tag_example : exists out, tag_write ex_tag = Ok out /\ len20 (g_target ex_tag) /\ tag_wf ex_tag /\
  tag_size ex_tag = len out.
Proof.
  eexists. split; [vm_compute; reflexivity|]. split; [reflexivity|]. split.
  - unfold tag_wf, ex_tag, sig_i64. cbn [g_tagger ex_sig s_time t_seconds]. apply i64_dec. reflexivity.
  - vm_compute. reflexivity.
Qed.

Example tree_example : exists out, tree_write true ex_tree = Ok out /\ tree_rt_wf ex_tree /\
  sorted_adjacent ex_tree = true /\ tree_decode out = Ok ex_tree.
Proof.
  eexists. split; [vm_compute; reflexivity|].
  split; [unfold tree_rt_wf, ex_tree, entry_rt_wf; repeat constructor|].
  split; vm_compute; reflexivity.
Qed.

Example tagref_example :
  let g := mkTag (bs "4444444444444444444444444444444444444444") KTree (bs "v1") None [] None in
  exists out, tagref_write g = Ok out /\ tagref_size g = Ok (len out) /\ tag_wf g.
Proof. eexists. split; [vm_compute; reflexivity|]. split; [vm_compute; reflexivity|exact I]. Qed.

Example commitref_example :
  let c := mkCommit (bs "1111111111111111111111111111111111111111") [bs "ABCDEF1111111111111111111111111111111111"]
                    (ex_sig 0) (ex_sig 99) None [] [] in
  exists out, commitref_write c = Ok out /\ commitref_size c = Ok (len out).
Proof. eexists. split; vm_compute; reflexivity. Qed.
