From GixV.Base Require Import Bytes BytesFacts Outcome.
From GixV.C01 Require Import Tables Model.
Example placeholder : blob_size [] = 0%N.
Proof. reflexivity. Qed.
