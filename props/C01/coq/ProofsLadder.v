(* C01 — the digit-count ladder of Time::size() (Tables.time_ladder) counts what itoa writes *)
From Coq Require Import ZArith NArith Lia ZifyBool ZifyNat ZifyN List.
From GixV.Base Require Import Bytes BytesFacts Outcome.
From GixV.C01 Require Import Tables Model ProofsDec.
Ltac Zify.zify_post_hook ::= Z.div_mod_to_equations.
Local Open Scope N_scope.

Definition i64 (z : Z) : Prop := (- 2 ^ 63 <= z < 2 ^ 63)%Z.
Definition i32 (z : Z) : Prop := (- 2 ^ 31 <= z < 2 ^ 31)%Z.

Lemma len_Z_nonneg (k : nat) (s : Z) :
  (1 <= k)%nat -> (0 <= s)%Z -> (s < 10 ^ Z.of_nat k)%Z ->
  (k = 1%nat \/ 10 ^ (Z.of_nat k - 1) <= s)%Z ->
  len (Z_to_dec s) = N.of_nat k.
Proof.
  intros Hk H0 Hlt Hge. unfold len. f_equal.
  destruct s as [|p|p]; [|apply N_to_dec_length; [exact Hk| |] | lia].
  - destruct Hge as [->|Hge]; [reflexivity|]. exfalso.
    assert (0 < 10 ^ (Z.of_nat k - 1))%Z by (apply Z.pow_pos_nonneg; lia). lia.
  - apply N2Z.inj_lt. rewrite N2Z.inj_pow. rewrite nat_N_Z. exact Hlt.
  - destruct Hge as [Hge|Hge]; [left; exact Hge|right].
    apply N2Z.inj_le. rewrite N2Z.inj_pow. rewrite N2Z.inj_sub by lia. rewrite nat_N_Z. exact Hge.
Qed.

Lemma len_Z_neg (k : nat) (s : Z) :
  (1 <= k)%nat -> (s < 0)%Z -> (- s < 10 ^ Z.of_nat k)%Z ->
  (k = 1%nat \/ 10 ^ (Z.of_nat k - 1) <= - s)%Z ->
  len (Z_to_dec s) = N.of_nat k + 1.
Proof.
  intros Hk H0 Hlt Hge.
  destruct s as [|p|p]; [lia|lia|].
  cbn [Z_to_dec]. rewrite len_cons.
  pose proof (len_Z_nonneg k (Z.pos p) Hk ltac:(lia) Hlt Hge) as L. cbn [Z_to_dec] in L.
  rewrite L. lia.
Qed.

Ltac leaf_pos k :=
  let p := eval vm_compute in (10 ^ Z.of_nat k)%Z in
  let q := eval vm_compute in (10 ^ (Z.of_nat k - 1))%Z in
  rewrite (len_Z_nonneg k);
  [ reflexivity | lia | lia | change (10 ^ Z.of_nat k)%Z with p; lia
  | first [ left; reflexivity | right; change (10 ^ (Z.of_nat k - 1))%Z with q; lia ] ].
Ltac leaf_neg k :=
  let p := eval vm_compute in (10 ^ Z.of_nat k)%Z in
  let q := eval vm_compute in (10 ^ (Z.of_nat k - 1))%Z in
  rewrite (len_Z_neg k);
  [ reflexivity | lia | lia | change (10 ^ Z.of_nat k)%Z with p; lia
  | first [ left; reflexivity | right; change (10 ^ (Z.of_nat k - 1))%Z with q; lia ] ].

(* once the arm `seconds >= 0` has been passed the context holds [s < 0] *)
Ltac leaf_any s :=
  lazymatch goal with
  | |- ?v = len (Z_to_dec _) =>
      let k := eval vm_compute in (N.to_nat v) in
      let k' := eval vm_compute in (Nat.pred k) in
      lazymatch goal with
      | _ : (s < 0)%Z |- _ => leaf_neg k'
      | _ => leaf_pos k
      end
  end.

(* the ladder of Time::size() counts the characters itoa writes, for every i64 *)
Lemma ladder_exact s : i64 s ->
  ladder_eval s time_ladder time_ladder_else = len (Z_to_dec s).
Proof.
  unfold i64. intros [Hlo Hhi].
  change (2 ^ 63)%Z with 9223372036854775808%Z in *.
  unfold time_ladder, time_ladder_else.
  cbn [ladder_eval op_holds].
  rewrite ?Z.geb_leb, ?Z.gtb_ltb.
  repeat lazymatch goal with
         | |- (if Z.leb ?a s then _ else _) = _ => destruct (Z.leb_spec a s); [leaf_any s|]
         | |- (if Z.ltb ?a s then _ else _) = _ => destruct (Z.ltb_spec a s); [leaf_any s|]
         end.
  leaf_any s.
Qed.

