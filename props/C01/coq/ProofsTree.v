(* C01 — trees round-trip: tree_decode (tree_write l) = l; the decoder is total *)
From Coq Require Import ZArith NArith Lia ZifyBool ZifyNat ZifyN List.
From GixV.Base Require Import Bytes BytesFacts Outcome.
From GixV.C01 Require Import Tables Model ProofsDec ProofsObj.
Ltac Zify.zify_post_hook ::= Z.div_mod_to_equations.
Local Open Scope N_scope.

(* the modes the decoder accepts: tree, link, commit, or anything with the regular-file bit (a u16) *)
Definition valid_mode (m : N) : bool :=
  (m =? 16384) || (m =? 40960) || (m =? 57344) || ((N.land m 32768 =? 32768) && (m <? 65536)).

Definition entry_rt_wf (e : entry) : Prop :=
  valid_mode (e_mode e) = true /\ existsb is_nul (e_name e) = false /\ length (e_oid e) = 20%nat.
Definition tree_rt_wf (l : list entry) : Prop := Forall entry_rt_wf l.

(* ---- exhaustive sweep over the u16 modes -------------------------------------------------- *)

Definition mode_check (m : N) : bool :=
  if valid_mode m then
    match mode_from_decimal (mode_bytes m ++ [x20]) 0 with
    | Some (m', []) => match mode_try_from m' with Some m'' => m'' =? m | None => false end
    | _ => false
    end
  else true.

Definition sweep_step (st : N * bool) : N * bool := (fst st + 1, snd st && mode_check (fst st)).
Definition sweep (n : N) : N * bool := N.iter n sweep_step (0, true).

Lemma sweep_spec n : fst (sweep n) = n /\ (snd (sweep n) = true -> forall m, m < n -> mode_check m = true).
Proof.
  induction n as [|n IH] using N.peano_ind.
  - split; [reflexivity|]. intros _ m Hm. lia.
  - unfold sweep in *. rewrite N.iter_succ. destruct IH as [F S].
    unfold sweep_step at 1. cbn [fst snd]. rewrite F. split; [lia|].
    intros H m Hm. apply Bool.andb_true_iff in H. destruct H as [H1 H2].
    rewrite F in H2.
    destruct (N.eq_dec m n) as [->|Hne]; [exact H2|]. apply S; [exact H1|lia].
Qed.

Lemma sweep_all : snd (sweep 65536) = true.
Proof. vm_compute. reflexivity. Qed.

Lemma valid_mode_u16 m : valid_mode m = true -> m < 65536.
Proof.
  unfold valid_mode. intros H.
  repeat (apply Bool.orb_true_iff in H; destruct H as [H|H]); try lia.
Qed.

Lemma mode_rt m : valid_mode m = true ->
  exists m', mode_from_decimal (mode_bytes m ++ [x20]) 0 = Some (m', []) /\ mode_try_from m' = Some m.
Proof.
  intros Hv. pose proof (proj2 (sweep_spec 65536) sweep_all m (valid_mode_u16 m Hv)) as C.
  unfold mode_check in C. rewrite Hv in C.
  destruct (mode_from_decimal (mode_bytes m ++ [x20]) 0) as [[m' [|? ?]]|]; try discriminate.
  destruct (mode_try_from m') as [m''|] eqn:Et; [|discriminate].
  exists m'. split; [reflexivity|]. rewrite Et. f_equal. lia.
Qed.

Lemma mode_from_decimal_app a : forall acc m t rest,
  mode_from_decimal a acc = Some (m, t) -> mode_from_decimal (a ++ rest) acc = Some (m, t ++ rest).
Proof.
  induction a as [|b a IH]; intros acc m t rest H; cbn [mode_from_decimal app] in *; [discriminate|].
  destruct (beqb b x20).
  - injection H as <- <-. reflexivity.
  - destruct ((b2N b <? 48) || (55 <? b2N b)); [discriminate|]. apply IH. exact H.
Qed.

Lemma split_nul_app name rest : existsb is_nul name = false -> split_nul (name ++ x00 :: rest) = Some (name, rest).
Proof.
  induction name as [|b n IH]; cbn [existsb app split_nul]; intros H.
  - reflexivity.
  - apply Bool.orb_false_iff in H. destruct H as [Hb Hn]. rewrite Hb, (IH Hn). reflexivity.
Qed.

Lemma fast_entry_written e rest : entry_rt_wf e ->
  fast_entry (mode_bytes (e_mode e) ++ SPACE ++ e_name e ++ [x00] ++ e_oid e ++ rest) = Some (rest, e).
Proof.
  intros (Hm & Hn & Ho). destruct (mode_rt _ Hm) as (m' & Hd & Ht).
  unfold fast_entry.
  replace (mode_bytes (e_mode e) ++ SPACE ++ e_name e ++ [x00] ++ e_oid e ++ rest)
    with ((mode_bytes (e_mode e) ++ [x20]) ++ (e_name e ++ [x00] ++ e_oid e ++ rest))
    by (unfold SPACE; rewrite <- !app_assoc; reflexivity).
  rewrite (mode_from_decimal_app _ _ _ _ _ Hd). cbn [app]. rewrite Ht.
  rewrite (split_nul_app _ _ Hn).
  assert (Nat.ltb (length (e_oid e ++ rest)) 20 = false) as ->.
  { apply Nat.ltb_ge. rewrite app_length. lia. }
  rewrite <- Ho at 1 2.
  rewrite skipn_app, skipn_all, Nat.sub_diag, firstn_app, firstn_all, Nat.sub_diag.
  cbn [skipn firstn app]. rewrite app_nil_r. destruct e; reflexivity.
Qed.

Lemma tree_body_decodes l : tree_rt_wf l -> forall out, tree_body l = Ok out ->
  forall fuel, (length l <= fuel)%nat -> tree_decode_fuel fuel out = Ok l.
Proof.
  induction 1 as [|e r He Hr IH]; intros out H fuel Hf; cbn [tree_body] in H.
  - apply Ok_inj in H. subst out. destruct fuel; reflexivity.
  - destruct (existsb is_nul (e_name e)); [discriminate|].
    destruct (tree_body r) as [rest| | |] eqn:Er; try discriminate.
    cbn [obind] in H. apply Ok_inj in H. subst out.
    cbn [length] in Hf. destruct fuel as [|fuel]; [lia|].
    pose proof (fast_entry_written e rest He) as F.
    remember (mode_bytes (e_mode e) ++ SPACE ++ e_name e ++ [x00] ++ e_oid e ++ rest) as i eqn:Ei.
    destruct i as [|b i].
    { exfalso. apply (f_equal (@length byte)) in Ei. rewrite !app_length in Ei. cbn [length SPACE] in Ei. lia. }
    cbn [tree_decode_fuel]. rewrite F. rewrite (IH rest eq_refl fuel) by lia. reflexivity.
Qed.

Lemma tree_body_length l : forall out, tree_body l = Ok out -> (length l <= length out)%nat.
Proof.
  induction l as [|e r IH]; intros out H; cbn [tree_body] in H.
  - cbn [length]. lia.
  - destruct (existsb is_nul (e_name e)); [discriminate|].
    destruct (tree_body r) as [rest| | |] eqn:Er; try discriminate.
    cbn [obind] in H. apply Ok_inj in H. subst out. specialize (IH rest eq_refl).
    rewrite !app_length. cbn [length SPACE]. lia.
Qed.

Lemma L_tree_roundtrip dbg l out : tree_rt_wf l -> tree_write dbg l = Ok out -> tree_decode out = Ok l.
Proof.
  intros Hwf. unfold tree_write. destruct (dbg && negb (sorted_adjacent l)); [discriminate|]. intros H.
  unfold tree_decode. apply (tree_body_decodes l Hwf out H). apply tree_body_length. exact H.
Qed.

Lemma L_tree_write_accepts dbg l : tree_rt_wf l -> (dbg = false \/ sorted_adjacent l = true) ->
  exists out, tree_write dbg l = Ok out.
Proof.
  intros Hwf Hs. unfold tree_write.
  assert (dbg && negb (sorted_adjacent l) = false) as ->.
  { destruct Hs as [->| ->]; [reflexivity|]. destruct dbg; reflexivity. }
  apply tree_body_domain. apply forallb_forall. intros e He.
  unfold tree_rt_wf in Hwf. rewrite Forall_forall in Hwf. destruct (Hwf e He) as (_ & Hn & _). rewrite Hn. reflexivity.
Qed.

(* ---- totality of the decoder --------------------------------------------------------------- *)

Lemma mode_from_decimal_shrinks i : forall acc m r, mode_from_decimal i acc = Some (m, r) -> (length r < length i)%nat.
Proof.
  induction i as [|b i IH]; intros acc m r H; cbn [mode_from_decimal] in H; [discriminate|].
  destruct (beqb b x20).
  - injection H as <- <-. cbn [length]. lia.
  - destruct ((b2N b <? 48) || (55 <? b2N b)); [discriminate|]. apply IH in H. cbn [length]. lia.
Qed.

Lemma split_nul_shrinks i : forall a t, split_nul i = Some (a, t) -> (length t < length i)%nat.
Proof.
  induction i as [|b i IH]; intros a t H; cbn [split_nul] in H; [discriminate|].
  destruct (is_nul b).
  - injection H as <- <-. cbn [length]. lia.
  - destruct (split_nul i) as [[a' t']|]; [|discriminate]. injection H as <- <-.
    specialize (IH a' t' eq_refl). cbn [length]. lia.
Qed.

Lemma fast_entry_shrinks i rest e : fast_entry i = Some (rest, e) -> (length rest < length i)%nat.
Proof.
  unfold fast_entry.
  destruct (mode_from_decimal i 0) as [[m i1]|] eqn:Em; [|discriminate].
  destruct (mode_try_from m); [|discriminate].
  destruct (split_nul i1) as [[fname i2]|] eqn:Es; [|discriminate].
  destruct (Nat.ltb (length i2) 20); [discriminate|].
  intros H. assert (rest = skipn 20 i2) as -> by congruence.
  apply mode_from_decimal_shrinks in Em. apply split_nul_shrinks in Es.
  rewrite skipn_length. lia.
Qed.

Lemma tree_decode_fuel_total fuel : forall i, (length i <= fuel)%nat ->
  tree_decode_fuel fuel i <> Panic /\ tree_decode_fuel fuel i <> OutOfFuel.
Proof.
  induction fuel as [|fuel IH]; intros i Hl.
  - destruct i; [cbn; split; discriminate|cbn [length] in Hl; lia].
  - destruct i as [|b i]; [cbn; split; discriminate|].
    cbn [tree_decode_fuel].
    destruct (fast_entry (b :: i)) as [[rest e]|] eqn:Ef; [|split; discriminate].
    apply fast_entry_shrinks in Ef. destruct (IH rest ltac:(cbn [length] in *; lia)) as [A B].
    destruct (tree_decode_fuel fuel rest); cbn [obind]; split; congruence.
Qed.

Lemma L_tree_decode_total i : tree_decode i <> Panic /\ tree_decode i <> OutOfFuel.
Proof. apply tree_decode_fuel_total. lia. Qed.
