(* C01 — independent specification side: how git reads the stream of a loose object
   (`<kind> SP <decimal length> NUL <body>`, object-file.c: parse_loose_header) and git's object id
   formula.  No reference to the model's writers. *)
From GixV.Base Require Import Bytes Outcome.
Local Open Scope N_scope.

Fixpoint split_at_byte (d : byte) (l : bytes) : option (bytes * bytes) :=
  match l with
  | [] => None
  | b :: r => if beqb b d then Some ([], r)
              else match split_at_byte d r with Some (a, t) => Some (b :: a, t) | None => None end
  end.

(* Some (kind, declared size, body) *)
Definition parse_loose_header (raw : bytes) : option (bytes * N * bytes) :=
  match split_at_byte x20 raw with
  | None => None
  | Some (k, r) =>
      match split_at_byte x00 r with
      | None => None
      | Some (digits, body) =>
          match dec_to_N digits with Some n => Some (k, n, body) | None => None end
      end
  end.

(* git rejects a loose object whose declared size differs from the inflated body *)
Definition git_accepts_loose (raw : bytes) : bool :=
  match parse_loose_header raw with
  | Some (_, n, body) => N.eqb n (N.of_nat (length body))
  | None => false
  end.

(* git's object id: the digest of "<kind> <len>\0" ++ body *)
Definition git_object_id (H : bytes -> bytes) (kind_name body : bytes) : bytes :=
  H (kind_name ++ [x20] ++ N_to_dec (N.of_nat (length body)) ++ [x00] ++ body).
