(* C01 — the loose header declares the body; ids are git's formula *)
From Coq Require Import ZArith NArith Lia ZifyBool ZifyNat ZifyN List.
From GixV.Base Require Import Bytes BytesFacts Outcome.
From GixV.C01 Require Import Tables Model Spec ProofsDec ProofsLadder ProofsTime ProofsObj.
Local Open Scope N_scope.

Lemma split_at_byte_app d a r :
  forallb (fun b => negb (beqb b d)) a = true -> split_at_byte d (a ++ d :: r) = Some (a, r).
Proof.
  induction a as [|x a IH]; cbn [app split_at_byte forallb]; intros H.
  - assert (beqb d d = true) as -> by (apply beqb_eq; reflexivity). reflexivity.
  - apply Bool.andb_true_iff in H. destruct H as [Hx Ha].
    destruct (beqb x d); [discriminate|]. rewrite (IH Ha). reflexivity.
Qed.

Lemma digit_not_nul : forall b, (negb (is_digit b) || negb (beqb b x00)) = true.
Proof. apply forall_bytes. vm_compute. reflexivity. Qed.

Lemma digits_no_nul l : forallb is_digit l = true -> forallb (fun b => negb (beqb b x00)) l = true.
Proof.
  induction l as [|b l IH]; cbn [forallb]; [reflexivity|]. intros H.
  apply Bool.andb_true_iff in H. destruct H as [Hb Hl]. rewrite (IH Hl).
  pose proof (digit_not_nul b) as D. rewrite Hb in D. cbn [negb orb] in D. rewrite D. reflexivity.
Qed.

Lemma kind_no_space k : forallb (fun b => negb (beqb b x20)) (kind_bytes k) = true.
Proof. destruct k; vm_compute; reflexivity. Qed.

Lemma L_loose_header_parses k n body :
  parse_loose_header (loose_header k n ++ body) = Some (kind_bytes k, n, body).
Proof.
  unfold parse_loose_header, loose_header, SPACE. rewrite <- !app_assoc. cbn [app].
  rewrite (split_at_byte_app x20 (kind_bytes k)) by apply kind_no_space.
  rewrite (split_at_byte_app x00 (N_to_dec n)) by (apply digits_no_nul, N_to_dec_all_digits).
  rewrite dec_to_N_N_to_dec. reflexivity.
Qed.

(* what loose::Store::write emits for an object: its header followed by what write_to produced *)
Lemma L_loose_object_declares_body dbg o out : obj_wf o -> obj_write dbg o = Ok out ->
  parse_loose_header (obj_loose_header o ++ out) = Some (kind_bytes (obj_kind o), len out, out) /\
  git_accepts_loose (obj_loose_header o ++ out) = true.
Proof.
  intros Hwf Hw. unfold git_accepts_loose, obj_loose_header.
  rewrite (L_obj_size_exact dbg o out Hwf Hw), L_loose_header_parses. split; [reflexivity|].
  apply N.eqb_refl.
Qed.

Section Hash.
  Variable H : bytes -> bytes.

  Lemma L_compute_hash_is_git k data : compute_hash H k data = git_object_id H (kind_bytes k) data.
  Proof.
    unfold compute_hash, git_object_id, loose_header, SPACE, len. rewrite <- !app_assoc. reflexivity.
  Qed.

  (* the id the loose store computes while streaming header ++ body is git's id of the body *)
  Lemma L_loose_store_id_is_git dbg o out : obj_wf o -> obj_write dbg o = Ok out ->
    loose_store_id H (obj_kind o) (obj_size o) out = git_object_id H (kind_bytes (obj_kind o)) out /\
    loose_store_id H (obj_kind o) (obj_size o) out = compute_hash H (obj_kind o) out.
  Proof.
    intros Hwf Hw. rewrite <- L_compute_hash_is_git. unfold loose_store_id, compute_hash.
    rewrite (L_obj_size_exact dbg o out Hwf Hw). split; reflexivity.
  Qed.
End Hash.

(* deciding the i64 side condition of the examples *)
Lemma i64_dec z : (Z.leb (-9223372036854775808) z && Z.ltb z 9223372036854775808)%bool = true -> i64 z.
Proof.
  intros H. apply Bool.andb_true_iff in H. destruct H as [A B].
  apply Z.leb_le in A. apply Z.ltb_lt in B. unfold i64.
  change (2 ^ 63)%Z with 9223372036854775808%Z. split; assumption.
Qed.
