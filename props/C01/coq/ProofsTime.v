(* C01 — Time::size() = number of bytes Time::write_to() writes; Signature likewise *)
From Coq Require Import ZArith NArith Lia ZifyBool ZifyNat ZifyN List.
From GixV.Base Require Import Bytes BytesFacts Outcome.
From GixV.C01 Require Import Tables Model ProofsDec ProofsLadder.
Ltac Zify.zify_post_hook ::= Z.div_mod_to_equations.
Local Open Scope N_scope.

(* two characters for hours (<= 99) and for minutes (< 60) *)
Lemma pad2_len n : n < 100 -> len (pad_below 10 n) = 2.
Proof.
  intros H. unfold pad_below. rewrite len_app.
  destruct (N.ltb_spec n 10) as [Hs|Hs].
  - unfold len at 2. rewrite (N_to_dec_length 1 n); [reflexivity|lia|exact Hs|left; reflexivity].
  - unfold len at 2. rewrite (N_to_dec_length 2 n); [reflexivity|lia|exact H|right; exact Hs].
Qed.

Lemma time_write_ok_hours t bs : time_write t = Ok bs -> Z.abs_N (t_offset t) / 3600 <= 99.
Proof.
  unfold time_write. change hours_reject_strict with true. change hours_limit with 99.
  change seconds_per_hour with 3600. cbv zeta.
  destruct (N.ltb_spec 99 (Z.abs_N (t_offset t) / 3600)); [discriminate|]. intros _. assumption.
Qed.

Lemma L_time_size_exact t bs : i64 (t_seconds t) -> time_write t = Ok bs -> time_size t = len bs.
Proof.
  intros Hs Hw. pose proof (time_write_ok_hours t bs Hw) as Hh.
  unfold time_write in Hw. change hours_reject_strict with true in Hw. change hours_limit with 99 in Hw.
  change seconds_per_hour with 3600 in Hw. change minutes_divisor with 60 in Hw.
  change hours_pad_below with 10 in Hw. change minutes_pad_below with 10 in Hw. cbv zeta in Hw.
  destruct (N.ltb_spec 99 (Z.abs_N (t_offset t) / 3600)); [discriminate|].
  apply Ok_inj in Hw. subst bs.
  unfold time_size. rewrite (ladder_exact _ Hs). change time_size_tail with 6.
  rewrite !len_app. rewrite !pad2_len by lia.
  replace (len (bs " ")) with 1 by reflexivity.
  destruct (t_minus t); change (len (bs "-")) with 1; change (len (bs "+")) with 1; lia.
Qed.

(* write_to succeeds exactly for offsets below 100 hours, whatever the seconds and the sign *)
Lemma L_time_write_domain t :
  (exists bs, time_write t = Ok bs) <-> (Z.abs (t_offset t) < 360000)%Z.
Proof.
  unfold time_write. change hours_reject_strict with true. change hours_limit with 99.
  change seconds_per_hour with 3600. cbv zeta.
  destruct (N.ltb_spec 99 (Z.abs_N (t_offset t) / 3600)) as [H|H]; split.
  - intros [bs Hb]. discriminate.
  - intros Ha. exfalso. lia.
  - intros _. lia.
  - intros _. eexists. reflexivity.
Qed.

Lemma L_time_write_total t : time_write t <> Panic /\ time_write t <> OutOfFuel.
Proof.
  unfold time_write. cbv zeta.
  destruct (if hours_reject_strict then _ else _); split; discriminate.
Qed.

(* what is written: "<seconds> <sign>HHMM" with HH = |offset| / 3600 and MM = |offset| mod 3600 / 60 *)
Definition two_digits (n : N) : bytes := [N2b (48 + n / 10); N2b (48 + n mod 10)].

Lemma N_to_dec_small n : n < 10 -> N_to_dec n = [N2b (48 + n)].
Proof.
  intros H. unfold N_to_dec. destruct (S (N.to_nat (N.log2 n))) eqn:E; [lia|].
  cbn [N_to_dec_fuel]. rewrite N.mod_small by lia. rewrite N.div_small by lia. reflexivity.
Qed.

Lemma N_to_dec_two n : 10 <= n < 100 -> N_to_dec n = two_digits n.
Proof.
  intros H. unfold N_to_dec.
  assert (3 <= N.log2 n) by (change 3 with (N.log2 8); apply N.log2_le_mono; lia).
  destruct (S (N.to_nat (N.log2 n))) as [|[|f]] eqn:E; [lia|lia|].
  cbn [N_to_dec_fuel].
  destruct (N.eqb_spec (n / 10) 0); [lia|].
  replace (n / 10 / 10) with 0 by lia. cbn [N.eqb].
  rewrite (N.mod_small (n / 10) 10) by lia. reflexivity.
Qed.

Lemma pad2_digits n : n < 100 -> pad_below 10 n = two_digits n.
Proof.
  intros H. unfold pad_below. destruct (N.ltb_spec n 10) as [Hs|Hs].
  - rewrite N_to_dec_small by exact Hs. unfold two_digits.
    rewrite N.div_small by exact Hs. rewrite N.mod_small by exact Hs. reflexivity.
  - rewrite N_to_dec_two by lia. reflexivity.
Qed.

Lemma L_time_write_format t out : time_write t = Ok out ->
  let a := Z.abs_N (t_offset t) in
  out = Z_to_dec (t_seconds t) ++ bs " " ++ (if t_minus t then bs "-" else bs "+")
       ++ two_digits (a / 3600) ++ two_digits (a mod 3600 / 60).
Proof.
  intros Hw a. pose proof (time_write_ok_hours t out Hw) as Hh. fold a in Hh.
  unfold time_write in Hw. change hours_reject_strict with true in Hw. change hours_limit with 99 in Hw.
  change seconds_per_hour with 3600 in Hw. change minutes_divisor with 60 in Hw.
  change hours_pad_below with 10 in Hw. change minutes_pad_below with 10 in Hw. cbv zeta in Hw.
  fold a in Hw.
  destruct (N.ltb_spec 99 (a / 3600)); [discriminate|].
  apply Ok_inj in Hw. subst out.
  replace (a - a / 3600 * 3600) with (a mod 3600) by lia.
  rewrite !pad2_digits by lia. reflexivity.
Qed.

(* ---- Signature --------------------------------------------------------------------------- *)

Lemma validated_token_ok n r : validated_token n = Ok r -> r = n /\ existsb illegal_in_token n = false.
Proof.
  unfold validated_token. destruct (existsb illegal_in_token n); [discriminate|].
  intros H. apply Ok_inj in H. split; [symmetry; exact H|reflexivity].
Qed.

Lemma sig_write_inv s out : sig_write s = Ok out ->
  exists t, time_write (s_time s) = Ok t /\
            out = s_name s ++ bs " " ++ bs "<" ++ s_email s ++ bs "> " ++ t /\
            existsb illegal_in_token (s_name s) = false /\
            existsb illegal_in_token (s_email s) = false.
Proof.
  unfold sig_write. intros H.
  destruct (validated_token (s_name s)) as [n| | |] eqn:En; try discriminate.
  destruct (validated_token (s_email s)) as [e| | |] eqn:Ee; try discriminate.
  destruct (time_write (s_time s)) as [t| | |] eqn:Et; try discriminate.
  cbn [obind] in H. apply Ok_inj in H.
  apply validated_token_ok in En. apply validated_token_ok in Ee.
  destruct En as [-> Hn]. destruct Ee as [-> He].
  exists t. repeat split; try assumption. symmetry. exact H.
Qed.

Lemma L_sig_size_exact s out : i64 (t_seconds (s_time s)) -> sig_write s = Ok out -> sig_size s = len out.
Proof.
  intros Hs Hw. apply sig_write_inv in Hw. destruct Hw as (t & Ht & -> & _ & _).
  unfold sig_size. rewrite (L_time_size_exact _ _ Hs Ht).
  rewrite !len_app. replace (len (bs " ")) with 1 by reflexivity.
  replace (len (bs "<")) with 1 by reflexivity. replace (len (bs "> ")) with 2 by reflexivity. lia.
Qed.

Lemma L_sig_write_domain s :
  (exists bs, sig_write s = Ok bs) <->
  (existsb illegal_in_token (s_name s) = false /\ existsb illegal_in_token (s_email s) = false /\
   (Z.abs (t_offset (s_time s)) < 360000)%Z).
Proof.
  split.
  - intros [bs H]. apply sig_write_inv in H. destruct H as (t & Ht & _ & Hn & He).
    repeat split; try assumption. apply L_time_write_domain. eauto.
  - intros (Hn & He & Ho). apply L_time_write_domain in Ho. destruct Ho as [t Ht].
    unfold sig_write, validated_token. rewrite Hn, He, Ht. cbn [obind]. eauto.
Qed.

Lemma sig_write_total s : sig_write s <> Panic /\ sig_write s <> OutOfFuel.
Proof.
  unfold sig_write, validated_token.
  destruct (existsb illegal_in_token (s_name s)); cbn [obind]; [split; discriminate|].
  destruct (existsb illegal_in_token (s_email s)); cbn [obind]; [split; discriminate|].
  destruct (L_time_write_total (s_time s)) as [A B].
  destruct (time_write (s_time s)); cbn [obind]; split; congruence.
Qed.
