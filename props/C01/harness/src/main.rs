//! C01 harness: `size()` / `loose_header()` / `write_to()` of Time, Signature, Blob, Tree(Ref),
//! Commit(Ref), Tag(Ref); round trip through the decoders; object ids against git.
use bstr::{BStr, BString, ByteSlice};
use gix_actor::{Signature, SignatureRef};
use gix_date::{time::Sign, Time};
use gix_hash::ObjectId;
use gix_object::{
    tree::{Entry, EntryMode, EntryRef},
    Blob, Commit, CommitRef, Kind, ObjectRef, Tag, TagRef, Tree, TreeRef, WriteTo,
};
use gixv_common::*;
use std::panic::{catch_unwind, AssertUnwindSafe};

// ------------------------------------------------------------------------------------ values

#[derive(Clone, Debug)]
struct SigV {
    name: Vec<u8>,
    email: Vec<u8>,
    time: Time,
}
#[derive(Clone, Debug)]
struct CommitV {
    tree: Vec<u8>,
    parents: Vec<Vec<u8>>,
    author: SigV,
    committer: SigV,
    encoding: Option<Vec<u8>>,
    extra: Vec<(Vec<u8>, Vec<u8>)>,
    message: Vec<u8>,
}
#[derive(Clone, Debug)]
struct TagV {
    target: Vec<u8>,
    kind: Vec<u8>,
    name: Vec<u8>,
    tagger: Option<SigV>,
    message: Vec<u8>,
    pgp: Option<Vec<u8>>,
}
#[derive(Clone, Debug)]
struct EntryV {
    mode: u16,
    name: Vec<u8>,
    oid: Vec<u8>,
}

struct Cur<'a> {
    c: &'a Case,
    i: usize,
}
impl<'a> Cur<'a> {
    fn s(&mut self) -> Vec<u8> {
        self.i += 1;
        f_str(self.c, self.i - 1).to_vec()
    }
    fn int(&mut self) -> i64 {
        self.i += 1;
        f_i64(self.c, self.i - 1)
    }
    fn time(&mut self) -> Time {
        let seconds = self.int();
        let offset = self.int() as i32;
        let sign = if self.s() == b"-" { Sign::Minus } else { Sign::Plus };
        Time { seconds, offset, sign }
    }
    fn sig(&mut self) -> SigV {
        let name = self.s();
        let email = self.s();
        let time = self.time();
        SigV { name, email, time }
    }
    fn commit(&mut self) -> CommitV {
        let tree = self.s();
        let np = self.int().max(0) as usize;
        let parents = (0..np).map(|_| self.s()).collect();
        let author = self.sig();
        let committer = self.sig();
        let has = self.s() == b"1";
        let enc = self.s();
        let nx = self.int().max(0) as usize;
        let extra = (0..nx).map(|_| (self.s(), self.s())).collect();
        let message = self.s();
        CommitV { tree, parents, author, committer, encoding: has.then_some(enc), extra, message }
    }
    fn tag(&mut self) -> TagV {
        let target = self.s();
        let kind = self.s();
        let name = self.s();
        let has = self.s() == b"1";
        let tagger = self.sig();
        let message = self.s();
        let hasp = self.s() == b"1";
        let pgp = self.s();
        TagV { target, kind, name, tagger: has.then_some(tagger), message, pgp: hasp.then_some(pgp) }
    }
    fn entries(&mut self) -> Vec<EntryV> {
        let n = self.int().max(0) as usize;
        (0..n).map(|_| EntryV { mode: self.int() as u16, name: self.s(), oid: self.s() }).collect()
    }
}

fn push_time(c: &mut Case, t: &Time) {
    c.push(num(t.seconds));
    c.push(num(t.offset));
    c.push(if t.sign == Sign::Minus { b"-".to_vec() } else { b"+".to_vec() });
}
fn push_sig(c: &mut Case, s: &SigV) {
    c.push(s.name.clone());
    c.push(s.email.clone());
    push_time(c, &s.time);
}
fn commit_case(op: &str, v: &CommitV) -> Case {
    let mut c = vec![tag(op), v.tree.clone(), num(v.parents.len())];
    c.extend(v.parents.iter().cloned());
    push_sig(&mut c, &v.author);
    push_sig(&mut c, &v.committer);
    c.push(num(v.encoding.is_some() as u8));
    c.push(v.encoding.clone().unwrap_or_default());
    c.push(num(v.extra.len()));
    for (k, val) in &v.extra {
        c.push(k.clone());
        c.push(val.clone());
    }
    c.push(v.message.clone());
    c
}
fn tag_case(op: &str, v: &TagV) -> Case {
    let mut c = vec![tag(op), v.target.clone(), v.kind.clone(), v.name.clone(), num(v.tagger.is_some() as u8)];
    push_sig(&mut c, &v.tagger.clone().unwrap_or(SigV { name: vec![], email: vec![], time: Time::default() }));
    c.push(v.message.clone());
    c.push(num(v.pgp.is_some() as u8));
    c.push(v.pgp.clone().unwrap_or_default());
    c
}
fn tree_case(es: &[EntryV]) -> Case {
    let mut c = vec![tag("tree"), num(es.len())];
    for e in es {
        c.push(num(e.mode));
        c.push(e.name.clone());
        c.push(e.oid.clone());
    }
    c
}

fn sig_owned(s: &SigV) -> Signature {
    Signature { name: s.name.clone().into(), email: s.email.clone().into(), time: s.time }
}
fn sig_ref(s: &SigV) -> SignatureRef<'_> {
    SignatureRef { name: s.name.as_bstr(), email: s.email.as_bstr(), time: s.time }
}
fn kind_of(b: &[u8]) -> Option<Kind> {
    Kind::from_bytes(b).ok()
}
fn oid20(b: &[u8]) -> Option<ObjectId> {
    (b.len() == 20).then(|| ObjectId::from_bytes_or_panic(b))
}
fn commit_owned(v: &CommitV) -> Option<Commit> {
    Some(Commit {
        tree: oid20(&v.tree)?,
        parents: v.parents.iter().map(|p| oid20(p)).collect::<Option<_>>()?,
        author: sig_owned(&v.author),
        committer: sig_owned(&v.committer),
        encoding: v.encoding.clone().map(Into::into),
        message: v.message.clone().into(),
        extra_headers: v.extra.iter().map(|(k, x)| (BString::from(k.clone()), BString::from(x.clone()))).collect(),
    })
}
fn commit_ref(v: &CommitV) -> CommitRef<'_> {
    CommitRef {
        tree: v.tree.as_bstr(),
        parents: v.parents.iter().map(|p| p.as_bstr()).collect(),
        author: sig_ref(&v.author),
        committer: sig_ref(&v.committer),
        encoding: v.encoding.as_ref().map(|e| e.as_bstr()),
        message: v.message.as_bstr(),
        extra_headers: v.extra.iter().map(|(k, x)| (k.as_bstr(), std::borrow::Cow::Borrowed(x.as_bstr()))).collect(),
    }
}
fn tag_owned(v: &TagV) -> Option<Tag> {
    Some(Tag {
        target: oid20(&v.target)?,
        target_kind: kind_of(&v.kind)?,
        name: v.name.clone().into(),
        tagger: v.tagger.as_ref().map(sig_owned),
        message: v.message.clone().into(),
        pgp_signature: v.pgp.clone().map(Into::into),
    })
}
fn tag_ref(v: &TagV) -> Option<TagRef<'_>> {
    Some(TagRef {
        target: v.target.as_bstr(),
        target_kind: kind_of(&v.kind)?,
        name: v.name.as_bstr(),
        tagger: v.tagger.as_ref().map(sig_ref),
        message: v.message.as_bstr(),
        pgp_signature: v.pgp.as_ref().map(|p| p.as_bstr()),
    })
}
fn tree_owned(es: &[EntryV]) -> Option<Tree> {
    Some(Tree {
        entries: es
            .iter()
            .map(|e| Some(Entry { mode: EntryMode(e.mode), filename: e.name.clone().into(), oid: oid20(&e.oid)? }))
            .collect::<Option<_>>()?,
    })
}
fn tree_ref(es: &[EntryV]) -> Option<TreeRef<'_>> {
    Some(TreeRef {
        entries: es
            .iter()
            .map(|e| {
                Some(EntryRef {
                    mode: EntryMode(e.mode),
                    filename: e.name.as_bstr(),
                    oid: gix_hash::oid::try_from_bytes(&e.oid).ok()?,
                })
            })
            .collect::<Option<_>>()?,
    })
}

// ------------------------------------------------------------------------------------ observe

type W = Result<std::io::Result<Vec<u8>>, ()>; // Err(()) = panic

fn guard<T>(f: impl FnOnce() -> T) -> Result<T, ()> {
    catch_unwind(AssertUnwindSafe(f)).map_err(|_| ())
}
fn written(f: impl FnOnce(&mut Vec<u8>) -> std::io::Result<()>) -> W {
    guard(|| {
        let mut v = Vec::new();
        f(&mut v).map(|_| v)
    })
}
fn show_w(w: &W) -> String {
    match w {
        Ok(Ok(v)) => format!("ok {}", hexs(v)),
        Ok(Err(_)) => "err".into(),
        Err(()) => "PANIC".into(),
    }
}
struct Obs {
    size: Result<u64, ()>,
    hdr: Result<Vec<u8>, ()>,
    w: W,
}
fn observe(o: &dyn WriteTo) -> Obs {
    Obs {
        size: guard(|| o.size()),
        hdr: guard(|| o.loose_header().to_vec()),
        w: written(|v| o.write_to(v)),
    }
}
fn show_obj(o: &dyn WriteTo) -> String {
    let x = observe(o);
    let head = match (&x.size, &x.hdr) {
        (Ok(n), Ok(h)) => format!("size={} hdr={}", n, hexs(h)),
        _ => "size=PANIC hdr=PANIC".into(),
    };
    format!("{} {}", head, show_w(&x.w))
}

fn imp(c: &Case) -> String {
    let mut cur = Cur { c, i: 1 };
    match f_str(c, 0) {
        b"time" => {
            let t = cur.time();
            format!("size={} {}", t.size(), show_w(&written(|v| t.write_to(v))))
        }
        b"sig" => {
            let s = cur.sig();
            let r = sig_ref(&s);
            let o = sig_owned(&s);
            let a = format!("size={} {}", r.size(), show_w(&written(|v| r.write_to(v))));
            let b = format!("size={} {}", o.size(), show_w(&written(|v| o.write_to(v))));
            if a == b {
                a
            } else {
                format!("OWNED/REF DIFFER {a} | {b}")
            }
        }
        b"blob" => show_obj(&Blob { data: cur.s() }),
        b"tree" => {
            let es = cur.entries();
            match (tree_owned(&es), tree_ref(&es)) {
                (Some(t), Some(r)) => format!("T {} R {}", show_obj(&t), show_obj(&r)),
                _ => "?".into(),
            }
        }
        b"treedec" => {
            let data = cur.s();
            match guard(|| TreeRef::from_bytes(&data).map(|t| t.entries.iter().map(|e| format!(" {}:{}:{}", e.mode.0, hexs(e.filename), hexs(e.oid.as_bytes()))).collect::<String>())) {
                Ok(Ok(s)) => format!("ok{s}"),
                Ok(Err(_)) => "err".into(),
                Err(()) => "PANIC".into(),
            }
        }
        b"commit" => match commit_owned(&cur.commit()) {
            Some(x) => show_obj(&x),
            None => "?".into(),
        },
        b"commitref" => show_obj(&commit_ref(&cur.commit())),
        b"tag" => match tag_owned(&cur.tag()) {
            Some(x) => show_obj(&x),
            None => "?".into(),
        },
        b"tagref" => {
            let v = cur.tag();
            match tag_ref(&v) {
                Some(x) => show_obj(&x),
                None => "?".into(),
            }
        }
        _ => "?".into(),
    }
}

// ------------------------------------------------------------------------------------ oracle

fn ws(b: u8) -> bool {
    b.is_ascii_whitespace()
}
/// the writable-and-round-trippable domain of the property statement
fn wf_time_rt(t: &Time) -> bool {
    let a = t.offset.unsigned_abs();
    a % 60 == 0 && a / 3600 <= 99 && (t.offset == 0 || (t.offset < 0) == (t.sign == Sign::Minus))
}
fn wf_token(n: &[u8]) -> bool {
    !n.iter().any(|b| matches!(b, b'<' | b'>' | b'\n')) && n.first().map_or(true, |b| !ws(*b)) && n.last().map_or(true, |b| !ws(*b))
}
fn wf_sig_rt(s: &SigV) -> bool {
    wf_token(&s.name) && wf_token(&s.email) && wf_time_rt(&s.time)
}
const RESERVED: &[&[u8]] = &[b"tree", b"parent", b"author", b"committer", b"encoding"];
fn wf_extra_rt(k: &[u8], v: &[u8]) -> bool {
    !k.is_empty()
        && !k.iter().any(|b| matches!(b, b' ' | b'\n'))
        && !RESERVED.contains(&k)
        && !v.is_empty()
        && v[0] != b'\n'
        && match v.iter().filter(|b| **b == b'\n').count() {
            // `a\nb` and `a\nb\n` (and `a`, `a\n`) serialise to the same bytes; the decoder's canonical
            // forms are: single line without, several lines with the final newline
            0 => true,
            1 => false,
            _ => v.ends_with(b"\n"),
        }
}
fn lower_hex40(b: &[u8]) -> bool {
    b.len() == 40 && b.iter().all(|x| matches!(x, b'0'..=b'9' | b'a'..=b'f'))
}
fn valid_mode(m: u16) -> bool {
    matches!(m, 0o40000 | 0o120000 | 0o160000) || m & 0o100000 == 0o100000
}
/// git's tree order: names compare as if directories ended in '/'
fn tree_key(e: &EntryV) -> Vec<u8> {
    let mut k = e.name.clone();
    if e.mode & 0o170000 == 0o040000 {
        k.push(b'/');
    }
    k
}
fn names_plain(es: &[EntryV]) -> bool {
    es.iter().all(|e| !e.name.contains(&0) && !e.name.contains(&b'/'))
}
fn canonically_sorted(es: &[EntryV]) -> bool {
    es.windows(2).all(|w| tree_key(&w[0]) <= tree_key(&w[1]))
}

fn fnv(c: &Case) -> u64 {
    let mut h = 0xcbf29ce484222325u64;
    for f in c {
        for b in f {
            h = (h ^ *b as u64).wrapping_mul(0x100000001b3);
        }
        h = (h ^ 0xff).wrapping_mul(0x100000001b3);
    }
    h
}

fn git_hash(kind: &str, data: &[u8]) -> Result<String, String> {
    use std::io::Write;
    use std::process::{Command, Stdio};
    let mut ch = Command::new("/usr/bin/git")
        .args(["hash-object", "--literally", "-t", kind, "--stdin"])
        .env("GIT_CONFIG_NOSYSTEM", "1")
        .env("HOME", std::env::temp_dir())
        .stdin(Stdio::piped())
        .stdout(Stdio::piped())
        .stderr(Stdio::null())
        .spawn()
        .map_err(|e| e.to_string())?;
    let mut stdin = ch.stdin.take().unwrap();
    let d = data.to_vec();
    let th = std::thread::spawn(move || {
        let _ = stdin.write_all(&d);
    });
    let out = ch.wait_with_output().map_err(|e| e.to_string())?;
    let _ = th.join();
    Ok(String::from_utf8_lossy(&out.stdout).trim().to_string())
}

/// write through the loose store, read back with gix and with git
fn loose_store_check(o: &dyn WriteTo, kind: Kind, bytes: &[u8], salt: u64) -> Result<(), (String, String)> {
    use gix_odb::Write;
    use std::process::Command;
    let dir = std::env::temp_dir().join(format!("gixv-c01-{}-{:016x}", std::process::id(), salt));
    let _ = std::fs::remove_dir_all(&dir);
    let res = (|| {
        let st = Command::new("/usr/bin/git")
            .args(["init", "-q", "--bare"])
            .arg(&dir)
            .env("GIT_CONFIG_NOSYSTEM", "1")
            .env("HOME", std::env::temp_dir())
            .output()
            .map_err(|e| ("harness-git".to_string(), e.to_string()))?;
        if !st.status.success() {
            return Err(("harness-git".into(), "git init failed".into()));
        }
        let store = gix_odb::loose::Store::at(dir.join("objects"), gix_hash::Kind::Sha1);
        let id = store.write(o).map_err(|e| ("loose-write".to_string(), e.to_string()))?;
        let want = gix_object::compute_hash(gix_hash::Kind::Sha1, kind, bytes);
        if id != want {
            return Err(("loose-id".into(), format!("store id {id} but compute_hash of the body {want}")));
        }
        let mut buf = Vec::new();
        match store.try_find(&id, &mut buf) {
            Ok(Some(d)) if d.kind == kind && d.data == bytes => {}
            Ok(Some(d)) => {
                return Err(("loose-readback".into(), format!("read back {} bytes of {}, wrote {}", d.data.len(), d.kind, bytes.len())))
            }
            Ok(None) => return Err(("loose-readback".into(), "object not found after write".into())),
            Err(e) => return Err(("loose-readback".into(), e.to_string())),
        }
        let g = |args: &[&str]| {
            Command::new("/usr/bin/git")
                .arg("--git-dir")
                .arg(&dir)
                .args(args)
                .env("GIT_CONFIG_NOSYSTEM", "1")
                .env("HOME", std::env::temp_dir())
                .output()
        };
        let ids = id.to_string();
        let sz = g(&["cat-file", "-s", &ids]).map_err(|e| ("harness-git".to_string(), e.to_string()))?;
        if String::from_utf8_lossy(&sz.stdout).trim() != bytes.len().to_string() {
            return Err((
                "git-size".into(),
                format!("git cat-file -s says {:?} ({}) for {} written bytes", String::from_utf8_lossy(&sz.stdout).trim(), String::from_utf8_lossy(&sz.stderr).trim(), bytes.len()),
            ));
        }
        let body = g(&["cat-file", std::str::from_utf8(kind.as_bytes()).unwrap(), &ids]).map_err(|e| ("harness-git".to_string(), e.to_string()))?;
        if body.stdout != bytes {
            return Err(("git-body".into(), "git cat-file returns different bytes".into()));
        }
        Ok(())
    })();
    let _ = std::fs::remove_dir_all(&dir);
    res
}

/// size, header, id: everything that does not need the decoder
fn check_sizes(c: &Case, o: &dyn WriteTo, kind: Kind, what: &str) -> Result<Option<Vec<u8>>, Verdict> {
    let x = observe(o);
    let bytes = match &x.w {
        Ok(Ok(b)) => b.clone(),
        Ok(Err(_)) => return Ok(None),
        Err(()) => return Err(Verdict::fail(format!("{what}-write-panic"), "write_to panicked")),
    };
    let size = match x.size {
        Ok(n) => n,
        Err(()) => return Err(Verdict::fail(format!("{what}-size-panic"), "size() panicked although write_to succeeded")),
    };
    if size != bytes.len() as u64 {
        return Err(Verdict::fail(format!("{what}-size"), format!("size() = {} but write_to wrote {} bytes", size, bytes.len())));
    }
    let mut want = kind.as_bytes().to_vec();
    want.push(b' ');
    want.extend(bytes.len().to_string().bytes());
    want.push(0);
    match &x.hdr {
        Ok(h) if *h == want => {}
        Ok(h) => return Err(Verdict::fail(format!("{what}-header"), format!("loose header {:?} for a body of {} bytes", h.as_bstr(), bytes.len()))),
        Err(()) => return Err(Verdict::fail(format!("{what}-header"), "loose_header() panicked")),
    }
    let h = fnv(c);
    if h % 24 == 0 {
        let ks = std::str::from_utf8(kind.as_bytes()).unwrap();
        let ours = gix_object::compute_hash(gix_hash::Kind::Sha1, kind, &bytes).to_string();
        match git_hash(ks, &bytes) {
            Ok(g) if g == ours => {}
            Ok(g) => return Err(Verdict::fail(format!("{what}-id"), format!("compute_hash {ours}, git hash-object {g}"))),
            Err(e) => return Err(Verdict::fail("harness-git", e)),
        }
    }
    if h % 96 == 0 {
        if let Err((cls, d)) = loose_store_check(o, kind, &bytes, h) {
            return Err(Verdict::fail(format!("{what}-{cls}"), d));
        }
    }
    Ok(Some(bytes))
}

fn prop(c: &Case) -> Verdict {
    match guard(|| prop_inner(c)) {
        Ok(v) => v,
        Err(()) => Verdict::fail("oracle-panic", "panic while evaluating the property"),
    }
}

fn prop_inner(c: &Case) -> Verdict {
    let mut cur = Cur { c, i: 1 };
    match f_str(c, 0) {
        b"time" => {
            let t = cur.time();
            let hours = t.offset.unsigned_abs() / 3600;
            match written(|v| t.write_to(v)) {
                Err(()) => Verdict::fail("time-panic", "write_to panicked"),
                Ok(Err(_)) => {
                    if hours <= 99 {
                        Verdict::fail("time-rejected", "offset below 100 hours rejected")
                    } else {
                        Verdict::ok(false, "time-err")
                    }
                }
                Ok(Ok(b)) => {
                    if hours > 99 {
                        return Verdict::fail("time-accepted", "offset of 100 hours or more written");
                    }
                    if t.size() != b.len() {
                        return Verdict::fail("time-size", format!("size() = {} but {:?} has {} bytes", t.size(), b.as_bstr(), b.len()));
                    }
                    // independent rendering
                    let a = t.offset.unsigned_abs();
                    let want = format!("{} {}{:02}{:02}", t.seconds, if t.sign == Sign::Minus { '-' } else { '+' }, a / 3600, (a % 3600) / 60);
                    if b != want.as_bytes() {
                        return Verdict::fail("time-format", format!("{:?} instead of {want:?}", b.as_bstr()));
                    }
                    if wf_time_rt(&t) {
                        let mut line = b"n <e> ".to_vec();
                        line.extend(&b);
                        match SignatureRef::from_bytes::<()>(&line) {
                            Ok(s) if s.time == t => Verdict::ok(true, "time-ok"),
                            Ok(s) => Verdict::fail("time-rt", format!("{:?} decodes to {:?}", b.as_bstr(), s.time)),
                            Err(_) => Verdict::fail("time-rt", format!("{:?} does not decode", b.as_bstr())),
                        }
                    } else {
                        Verdict::ok(true, "time-ok-outside-rt-domain")
                    }
                }
            }
        }
        b"sig" => {
            let s = cur.sig();
            let r = sig_ref(&s);
            let clean = !s.name.iter().chain(s.email.iter()).any(|b| matches!(b, b'<' | b'>' | b'\n'));
            let hours = s.time.offset.unsigned_abs() / 3600;
            match written(|v| r.write_to(v)) {
                Err(()) => Verdict::fail("sig-panic", ""),
                Ok(Err(_)) => {
                    if clean && hours <= 99 {
                        Verdict::fail("sig-rejected", "")
                    } else {
                        Verdict::ok(false, "sig-err")
                    }
                }
                Ok(Ok(b)) => {
                    if !clean {
                        return Verdict::fail("sig-accepted", "illegal character written");
                    }
                    if r.size() != b.len() || sig_owned(&s).size() != b.len() {
                        return Verdict::fail("sig-size", format!("size() = {} but {} bytes written", r.size(), b.len()));
                    }
                    if wf_sig_rt(&s) {
                        match SignatureRef::from_bytes::<()>(&b) {
                            Ok(d) if d == r => Verdict::ok(true, "sig-ok"),
                            Ok(d) => Verdict::fail("sig-rt", format!("{:?} decodes to {:?}", b.as_bstr(), d)),
                            Err(_) => Verdict::fail("sig-rt", format!("{:?} does not decode", b.as_bstr())),
                        }
                    } else {
                        Verdict::ok(true, "sig-ok-outside-rt-domain")
                    }
                }
            }
        }
        b"blob" => {
            let d = cur.s();
            let o = Blob { data: d.clone() };
            match check_sizes(c, &o, Kind::Blob, "blob") {
                Err(v) => v,
                Ok(None) => Verdict::fail("blob-rejected", ""),
                Ok(Some(b)) => {
                    if b != d {
                        return Verdict::fail("blob-rt", "");
                    }
                    match ObjectRef::from_bytes(Kind::Blob, &b) {
                        Ok(ObjectRef::Blob(r)) if r.data == d => Verdict::ok(true, "blob-ok"),
                        _ => Verdict::fail("blob-rt", ""),
                    }
                }
            }
        }
        b"tree" => {
            let es = cur.entries();
            let (Some(t), Some(r)) = (tree_owned(&es), tree_ref(&es)) else {
                return Verdict::ok(false, "?");
            };
            let plain = names_plain(&es);
            let sorted = canonically_sorted(&es);
            let in_domain = plain && sorted;
            let wt = written(|v| t.write_to(v));
            let wr = written(|v| r.write_to(v));
            if show_w(&wt) != show_w(&wr) {
                return Verdict::fail("tree-owned-ref-differ", "");
            }
            match (&wt, in_domain) {
                (Err(()), true) => return Verdict::fail("tree-panic", "canonically sorted tree panics"),
                (Ok(Err(_)), true) => return Verdict::fail("tree-rejected", "canonically sorted NUL-free tree rejected"),
                (Err(()), false) => return Verdict::ok(false, "tree-unsorted-panic"),
                (Ok(Err(_)), false) => return Verdict::ok(false, "tree-err"),
                (Ok(Ok(_)), _) => {}
            }
            if es.iter().any(|e| e.name.contains(&0)) {
                return Verdict::fail("tree-accepted", "NUL in file name written");
            }
            for (o, what) in [(&t as &dyn WriteTo, "tree"), (&r as &dyn WriteTo, "treeref")] {
                let b = match check_sizes(c, o, Kind::Tree, what) {
                    Err(v) => return v,
                    Ok(None) => return Verdict::fail("tree-rejected", ""),
                    Ok(Some(b)) => b,
                };
                // independent rendering
                let mut want = Vec::new();
                for e in &es {
                    want.extend(format!("{:o} ", e.mode).bytes());
                    want.extend(&e.name);
                    want.push(0);
                    want.extend(&e.oid);
                }
                if b != want {
                    return Verdict::fail(format!("{what}-format"), "");
                }
                if in_domain && es.iter().all(|e| valid_mode(e.mode)) {
                    match TreeRef::from_bytes(&b) {
                        Ok(d) if d == r && Tree::from(d.clone()) == t => {}
                        Ok(_) => return Verdict::fail(format!("{what}-rt"), "decodes to a different tree"),
                        Err(_) => return Verdict::fail(format!("{what}-rt"), "does not decode"),
                    }
                }
            }
            if in_domain && es.iter().all(|e| valid_mode(e.mode)) {
                Verdict::ok(true, "tree-ok")
            } else {
                Verdict::ok(true, "tree-ok-outside-rt-domain")
            }
        }
        b"treedec" => {
            let data = cur.s();
            match TreeRef::from_bytes(&data) {
                Err(_) => Verdict::ok(false, "treedec-err"),
                Ok(t) => {
                    // what decodes must re-encode to something that decodes to the same tree
                    let mut v = Vec::new();
                    for e in &t.entries {
                        v.extend(format!("{:o} ", e.mode.0).bytes());
                        v.extend(e.filename.iter());
                        v.push(0);
                        v.extend(e.oid.as_bytes());
                    }
                    match TreeRef::from_bytes(&v) {
                        Ok(t2) if t2 == t => Verdict::ok(!t.entries.is_empty(), "treedec-ok"),
                        _ => Verdict::fail("treedec-reencode", "decoded tree does not survive re-encoding"),
                    }
                }
            }
        }
        op @ (b"commit" | b"commitref") => {
            let v = cur.commit();
            let sigs_clean = [&v.author, &v.committer].iter().all(|s| {
                !s.name.iter().chain(s.email.iter()).any(|b| matches!(b, b'<' | b'>' | b'\n')) && s.time.offset.unsigned_abs() / 3600 <= 99
            });
            let enc_ok = v.encoding.as_ref().map_or(true, |e| !e.is_empty() && !e.contains(&b'\n'));
            let extra_ok = v.extra.iter().all(|(_, x)| !x.is_empty());
            let writable = sigs_clean && enc_ok && extra_ok;
            let rt = writable
                && wf_sig_rt(&v.author)
                && wf_sig_rt(&v.committer)
                && v.extra.iter().all(|(k, x)| wf_extra_rt(k, x));
            // known finding: a value whose FIRST line is empty (`"\nfoo\n"`) passes the writer's
            // EmptyValue check but the header `name \n foo\n` is rejected by the decoder
            let empty_first_line = writable
                && !rt
                && wf_sig_rt(&v.author)
                && wf_sig_rt(&v.committer)
                && v.extra.iter().any(|(_, x)| x.len() > 1 && x[0] == b'\n')
                && v.extra.iter().all(|(k, x)| {
                    wf_extra_rt(k, x) || (x.len() > 1 && x[0] == b'\n' && {
                        let mut y = b"a".to_vec();
                        y.extend(x);
                        wf_extra_rt(k, &y)
                    })
                });
            if op == b"commit" {
                let Some(o) = commit_owned(&v) else { return Verdict::ok(false, "?") };
                match check_sizes(c, &o, Kind::Commit, "commit") {
                    Err(x) => x,
                    Ok(None) => {
                        if writable {
                            Verdict::fail("commit-rejected", "")
                        } else {
                            Verdict::ok(false, "commit-err")
                        }
                    }
                    Ok(Some(b)) => {
                        if !writable {
                            return Verdict::fail("commit-accepted", "value outside the writable domain written");
                        }
                        if empty_first_line {
                            return match CommitRef::from_bytes(&b) {
                                Ok(d) if Commit::from(d.clone()) == o => Verdict::ok(true, "commit-ok"),
                                _ => Verdict::fail("commit-rt-empty-first-line", format!("{:?} does not decode back", b.as_bstr())),
                            };
                        }
                        if !rt {
                            return Verdict::ok(true, "commit-ok-outside-rt-domain");
                        }
                        match CommitRef::from_bytes(&b) {
                            Ok(d) if Commit::from(d.clone()) == o => Verdict::ok(true, "commit-ok"),
                            Ok(d) => Verdict::fail("commit-rt", format!("{:?} decodes to {:?}", b.as_bstr(), d)),
                            Err(_) => Verdict::fail("commit-rt", format!("{:?} does not decode", b.as_bstr())),
                        }
                    }
                }
            } else {
                let res;
                let o = commit_ref(&v);
                let ids_ok = ObjectId::from_hex(&v.tree).is_ok() && v.parents.iter().all(|p| ObjectId::from_hex(p).is_ok());
                if !ids_ok {
                    // not a value the type is meant to hold: `expect("prior validation")`
                    return Verdict::ok(false, "commitref-bad-hex");
                }
                res = match check_sizes(c, &o, Kind::Commit, "commitref") {
                    Err(x) => return x,
                    Ok(r) => r,
                };
                match &res {
                    None => {
                        if writable {
                            Verdict::fail("commitref-rejected", "")
                        } else {
                            Verdict::ok(false, "commitref-err")
                        }
                    }
                    Some(b) => {
                        if !writable {
                            return Verdict::fail("commitref-accepted", "");
                        }
                        if empty_first_line && lower_hex40(&v.tree) && v.parents.iter().all(|p| lower_hex40(p)) {
                            return match CommitRef::from_bytes(&b) {
                                Ok(d) if d == o => Verdict::ok(true, "commitref-ok"),
                                _ => Verdict::fail("commit-rt-empty-first-line", format!("{:?} does not decode back", b.as_bstr())),
                            };
                        }
                        if !(rt && lower_hex40(&v.tree) && v.parents.iter().all(|p| lower_hex40(p))) {
                            return Verdict::ok(true, "commitref-ok-outside-rt-domain");
                        }
                        match CommitRef::from_bytes(&b) {
                            Ok(d) if d == o => Verdict::ok(true, "commitref-ok"),
                            Ok(d) => Verdict::fail("commitref-rt", format!("{:?} decodes to {:?}", b.as_bstr(), d)),
                            Err(_) => Verdict::fail("commitref-rt", format!("{:?} does not decode", b.as_bstr())),
                        }
                    }
                }
            }
        }
        op @ (b"tag" | b"tagref") => {
            let v = cur.tag();
            let sig_clean = v.tagger.as_ref().map_or(true, |s| {
                !s.name.iter().chain(s.email.iter()).any(|b| matches!(b, b'<' | b'>' | b'\n')) && s.time.offset.unsigned_abs() / 3600 <= 99
            });
            let name_ok = simple_tag_name(&v.name);
            let rt = sig_clean
                && name_ok == Some(true)
                && v.tagger.as_ref().map_or(true, wf_sig_rt)
                && tag_body_rt(&v);
            let (o_owned, o_ref);
            let (o, what): (&dyn WriteTo, &str) = if op == b"tag" {
                match tag_owned(&v) {
                    Some(x) => {
                        o_owned = x;
                        (&o_owned, "tag")
                    }
                    None => return Verdict::ok(false, "?"),
                }
            } else {
                if ObjectId::from_hex(&v.target).is_err() {
                    return Verdict::ok(false, "tagref-bad-hex");
                }
                match tag_ref(&v) {
                    Some(x) => {
                        o_ref = x;
                        (&o_ref, "tagref")
                    }
                    None => return Verdict::ok(false, "?"),
                }
            };
            match check_sizes(c, o, Kind::Tag, what) {
                Err(x) => x,
                Ok(None) => {
                    if sig_clean && name_ok == Some(true) {
                        Verdict::fail(format!("{what}-rejected"), "")
                    } else {
                        Verdict::ok(false, format!("{what}-err"))
                    }
                }
                Ok(Some(b)) => {
                    if !sig_clean || name_ok == Some(false) {
                        return Verdict::fail(format!("{what}-accepted"), "value outside the writable domain written");
                    }
                    if !rt || (op == b"tagref" && !lower_hex40(&v.target)) {
                        return Verdict::ok(true, format!("{what}-ok-outside-rt-domain"));
                    }
                    match TagRef::from_bytes(&b) {
                        Ok(d) => {
                            let same = if op == b"tag" { Some(Tag::from(d.clone())) == tag_owned(&v) } else { Some(d.clone()) == tag_ref(&v) };
                            if same {
                                Verdict::ok(true, format!("{what}-ok"))
                            } else {
                                Verdict::fail(format!("{what}-rt"), format!("{:?} decodes to {:?}", b.as_bstr(), d))
                            }
                        }
                        Err(_) => Verdict::fail(format!("{what}-rt"), format!("{:?} does not decode", b.as_bstr())),
                    }
                }
            }
        }
        _ => Verdict::ok(false, "?"),
    }
}

/// Some(true): certainly a valid tag name (plain word); Some(false): certainly invalid;
/// None: the oracle has no opinion (left to the model comparison)
fn simple_tag_name(n: &[u8]) -> Option<bool> {
    if n.is_empty() || n.contains(&b'\n') || n.contains(&b' ') || n.contains(&0) || n[0] == b'-' {
        return Some(false);
    }
    if n.iter().all(|b| b.is_ascii_alphanumeric() || *b == b'-' || *b == b'_') {
        return Some(true);
    }
    if n.iter().all(|b| b.is_ascii_alphanumeric() || matches!(b, b'-' | b'_' | b'.' | b'/'))
        && !n.starts_with(b".")
        && !n.ends_with(b".")
        && !n.starts_with(b"/")
        && !n.ends_with(b"/")
        && !n.find(b"..").is_some()
        && !n.find(b"//").is_some()
        && !n.find(b"/.").is_some()
        && !n.find(b".lock").is_some()
    {
        return Some(true);
    }
    None
}
/// message / signature split the tag decoder can undo
fn tag_body_rt(v: &TagV) -> bool {
    const B: &[u8] = b"-----BEGIN PGP SIGNATURE-----";
    const B2: &[u8] = b"-----BEGIN SSH SIGNATURE-----";
    let msg_plain = v.message.find(B).is_none() && v.message.find(B2).is_none() && v.message.find(b"-----BEGIN").is_none();
    match &v.pgp {
        None => msg_plain,
        Some(p) => msg_plain && p.starts_with(B) && p.ends_with(b"-----END PGP SIGNATURE-----\n") && !v.message.is_empty(),
    }
}

// ------------------------------------------------------------------------------------ gen

const NAME_AB: &[u8] = b"ab AB.-\xc3\xa9";
fn gen_seconds(rng: &mut Rng) -> i64 {
    match rng.below(10) {
        0..=3 => {
            // near a power of ten, either sign
            let k = rng.below(19) as u32;
            let p = 10i64.pow(k);
            let d = rng.range(-2, 2);
            let v = p.saturating_add(d);
            if rng.chance(1, 2) {
                v
            } else {
                v.checked_neg().unwrap_or(i64::MIN)
            }
        }
        4..=6 => {
            // random digit count
            let k = rng.below(19) as u32;
            let lo = if k == 0 { 0 } else { 10i64.pow(k) };
            let hi = if k == 18 { i64::MAX } else { 10i64.pow(k + 1) - 1 };
            let v = lo + (rng.next() % ((hi - lo) as u64 + 1)) as i64;
            if rng.chance(1, 2) {
                v
            } else {
                -v
            }
        }
        7 => *rng.pick(&[i64::MIN, i64::MIN + 1, i64::MAX, i64::MAX - 1, 0, -1, 1]),
        8 => rng.next() as i64,
        _ => rng.range(0, 2_000_000_000),
    }
}
const OFFSETS: &[i32] = &[
    0, 60, -60, 59, -59, 61, 3599, 3600, -3600, 3601, 35999, 36000, -36000, 19800, -12600, 7200, 359940, -359940, 359999, -359999,
    360000, -360000, 360059, 356400, -356400, 356399, i32::MAX, i32::MIN, i32::MIN + 1, 1, -1, 86400, 345600,
];
fn gen_time(rng: &mut Rng) -> Time {
    let seconds = gen_seconds(rng);
    let offset = match rng.below(10) {
        0..=2 => *rng.pick(OFFSETS),
        3..=6 => (rng.range(-99 * 60 - 59, 99 * 60 + 59) * 60) as i32,
        7 => rng.range(-400_000, 400_000) as i32,
        8 => 0,
        _ => rng.next() as i32,
    };
    let sign = if rng.chance(1, 8) {
        if rng.chance(1, 2) {
            Sign::Minus
        } else {
            Sign::Plus
        }
    } else if offset < 0 {
        Sign::Minus
    } else {
        Sign::Plus
    };
    Time { seconds, offset, sign }
}
fn gen_good_time(rng: &mut Rng) -> Time {
    let mut t = gen_time(rng);
    if t.offset.unsigned_abs() / 3600 > 99 {
        t.offset = (rng.range(-99 * 60 - 59, 99 * 60 + 59) * 60) as i32;
        t.sign = if t.offset < 0 { Sign::Minus } else { Sign::Plus };
    }
    t
}
fn gen_token(rng: &mut Rng) -> Vec<u8> {
    let mut w = match rng.below(8) {
        0 => vec![],
        1 => rng.word(NAME_AB, 1, 2),
        2..=5 => rng.word(NAME_AB, 1, 12),
        6 => rng.bytes(rng.clone().below(6) as usize + 1).into_iter().filter(|b| !matches!(b, b'<' | b'>' | b'\n')).collect(),
        _ => rng.word(b"ab", 1, 40),
    };
    if rng.chance(1, 25) && !w.is_empty() {
        let i = rng.below(w.len() as u64) as usize;
        w[i] = *rng.pick(b"<>\n");
    }
    if rng.chance(9, 10) {
        while w.first().map_or(false, |b| ws(*b)) {
            w.remove(0);
        }
        while w.last().map_or(false, |b| ws(*b)) {
            w.pop();
        }
    }
    w
}
fn gen_sig(rng: &mut Rng) -> SigV {
    SigV { name: gen_token(rng), email: gen_token(rng), time: if rng.chance(19, 20) { gen_good_time(rng) } else { gen_time(rng) } }
}
fn gen_text(rng: &mut Rng, max: usize) -> Vec<u8> {
    match rng.below(6) {
        0 => vec![],
        1 => rng.word(b"ab \n", 0, max),
        2 => rng.bytes(rng.clone().below(max as u64 + 1) as usize),
        3 => {
            let mut t = rng.word(b"abc \n", 1, max);
            t.push(b'\n');
            t
        }
        _ => rng.word(b"abcdefgh .,\n", 0, max),
    }
}
fn gen_extra(rng: &mut Rng) -> (Vec<u8>, Vec<u8>) {
    let k = match rng.below(8) {
        0 => b"gpgsig".to_vec(),
        1 => b"mergetag".to_vec(),
        2 => rng.pick(&[&b"encoding"[..], b"parent", b"", b"a b", b"a\nb"]).to_vec(),
        _ => rng.word(b"abx-", 1, 6),
    };
    let v = match rng.below(10) {
        0 => vec![],
        1 => b"\n".to_vec(),
        2 => { let ab: &[u8] = if rng.chance(1, 3) { b"ab \n\r" } else { b"ab \n" }; rng.word(ab, 1, 12) },
        3 => {
            let mut v = rng.word(b"ab\n", 1, 12);
            v.push(b'\n');
            v
        }
        4 => if rng.chance(1, 3) { b"-----BEGIN PGP SIGNATURE-----\r\n\r\nabc\r\n=xy\r\n-----END PGP SIGNATURE-----".to_vec() } else { b"-----BEGIN PGP SIGNATURE-----\n\nabc\n=xy\n-----END PGP SIGNATURE-----".to_vec() },
        5 => {
            let mut v = rng.word(b"ab", 1, 5);
            v.extend(b"\n\n");
            v.extend(rng.word(b"ab", 0, 5));
            v
        }
        _ => {
            // multi-line without trailing newline
            let n = rng.range(1, 4);
            let mut v = Vec::new();
            for i in 0..n {
                if i > 0 {
                    v.push(b'\n');
                }
                v.extend(rng.word(b"abc ", 1, 8));
            }
            if n > 1 && rng.chance(3, 4) {
                v.push(b'\n');
            }
            v
        }
    };
    (k, v)
}
fn gen_commit(rng: &mut Rng) -> CommitV {
    let np = match rng.below(10) {
        0..=2 => 0,
        3..=6 => 1,
        7..=8 => 2,
        _ => rng.range(3, 9) as usize,
    };
    let same = rng.chance(1, 3);
    let author = gen_sig(rng);
    let committer = if same { author.clone() } else { gen_sig(rng) };
    CommitV {
        tree: rng.bytes(20),
        parents: (0..np).map(|_| rng.bytes(20)).collect(),
        author,
        committer,
        encoding: match rng.below(12) {
            0 => Some(vec![]),
            1 => Some(b"a\nb".to_vec()),
            2..=4 => Some(rng.pick(&[&b"ISO-8859-1"[..], b"UTF-8", b"x"]).to_vec()),
            _ => None,
        },
        extra: (0..match rng.below(6) {
            0..=2 => 0,
            3..=4 => 1,
            _ => rng.range(2, 4),
        })
            .map(|_| gen_extra(rng))
            .collect(),
        message: gen_text(rng, 40),
    }
}
fn hexify(rng: &mut Rng, id: &[u8]) -> Vec<u8> {
    let mut h = hexs(id).into_bytes();
    match rng.below(40) {
        0 => {
            for b in h.iter_mut() {
                if rng.chance(1, 2) {
                    *b = b.to_ascii_uppercase();
                }
            }
        }
        1 => {
            h.pop();
        }
        2 => h.push(b'0'),
        3 => {
            let i = rng.below(h.len() as u64) as usize;
            h[i] = *rng.pick(b"gxG -");
        }
        4 => h.clear(),
        _ => {}
    }
    h
}
fn commit_to_ref(rng: &mut Rng, v: &CommitV) -> CommitV {
    let mut r = v.clone();
    r.tree = hexify(rng, &v.tree);
    r.parents = v.parents.iter().map(|p| hexify(rng, p)).collect();
    r
}
const TAG_NAMES: &[&[u8]] = &[
    b"v1.0", b"v1", b"a", b"release/1.0", b"-a", b"", b"a.lock", b"a.lock/b", b"a/b.lock", b".a", b"a.", b"a..b", b"a//b", b"/a", b"a/", b"a b",
    b"a\nb", b"a@{b", b"a*", b"a/.b", b"a@b", b"a{b", b"\xc3\xa9", b"a~1", b"a^", b"a:b", b"a?b", b"a[b", b"a\\b", b"a\x7fb", b"x.lockx", b"lock",
    b".lock", b"a.loc", b"ab.lock", b"a/b/c", b"a.lock.b", b"a/b.lock/c", b"@", b"a.b.c", b"1-2_3",
];
fn gen_tag(rng: &mut Rng) -> TagV {
    let name = match rng.below(10) {
        0..=3 => rng.pick(TAG_NAMES).to_vec(),
        4..=5 => rng.word(b"ab./-@{lock", 1, 10),
        6 => {
            let mut n = rng.word(b"ab/", 1, 6);
            n.extend(b".lock");
            if rng.chance(1, 2) {
                n.extend(rng.word(b"/ab", 1, 3));
            }
            n
        }
        _ => rng.word(b"abcv0123456789.-_", 1, 10),
    };
    let pgp = match rng.below(8) {
        0 => Some(b"-----BEGIN PGP SIGNATURE-----\n\nabc\n-----END PGP SIGNATURE-----\n".to_vec()),
        1 => Some(gen_text(rng, 20)),
        2 => Some(vec![]),
        _ => None,
    };
    TagV {
        target: rng.bytes(20),
        kind: rng.pick(&[&b"commit"[..], b"commit", b"tree", b"blob", b"tag"]).to_vec(),
        name,
        tagger: if rng.chance(5, 6) { Some(gen_sig(rng)) } else { None },
        message: gen_text(rng, 40),
        pgp,
    }
}
const MODES: &[u16] = &[0o40000, 0o100644, 0o100755, 0o120000, 0o160000, 0o100664, 0o100600, 0o100000, 0o177777];
const ODD_MODES: &[u16] = &[0, 1, 7, 8, 0o644, 0o40755, 0o140000, 0o60000, 0o20000, 0o10000, 0o77777, 0o170000, 0o44000];
fn gen_tree(rng: &mut Rng) -> Vec<EntryV> {
    let n = match rng.below(10) {
        0 => 0,
        1..=2 => 1,
        3..=7 => rng.range(2, 6) as usize,
        _ => rng.range(7, 30) as usize,
    };
    let mut es: Vec<EntryV> = (0..n)
        .map(|_| EntryV {
            mode: if rng.chance(1, 12) {
                if rng.chance(1, 2) {
                    *rng.pick(ODD_MODES)
                } else {
                    rng.next() as u16
                }
            } else {
                *rng.pick(MODES)
            },
            name: match rng.below(10) {
                0 => rng.word(b"ab", 0, 1),
                1..=6 => rng.word(b"ab.-0", 1, 4),
                7 => rng.bytes(rng.clone().below(5) as usize + 1).into_iter().filter(|b| *b != 0 && *b != b'/').collect(),
                _ => rng.word(b"abcdefgh", 1, 12),
            },
            oid: rng.bytes(20),
        })
        .collect();
    es.sort_by(|a, b| tree_key(a).cmp(&tree_key(b)));
    if rng.chance(4, 5) {
        es.dedup_by(|a, b| tree_key(a) == tree_key(b));
    }
    match rng.below(20) {
        0 if es.len() >= 2 => {
            let i = rng.below(es.len() as u64 - 1) as usize;
            es.swap(i, i + 1);
        }
        1 if !es.is_empty() => {
            let i = rng.below(es.len() as u64) as usize;
            let p = rng.below(es[i].name.len() as u64 + 1) as usize;
            es[i].name.insert(p, 0);
        }
        2 if es.len() <= 2 && !es.is_empty() => {
            // names with '/' only in tiny trees (the comparator is not a total order there)
            let i = rng.below(es.len() as u64) as usize;
            es[i].name.push(b'/');
            if es.len() == 2 && !canonically_sorted(&es) && rng.chance(1, 2) {
                es.swap(0, 1);
            }
        }
        _ => {}
    }
    es
}

fn boundary(out: &mut Vec<Case>) {
    let time_case = |s: i64, o: i32, g: Sign| {
        let mut c = vec![tag("time")];
        push_time(&mut c, &Time { seconds: s, offset: o, sign: g });
        c
    };
    // every ladder threshold and its neighbours, both signs
    let mut secs = vec![0i64, 1, -1, i64::MAX, i64::MAX - 1, i64::MIN, i64::MIN + 1];
    for k in 1..=18u32 {
        let p = 10i64.pow(k);
        secs.extend([p - 1, p, p + 1, -p + 1, -p, -p - 1]);
    }
    for s in &secs {
        out.push(time_case(*s, 0, Sign::Plus));
    }
    for o in OFFSETS {
        out.push(time_case(1234567890, *o, if *o < 0 { Sign::Minus } else { Sign::Plus }));
        out.push(time_case(-10, *o, if *o < 0 { Sign::Plus } else { Sign::Minus }));
    }
    let sigv = |s: i64| SigV { name: b"A U Thor".to_vec(), email: b"a@example.com".to_vec(), time: Time { seconds: s, offset: -19800, sign: Sign::Minus } };
    for s in [-10i64, -100, -1_000_000_000_000_000_000, i64::MIN, 9, 10] {
        let mut c = vec![tag("sig")];
        push_sig(&mut c, &sigv(s));
        out.push(c);
        let v = CommitV {
            tree: vec![0x11; 20],
            parents: vec![vec![0x22; 20]],
            author: sigv(s),
            committer: sigv(-s.max(-i64::MAX)),
            encoding: None,
            extra: vec![],
            message: b"msg\n".to_vec(),
        };
        out.push(commit_case("commit", &v));
        let mut r = v.clone();
        r.tree = hexs(&v.tree).into_bytes();
        r.parents = v.parents.iter().map(|p| hexs(p).into_bytes()).collect();
        out.push(commit_case("commitref", &r));
        let t = TagV { target: vec![0x33; 20], kind: b"commit".to_vec(), name: b"v1.0".to_vec(), tagger: Some(sigv(s)), message: b"m".to_vec(), pgp: None };
        out.push(tag_case("tag", &t));
        let mut tr = t.clone();
        tr.target = hexs(&t.target).into_bytes();
        out.push(tag_case("tagref", &tr));
    }
    for d in [&b""[..], b"a", b"\0", b"hello\n"] {
        out.push(vec![tag("blob"), d.to_vec()]);
    }
    out.push(tree_case(&[]));
    for m in MODES.iter().chain(ODD_MODES) {
        out.push(tree_case(&[EntryV { mode: *m, name: b"a".to_vec(), oid: vec![7; 20] }]));
    }
    // the classic: "a" (tree) sorts after "a.b" and "a-b", "a" (blob) sorts before
    let e = |m: u16, n: &[u8]| EntryV { mode: m, name: n.to_vec(), oid: vec![9; 20] };
    out.push(tree_case(&[e(0o100644, b"a-b"), e(0o100644, b"a.b"), e(0o40000, b"a"), e(0o100644, b"a0")]));
    out.push(tree_case(&[e(0o100644, b"a"), e(0o100644, b"a-b"), e(0o100644, b"a.b")]));
    out.push(tree_case(&[e(0o40000, b"a"), e(0o100644, b"a-b")]));
    out.push(tree_case(&[e(0o100644, b"a-b"), e(0o100644, b"a")]));
    out.push(tree_case(&[e(0o100644, b"a"), e(0o40000, b"a")]));
    out.push(tree_case(&[e(0o40000, b"a"), e(0o100644, b"a")]));
    out.push(tree_case(&[e(0o100644, b"a\0b")]));
    for t in [&b""[..], b"100644 a\0", b"100644 a", b"100644", b" a\0aaaaaaaaaaaaaaaaaaaa", b"40000 \0aaaaaaaaaaaaaaaaaaaa", b"040000 a\0aaaaaaaaaaaaaaaaaaaa",
        b"100644 a\0aaaaaaaaaaaaaaaaaaaa", b"100644 a\0aaaaaaaaaaaaaaaaaaaab", b"100648 a\0aaaaaaaaaaaaaaaaaaaa", b"40000000000040000 a\0aaaaaaaaaaaaaaaaaaaa",
        b"37777777777 a\0aaaaaaaaaaaaaaaaaaaa", b"1100644 a\0aaaaaaaaaaaaaaaaaaaa", b"644 a\0aaaaaaaaaaaaaaaaaaaa", b"160000 a\0aaaaaaaaaaaaaaaaaaaa120000 b\0bbbbbbbbbbbbbbbbbbbb"] {
        out.push(vec![tag("treedec"), t.to_vec()]);
    }
    for n in TAG_NAMES {
        let t = TagV { target: vec![0x44; 20], kind: b"tree".to_vec(), name: n.to_vec(), tagger: None, message: vec![], pgp: None };
        out.push(tag_case("tag", &t));
    }
}

fn gen(rng: &mut Rng, n: usize) -> Vec<Case> {
    let mut out = Vec::new();
    boundary(&mut out);
    while out.len() < n {
        match rng.below(20) {
            0..=4 => {
                let mut c = vec![tag("time")];
                push_time(&mut c, &gen_time(rng));
                out.push(c);
            }
            5..=6 => {
                let mut c = vec![tag("sig")];
                push_sig(&mut c, &gen_sig(rng));
                out.push(c);
            }
            7 => out.push(vec![tag("blob"), gen_text(rng, 60)]),
            8..=9 => out.push(tree_case(&gen_tree(rng))),
            10 => {
                // bytes of a written tree, often damaged
                let es = gen_tree(rng);
                let mut v = Vec::new();
                for e in &es {
                    match rng.below(12) {
                        0 => v.extend(format!("0{:o} ", e.mode).bytes()),
                        1 => v.extend(format!("{} ", e.mode).bytes()),
                        2 => v.extend(format!("7{:o} ", e.mode).bytes()),
                        3 => v.extend(format!("{:o}{:o} ", rng.next() as u32, e.mode).bytes()),
                        _ => v.extend(format!("{:o} ", e.mode).bytes()),
                    }
                    v.extend(&e.name);
                    v.push(0);
                    v.extend(&e.oid);
                }
                match rng.below(10) {
                    0 if !v.is_empty() => {
                        let k = rng.below(v.len() as u64) as usize;
                        v.truncate(k);
                    }
                    1 if !v.is_empty() => {
                        let k = rng.below(v.len() as u64) as usize;
                        v[k] = *rng.pick(b" \0078a");
                    }
                    2 => v.extend(rng.bytes(rng.clone().below(25) as usize)),
                    _ => {}
                }
                out.push(vec![tag("treedec"), v]);
            }
            11..=13 => out.push(commit_case("commit", &gen_commit(rng))),
            14..=15 => {
                let v = gen_commit(rng);
                let r = commit_to_ref(rng, &v);
                out.push(commit_case("commitref", &r));
            }
            16..=17 => out.push(tag_case("tag", &gen_tag(rng))),
            _ => {
                let mut v = gen_tag(rng);
                v.target = hexify(rng, &v.target);
                out.push(tag_case("tagref", &v));
            }
        }
    }
    out.truncate(n.max(1));
    out
}

fn main() {
    main_with(Harness { gen, imp, prop, git: None, deadline: std::time::Duration::from_secs(300) });
}

#[allow(dead_code)]
fn _unused(_: &BStr) {}
