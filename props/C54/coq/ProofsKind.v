(* C54 — the Kind passed to missing_cb: Tree only for an id that a reachable node names by a tree-mode
   entry (or that is the commit's tree), Blob only for one named by a blob/exe/link-mode entry.
   Any database, any ids. *)
From GixV.Base Require Import Bytes BytesFacts Outcome.
From GixV.C54 Require Import Model Spec ProofsBase ProofsFuel ProofsMain.

Definition tree_ref (db : odb) (s o : id) : Prop :=
  (exists es m, find_tree db s = Some es /\ In (m, o) es /\ mode_kind m = KTree) \/
  find_commit db s = Ok o.
Definition blob_ref (db : odb) (s o : id) : Prop :=
  exists es m, find_tree db s = Some es /\ In (m, o) es /\ is_blobkind (mode_kind m) = true.
Definition kind_ok (db : odb) (c : id) (r : report) : Prop :=
  exists s, reach db c s /\
    match snd r with RTree => tree_ref db s (fst r) | RBlob => blob_ref db s (fst r) end.

Lemma tree_ref_child db s o : tree_ref db s o -> In o (children db s).
Proof.
  intros [(es & m & F & Hin & K)|F].
  - unfold children. rewrite F. unfold entry_targets. change o with (snd (m, o)).
    apply in_map. apply filter_In. split; [exact Hin|]. cbn [fst]. unfold follows. now rewrite K.
  - rewrite (children_commit _ _ _ F). now left.
Qed.

Section Inv1.
Variable db : odb.
Variable c : id.

Record Inv1 (pend : list entry) (out : list report) (queue : list id) : Prop := {
  k_out : forall r, In r out -> kind_ok db c r;
  k_queue : forall q, In q queue -> exists s, reach db c s /\ tree_ref db s q;
  k_pend : forall m o, In (m, o) pend ->
             exists t es, reach db c t /\ find_tree db t = Some es /\ In (m, o) es
}.

Lemma walk_entries_inv1 : forall pend seen out queue s' o' q',
  Inv1 pend out queue ->
  walk_entries db pend seen out queue = (s', o', q') ->
  Inv1 [] o' q'.
Proof.
  induction pend as [|[m o] r IH]; intros seen out queue s' o' q' HI H; cbn [walk_entries] in H.
  - injection H as <- <- <-. exact HI.
  - destruct HI as [H1 H2 H3].
    assert (Hp : forall m1 o1, In (m1, o1) r ->
              exists t es, reach db c t /\ find_tree db t = Some es /\ In (m1, o1) es)
      by (intros m1 o1 Hin; apply H3; now right).
    destruct (H3 m o (or_introl eq_refl)) as (t & es & Rt & Ft & Hin).
    assert (Hnew : is_blobkind (mode_kind m) = true ->
              Inv1 r (if exists_ db o then out else (o, RBlob) :: out) queue).
    { intros K. destruct (exists_ db o); split; auto.
      intros x [<-|Hx]; auto. exists t. split; [exact Rt|]. cbn [snd fst]. exists es, m. auto. }
    destruct (mode_kind m) eqn:K.
    + eapply IH in H; [exact H|]. split; auto.
      intros q Hq. apply in_app_or in Hq as [Hq|[<-|[]]]; auto.
      exists t. split; [exact Rt|]. left. exists es, m. auto.
    + destruct (mem o seen); (eapply IH in H; [exact H|]); [split; auto|now apply Hnew].
    + destruct (mem o seen); (eapply IH in H; [exact H|]); [split; auto|now apply Hnew].
    + destruct (mem o seen); (eapply IH in H; [exact H|]); [split; auto|now apply Hnew].
    + eapply IH in H; [exact H|]. split; auto.
Qed.

Lemma loop_inv1 : forall fuel seen out queue s' o',
  Inv1 [] out queue ->
  loop fuel db seen out queue = Ok (s', o') ->
  forall r, In r o' -> kind_ok db c r.
Proof.
  induction fuel as [|f IH]; intros seen out queue s' o' HI H; [discriminate|].
  cbn [loop] in H. destruct queue as [|t q].
  - injection H as <- <-. exact (k_out _ _ _ HI).
  - destruct HI as [H1 H2 H3].
    assert (Hq : forall x, In x q -> exists s, reach db c s /\ tree_ref db s x)
      by (intros x Hx; apply H2; now right).
    destruct (H2 t (or_introl eq_refl)) as (s & Rs & Ts).
    destruct (mem t seen).
    + apply (IH _ _ _ _ _) with (2 := H). split; auto.
    + unfold check_tree in H. destruct (find_tree db t) as [es|] eqn:F.
      * destruct (walk_entries db es (t :: seen) out q) as [[s1 o1] q1] eqn:W.
        apply (IH _ _ _ _ _) with (2 := H). apply walk_entries_inv1 in W; [exact W|].
        split; auto. intros m o Hin. exists t, es. split; [|auto].
        apply reach_step with (s := s); [exact Rs|now apply tree_ref_child].
      * apply (IH _ _ _ _ _) with (2 := H). split; auto.
        intros x [<-|Hx]; auto. exists s. split; [exact Rs|exact Ts].
Qed.
End Inv1.

Definition call_kinds (db : odb) (c : id) (call : option ferr * list report) : Prop :=
  forall r, In r (snd call) -> kind_ok db c r.

Lemma check_commit_kinds db seen c res seen' new :
  check_commit (fuel_of db) db c seen = Ok (res, seen', new) -> call_kinds db c (res, new).
Proof.
  intros H. unfold check_commit in H. destruct (mem c seen).
  - injection H as <- <- <-. intros r [].
  - destruct (find_commit db c) as [t|e| |] eqn:F; try discriminate.
    2:{ injection H as <- <- <-. intros r []. }
    destruct (loop (fuel_of db) db (c :: seen) [] [t]) as [[s' o']| | |] eqn:HL; try discriminate.
    injection H as <- <- <-. intros r Hr. cbn [snd] in Hr. apply in_rev in Hr.
    apply (loop_inv1 db c) with (r := r) in HL; auto.
    split.
    + intros x [].
    + intros q [<-|[]]. exists c. split; [constructor|]. now right.
    + intros m o [].
Qed.

Lemma run_ops_kinds db : forall cs seen calls seenf,
  run_ops (fuel_of db) db cs seen = Ok (calls, seenf) -> Forall2 (call_kinds db) cs calls.
Proof.
  induction cs as [|c cs IH]; intros seen calls seenf H; cbn [run_ops] in H.
  - injection H as <- <-. constructor.
  - destruct (check_commit (fuel_of db) db c seen) as [[[res seen'] new]| | |] eqn:E; try discriminate.
    destruct (run_ops (fuel_of db) db cs seen') as [[rest sf]| | |] eqn:E'; try discriminate.
    injection H as <- <-. constructor; [now apply check_commit_kinds in E|now apply IH in E'].
Qed.

Lemma L_kinds db cs :
  exists calls seenf, connectivity db cs = Ok (calls, seenf) /\ Forall2 (call_kinds db) cs calls.
Proof.
  destruct (L_total db cs) as (calls & seenf & E & _). exists calls, seenf. split; [exact E|].
  now apply run_ops_kinds in E.
Qed.
