(* C54 — basic facts: membership, lookup, children of leaves, the weight used for the fuel bound *)
From Coq Require Import Lia.
From GixV.Base Require Import Bytes BytesFacts Outcome.
From GixV.C54 Require Import Model Spec.

Lemma mem_In x l : mem x l = true <-> In x l.
Proof.
  induction l as [|y l IH]; cbn [mem In].
  - split; [discriminate | tauto].
  - rewrite Bool.orb_true_iff, bytes_eqb_eq, IH. tauto.
Qed.

Lemma mem_false x l : mem x l = false <-> ~ In x l.
Proof. rewrite <- mem_In. destruct (mem x l); split; congruence. Qed.

Lemma lookup_In db i o : lookup db i = Some o -> In (i, o) db.
Proof.
  induction db as [|[k v] db IH]; cbn [lookup]; [discriminate|].
  destruct (bytes_eqb k i) eqn:E.
  - apply bytes_eqb_eq in E. subst. intros H. injection H as ->. left. reflexivity.
  - intros H. right. auto.
Qed.

Lemma find_tree_lookup db s es :
  find_tree db s = Some es ->
  exists es0, lookup db s = Some (OTree es0) /\ es = map (fun e => (mode_u16 (fst e), snd e)) es0.
Proof.
  unfold find_tree. destruct (lookup db s) as [[| es0 | | |]|]; try discriminate.
  destruct (tree_decodes es0); [|discriminate]. intros H. injection H as <-. eauto.
Qed.

Lemma find_tree_exists db s es : find_tree db s = Some es -> exists_ db s = true.
Proof. intros H. apply find_tree_lookup in H as (es0 & H & _). unfold exists_. now rewrite H. Qed.

Lemma find_commit_exists db s t : find_commit db s = Ok t -> exists_ db s = true.
Proof.
  unfold find_commit, exists_. destruct (lookup db s) as [[| es0 | | |]|]; try discriminate; auto.
Qed.

Lemma children_missing db o : exists_ db o = false -> children db o = [].
Proof.
  unfold exists_, children, find_tree, find_commit. destruct (lookup db o); [discriminate|reflexivity].
Qed.

Lemma children_blob db o : lookup db o = Some OBlob -> children db o = [].
Proof. unfold children, find_tree, find_commit. intros ->. reflexivity. Qed.

Lemma children_no_tree db o :
  find_tree db o = None -> (exists_ db o = true -> find_tree db o <> None) -> children db o = [].
Proof.
  intros H1 H2. apply children_missing. destruct (exists_ db o); [|reflexivity].
  exfalso. now apply H2.
Qed.

Lemma children_commit db c t : find_commit db c = Ok t -> children db c = [t].
Proof.
  unfold children, find_tree, find_commit.
  destruct (lookup db c) as [[| es0 | | |]|]; try discriminate.
  - intros H. injection H as ->. reflexivity.
  - destruct (tree_decodes es0); discriminate.
Qed.

(* ---- weight: the potential that bounds the number of queue pops ------------------------ *)
Fixpoint weight (db : odb) (seen : list id) : nat :=
  match db with
  | [] => O
  | (k, o) :: r => ((if mem k seen then O else obj_weight o) + weight r seen)%nat
  end.

Lemma weight_le_db db seen : (weight db seen <= db_weight db)%nat.
Proof.
  induction db as [|[k o] db IH]; [cbn; lia|].
  change (db_weight ((k, o) :: db)) with (obj_weight o + db_weight db)%nat.
  cbn [weight]. destruct (mem k seen); lia.
Qed.

Lemma weight_nil db : weight db [] = db_weight db.
Proof.
  induction db as [|[k o] db IH]; [reflexivity|].
  change (db_weight ((k, o) :: db)) with (obj_weight o + db_weight db)%nat.
  cbn [weight mem]. lia.
Qed.

Lemma weight_cons_le db x seen : (weight db (x :: seen) <= weight db seen)%nat.
Proof.
  induction db as [|[k o] db IH]; cbn [weight mem]; [lia|].
  destruct (bytes_eqb x k), (mem k seen); cbn [orb]; lia.
Qed.

Lemma weight_cons_in db t o seen :
  In (t, o) db -> mem t seen = false ->
  (weight db (t :: seen) + obj_weight o <= weight db seen)%nat.
Proof.
  induction db as [|[k v] db IH]; cbn [In weight mem]; [tauto|].
  intros [E | Hin] Hm.
  - injection E as -> ->. rewrite Hm.
    assert (bytes_eqb t t = true) as -> by now apply bytes_eqb_eq.
    cbn [orb]. pose proof (weight_cons_le db t seen). lia.
  - specialize (IH Hin Hm).
    destruct (bytes_eqb t k), (mem k seen); cbn [orb]; lia.
Qed.

Definition ntree' (es : list entry) : nat :=
  length (filter (fun e => match mode_kind (fst e) with KTree => true | _ => false end) es).

Lemma ntree_norm es0 :
  ntree' (map (fun e => (mode_u16 (fst e), snd e)) es0) = ntree_entries es0.
Proof.
  unfold ntree', ntree_entries. induction es0 as [|e es IH]; cbn [map filter fst]; [reflexivity|].
  destruct (mode_kind (mode_u16 (fst e))); cbn [length]; auto.
Qed.
