(* C54 — what holds of ANY database and ANY checked ids (no well-kindedness, commits may be unreadable):
   nothing is reported twice, and every report names an object that is reachable from the checked
   commit and is unusable in the way the report says. *)
From Coq Require Import Lia.
From GixV.Base Require Import Bytes BytesFacts Outcome.
From GixV.C54 Require Import Model Spec ProofsBase ProofsFuel ProofsMain.

Definition rep_ok (db : odb) (r : report) : Prop :=
  match snd r with
  | RBlob => missing db (fst r)
  | RTree => find_tree db (fst r) = None
  end.

Section Inv0.
Variable db : odb.
Variable prev : list id.
Variable R : id -> Prop.
Hypothesis R_closed : forall s o, R s -> In o (children db s) -> R o.

Record Inv0 (pend : list entry) (seen : list id) (out : list report) (queue : list id) : Prop := {
  j_nodup : NoDup (ids out ++ prev);
  j_rep_seen : forall x, In x (ids out ++ prev) -> In x seen;
  j_out : forall r, In r out -> R (fst r) /\ rep_ok db r;
  j_queue : forall q, In q queue -> R q;
  j_pend : forall m o, In (m, o) pend -> follows m = true -> R o
}.

Lemma walk_entries_inv0 : forall pend seen out queue s' o' q',
  Inv0 pend seen out queue ->
  walk_entries db pend seen out queue = (s', o', q') ->
  Inv0 [] s' o' q'.
Proof.
  induction pend as [|[m o] r IH]; intros seen out queue s' o' q' HI H; cbn [walk_entries] in H.
  - injection H as <- <- <-. exact HI.
  - destruct HI as [H1 H2 H3 H4 H5].
    assert (Hp : forall m1 o1, In (m1, o1) r -> follows m1 = true -> R o1)
      by (intros m1 o1 Hin; apply H5; now right).
    assert (Hnew : is_blobkind (mode_kind m) = true -> mem o seen = false ->
              Inv0 r (o :: seen) (if exists_ db o then out else (o, RBlob) :: out) queue).
    { intros K M. apply mem_false in M.
      assert (Ro : R o).
      { apply (H5 m o); [now left|]. unfold follows. destruct (mode_kind m); try discriminate; reflexivity. }
      destruct (exists_ db o) eqn:E.
      - split; auto. intros x Hx. right. auto.
      - split; auto; cbn [ids map fst app].
        + constructor; [intros Hin; apply M; now apply H2|exact H1].
        + intros x [<-|Hx]; [now left|right; auto].
        + intros x [<-|Hx]; [split; [exact Ro|exact E]|auto]. }
    destruct (mode_kind m) eqn:K.
    + eapply IH in H; [exact H|]. split; auto.
      intros q Hq. apply in_app_or in Hq as [Hq|[<-|[]]]; auto.
      apply (H5 m o); [now left|]. unfold follows. now rewrite K.
    + destruct (mem o seen) eqn:M; (eapply IH in H; [exact H|]); [split; auto|now apply Hnew].
    + destruct (mem o seen) eqn:M; (eapply IH in H; [exact H|]); [split; auto|now apply Hnew].
    + destruct (mem o seen) eqn:M; (eapply IH in H; [exact H|]); [split; auto|now apply Hnew].
    + eapply IH in H; [exact H|]. split; auto.
Qed.

Lemma loop_inv0 : forall fuel seen out queue s' o',
  Inv0 [] seen out queue ->
  loop fuel db seen out queue = Ok (s', o') ->
  Inv0 [] s' o' [].
Proof.
  induction fuel as [|f IH]; intros seen out queue s' o' HI H; [discriminate|].
  cbn [loop] in H. destruct queue as [|t q].
  - injection H as <- <-. exact HI.
  - destruct HI as [H1 H2 H3 H4 H5].
    assert (Hq : forall x, In x q -> R x) by (intros x Hx; apply H4; now right).
    destruct (mem t seen) eqn:M.
    + eapply IH in H; [exact H|]. split; auto.
    + apply mem_false in M. unfold check_tree in H.
      destruct (find_tree db t) as [es|] eqn:F.
      * destruct (walk_entries db es (t :: seen) out q) as [[s1 o1] q1] eqn:W.
        apply walk_entries_inv0 in W; [eapply IH in H; [exact H|exact W]|].
        split; auto.
        -- intros x Hx. right. auto.
        -- intros m o Hin Fo. apply (R_closed t o); [apply H4; now left|].
           unfold children. rewrite F. unfold entry_targets.
           change o with (snd (m, o)). apply in_map. apply filter_In. split; auto.
      * eapply IH in H; [exact H|]. split; auto; cbn [ids map fst app].
        -- constructor; [intros Hin; apply M; now apply H2|exact H1].
        -- intros x [<-|Hx]; [now left|right; auto].
        -- intros x [<-|Hx]; [split; [apply H4; now left|exact F]|auto].
Qed.
End Inv0.

Record G0 (prev seen : list id) : Prop := {
  g0_nodup : NoDup prev;
  g0_rep_seen : forall x, In x prev -> In x seen
}.

Definition call_sound (db : odb) (c : id) (call : option ferr * list report) : Prop :=
  forall r, In r (snd call) -> reach db c (fst r) /\ rep_ok db r.

Lemma check_commit_any db prev seen c res seen' new :
  G0 prev seen ->
  check_commit (fuel_of db) db c seen = Ok (res, seen', new) ->
  G0 (rev (ids new) ++ prev) seen' /\ call_sound db c (res, new).
Proof.
  intros [H1 H2] H. unfold check_commit in H. destruct (mem c seen) eqn:M.
  - injection H as <- <- <-. split; [split; auto|]. intros r [].
  - destruct (find_commit db c) as [t|e| |] eqn:F; try discriminate.
    2:{ injection H as <- <- <-. split; [split; auto|intros r []]. intros x Hx. right. auto. }
    destruct (loop (fuel_of db) db (c :: seen) [] [t]) as [[s' o']| | |] eqn:HL; try discriminate.
    injection H as <- <- <-.
    apply (loop_inv0 db prev (reach db c)) in HL.
    + destruct HL as [J1 J2 J3 J4 J5]. rewrite ids_rev, rev_involutive. split; [split; auto|].
      intros r Hr. cbn [snd] in Hr. apply in_rev in Hr. auto.
    + intros s o Hs Ho. now apply reach_step with (s := s).
    + split; cbn [ids map app]; auto.
      * intros x Hx. right. auto.
      * intros r [].
      * intros q [<-|[]]. apply reach_step with (s := c); [constructor|].
        rewrite (children_commit _ _ _ F). now left.
      * intros m o [].
Qed.

Lemma run_ops_any db : forall cs prev seen calls seenf,
  G0 prev seen ->
  run_ops (fuel_of db) db cs seen = Ok (calls, seenf) ->
  NoDup (all_reports calls ++ prev) /\ Forall2 (call_sound db) cs calls.
Proof.
  induction cs as [|c cs IH]; intros prev seen calls seenf HG H; cbn [run_ops] in H.
  - injection H as <- <-. split; [exact (g0_nodup _ _ HG)|constructor].
  - destruct (check_commit (fuel_of db) db c seen) as [[[res seen'] new]| | |] eqn:E; try discriminate.
    destruct (run_ops (fuel_of db) db cs seen') as [[rest sf]| | |] eqn:E'; try discriminate.
    injection H as <- <-.
    apply check_commit_any with (prev := prev) in E as [HG' Hs]; [|exact HG].
    apply IH with (prev := rev (ids new) ++ prev) in E' as [N F2]; [|exact HG'].
    split; [|constructor; auto].
    cbn [all_reports flat_map snd]. fold (all_reports rest).
    (* NoDup is insensitive to the order *)
    apply (Permutation.Permutation_NoDup (l := all_reports rest ++ rev (ids new) ++ prev)); [|exact N].
    rewrite <- app_assoc.
    apply Permutation.Permutation_trans with (l' := (rev (ids new) ++ all_reports rest) ++ prev).
    + rewrite !app_assoc. apply Permutation.Permutation_app_tail. apply Permutation.Permutation_app_comm.
    + rewrite <- app_assoc. apply Permutation.Permutation_app_tail.
      apply Permutation.Permutation_sym, Permutation.Permutation_rev.
Qed.

Lemma L_any db cs :
  exists calls seenf, connectivity db cs = Ok (calls, seenf) /\
    NoDup (all_reports calls) /\ Forall2 (call_sound db) cs calls.
Proof.
  destruct (L_total db cs) as (calls & seenf & E & _). exists calls, seenf. split; [exact E|].
  apply run_ops_any with (prev := []) in E as [N F].
  - rewrite app_nil_r in N. auto.
  - split; [constructor|intros x []].
Qed.
