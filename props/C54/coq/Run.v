(* C54 — transcript printer.  case:  fsck <item>*   where an item is one field:
     'c' id20 tree20            commit object
     't' id20 (mode4be id20)*   tree object (modes as the octal text will parse: u32)
     'b' id20 | 'g' id20        blob | tag object
     'x'|'y'|'z' id20           commit | tree | tag object with undecodable data
     'k' id20                   call check_commit(id)
   All objects form the database (first one wins for a repeated id); calls happen in order on ONE
   Connectivity instance.  transcript:  <res> <id>:<T|B>* { ; <res> ... }   res = ok | err <E> *)
From GixV.Base Require Import Bytes Outcome.
From GixV.C54 Require Import Model.
Local Open Scope N_scope.

Definition split20 (b : bytes) : option (id * bytes) :=
  if Nat.leb 20 (length b) then Some (firstn 20 b, skipn 20 b) else None.

Definition be32 (a b c d : byte) : N := ((b2N a * 256 + b2N b) * 256 + b2N c) * 256 + b2N d.

Fixpoint parse_entries (fuel : nat) (b : bytes) : option (list entry) :=
  match b with
  | [] => Some []
  | m0 :: m1 :: m2 :: m3 :: r =>
      match fuel with
      | O => None
      | S f =>
        match split20 r with
        | Some (i, r') =>
            match parse_entries f r' with
            | Some es => Some ((be32 m0 m1 m2 m3, i) :: es)
            | None => None
            end
        | None => None
        end
      end
  | _ => None
  end.

Inductive item := IObj (i : id) (o : obj) | ICall (i : id).

Definition parse_item (f : bytes) : option item :=
  match f with
  | [] => None
  | t :: r =>
      match split20 r with
      | None => None
      | Some (i, p) =>
          let simple (o : obj) := match p with [] => Some (IObj i o) | _ => None end in
          if beqb t "c"%byte then
            match split20 p with Some (tr, []) => Some (IObj i (OCommit tr)) | _ => None end
          else if beqb t "t"%byte then
            match parse_entries (length p) p with Some es => Some (IObj i (OTree es)) | None => None end
          else if beqb t "b"%byte then simple OBlob
          else if beqb t "g"%byte then simple OTag
          else if beqb t "x"%byte || beqb t "y"%byte || beqb t "z"%byte then simple OBad
          else if beqb t "k"%byte then match p with [] => Some (ICall i) | _ => None end
          else None
      end
  end.

(* db and calls, both reversed *)
Fixpoint parse_items (fs : list bytes) (db : odb) (cs : list id) : option (odb * list id) :=
  match fs with
  | [] => Some (rev db, rev cs)
  | f :: r =>
      match parse_item f with
      | Some (IObj i o) => parse_items r ((i, o) :: db) cs
      | Some (ICall i) => parse_items r db (i :: cs)
      | None => None
      end
  end.

Definition err_name (e : ferr) : bytes :=
  match e with NotFound => bs "NotFound" | Decode => bs "Decode" | ObjectKind => bs "ObjectKind" end.

Definition show_report (r : report) : bytes :=
  bs " " ++ hex_encode (fst r) ++ match snd r with RTree => bs ":T" | RBlob => bs ":B" end.

Definition show_call (c : option ferr * list report) : bytes :=
  match fst c with None => bs "ok" | Some e => bs "err " ++ err_name e end
  ++ flat_map show_report (snd c).

Fixpoint show_calls (cs : list (option ferr * list report)) : bytes :=
  match cs with
  | [] => bs "-"
  | [c] => show_call c
  | c :: r => show_call c ++ bs " ; " ++ show_calls r
  end.

Definition run_model (fs : list bytes) : bytes :=
  if bytes_eqb (nth_field 0 fs) (bs "fsck") then
    match parse_items (tl fs) [] [] with
    | None => bs "bad"
    | Some (db, cs) =>
        match connectivity db cs with
        | Ok (calls, _) => show_calls calls
        | Err _ => bs "?"
        | Panic => bs "PANIC"
        | OutOfFuel => bs "HANG"
        end
    end
  else bs "?".

Definition run (fs : list bytes) : bytes :=
  match fs with
  | _mode :: rest => run_model rest
  | [] => bs "?"
  end.
