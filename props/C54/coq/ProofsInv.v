(* C54 — the invariant of the breadth-first walk with a seen-set *)
From Coq Require Import Lia.
From GixV.Base Require Import Bytes BytesFacts Outcome.
From GixV.C54 Require Import Model Spec ProofsBase ProofsFuel.

Section Inv.
Variable db : odb.
Variable prev : list id.          (* ids reported by earlier calls *)
Variable R : id -> Prop.          (* the region this call may touch *)
Hypothesis R_closed : forall s o, R s -> In o (children db s) -> R o.
Hypothesis R_wk : forall s, R s -> wk_at db s.

Definition ref_ok (m : N) (o : id) : Prop :=
  (follows m = true -> R o) /\
  (exists_ db o = true ->
     (mode_kind m = KTree -> find_tree db o <> None) /\
     (is_blobkind (mode_kind m) = true -> lookup db o = Some OBlob)).

Record Inv (pend : list entry) (seen : list id) (out : list report) (queue : list id) : Prop := {
  i_nodup : NoDup (ids out ++ prev);
  i_rep_seen : forall x, In x (ids out ++ prev) -> In x seen;
  i_seen_rep : forall s, In s seen -> missing db s -> In s (ids out ++ prev);
  i_out : forall x, In x (ids out) -> missing db x /\ R x;
  i_closed : forall s o, In s seen -> In o (children db s) ->
               In o seen \/ In o queue \/ In o (entry_targets pend);
  i_queue : forall q, In q queue -> R q /\ (exists_ db q = true -> find_tree db q <> None);
  i_pend : forall m o, In (m, o) pend -> ref_ok m o
}.

Lemma targets_cons_follow m o r : follows m = true -> entry_targets ((m, o) :: r) = o :: entry_targets r.
Proof. intros H. unfold entry_targets. cbn [filter fst]. rewrite H. reflexivity. Qed.
Lemma targets_cons_skip m o r : follows m = false -> entry_targets ((m, o) :: r) = entry_targets r.
Proof. intros H. unfold entry_targets. cbn [filter fst]. rewrite H. reflexivity. Qed.

(* a tree-mode entry: pushed on the queue *)
Lemma inv_push m o r seen out queue :
  mode_kind m = KTree -> Inv ((m, o) :: r) seen out queue -> Inv r seen out (queue ++ [o]).
Proof.
  intros K [H1 H2 H3 H4 H5 H6 H7].
  assert (F : follows m = true) by (unfold follows; now rewrite K).
  destruct (H7 m o (or_introl eq_refl)) as [Ro Ko].
  split; auto.
  - intros s x Hs Hx. destruct (H5 s x Hs Hx) as [A|[A|A]]; auto.
    + right. left. apply in_or_app. auto.
    + rewrite (targets_cons_follow _ _ _ F) in A. destruct A as [<-|A]; auto.
      right. left. apply in_or_app. right. now left.
  - intros q Hq. apply in_app_or in Hq as [Hq|[<-|[]]]; auto.
    split; auto. intros E. now apply Ko.
  - intros m' o' Hin. apply H7. now right.
Qed.

(* a submodule entry: skipped *)
Lemma inv_skip m o r seen out queue :
  mode_kind m = KSub -> Inv ((m, o) :: r) seen out queue -> Inv r seen out queue.
Proof.
  intros K [H1 H2 H3 H4 H5 H6 H7].
  assert (F : follows m = false) by (unfold follows; now rewrite K).
  split; auto.
  - intros s x Hs Hx. rewrite <- (targets_cons_skip m o r F). exact (H5 s x Hs Hx).
  - intros m' o' Hin. apply H7. now right.
Qed.

(* a blob-ish entry whose id is already in the set *)
Lemma inv_blob_seen m o r seen out queue :
  In o seen -> Inv ((m, o) :: r) seen out queue -> Inv r seen out queue.
Proof.
  intros Hs [H1 H2 H3 H4 H5 H6 H7]. split; auto.
  - intros s x Hs' Hx. destruct (H5 s x Hs' Hx) as [A|[A|A]]; auto.
    destruct (follows m) eqn:F.
    + rewrite (targets_cons_follow _ _ _ F) in A. destruct A as [<-|A]; auto.
    + rewrite (targets_cons_skip _ _ _ F) in A. auto.
  - intros m' o' Hin. apply H7. now right.
Qed.

(* a blob-ish entry with a new id: inserted, reported iff missing *)
Lemma inv_blob_new m o r seen out queue :
  is_blobkind (mode_kind m) = true -> ~ In o seen ->
  Inv ((m, o) :: r) seen out queue ->
  Inv r (o :: seen) (if exists_ db o then out else (o, RBlob) :: out) queue.
Proof.
  intros K Hn [H1 H2 H3 H4 H5 H6 H7].
  assert (F : follows m = true) by (unfold follows; destruct (mode_kind m); try discriminate; reflexivity).
  destruct (H7 m o (or_introl eq_refl)) as [Ro Ko]. specialize (Ro F).
  assert (Hch : children db o = []).
  { destruct (exists_ db o) eqn:E.
    - apply children_blob. now apply Ko.
    - now apply children_missing. }
  assert (Hcl : forall s x, In s (o :: seen) -> In x (children db s) ->
                  In x (o :: seen) \/ In x queue \/ In x (entry_targets r)).
  { intros s x [<-|Hs] Hx.
    - rewrite Hch in Hx. destruct Hx.
    - destruct (H5 s x Hs Hx) as [A|[A|A]]; auto.
      + left. now right.
      + rewrite (targets_cons_follow _ _ _ F) in A. destruct A as [<-|A]; auto. left. now left. }
  assert (Hp : forall m' o', In (m', o') r -> ref_ok m' o') by (intros; apply H7; now right).
  destruct (exists_ db o) eqn:E.
  - split; auto.
    + intros x Hx. right. auto.
    + intros s [<-|Hs] Hm; auto. unfold missing in Hm. congruence.
  - split; auto; cbn [ids map fst app].
    + constructor; [intros Hin; apply Hn; now apply H2|exact H1].
    + intros x [<-|Hx]; [now left|right; auto].
    + intros s [<-|Hs] Hm; [now left|right; auto].
    + intros x [<-|Hx]; auto.
Qed.

Lemma walk_entries_inv : forall pend seen out queue s' o' q',
  Inv pend seen out queue ->
  walk_entries db pend seen out queue = (s', o', q') ->
  Inv [] s' o' q' /\ incl seen s'.
Proof.
  induction pend as [|[m o] r IH]; intros seen out queue s' o' q' HI H; cbn [walk_entries] in H.
  - injection H as <- <- <-. split; [exact HI|apply incl_refl].
  - destruct (mode_kind m) eqn:K.
    + eapply IH in H; [exact H|]. now apply inv_push with (m := m).
    + destruct (mem o seen) eqn:M.
      * eapply IH in H; [exact H|]. apply mem_In in M. now apply inv_blob_seen with (m := m) (o := o).
      * apply mem_false in M. eapply IH in H.
        2:{ apply inv_blob_new with (m := m); auto. now rewrite K. }
        destruct H as [H Hi]. split; [exact H|]. intros x Hx. apply Hi. now right.
    + destruct (mem o seen) eqn:M.
      * eapply IH in H; [exact H|]. apply mem_In in M. now apply inv_blob_seen with (m := m) (o := o).
      * apply mem_false in M. eapply IH in H.
        2:{ apply inv_blob_new with (m := m); auto. now rewrite K. }
        destruct H as [H Hi]. split; [exact H|]. intros x Hx. apply Hi. now right.
    + destruct (mem o seen) eqn:M.
      * eapply IH in H; [exact H|]. apply mem_In in M. now apply inv_blob_seen with (m := m) (o := o).
      * apply mem_false in M. eapply IH in H.
        2:{ apply inv_blob_new with (m := m); auto. now rewrite K. }
        destruct H as [H Hi]. split; [exact H|]. intros x Hx. apply Hi. now right.
    + eapply IH in H; [exact H|]. now apply inv_skip with (m := m) (o := o).
Qed.

(* popping an id that is already in the set *)
Lemma inv_pop_seen t q seen out : In t seen -> Inv [] seen out (t :: q) -> Inv [] seen out q.
Proof.
  intros Hs [H1 H2 H3 H4 H5 H6 H7]. split; auto.
  - intros s x Hs' Hx. destruct (H5 s x Hs' Hx) as [A|[[<-|A]|A]]; auto.
  - intros x Hx. apply H6. now right.
Qed.

(* popping a new id that is not a usable tree: reported as a missing tree *)
Lemma inv_pop_missing t q seen out :
  ~ In t seen -> find_tree db t = None ->
  Inv [] seen out (t :: q) -> Inv [] (t :: seen) ((t, RTree) :: out) q.
Proof.
  intros Hn F [H1 H2 H3 H4 H5 H6 H7].
  destruct (H6 t (or_introl eq_refl)) as [Rt Kt].
  assert (E : exists_ db t = false).
  { destruct (exists_ db t); [|reflexivity]. exfalso. now apply Kt. }
  assert (Hch : children db t = []) by now apply children_missing.
  split; auto; cbn [ids map fst app].
  - constructor; [intros Hin; apply Hn; now apply H2|exact H1].
  - intros x [<-|Hx]; [now left|right; auto].
  - intros s [<-|Hs] Hm; [now left|right; auto].
  - intros x [<-|Hx]; auto.
  - intros s x [<-|Hs] Hx.
    + rewrite Hch in Hx. destruct Hx.
    + destruct (H5 s x Hs Hx) as [A|[[<-|A]|A]]; auto.
      * left. now right.
      * left. now left.
  - intros x Hx. apply H6. now right.
Qed.

(* popping a new id that is a decodable tree: its entries become pending *)
Lemma inv_pop_tree t q seen out es :
  ~ In t seen -> find_tree db t = Some es ->
  Inv [] seen out (t :: q) -> Inv es (t :: seen) out q.
Proof.
  intros Hn F [H1 H2 H3 H4 H5 H6 H7].
  destruct (H6 t (or_introl eq_refl)) as [Rt Kt].
  assert (Hch : children db t = entry_targets es) by (unfold children; now rewrite F).
  split; auto.
  - intros x Hx. right. auto.
  - intros s [<-|Hs] Hm; auto.
    apply find_tree_exists in F. unfold missing in Hm. congruence.
  - intros s x [<-|Hs] Hx.
    + rewrite Hch in Hx. auto.
    + destruct (H5 s x Hs Hx) as [A|[[<-|A]|A]]; auto.
      * left. now right.
      * left. now left.
      * destruct A.
  - intros x Hx. apply H6. now right.
  - intros m o Hin. split.
    + intros Fo. apply (R_closed t o Rt). rewrite Hch. unfold entry_targets.
      change o with (snd (m, o)). apply in_map. apply filter_In. split; auto.
    + intros E. destruct (R_wk t Rt) as [W _]. exact (W es m o F Hin E).
Qed.

Lemma loop_inv : forall fuel seen out queue s' o',
  Inv [] seen out queue ->
  loop fuel db seen out queue = Ok (s', o') ->
  Inv [] s' o' [] /\ incl seen s'.
Proof.
  induction fuel as [|f IH]; intros seen out queue s' o' HI H; [discriminate|].
  cbn [loop] in H. destruct queue as [|t q].
  - injection H as <- <-. split; [exact HI|apply incl_refl].
  - destruct (mem t seen) eqn:M.
    + apply mem_In in M. eapply IH in H; [exact H|]. now apply inv_pop_seen with (t := t).
    + apply mem_false in M. unfold check_tree in H.
      destruct (find_tree db t) as [es|] eqn:F.
      * destruct (walk_entries db es (t :: seen) out q) as [[s1 o1] q1] eqn:W.
        apply walk_entries_inv in W as [W Wi]; [|now apply inv_pop_tree].
        eapply IH in H; [|exact W]. destruct H as [H Hi]. split; [exact H|].
        intros x Hx. apply Hi, Wi. now right.
      * eapply IH in H; [|now apply inv_pop_missing].
        destruct H as [H Hi]. split; [exact H|]. intros x Hx. apply Hi. now right.
Qed.

End Inv.
