(* C54 — the walk terminates: the queue loop never needs more than fuel_of db steps *)
From Coq Require Import Lia.
From GixV.Base Require Import Bytes BytesFacts Outcome.
From GixV.C54 Require Import Model Spec ProofsBase.

Lemma walk_entries_measure db : forall es seen out q s' o' q',
  walk_entries db es seen out q = (s', o', q') ->
  (length q' + weight db s' <= length q + ntree' es + weight db seen)%nat.
Proof.
  induction es as [|[m o] r IH]; intros seen out q s' o' q' H; cbn [walk_entries] in H.
  - injection H as <- <- <-. unfold ntree'. cbn. lia.
  - unfold ntree' in *. cbn [filter fst].
    destruct (mode_kind m) eqn:K; cbn [length].
    + apply IH in H. rewrite app_length in H. cbn [length] in H. lia.
    + destruct (mem o seen); apply IH in H; [lia|]. pose proof (weight_cons_le db o seen). lia.
    + destruct (mem o seen); apply IH in H; [lia|]. pose proof (weight_cons_le db o seen). lia.
    + destruct (mem o seen); apply IH in H; [lia|]. pose proof (weight_cons_le db o seen). lia.
    + apply IH in H. lia.
Qed.

Lemma check_tree_measure db t seen out q s' o' q' :
  mem t seen = false ->
  check_tree db t (t :: seen) out q = (s', o', q') ->
  (length q' + weight db s' <= length q + weight db seen)%nat.
Proof.
  intros Hm H. unfold check_tree in H. destruct (find_tree db t) as [es|] eqn:F.
  - apply walk_entries_measure in H.
    apply find_tree_lookup in F as (es0 & L & ->). rewrite ntree_norm in H.
    pose proof (weight_cons_in db t (OTree es0) seen (lookup_In _ _ _ L) Hm) as W.
    cbn [obj_weight] in W. lia.
  - injection H as <- <- <-. pose proof (weight_cons_le db t seen). lia.
Qed.

Lemma loop_terminates db : forall fuel seen out q,
  (length q + weight db seen < fuel)%nat ->
  exists r, loop fuel db seen out q = Ok r.
Proof.
  induction fuel as [|f IH]; intros seen out q Hf; [lia|].
  cbn [loop]. destruct q as [|t q]; [eauto|].
  cbn [length] in Hf. destruct (mem t seen) eqn:M.
  - apply IH. lia.
  - destruct (check_tree db t (t :: seen) out q) as [[s' o'] q'] eqn:C.
    apply check_tree_measure in C; [|exact M]. apply IH. lia.
Qed.

Lemma loop_fuel_of db seen out t : exists r, loop (fuel_of db) db seen out [t] = Ok r.
Proof.
  apply loop_terminates. unfold fuel_of. cbn [length]. pose proof (weight_le_db db seen). lia.
Qed.

(* more fuel does not change an Ok result *)
Lemma loop_fuel_mono db : forall fuel seen out q r,
  loop fuel db seen out q = Ok r -> forall fuel', (fuel <= fuel')%nat -> loop fuel' db seen out q = Ok r.
Proof.
  induction fuel as [|f IH]; intros seen out q r H fuel' Hle; [discriminate|].
  destruct fuel' as [|f']; [lia|]. cbn [loop] in *. destruct q as [|t q]; [exact H|].
  destruct (mem t seen).
  - apply IH with (fuel' := f') in H; [exact H|lia].
  - destruct (check_tree db t (t :: seen) out q) as [[s' o'] q'].
    apply IH with (fuel' := f') in H; [exact H|lia].
Qed.
