(* C54 — specification side: the object graph and reachability "through present trees", independent
   of the walker.  Only definitions. *)
From GixV.Base Require Import Bytes Outcome.
From GixV.C54 Require Import Model.

(* the object is not in the database *)
Definition missing (db : odb) (o : id) : Prop := exists_ db o = false.

(* entries a connectivity walk follows: everything but submodule (gitlink) entries *)
Definition follows (m : N) : bool := match mode_kind m with KSub => false | _ => true end.
Definition entry_targets (es : list entry) : list id :=
  map snd (filter (fun e => follows (fst e)) es).

(* the edges of the graph: a present, decodable tree points at its non-submodule entries,
   a present commit at its tree; nothing else has children (in particular no missing object) *)
Definition children (db : odb) (s : id) : list id :=
  match find_tree db s with
  | Some es => entry_targets es
  | None => match find_commit db s with Ok t => [t] | _ => [] end
  end.

(* reachable from r through present commits/trees *)
Inductive reach (db : odb) (r : id) : id -> Prop :=
| reach_refl : reach db r r
| reach_step s o : reach db r s -> In o (children db s) -> reach db r o.

Definition is_commit (db : odb) (c : id) : Prop := exists t, find_commit db c = Ok t.

(* node s refers to objects by their right kind: a tree-mode entry (and a commit's tree pointer) names
   a decodable tree or a missing object, a blob/exe/link-mode entry names a blob or a missing object.
   Every repository whose ids are content hashes has this property. *)
Definition wk_at (db : odb) (s : id) : Prop :=
  (forall es m o, find_tree db s = Some es -> In (m, o) es -> exists_ db o = true ->
     (mode_kind m = KTree -> find_tree db o <> None) /\
     (is_blobkind (mode_kind m) = true -> lookup db o = Some OBlob)) /\
  (forall t, find_commit db s = Ok t -> exists_ db t = true -> find_tree db t <> None).

Definition well_kinded (db : odb) (cs : list id) : Prop :=
  forall c s, In c cs -> reach db c s -> wk_at db s.

(* executable sufficient test, used for the non-vacuity examples: every object of the database
   (shadowed duplicates included) refers by the right kind *)
Definition obj_wkb (db : odb) (o : obj) : bool :=
  match o with
  | OTree es =>
      forallb (fun e =>
        let m := mode_u16 (fst e) in
        negb (exists_ db (snd e)) ||
        match mode_kind m with
        | KTree => match find_tree db (snd e) with Some _ => true | None => false end
        | KSub => true
        | _ => match lookup db (snd e) with Some OBlob => true | _ => false end
        end) es
  | OCommit t => negb (exists_ db t) || match find_tree db t with Some _ => true | None => false end
  | _ => true
  end.
Definition db_wkb (db : odb) : bool := forallb (fun p => obj_wkb db (snd p)) db.

Definition ids (out : list report) : list id := map fst out.
