(* C54 — Connectivity checks report exactly the missing objects.
   Only statements here; every proof is [exact <lemma>].
   Model.v: gix-fsck Connectivity::{check_commit, check_tree}, check_blob over a finite-map object
   database, with FindExt::find_commit/find_tree, Exists::exists and the tree-entry mode
   classification of gix-object.  [connectivity db cs] is ONE Connectivity instance on which
   check_commit is called for every id of cs in turn (shared seen-set); it yields, per call, the
   Result and the missing_cb invocations in order.
   Spec.v: [missing db o]   o is not in the database;
           [reach db c o]   o is reachable from c through present commits/decodable trees, not
                            following submodule entries (children of a missing object: none);
           [well_kinded db cs]  below the commits cs every reference names an object of the kind the
                            reference says, or a missing one (true of every repository whose ids are
                            content hashes);
           [is_commit db c] find_commit succeeds on c. *)
From GixV.Base Require Import Bytes BytesFacts Outcome.
From GixV.C54 Require Import Model Spec ProofsBase ProofsFuel ProofsMain ProofsWk ProofsAny ProofsKind.

(* the walk terminates within fuel_of db = 2 + (number of tree-mode entries in db) queue pops, and
   nothing in it can panic: for ANY database (cycles, wrong kinds, undecodable objects) and ANY ids *)
Theorem walk_total : forall db cs,
  exists calls seenf, connectivity db cs = Ok (calls, seenf) /\ length calls = length cs.
Proof. exact L_total. Qed.

(* ... and any larger fuel gives the same result *)
Theorem fuel_is_enough : forall db seen out t f,
  (fuel_of db <= f)%nat -> loop f db seen out [t] = loop (fuel_of db) db seen out [t].
Proof. exact L_fuel. Qed.

(* one commit, fresh instance: the callback is invoked exactly for the missing objects reachable from
   the commit through present trees, each once, and for nothing else; the call returns Ok *)
Theorem single_commit_reports_exactly_missing : forall db c,
  is_commit db c -> (forall s, reach db c s -> wk_at db s) ->
  exists new seenf, connectivity db [c] = Ok ([(None, new)], seenf) /\
    NoDup (ids new) /\
    forall o, In o (ids new) <-> reach db c o /\ missing db o.
Proof. exact L_single. Qed.

(* repeated calls on one instance: every call returns Ok and reports, each once, exactly the missing
   objects reachable from its commit that no earlier call has reported *)
Theorem each_call_reports_the_new_missing : forall db cs,
  (forall c, In c cs -> is_commit db c) -> well_kinded db cs ->
  exists calls seenf, connectivity db cs = Ok (calls, seenf) /\
    calls_spec db (fun _ => False) cs calls.
Proof. exact L_calls. Qed.

(* ... so over the whole sequence: no object is reported twice, and the reported set is exactly
   { o | o missing /\ o reachable from one of the commits } *)
Theorem reports_exactly_missing_each_once : forall db cs,
  (forall c, In c cs -> is_commit db c) -> well_kinded db cs ->
  exists calls seenf, connectivity db cs = Ok (calls, seenf) /\
    length calls = length cs /\
    Forall (fun call => fst call = None) calls /\
    NoDup (all_reports calls) /\
    forall o, In o (all_reports calls) <-> missing db o /\ exists c, In c cs /\ reach db c o.
Proof. exact L_exact. Qed.

(* with NO hypothesis at all (any database: wrong kinds, cycles, undecodable objects; any ids, readable
   commits or not): nothing is ever reported twice by one instance, and every report of a call names an
   object reachable from that call's commit which is unusable as reported — Blob: not in the database;
   Tree: find_tree fails (missing, of another kind, or undecodable) *)
Theorem any_db_reports_once_and_sound : forall db cs,
  exists calls seenf, connectivity db cs = Ok (calls, seenf) /\
    NoDup (all_reports calls) /\ Forall2 (call_sound db) cs calls.
Proof. exact L_any. Qed.

(* the Kind handed to the callback (any database, any ids): Tree only for an id that a node reachable
   from the call's commit names by a tree-mode entry or as the commit's tree, Blob only for one named by a
   blob/exe/link-mode entry *)
Theorem reported_kind_is_a_reference_kind : forall db cs,
  exists calls seenf, connectivity db cs = Ok (calls, seenf) /\ Forall2 (call_kinds db) cs calls.
Proof. exact L_kinds. Qed.

(* a commit id that cannot be read (missing / other kind / undecodable) makes check_commit return Err
   once; the id is then in the seen-set and a second check of it returns Ok(()) *)
Theorem unreadable_commit_errs_once : forall fuel db c seen e,
  mem c seen = false -> find_commit db c = Err e ->
  check_commit fuel db c seen = Ok (Some e, c :: seen, []) /\
  check_commit fuel db c (c :: seen) = Ok (None, c :: seen, []).
Proof. exact check_commit_unreadable. Qed.

(* the executable test db_wkb is sufficient for the well-kindedness hypothesis *)
Theorem db_wkb_implies_well_kinded : forall db cs, db_wkb db = true -> well_kinded db cs.
Proof. exact db_wkb_well_kinded. Qed.

(* ---- non-vacuity ---------------------------------------------------------------------------- *)
Local Open Scope N_scope.
Definition ex_db : odb :=
  [ (bs "c1", OCommit (bs "t1")); (bs "c2", OCommit (bs "t2"));
    (bs "t1", OTree [(33188, bs "b1"); (16384, bs "t3"); (33261, bs "b2"); (16384, bs "t4"); (57344, bs "c2")]);
    (bs "t2", OTree [(16384, bs "t3"); (40960, bs "b2"); (33188, bs "b4")]);
    (bs "t3", OTree [(33188, bs "b3"); (33188, bs "b2"); (16384, bs "t1")]);
    (bs "b1", OBlob) ].

(* hypotheses satisfiable: two present commits over a well-kinded graph with a cycle, a missing tree
   t4 and missing blobs b2 b3 b4; the second call reports only b4 *)
Example ex_hyps : db_wkb ex_db = true /\ is_commit ex_db (bs "c1") /\ is_commit ex_db (bs "c2").
Proof. split; [vm_compute; reflexivity|]. split; eexists; vm_compute; reflexivity. Qed.

Example ex_run :
  exists seenf, connectivity ex_db [bs "c1"; bs "c2"; bs "c1"] =
    Ok ([ (None, [(bs "b2", RBlob); (bs "b3", RBlob); (bs "t4", RTree)]);
          (None, [(bs "b4", RBlob)]);
          (None, []) ], seenf).
Proof. eexists. vm_compute. reflexivity. Qed.

Example ex_unreadable : find_commit ex_db (bs "zz") = Err NotFound /\ find_commit ex_db (bs "t1") = Err ObjectKind.
Proof. split; vm_compute; reflexivity. Qed.

(* without well-kindedness the statement fails: a blob-mode entry naming the present tree t2 puts t2 in
   the seen-set, the tree-mode entry for t2 is then skipped and the missing blob b1 below it is never
   reported (such a tree cannot exist when ids are content hashes) *)
Definition ill_db : odb :=
  [ (bs "c1", OCommit (bs "t1"));
    (bs "t1", OTree [(33188, bs "t2"); (16384, bs "t2")]);
    (bs "t2", OTree [(33188, bs "b1")]) ].
Example well_kindedness_needed :
  is_commit ill_db (bs "c1") /\ reach ill_db (bs "c1") (bs "b1") /\ missing ill_db (bs "b1") /\
  exists seenf, connectivity ill_db [bs "c1"] = Ok ([(None, [])], seenf).
Proof.
  split; [eexists; vm_compute; reflexivity|]. split.
  - apply reach_step with (s := bs "t2"); [|vm_compute; auto].
    apply reach_step with (s := bs "t1"); [|vm_compute; auto].
    apply reach_step with (s := bs "c1"); [constructor|vm_compute; auto].
  - split; [vm_compute; reflexivity|]. eexists. vm_compute. reflexivity.
Qed.
