(* C54 — from the loop invariant to the statements about check_commit and sequences of calls *)
From Coq Require Import Lia Permutation.
From GixV.Base Require Import Bytes BytesFacts Outcome.
From GixV.C54 Require Import Model Spec ProofsBase ProofsFuel ProofsInv.

(* what holds of the seen-set between two calls; prev = ids reported so far *)
Record G (db : odb) (prev seen : list id) : Prop := {
  g_nodup : NoDup prev;
  g_rep_seen : forall x, In x prev -> In x seen;
  g_seen_rep : forall s, In s seen -> missing db s -> In s prev;
  g_closed : forall s o, In s seen -> In o (children db s) -> In o seen
}.

Lemma G_init db : G db [] [].
Proof. split; [constructor| | |]; intros; contradiction. Qed.

Lemma G_reach db prev seen c o : G db prev seen -> In c seen -> reach db c o -> In o seen.
Proof. intros [_ _ _ H] Hc Hr. induction Hr; eauto. Qed.

Lemma nodup_app_left {A} (l1 l2 : list A) : NoDup (l1 ++ l2) -> NoDup l1.
Proof.
  induction l1 as [|a l1 IH]; cbn [app]; intros H; [constructor|].
  inversion H as [|? ? Hn Hd]; subst. constructor; auto.
  intros Hin. apply Hn. apply in_or_app. now left.
Qed.

Lemma ids_rev out : ids (rev out) = rev (ids out).
Proof. unfold ids. apply map_rev. Qed.

(* the specification of one call, P = "reported by an earlier call" *)
Definition call_spec (db : odb) (P : id -> Prop) (c : id) (call : option ferr * list report) : Prop :=
  fst call = None /\ NoDup (ids (snd call)) /\
  forall o, In o (ids (snd call)) <-> reach db c o /\ missing db o /\ ~ P o.

Lemma check_commit_spec db prev seen c :
  G db prev seen -> is_commit db c -> (forall s, reach db c s -> wk_at db s) ->
  exists seen' new,
    check_commit (fuel_of db) db c seen = Ok (None, seen', new) /\
    G db (rev (ids new) ++ prev) seen' /\
    call_spec db (fun o => In o prev) c (None, new).
Proof.
  intros HG [t Ht] Hwk. unfold check_commit.
  destruct (mem c seen) eqn:M.
  - apply mem_In in M. exists seen, []. split; [reflexivity|]. split; [exact HG|].
    split; [reflexivity|]. split; [constructor|]. cbn [snd ids map]. intros o. split; [intros []|].
    intros (Hr & Hm & Hn). apply Hn. apply (g_seen_rep _ _ _ HG); auto.
    now apply G_reach with (db := db) (prev := prev) (c := c).
  - apply mem_false in M. rewrite Ht.
    destruct (loop_fuel_of db (c :: seen) [] t) as [[s' o'] HL]. rewrite HL.
    assert (HI : Inv db prev (reach db c) [] (c :: seen) [] [t]).
    { destruct HG as [H1 H2 H3 H4]. split; cbn [ids map app].
      - exact H1.
      - intros x Hx. right. auto.
      - intros s [<-|Hs] Hm; auto. apply find_commit_exists in Ht. unfold missing in Hm. congruence.
      - intros x [].
      - intros s o [<-|Hs] Ho.
        + rewrite (children_commit _ _ _ Ht) in Ho. destruct Ho as [<-|[]]. right. left. now left.
        + left. right. eauto.
      - intros q [<-|[]]. split.
        + apply reach_step with (s := c); [constructor|]. rewrite (children_commit _ _ _ Ht). now left.
        + intros E. destruct (Hwk c (reach_refl _ _)) as [_ W]. now apply W.
      - intros m o []. }
    apply (loop_inv db prev (reach db c)) in HL; auto.
    2:{ intros s o Hs Ho. now apply reach_step with (s := s). }
    destruct HL as [[H1 H2 H3 H4 H5 H6 H7] Hincl].
    exists s', (rev o'). split; [reflexivity|].
    rewrite ids_rev, rev_involutive.
    split; [|split; [reflexivity|split]].
    + split; auto. intros s o Hs Ho. destruct (H5 s o Hs Ho) as [A|[[]|[]]]. exact A.
    + cbn [snd]. rewrite ids_rev. apply NoDup_rev. now apply nodup_app_left in H1.
    + cbn [snd]. intros o. rewrite ids_rev, <- in_rev. split.
      * intros Ho. destruct (H4 o Ho) as [Hm Hr]. split; [exact Hr|]. split; [exact Hm|].
        intros Hp. clear - H1 Ho Hp. induction (ids o') as [|y l IH]; [destruct Ho|].
        cbn [app] in H1. inversion H1 as [|? ? Hn Hd]; subst. destruct Ho as [<-|Ho].
        -- apply Hn. apply in_or_app. now right.
        -- now apply IH.
      * intros (Hr & Hm & Hn).
        assert (Hs : In o s').
        { clear Hn Hm. induction Hr as [|s o Hr IH Ho].
          - apply Hincl. now left.
          - destruct (H5 s o IH Ho) as [A|[[]|[]]]. exact A. }
        apply H3 in Hs; [|exact Hm]. apply in_app_or in Hs as [Hs|Hs]; [exact Hs|contradiction].
Qed.

(* the specification of a sequence of calls on one instance *)
Fixpoint calls_spec (db : odb) (P : id -> Prop) (cs : list id)
         (calls : list (option ferr * list report)) : Prop :=
  match cs, calls with
  | [], [] => True
  | c :: cs', call :: calls' =>
      call_spec db P c call /\
      calls_spec db (fun o => In o (ids (snd call)) \/ P o) cs' calls'
  | _, _ => False
  end.

Lemma calls_spec_ext db : forall cs calls (P Q : id -> Prop),
  (forall o, P o <-> Q o) -> calls_spec db P cs calls -> calls_spec db Q cs calls.
Proof.
  induction cs as [|c cs IH]; intros [|call calls] P Q HPQ H; cbn [calls_spec] in *; auto.
  destruct H as [(H1 & H2 & H3) H4]. split.
  - split; [exact H1|]. split; [exact H2|]. intros o. rewrite H3, HPQ. reflexivity.
  - apply IH with (P := fun o => In o (ids (snd call)) \/ P o); [|exact H4].
    intros o. rewrite HPQ. reflexivity.
Qed.

Lemma run_ops_spec db : forall cs prev seen,
  G db prev seen -> (forall c, In c cs -> is_commit db c) -> well_kinded db cs ->
  exists calls seenf,
    run_ops (fuel_of db) db cs seen = Ok (calls, seenf) /\
    calls_spec db (fun o => In o prev) cs calls.
Proof.
  induction cs as [|c cs IH]; intros prev seen HG Hc Hwk.
  - exists [], seen. split; [reflexivity|exact I].
  - cbn [run_ops].
    destruct (check_commit_spec db prev seen c HG) as (seen' & new & E & HG' & Hcall).
    { apply Hc. now left. }
    { intros s Hs. apply (Hwk c s); [now left|exact Hs]. }
    rewrite E.
    destruct (IH (rev (ids new) ++ prev) seen' HG') as (calls & seenf & E' & Hcs).
    { intros x Hx. apply Hc. now right. }
    { intros x s Hx. apply Hwk. now right. }
    rewrite E'. exists ((None, new) :: calls), seenf. split; [reflexivity|].
    cbn [calls_spec]. split; [exact Hcall|].
    apply calls_spec_ext with (P := fun o => In o (rev (ids new) ++ prev)); [|exact Hcs].
    intros o. cbn [snd]. rewrite in_app_iff, <- in_rev. reflexivity.
Qed.

(* ---- consequences of calls_spec for the whole transcript -------------------------------- *)
Definition all_reports (calls : list (option ferr * list report)) : list id :=
  flat_map (fun call => ids (snd call)) calls.

Lemma nodup_app {A} (l1 l2 : list A) :
  NoDup l1 -> NoDup l2 -> (forall x, In x l1 -> ~ In x l2) -> NoDup (l1 ++ l2).
Proof.
  induction l1 as [|a l1 IH]; intros H1 H2 H; cbn [app]; [exact H2|].
  inversion H1 as [|? ? Hn Hd]; subst. constructor.
  - intros Hin. apply in_app_or in Hin as [Hin|Hin]; [contradiction|]. apply (H a); [now left|exact Hin].
  - apply IH; auto. intros x Hx. apply H. now right.
Qed.

Lemma in_ids_dec (o : id) (l : list id) : In o l \/ ~ In o l.
Proof. destruct (mem o l) eqn:M; [left; now apply mem_In|right; now apply mem_false]. Qed.

Lemma calls_spec_all db : forall cs calls P,
  calls_spec db P cs calls ->
  length calls = length cs /\
  Forall (fun call => fst call = None) calls /\
  NoDup (all_reports calls) /\
  forall o, In o (all_reports calls) <->
            missing db o /\ (exists c, In c cs /\ reach db c o) /\ ~ P o.
Proof.
  induction cs as [|c cs IH]; intros [|call calls] P H; cbn [calls_spec] in H; try contradiction.
  - split; [reflexivity|]. split; [constructor|]. split; [constructor|].
    intros o. cbn. split; [intros []|]. intros (_ & (c & [] & _) & _).
  - destruct H as [(H1 & H2 & H3) H4]. apply IH in H4 as (L & F & N & S).
    split; [cbn [length]; congruence|]. split; [constructor; auto|].
    cbn [all_reports flat_map]. fold (all_reports calls). split.
    + apply nodup_app; auto. intros x Hx Hx'. apply S in Hx' as (_ & _ & Hn). apply Hn. now left.
    + intros o. rewrite in_app_iff, H3, S. split.
      * intros [(Hr & Hm & Hn)|(Hm & (c' & Hc' & Hr) & Hn)].
        -- split; [exact Hm|]. split; [|exact Hn]. exists c. split; [now left|exact Hr].
        -- split; [exact Hm|]. split; [|tauto]. exists c'. split; [now right|exact Hr].
      * intros (Hm & (c' & [<-|Hc'] & Hr) & Hn).
        -- left. tauto.
        -- destruct (in_ids_dec o (ids (snd call))) as [Hi|Hi].
           ++ left. now apply H3.
           ++ right. split; [exact Hm|]. split; [eauto|tauto].
Qed.

(* ---- totality: any database, any ids --------------------------------------------------- *)
Lemma check_commit_total db c seen :
  exists res seen' new, check_commit (fuel_of db) db c seen = Ok (res, seen', new).
Proof.
  unfold check_commit. destruct (mem c seen); [eauto|].
  destruct (find_commit db c) as [t|e| |] eqn:F; eauto.
  - destruct (loop_fuel_of db (c :: seen) [] t) as [[s' o'] HL]. rewrite HL. eauto.
  - exfalso. unfold find_commit in F. destruct (lookup db c) as [[| es | | |]|]; try discriminate.
    destruct (tree_decodes es); discriminate.
  - exfalso. unfold find_commit in F. destruct (lookup db c) as [[| es | | |]|]; try discriminate.
    destruct (tree_decodes es); discriminate.
Qed.

Lemma run_ops_total db : forall cs seen,
  exists calls seenf, run_ops (fuel_of db) db cs seen = Ok (calls, seenf) /\ length calls = length cs.
Proof.
  induction cs as [|c cs IH]; intros seen; cbn [run_ops]; [eauto|].
  destruct (check_commit_total db c seen) as (res & seen' & new & E). rewrite E.
  destruct (IH seen') as (calls & seenf & E' & L). rewrite E'.
  exists ((res, new) :: calls), seenf. split; [reflexivity|]. cbn [length]. congruence.
Qed.

(* ---- a commit that cannot be read: Err once, then silently skipped ----------------------- *)
Lemma check_commit_unreadable fuel db c seen e :
  mem c seen = false -> find_commit db c = Err e ->
  check_commit fuel db c seen = Ok (Some e, c :: seen, []) /\
  check_commit fuel db c (c :: seen) = Ok (None, c :: seen, []).
Proof.
  intros M F. unfold check_commit. rewrite M, F. split; [reflexivity|].
  cbn [mem]. assert (bytes_eqb c c = true) as -> by now apply bytes_eqb_eq. reflexivity.
Qed.

(* ---- the statements exported to Properties.v ---------------------------------------------- *)
Lemma L_total db cs :
  exists calls seenf, connectivity db cs = Ok (calls, seenf) /\ length calls = length cs.
Proof. apply run_ops_total. Qed.

Lemma L_calls db cs :
  (forall c, In c cs -> is_commit db c) -> well_kinded db cs ->
  exists calls seenf, connectivity db cs = Ok (calls, seenf) /\ calls_spec db (fun _ => False) cs calls.
Proof.
  intros Hc Hwk. destruct (run_ops_spec db cs [] [] (G_init db) Hc Hwk) as (calls & seenf & E & H).
  exists calls, seenf. split; [exact E|].
  apply calls_spec_ext with (P := fun o => In o []); [|exact H]. intros o. cbn. tauto.
Qed.

Lemma L_exact db cs :
  (forall c, In c cs -> is_commit db c) -> well_kinded db cs ->
  exists calls seenf, connectivity db cs = Ok (calls, seenf) /\
    length calls = length cs /\
    Forall (fun call => fst call = None) calls /\
    NoDup (all_reports calls) /\
    forall o, In o (all_reports calls) <-> missing db o /\ exists c, In c cs /\ reach db c o.
Proof.
  intros Hc Hwk. destruct (L_calls db cs Hc Hwk) as (calls & seenf & E & H).
  exists calls, seenf. split; [exact E|].
  apply calls_spec_all in H as (L & F & N & S). repeat split; auto.
  - apply S in H. tauto.
  - apply S in H. tauto.
  - intros [Hm Hr]. apply S. tauto.
Qed.

Lemma L_single db c :
  is_commit db c -> (forall s, reach db c s -> wk_at db s) ->
  exists new seenf, connectivity db [c] = Ok ([(None, new)], seenf) /\
    NoDup (ids new) /\
    forall o, In o (ids new) <-> reach db c o /\ missing db o.
Proof.
  intros Hc Hwk.
  destruct (L_calls db [c]) as (calls & seenf & E & H).
  { intros x [<-|[]]. exact Hc. }
  { intros x s [<-|[]]. apply Hwk. }
  destruct calls as [|[res new] [|? ?]]; cbn [calls_spec] in H; try tauto.
  destruct H as [(H1 & H2 & H3) _]. cbn [fst snd] in *. subst res.
  exists new, seenf. split; [exact E|]. split; [exact H2|].
  intros o. rewrite H3. tauto.
Qed.

Lemma L_fuel db seen out t f :
  (fuel_of db <= f)%nat -> loop f db seen out [t] = loop (fuel_of db) db seen out [t].
Proof.
  intros Hf. destruct (loop_fuel_of db seen out t) as [r E]. rewrite E.
  now apply loop_fuel_mono with (fuel := fuel_of db).
Qed.
