(* C54 — executable model of gix-fsck/src/lib.rs  Connectivity::{new, check_commit, check_tree},
   check_blob, together with the parts of gix-object they call:
     FindExt::find_commit / find_tree  (gix-object/src/traits.rs make_obj_lookup!: try_find, then
        Data::decode, then the kind test — in this order),
     Exists::exists,
     tree::EntryMode::try_from(u32) (the mode test of the tree decoder, gix-object/src/tree/ref_iter.rs)
     and EntryMode::kind (gix-object/src/tree/mod.rs).
   The object database is a finite map id -> object (association list, first entry wins).
   No proofs here. *)
From GixV.Base Require Import Bytes Outcome.
Local Open Scope N_scope.

Definition id := bytes.

(* ---- tree entry modes ------------------------------------------------------------------- *)
Inductive ekind := KTree | KBlob | KExe | KLink | KSub.   (* tree::EntryKind; KSub = Commit (submodule) *)

(* impl TryFrom<u32> for tree::EntryMode: which parsed modes the tree decoder accepts *)
Definition mode_ok (m : N) : bool :=
  (m =? 16384) || (m =? 40960) || (m =? 57344)            (* 0o40000 | 0o120000 | 0o160000 *)
  || (N.land m 32768 =? 32768).                            (* blob_mode & 0o100000 == 0o100000 *)

(* `mode as u16` *)
Definition mode_u16 (m : N) : N := m mod 65536.

(* EntryMode::kind() on the u16 *)
Definition mode_kind (m : N) : ekind :=
  let etype := N.land m 61440 in                           (* IFMT = 0o170000 *)
  if etype =? 32768 then                                   (* 0o100000 *)
    if N.land m 64 =? 64 then KExe else KBlob              (* 0o000100 *)
  else if etype =? 40960 then KLink                        (* 0o120000 *)
  else if etype =? 16384 then KTree                        (* 0o040000 *)
  else KSub.

Definition is_blobkind (k : ekind) : bool :=
  match k with KBlob | KExe | KLink => true | _ => false end.

(* ---- objects and the database ----------------------------------------------------------- *)
Definition entry := (N * id)%type.                         (* mode (as decoded: u16), oid *)

Inductive obj :=
| OCommit (tree : id)
| OTree (es : list entry)        (* modes as parsed (u32); decodes iff every mode is accepted *)
| OBlob
| OTag
| OBad.                          (* kind commit/tree/tag whose data does not decode *)

Definition odb := list (id * obj).

Fixpoint lookup (db : odb) (i : id) : option obj :=
  match db with
  | [] => None
  | (k, o) :: r => if bytes_eqb k i then Some o else lookup r i
  end.

Definition exists_ (db : odb) (i : id) : bool :=
  match lookup db i with Some _ => true | None => false end.

Definition tree_decodes (es : list entry) : bool := forallb (fun e => mode_ok (fst e)) es.

(* find::existing_object::Error, message-free *)
Inductive ferr := NotFound | Decode | ObjectKind.

(* FindExt::find_tree: Err for a missing object, an undecodable one, or one of another kind.
   check_tree only looks at Ok / Err. *)
Definition find_tree (db : odb) (i : id) : option (list entry) :=
  match lookup db i with
  | Some (OTree es) =>
      if tree_decodes es then Some (map (fun e => (mode_u16 (fst e), snd e)) es) else None
  | _ => None
  end.

(* FindExt::find_commit(..).tree() *)
Definition find_commit (db : odb) (i : id) : outcome id ferr :=
  match lookup db i with
  | None => Err NotFound
  | Some (OCommit t) => Ok t
  | Some (OTree es) => if tree_decodes es then Err ObjectKind else Err Decode
  | Some OBad => Err Decode
  | Some _ => Err ObjectKind
  end.

(* ---- the walker ------------------------------------------------------------------------- *)
Inductive rkind := RTree | RBlob.                          (* the Kind passed to missing_cb *)
Definition report := (id * rkind)%type.

Fixpoint mem (x : id) (l : list id) : bool :=
  match l with [] => false | y :: r => bytes_eqb y x || mem x r end.

(* the `for entry_ref in tree.entries.iter()` loop of check_tree.
   seen: the HashSet; out: missing_cb invocations so far, newest first; queue: the VecDeque *)
Fixpoint walk_entries (db : odb) (es : list entry) (seen : list id) (out : list report)
         (queue : list id) : list id * list report * list id :=
  match es with
  | [] => (seen, out, queue)
  | (m, o) :: r =>
      match mode_kind m with
      | KTree => walk_entries db r seen out (queue ++ [o])          (* tree_ids.push_back *)
      | KSub => walk_entries db r seen out queue                    (* submodule: skipped *)
      | _ =>
          if mem o seen then walk_entries db r seen out queue       (* seen.insert == false *)
          else walk_entries db r (o :: seen)
                 (if exists_ db o then out else (o, RBlob) :: out)  (* check_blob *)
                 queue
      end
  end.

Definition check_tree (db : odb) (oid : id) (seen : list id) (out : list report) (queue : list id)
  : list id * list report * list id :=
  match find_tree db oid with
  | None => (seen, (oid, RTree) :: out, queue)
  | Some es => walk_entries db es seen out queue
  end.

(* `while let Some(tree_id) = tree_ids.pop_front()` *)
Fixpoint loop (fuel : nat) (db : odb) (seen : list id) (out : list report) (queue : list id)
  : outcome (list id * list report) ferr :=
  match fuel with
  | O => OutOfFuel
  | S f =>
      match queue with
      | [] => Ok (seen, out)
      | t :: q =>
          if mem t seen then loop f db seen out q
          else
            match check_tree db t (t :: seen) out q with
            | (seen', out', q') => loop f db seen' out' q'
            end
      end
  end.

(* number of Tree-kind entries an object can contribute to the queue *)
Definition ntree_entries (es : list entry) : nat :=
  length (filter (fun e => match mode_kind (mode_u16 (fst e)) with KTree => true | _ => false end) es).
Definition obj_weight (o : obj) : nat :=
  match o with OTree es => ntree_entries es | _ => O end.
Definition db_weight (db : odb) : nat := fold_right (fun p n => (obj_weight (snd p) + n)%nat) O db.
(* enough for every call (proved in ProofsFuel.v) *)
Definition fuel_of (db : odb) : nat := S (S (db_weight db)).

(* result of one check_commit call: the Result, the new seen-set, the missing_cb calls in order *)
Definition check_commit (fuel : nat) (db : odb) (c : id) (seen : list id)
  : outcome (option ferr * list id * list report) ferr :=
  if mem c seen then Ok (None, seen, [])
  else
    let seen1 := c :: seen in
    match find_commit db c with
    | Err e => Ok (Some e, seen1, [])
    | Ok t =>
        match loop fuel db seen1 [] [t] with
        | Ok (seen2, out) => Ok (None, seen2, rev out)
        | Err e => Err e
        | Panic => Panic
        | OutOfFuel => OutOfFuel
        end
    | Panic => Panic
    | OutOfFuel => OutOfFuel
    end.

(* one Connectivity instance, check_commit called for each id of cs in turn *)
Fixpoint run_ops (fuel : nat) (db : odb) (cs : list id) (seen : list id)
  : outcome (list (option ferr * list report) * list id) ferr :=
  match cs with
  | [] => Ok ([], seen)
  | c :: r =>
      match check_commit fuel db c seen with
      | Ok (res, seen', reps) =>
          match run_ops fuel db r seen' with
          | Ok (rest, seenf) => Ok ((res, reps) :: rest, seenf)
          | Err e => Err e | Panic => Panic | OutOfFuel => OutOfFuel
          end
      | Err e => Err e | Panic => Panic | OutOfFuel => OutOfFuel
      end
  end.

Definition connectivity (db : odb) (cs : list id) :=
  run_ops (fuel_of db) db cs [].
