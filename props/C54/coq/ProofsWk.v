(* C54 — the executable well-kindedness test implies the hypothesis of the theorems *)
From GixV.Base Require Import Bytes BytesFacts Outcome.
From GixV.C54 Require Import Model Spec ProofsBase.

Lemma db_wkb_sound db : db_wkb db = true -> forall s, wk_at db s.
Proof.
  intros H s. unfold db_wkb in H. rewrite forallb_forall in H. split.
  - intros es m o F Hin E.
    apply find_tree_lookup in F as (es0 & L & ->).
    apply in_map_iff in Hin as (e0 & He & Hin). injection He as <- <-.
    specialize (H _ (lookup_In _ _ _ L)). cbn [snd obj_wkb] in H.
    rewrite forallb_forall in H. specialize (H e0 Hin). cbv zeta in H.
    rewrite E in H. cbn [negb orb] in H.
    destruct (mode_kind (mode_u16 (fst e0))); cbn [is_blobkind]; split; try discriminate; intros _.
    + destruct (find_tree db (snd e0)); [discriminate|discriminate].
    + destruct (lookup db (snd e0)) as [[]|]; try discriminate. reflexivity.
    + destruct (lookup db (snd e0)) as [[]|]; try discriminate. reflexivity.
    + destruct (lookup db (snd e0)) as [[]|]; try discriminate. reflexivity.
  - intros t F E. unfold find_commit in F.
    destruct (lookup db s) as [[t' | es | | |]|] eqn:L; try discriminate.
    + injection F as ->. specialize (H _ (lookup_In _ _ _ L)). cbn [snd obj_wkb] in H.
      rewrite E in H. cbn [negb orb] in H. destruct (find_tree db t); [discriminate|discriminate].
    + destruct (tree_decodes es); discriminate.
Qed.

Lemma db_wkb_well_kinded db cs : db_wkb db = true -> well_kinded db cs.
Proof. intros H c s _ _. now apply db_wkb_sound. Qed.
